(* C16 — non-vacuity of the discipline theorem and the abstract form of finding F9
   (the unlocked read in openapi.IsNamespaceScoped). *)
From KV Require Import Base.Prelude Glob.Conc Glob.ConcProofs.
From Coq Require Import Relations.Relation_Operators Relations.Operators_Properties Lia.

Definition L := "kyaml/openapi.schemaLock".
Definition O := "kyaml/openapi.initSchema".
Definition ns := "kyaml/openapi.globalSchema.namespaceabilityByResourceType".
Definition bt := "kyaml/openapi.globalSchema.schemaByResourceType".
Definition ver := "kyaml/openapi.kubernetesOpenAPIVersion".

(* the discipline of the schema globals: everything under schemaLock; the maps additionally
   written only by the (once-like) first initSchema *)
Definition Dk : discipline := fun x =>
  if String.eqb x ns || String.eqb x bt then [PLock L; POnce O]
  else if String.eqb x ver then [PLock L]
  else [].

(* initSchema(): lock; if !schemaInit { parse... }; unlock *)
Definition init_schema_call : thread :=
  [IAcq MW L; IOnce O [(false, ns); (true, ns); (true, bt)]; IRel MW L].
(* SetSchema(reset) with no openapi field *)
Definition set_schema_call : thread := [IAcq MW L; IRd ver; IWr ver; IRel MW L].
(* SchemaForResourceType: initSchema(); unlocked map read *)
Definition schema_for_call : thread := (init_schema_call ++ [IRd bt])%list.
(* isInitSchemaNeededForNamespaceScopeCheck: lock; reads; unlock *)
Definition is_init_needed_call : thread := [IAcq MW L; IRd ver; IRel MW L].
(* IsNamespaceScoped on a kind outside the precomputed table, default schema: no initSchema, unlocked map read *)
Definition is_ns_scoped_call : thread := (is_init_needed_call ++ [IRd ns])%list.
(* the same with the read under the read lock (the repair suggested in DESIGN §7) *)
Definition is_ns_scoped_fixed : thread := (is_init_needed_call ++ [IAcq MR L; IRd ns; IRel MR L])%list.

Definition build_a : thread := (set_schema_call ++ is_ns_scoped_fixed ++ schema_for_call)%list.
Definition build_f9 : thread := (set_schema_call ++ is_ns_scoped_call ++ schema_for_call)%list.

(* the hypotheses of the theorem are met by a non-trivial program ... *)
Example disciplined_build_ok : thread_ok Dk build_a = true.
Proof. vm_compute. reflexivity. Qed.

Ltac exec_one n :=
  eapply (exec_step _ _ n); [reflexivity | simpl; left; reflexivity | reflexivity | simpl].
Ltac exec_skip n :=
  eapply (exec_step _ _ n); [reflexivity | simpl; right; left; reflexivity | reflexivity | simpl].

(* ... which has schedules in which both threads run the whole SchemaForResourceType path, one executing
   the once body, the other skipping it *)
Example disciplined_build_schedule :
  exists tr, schedule_of [schema_for_call; schema_for_call] tr /\ List.length tr = 11.
Proof.
  eexists. split.
  - unfold schedule_of, start, schema_for_call, init_schema_call. simpl.
    exec_one 0. exec_one 0. exec_one 0. exec_one 0. exec_one 0. exec_one 0. exec_one 0.
    exec_one 1. exec_skip 1. exec_one 1. exec_one 1. apply exec_nil.
  - reflexivity.
Qed.

Corollary disciplined_builds_race_free n tr :
  schedule_of (repeat build_a n) tr -> ~ race tr.
Proof.
  apply discipline_sound with (D := Dk). intros th Hin. apply repeat_spec in Hin. subst. apply disciplined_build_ok.
Qed.

(* the current code: the static check rejects IsNamespaceScoped ... *)
Example f9_rejected : thread_ok Dk build_f9 = false.
Proof. vm_compute. reflexivity. Qed.

(* ... and rightly so: two such builds have a schedule with a race on the namespaceability map *)
Definition f9_trace : trace :=
  [ (1, EAcq MW L); (1, ERd ver); (1, ERel MW L);          (* build 1: isInitSchemaNeeded... returns false *)
    (0, EAcq MW L); (0, EOBegin O); (0, ERd ns); (0, EWr ns);   (* build 0: initSchema -> findNamespaceability *)
    (1, ERd ns) ].                                          (* build 1: unlocked map read *)

Lemma hb_first tr i j : hb tr i j -> exists k, hb1 tr i k.
Proof.
  intros H. apply clos_trans_t1n in H. inversion H; subst; eauto.
Qed.

Example f9_race :
  exists tr, schedule_of [init_schema_call; is_ns_scoped_call] tr /\ race tr.
Proof.
  exists f9_trace. split.
  - unfold schedule_of, start, is_ns_scoped_call, is_init_needed_call, init_schema_call, f9_trace. simpl.
    exec_one 1. exec_one 1. exec_one 1. exec_one 0. exec_one 0. exec_one 0. exec_one 0. exec_one 1. apply exec_nil.
  - exists 6, 7, 0, 1, (EWr ns), (ERd ns), ns, true, false.
    repeat split; try reflexivity; try lia; auto.
    intros H. apply hb_first in H. destruct H as [k H].
    inversion H; subst.
    + (* program order: no later event of thread 0 *)
      simpl in H1. inversion H1; subst.
      assert (k = 7 \/ 8 <= k) by lia. destruct H3 as [->|H3].
      * simpl in H2. inversion H2.
      * assert (nth_error f9_trace k = None) by (apply nth_error_None; simpl; lia).
        congruence.
    + simpl in H1. inversion H1.
    + simpl in H1. inversion H1.
Qed.
