(* C16 — non-vacuity of the discipline theorem; the call sequences of the current kyaml/openapi code in the
   action model: default-schema builds are race free under every schedule (after the repair of the unlocked
   read in IsNamespaceScoped, /repo db2770f); the remaining undisciplined pattern (a build naming a built-in
   version re-arms initSchema, whose second run races with the unlocked reads that follow initSchema()) has a
   racy schedule. *)
From KV Require Import Base.Prelude Glob.Conc Glob.ConcProofs.
From Coq Require Import Relations.Relation_Operators Relations.Operators_Properties Lia.

Definition L := "kyaml/openapi.schemaLock".
Definition O := "kyaml/openapi.initSchema".
Definition ns := "kyaml/openapi.globalSchema.namespaceabilityByResourceType".
Definition bt := "kyaml/openapi.globalSchema.schemaByResourceType".
Definition ver := "kyaml/openapi.kubernetesOpenAPIVersion".

(* the discipline of the schema globals: everything under schemaLock; the maps additionally
   written only by the (once-like) first initSchema *)
Definition Dk : discipline := fun x =>
  if String.eqb x ns || String.eqb x bt then [PLock L; POnce O]
  else if String.eqb x ver then [PLock L]
  else [].

(* initSchema(): lock; if !schemaInit { parse... }; unlock *)
Definition init_schema_call : thread :=
  [IAcq MW L; IOnce O [(false, ns); (true, ns); (true, bt)]; IRel MW L].
(* SetSchema(reset) with no openapi field *)
Definition set_schema_call : thread := [IAcq MW L; IRd ver; IWr ver; IRel MW L].
(* SchemaForResourceType: initSchema(); unlocked map read *)
Definition schema_for_call : thread := (init_schema_call ++ [IRd bt])%list.
(* isInitSchemaNeededForNamespaceScopeCheck: lock; reads; unlock *)
Definition is_init_needed_call : thread := [IAcq MW L; IRd ver; IRel MW L].
(* IsNamespaceScoped on a kind outside the precomputed table, default schema: no initSchema; the map read is
   made under the read lock (openapi.go, after db2770f) *)
Definition is_ns_scoped_call : thread := (is_init_needed_call ++ [IAcq MR L; IRd ns; IRel MR L])%list.
(* the call sequence before the repair: unlocked map read (kept as the regression example) *)
Definition is_ns_scoped_unlocked : thread := (is_init_needed_call ++ [IRd ns])%list.

(* a default-schema build: SetSchema(reset); IsNamespaceScoped; SchemaForResourceType *)
Definition build_a : thread := (set_schema_call ++ is_ns_scoped_call ++ schema_for_call)%list.
Definition build_f9 : thread := (set_schema_call ++ is_ns_scoped_unlocked ++ schema_for_call)%list.

(* the second run of initSchema's body after SetSchema cleared schemaInit (explicit built-in version): the once
   object has already finished, so these are plain writes under the lock *)
Definition reinit_call : thread := [IAcq MW L; IWr ns; IWr bt; IRel MW L].

(* the hypotheses of the theorem are met by a non-trivial program ... *)
Example disciplined_build_ok : thread_ok Dk build_a = true.
Proof. vm_compute. reflexivity. Qed.

Ltac exec_one n :=
  eapply (exec_step _ _ n); [reflexivity | simpl; left; reflexivity | reflexivity | simpl].
Ltac exec_skip n :=
  eapply (exec_step _ _ n); [reflexivity | simpl; right; left; reflexivity | reflexivity | simpl].

(* ... which has schedules in which both threads run the whole SchemaForResourceType path, one executing
   the once body, the other skipping it *)
Example disciplined_build_schedule :
  exists tr, schedule_of [schema_for_call; schema_for_call] tr /\ List.length tr = 11.
Proof.
  eexists. split.
  - unfold schedule_of, start, schema_for_call, init_schema_call. simpl.
    exec_one 0. exec_one 0. exec_one 0. exec_one 0. exec_one 0. exec_one 0. exec_one 0.
    exec_one 1. exec_skip 1. exec_one 1. exec_one 1. apply exec_nil.
  - reflexivity.
Qed.

Corollary disciplined_builds_race_free n tr :
  schedule_of (repeat build_a n) tr -> ~ race tr.
Proof.
  apply discipline_sound with (D := Dk). intros th Hin. apply repeat_spec in Hin. subst. apply disciplined_build_ok.
Qed.

(* regression example: the static check rejects the unlocked read that IsNamespaceScoped used to make ... *)
Example f9_rejected : thread_ok Dk build_f9 = false.
Proof. vm_compute. reflexivity. Qed.

(* ... and the re-run of initSchema's body *)
Example reinit_rejected : thread_ok Dk reinit_call = false.
Proof. vm_compute. reflexivity. Qed.

Lemma hb_first tr i j : hb tr i j -> exists k, hb1 tr i k.
Proof.
  intros H. apply clos_trans_t1n in H. inversion H; subst; eauto.
Qed.

(* the remaining undisciplined pattern: build 0 has run SchemaForResourceType up to (not including) its unlocked
   map read; build 1 named a built-in version, so its initSchema parses again and writes the by-type index under the
   lock; build 0 then reads the index without any lock: unordered *)
Definition reinit_trace : trace :=
  [ (0, EAcq MW L); (0, EOBegin O); (0, ERd ns); (0, EWr ns); (0, EWr bt); (0, EOEnd O); (0, ERel MW L);
    (1, EAcq MW L); (1, EWr ns); (1, EWr bt);
    (0, ERd bt) ].

Example reinit_race :
  exists tr, schedule_of [schema_for_call; reinit_call] tr /\ race tr.
Proof.
  exists reinit_trace. split.
  - unfold schedule_of, start, schema_for_call, init_schema_call, reinit_call, reinit_trace. simpl.
    exec_one 0. exec_one 0. exec_one 0. exec_one 0. exec_one 0. exec_one 0. exec_one 0.
    exec_one 1. exec_one 1. exec_one 1. exec_one 0. apply exec_nil.
  - exists 9, 10, 1, 0, (EWr bt), (ERd bt), bt, true, false.
    repeat split; try reflexivity; try lia; auto.
    intros H. apply hb_first in H. destruct H as [k H].
    inversion H; subst.
    + (* program order: thread 1 has no later event *)
      simpl in H1. inversion H1; subst.
      assert (k = 10 \/ 11 <= k) by lia. destruct H3 as [->|H3].
      * simpl in H2. inversion H2.
      * assert (nth_error reinit_trace k = None) by (apply nth_error_None; simpl; lia).
        congruence.
    + simpl in H1. inversion H1.
    + simpl in H1. inversion H1.
Qed.
