(* C16 — soundness of the lock / once discipline (proofs for Glob/Conc.v). *)
From KV Require Import Base.Prelude Glob.Conc.
From Coq Require Import Relations.Relation_Operators Lia.

(* ================================================================ reflection of the boolean tests *)
Lemma mode_eqb_eq a b : mode_eqb a b = true <-> a = b.
Proof. destruct a, b; simpl; split; congruence. Qed.

Lemma hold_eqb_eq (a b : hold) : hold_eqb a b = true <-> a = b.
Proof.
  destruct a as [[l t] m], b as [[l' t'] m']; unfold hold_eqb.
  rewrite !Bool.andb_true_iff, String.eqb_eq, Nat.eqb_eq, mode_eqb_eq.
  split; [intros [[-> ->] ->]; reflexivity | intros H; inversion H; auto].
Qed.

Lemma so_eqb_eq (a b : string * tid) : so_eqb a b = true <-> a = b.
Proof.
  destruct a, b; unfold so_eqb; simpl. rewrite Bool.andb_true_iff, String.eqb_eq, Nat.eqb_eq.
  split; [intros [-> ->]; reflexivity | intros H; inversion H; auto].
Qed.

Lemma to_eqb_eq (a b : tid * string) : to_eqb a b = true <-> a = b.
Proof.
  destruct a, b; unfold to_eqb; simpl. rewrite Bool.andb_true_iff, String.eqb_eq, Nat.eqb_eq.
  split; [intros [-> ->]; reflexivity | intros H; inversion H; auto].
Qed.

Lemma ml_eqb_eq (a b : mode * string) : ml_eqb a b = true <-> a = b.
Proof.
  destruct a, b; unfold ml_eqb; simpl. rewrite Bool.andb_true_iff, mode_eqb_eq, String.eqb_eq.
  split; [intros [-> ->]; reflexivity | intros H; inversion H; auto].
Qed.

Lemma memb_In {A} (eq : A -> A -> bool) (Heq : forall a b, eq a b = true <-> a = b) x l :
  memb eq x l = true <-> In x l.
Proof.
  unfold memb. rewrite existsb_exists. split.
  - intros [y [Hy He]]. apply Heq in He. subst. assumption.
  - intros H. exists x. split; [assumption | apply Heq; reflexivity].
Qed.

Lemma memb_false {A} (eq : A -> A -> bool) (Heq : forall a b, eq a b = true <-> a = b) x l :
  memb eq x l = false <-> ~ In x l.
Proof.
  rewrite <- (memb_In eq Heq). destruct (memb eq x l); split; intros H; try congruence;
    try (exfalso; apply H; reflexivity).
Qed.

Definition heldb (h : hold) (s : tst) : bool := memb hold_eqb h (held s).
Lemma heldb_In h s : heldb h s = true <-> In h (held s).
Proof. apply memb_In, hold_eqb_eq. Qed.

Lemma nth_inj (tr : trace) k (e1 e2 : event) : nth_error tr k = Some e1 -> nth_error tr k = Some e2 -> e1 = e2.
Proof. intros H1 H2. rewrite H1 in H2. inversion H2. reflexivity. Qed.

(* ================================================================ states along a trace *)
Lemma run_app s (a b : trace) : run s (a ++ b)%list = run (run s a) b.
Proof. unfold run. apply fold_left_app. Qed.

Lemma firstn_S_nth {A} (l : list A) k e :
  nth_error l k = Some e -> firstn (S k) l = (firstn k l ++ [e])%list.
Proof.
  revert k. induction l as [|x l IH]; intros [|k] H; simpl in *; try discriminate.
  - inversion H. reflexivity.
  - rewrite (IH _ H). reflexivity.
Qed.

Lemma st_S tr k e : nth_error tr k = Some e -> st tr (S k) = step_total (st tr k) e.
Proof.
  intros H. unfold st. rewrite (firstn_S_nth _ _ _ H), run_app. reflexivity.
Qed.

Lemma st_past tr k : nth_error tr k = None -> st tr (S k) = st tr k.
Proof.
  intros H. apply nth_error_None in H. unfold st.
  rewrite !firstn_all2 by lia. reflexivity.
Qed.

Lemma st_0 tr : st tr 0 = tst0.
Proof. reflexivity. Qed.

Lemma st_change tr k :
  st tr (S k) <> st tr k ->
  exists e s', nth_error tr k = Some e /\ step (st tr k) e = Some s' /\ st tr (S k) = s'.
Proof.
  intros H. destruct (nth_error tr k) as [e|] eqn:E.
  - rewrite (st_S _ _ _ E) in *. unfold step_total in *.
    destruct (step (st tr k) e) as [s'|] eqn:S; [| congruence].
    exists e, s'. auto.
  - rewrite (st_past _ _ E) in H. congruence.
Qed.

(* a boolean observation that is false at i and true at j >= i flips somewhere in between *)
Lemma flip_up (P : tst -> bool) tr i j :
  i <= j -> P (st tr i) = false -> P (st tr j) = true ->
  exists k, i <= k /\ k < j /\ P (st tr k) = false /\ P (st tr (S k)) = true.
Proof.
  induction j as [|j IH]; intros Hle Hi Hj.
  - assert (i = 0) by lia. subst. congruence.
  - destruct (Nat.eq_dec i (S j)) as [->|Hne]; [congruence|].
    destruct (P (st tr j)) eqn:Pj.
    + destruct IH as [k [H1 [H2 [H3 H4]]]]; [lia | assumption | reflexivity |].
      exists k. repeat split; auto; lia.
    + exists j. repeat split; auto; lia.
Qed.

Lemma flip_down (P : tst -> bool) tr i j :
  i <= j -> P (st tr i) = true -> P (st tr j) = false ->
  exists k, i <= k /\ k < j /\ P (st tr k) = true /\ P (st tr (S k)) = false.
Proof.
  intros Hle Hi Hj.
  destruct (flip_up (fun s => negb (P s)) tr i j Hle) as [k [H1 [H2 [H3 H4]]]].
  - rewrite Hi. reflexivity.
  - rewrite Hj. reflexivity.
  - exists k. repeat split; auto.
    + destruct (P (st tr k)); simpl in *; congruence.
    + destruct (P (st tr (S k))); simpl in *; congruence.
Qed.

(* ================================================================ how one step changes the held set *)
Lemma remove1_other x y h h' : remove1 x h = Some h' -> In y h -> y <> x -> In y h'.
Proof.
  revert h'. induction h as [|z h IH]; intros h' HR HI Hne; simpl in *; [contradiction|].
  destruct (hold_eqb x z) eqn:E.
  - inversion HR; subst. apply hold_eqb_eq in E. subst.
    destruct HI as [->|HI]; [congruence | assumption].
  - destruct (remove1 x h) as [t'|] eqn:R; [|discriminate]. inversion HR; subst.
    destruct HI as [->|HI]; [left; reflexivity | right; eapply IH; eauto].
Qed.

Lemma remove1_sub x y h h' : remove1 x h = Some h' -> In y h' -> In y h.
Proof.
  revert h'. induction h as [|z h IH]; intros h' HR HI; simpl in *; [discriminate|].
  destruct (hold_eqb x z) eqn:E.
  - inversion HR; subst. right. assumption.
  - destruct (remove1 x h) as [t'|] eqn:R; [|discriminate]. inversion HR; subst.
    destruct HI as [->|HI]; [left; reflexivity | right; eapply IH; eauto].
Qed.

Lemma remove1_some_in x h h' : remove1 x h = Some h' -> In x h.
Proof.
  revert h'. induction h as [|z h IH]; intros h' HR; simpl in *; [discriminate|].
  destruct (hold_eqb x z) eqn:E.
  - apply hold_eqb_eq in E. left. congruence.
  - destruct (remove1 x h) as [t'|] eqn:R; [|discriminate]. right. eapply IH. reflexivity.
Qed.

(* a hold appears only through the matching acquire *)
Lemma step_held_gain s e s' h :
  step s e = Some s' -> In h (held s') -> ~ In h (held s) ->
  exists l t m, h = (l, t, m) /\ e = (t, EAcq m l).
Proof.
  destruct e as [t a]. destruct a; simpl; intros HS HI HN.
  - destruct (can_acq (held s) l m); [|discriminate]. inversion HS; subst; simpl in *.
    destruct HI as [<-|HI]; [| contradiction]. exists l, t, m. auto.
  - destruct (remove1 (l, t, m) (held s)) as [h'|] eqn:R; [|discriminate]. inversion HS; subst; simpl in *.
    exfalso. apply HN. eapply remove1_sub; eauto.
  - inversion HS; subst. contradiction.
  - inversion HS; subst. contradiction.
  - destruct (existsb _ _); [discriminate|]. inversion HS; subst; simpl in *. contradiction.
  - destruct (_ && _); [|discriminate]. inversion HS; subst; simpl in *. contradiction.
  - destruct (memb _ _ _); [|discriminate]. inversion HS; subst; simpl in *. contradiction.
Qed.

(* a hold disappears only through the matching release *)
Lemma step_held_loss s e s' h :
  step s e = Some s' -> In h (held s) -> ~ In h (held s') ->
  exists l t m, h = (l, t, m) /\ e = (t, ERel m l).
Proof.
  destruct e as [t a]. destruct a; simpl; intros HS HI HN.
  - destruct (can_acq (held s) l m); [|discriminate]. inversion HS; subst; simpl in *.
    exfalso. apply HN. right. assumption.
  - destruct (remove1 (l, t, m) (held s)) as [h'|] eqn:R; [|discriminate]. inversion HS; subst; simpl in *.
    destruct (hold_eqb h (l, t, m)) eqn:E.
    + apply hold_eqb_eq in E. subst. exists l, t, m. auto.
    + exfalso. apply HN. eapply remove1_other; eauto. intros ->.
      assert (hold_eqb (l, t, m) (l, t, m) = true) by (apply hold_eqb_eq; reflexivity). congruence.
  - inversion HS; subst. contradiction.
  - inversion HS; subst. contradiction.
  - destruct (existsb _ _); [discriminate|]. inversion HS; subst; simpl in *. contradiction.
  - destruct (_ && _); [|discriminate]. inversion HS; subst; simpl in *. contradiction.
  - destruct (memb _ _ _); [|discriminate]. inversion HS; subst; simpl in *. contradiction.
Qed.

(* an acquire is enabled only when no conflicting hold exists *)
Lemma acq_enabled_compat s t' m' l s' t m :
  step s (t', EAcq m' l) = Some s' -> In (l, t, m) (held s) -> (m = MW \/ m' = MW) -> False.
Proof.
  simpl. intros HS HI HM. destruct (can_acq (held s) l m') eqn:C; [|discriminate].
  unfold can_acq in C. rewrite forallb_forall in C. specialize (C _ HI). simpl in C.
  rewrite String.eqb_refl in C. simpl in C.
  destruct m, m'; simpl in C; try discriminate. destruct HM; discriminate.
Qed.

(* ---------- positions of the acquire before, and the release after ---------- *)
Lemma acq_point tr j h :
  In h (held (st tr j)) ->
  exists p l t m, h = (l, t, m) /\ p < j /\ nth_error tr p = Some (t, EAcq m l) /\
                  forall k, p < k -> k <= j -> In h (held (st tr k)).
Proof.
  induction j as [|j IH]; intros HI.
  - rewrite st_0 in HI. simpl in HI. contradiction.
  - destruct (heldb h (st tr j)) eqn:Hj.
    + apply heldb_In in Hj. destruct (IH Hj) as [p [l [t [m [E [Hp [Hn Hk]]]]]]].
      exists p, l, t, m. repeat split; auto.
      intros k H1 H2. destruct (Nat.eq_dec k (S j)) as [->|]; [assumption | apply Hk; lia].
    + assert (Hn : ~ In h (held (st tr j))).
      { intros H. apply heldb_In in H. congruence. }
      assert (Hc : st tr (S j) <> st tr j) by (intros Heq; rewrite Heq in HI; contradiction).
      destruct (st_change _ _ Hc) as [e [s' [He [Hs Hs']]]]. rewrite Hs' in HI.
      destruct (step_held_gain _ _ _ _ Hs HI Hn) as [l [t [m [-> ->]]]].
      exists j, l, t, m. repeat split; auto.
      intros k H1 H2. assert (k = S j) by lia. subst k. rewrite Hs'. assumption.
Qed.

Lemma rel_point tr i p h :
  i <= p -> In h (held (st tr i)) -> ~ In h (held (st tr p)) ->
  exists k l t m, h = (l, t, m) /\ i <= k /\ k < p /\ nth_error tr k = Some (t, ERel m l).
Proof.
  intros Hle Hi Hp.
  destruct (flip_down (heldb h) tr i p Hle) as [k [H1 [H2 [H3 H4]]]].
  - apply heldb_In. assumption.
  - destruct (heldb h (st tr p)) eqn:E; [|reflexivity]. apply heldb_In in E. contradiction.
  - apply heldb_In in H3.
    assert (Hn : ~ In h (held (st tr (S k)))) by (intros H; apply heldb_In in H; congruence).
    assert (Hc : st tr (S k) <> st tr k) by (intros Heq; rewrite Heq in Hn; contradiction).
    destruct (st_change _ _ Hc) as [e [s' [He [Hs Hs']]]]. rewrite Hs' in Hn.
    destruct (step_held_loss _ _ _ _ Hs H3 Hn) as [l [t [m [-> ->]]]].
    exists k, l, t, m. auto.
Qed.

(* ================================================================ happens-before chains *)
Lemma hb_step tr i j : hb1 tr i j -> hb tr i j.
Proof. apply t_step. Qed.
Lemma hb_trans tr i j k : hb tr i j -> hb tr j k -> hb tr i k.
Proof. apply t_trans. Qed.

(* Two threads hold the same lock, at least one of them exclusively, at two different moments:
   the earlier moment happens before the later one. *)
Lemma lock_order tr i j t t' a b l mi mj :
  valid tr -> i < j -> t <> t' ->
  nth_error tr i = Some (t, a) -> nth_error tr j = Some (t', b) ->
  (forall m l', a <> ERel m l') ->
  In (l, t, mi) (held (st tr i)) -> In (l, t', mj) (held (st tr j)) ->
  (mi = MW \/ mj = MW) ->
  hb tr i j.
Proof.
  intros V Hij Htt Hi Hj Hnrel HIi HIj HM.
  destruct (acq_point _ _ _ HIj) as [p [l0 [t0 [m0 [E [Hp [Hnp Hkp]]]]]]].
  inversion E; subst l0 t0 m0; clear E.
  assert (Vp := V _ _ Hnp).
  destruct (step (st tr p) (t', EAcq mj l)) as [sp|] eqn:Sp; [|congruence].
  destruct (Nat.lt_trichotomy p i) as [Hlt|[Heq|Hgt]].
  - (* t' acquired before i and still holds at i; t must have acquired in between or before: both impossible *)
    exfalso.
    assert (HIt' : In (l, t', mj) (held (st tr i))) by (apply Hkp; lia).
    destruct (acq_point _ _ _ HIi) as [q [l0 [t0 [m0 [E [Hq [Hnq Hkq]]]]]]].
    inversion E; subst l0 t0 m0; clear E.
    assert (Vq := V _ _ Hnq).
    destruct (step (st tr q) (t, EAcq mi l)) as [sq|] eqn:Sq; [|congruence].
    destruct (Nat.lt_trichotomy p q) as [H|[H|H]].
    + (* t acquires at q while t' holds *)
      assert (In (l, t', mj) (held (st tr q))) by (apply Hkp; lia).
      eapply (acq_enabled_compat _ _ _ _ _ _ _ Sq); eauto. tauto.
    + subst q. rewrite Hnp in Hnq. inversion Hnq. congruence.
    + (* t' acquires at p while t holds *)
      assert (In (l, t, mi) (held (st tr p))) by (apply Hkq; lia).
      eapply (acq_enabled_compat _ _ _ _ _ _ _ Sp); eauto.
  - subst p. rewrite Hi in Hnp. inversion Hnp. congruence.
  - (* the acquire of t' is after i: t released in between *)
    assert (Hnot : ~ In (l, t, mi) (held (st tr p))).
    { intros H. eapply (acq_enabled_compat _ _ _ _ _ _ _ Sp); eauto. }
    destruct (rel_point tr i p _ (Nat.lt_le_incl _ _ Hgt) HIi Hnot) as [k [l0 [t0 [m0 [E [H1 [H2 Hnk]]]]]]].
    inversion E; subst l0 t0 m0; clear E.
    assert (i <> k). { intros ->. rewrite Hi in Hnk. inversion Hnk. eapply Hnrel; eauto. }
    eapply hb_trans; [apply hb_step; eapply hb_po with (i := i) (j := k); eauto; lia|].
    eapply hb_trans; [apply hb_step; eapply hb_lock with (i := k) (j := p); eauto|].
    apply hb_step. eapply hb_po with (i := p) (j := j); eauto.
Qed.

(* ================================================================ once objects *)
Record wf (s : tst) : Prop := mkWf {
  wf_starter : forall o t t', In (o, t) (started s) -> In (o, t') (started s) -> t = t';
  wf_completed : forall t o, In (t, o) (completed s) -> In o (finished s);
  wf_finished : forall o, In o (finished s) -> exists t, In (o, t) (started s)
}.

Lemma wf0 : wf tst0.
Proof. split; simpl; intros; contradiction. Qed.

Lemma step_wf s e s' : wf s -> step s e = Some s' -> wf s'.
Proof.
  intros [W1 W2 W3]. destruct e as [t a]. destruct a; simpl; intros HS.
  - destruct (can_acq _ _ _); [|discriminate]. inversion HS; subst. split; simpl; auto.
  - destruct (remove1 _ _); [|discriminate]. inversion HS; subst. split; simpl; auto.
  - inversion HS; subst. split; auto.
  - inversion HS; subst. split; auto.
  - destruct (existsb (fun p => String.eqb (fst p) o) (started s)) eqn:E; [discriminate|].
    inversion HS; subst.
    assert (Hno : forall t0, ~ In (o, t0) (started s)).
    { intros t0 HI. assert (existsb (fun p : string * tid => String.eqb (fst p) o) (started s) = true).
      { apply existsb_exists. exists (o, t0). split; [assumption | apply String.eqb_refl]. }
      congruence. }
    split; simpl; auto.
    + intros o0 t0 t0' [H1|H1] [H2|H2].
      * inversion H1; inversion H2; subst; reflexivity.
      * inversion H1; subst. exfalso. eapply Hno; eauto.
      * inversion H2; subst. exfalso. eapply Hno; eauto.
      * eapply W1; eauto.
    + intros o0 HI. destruct (W3 _ HI) as [t0 Ht0]. exists t0. right. assumption.
  - destruct (memb so_eqb (o, t) (started s)) eqn:E1; simpl in HS; [|discriminate].
    destruct (negb _); [|discriminate]. inversion HS; subst. split; simpl; auto.
    + intros t0 o0 [H|H]; [inversion H; subst; left; reflexivity | right; eapply W2; eauto].
    + intros o0 [H|H]; [subst; exists t; apply (memb_In _ so_eqb_eq); assumption | apply W3; assumption].
  - destruct (memb String.eqb o (finished s)) eqn:E; [|discriminate]. inversion HS; subst. split; simpl; auto.
    intros t0 o0 [H|H]; [inversion H; subst; apply (memb_In _ String.eqb_eq); assumption | eapply W2; eauto].
Qed.

Lemma st_wf tr k : wf (st tr k).
Proof.
  induction k as [|k IH]; [apply wf0|].
  destruct (nth_error tr k) as [e|] eqn:E.
  - rewrite (st_S _ _ _ E). unfold step_total. destruct (step (st tr k) e) eqn:S; [eapply step_wf; eauto | assumption].
  - rewrite (st_past _ _ E). assumption.
Qed.

Lemma step_mono s e s' :
  step s e = Some s' ->
  incl (started s) (started s') /\ incl (finished s) (finished s') /\ incl (completed s) (completed s').
Proof.
  destruct e as [t a]. destruct a; simpl; intros HS.
  - destruct (can_acq _ _ _); [|discriminate]. inversion HS; subst; simpl. repeat split; apply incl_refl.
  - destruct (remove1 _ _); [|discriminate]. inversion HS; subst; simpl. repeat split; apply incl_refl.
  - inversion HS; subst. repeat split; apply incl_refl.
  - inversion HS; subst. repeat split; apply incl_refl.
  - destruct (existsb _ _); [discriminate|]. inversion HS; subst; simpl.
    repeat split; try apply incl_refl. apply incl_tl, incl_refl.
  - destruct (_ && _); [|discriminate]. inversion HS; subst; simpl.
    repeat split; try apply incl_refl; apply incl_tl, incl_refl.
  - destruct (memb _ _ _); [|discriminate]. inversion HS; subst; simpl.
    repeat split; try apply incl_refl; apply incl_tl, incl_refl.
Qed.

Lemma st_mono tr i j :
  i <= j ->
  incl (started (st tr i)) (started (st tr j)) /\ incl (finished (st tr i)) (finished (st tr j)) /\
  incl (completed (st tr i)) (completed (st tr j)).
Proof.
  induction j as [|j IH]; intros Hle.
  - assert (i = 0) by lia. subst. repeat split; apply incl_refl.
  - destruct (Nat.eq_dec i (S j)) as [->|Hne]; [repeat split; apply incl_refl|].
    destruct IH as [I1 [I2 I3]]; [lia|].
    destruct (nth_error tr j) as [e|] eqn:E.
    + rewrite (st_S _ _ _ E). unfold step_total. destruct (step (st tr j) e) eqn:S; [|auto].
      destruct (step_mono _ _ _ S) as [J1 [J2 J3]].
      repeat split; eapply incl_tran; eauto.
    + rewrite (st_past _ _ E). auto.
Qed.

Lemma once_one_runner tr i j o t t' :
  In (o, t) (started (st tr i)) -> In (o, t') (started (st tr j)) -> t = t'.
Proof.
  intros Hi Hj. destruct (Nat.le_ge_cases i j) as [H|H].
  - apply (wf_starter _ (st_wf tr j) o); [apply (proj1 (st_mono tr i j H)) |]; assumption.
  - apply (wf_starter _ (st_wf tr i) o); [| apply (proj1 (st_mono tr j i H))]; assumption.
Qed.

(* a thread's "Do returned" record appears only through its own EOEnd / EOSkip *)
Lemma step_completed_gain s e s' t o :
  step s e = Some s' -> In (t, o) (completed s') -> ~ In (t, o) (completed s) ->
  (e = (t, EOEnd o) /\ In (o, t) (started s)) \/ (e = (t, EOSkip o) /\ In o (finished s)).
Proof.
  destruct e as [t0 a]. destruct a; simpl; intros HS HI HN.
  - destruct (can_acq _ _ _); [|discriminate]. inversion HS; subst; simpl in *. contradiction.
  - destruct (remove1 _ _); [|discriminate]. inversion HS; subst; simpl in *. contradiction.
  - inversion HS; subst. contradiction.
  - inversion HS; subst. contradiction.
  - destruct (existsb _ _); [discriminate|]. inversion HS; subst; simpl in *. contradiction.
  - destruct (memb so_eqb (o0, t0) (started s)) eqn:E1; simpl in HS; [|discriminate].
    destruct (negb _); [|discriminate]. inversion HS; subst; simpl in *.
    destruct HI as [H|H]; [|contradiction]. inversion H; subst. left. split; [reflexivity|].
    apply (memb_In _ so_eqb_eq). assumption.
  - destruct (memb String.eqb o0 (finished s)) eqn:E1; [|discriminate]. inversion HS; subst; simpl in *.
    destruct HI as [H|H]; [|contradiction]. inversion H; subst. right. split; [reflexivity|].
    apply (memb_In _ String.eqb_eq). assumption.
Qed.

(* a once object becomes finished only through the EOEnd of the thread that started it *)
Lemma step_finished_gain s e s' o :
  step s e = Some s' -> In o (finished s') -> ~ In o (finished s) ->
  exists t, e = (t, EOEnd o) /\ In (o, t) (started s).
Proof.
  destruct e as [t0 a]. destruct a; simpl; intros HS HI HN.
  - destruct (can_acq _ _ _); [|discriminate]. inversion HS; subst; simpl in *. contradiction.
  - destruct (remove1 _ _); [|discriminate]. inversion HS; subst; simpl in *. contradiction.
  - inversion HS; subst. contradiction.
  - inversion HS; subst. contradiction.
  - destruct (existsb _ _); [discriminate|]. inversion HS; subst; simpl in *. contradiction.
  - destruct (memb so_eqb (o0, t0) (started s)) eqn:E1; simpl in HS; [|discriminate].
    destruct (negb _); [|discriminate]. inversion HS; subst; simpl in *.
    destruct HI as [H|H]; [|contradiction]. subst. exists t0. split; [reflexivity|].
    apply (memb_In _ so_eqb_eq). assumption.
  - destruct (memb _ _ _); [|discriminate]. inversion HS; subst; simpl in *. contradiction.
Qed.

(* An access made while running the body of o happens before every access another thread makes after
   its own Do(o) returned. *)
Lemma once_order tr i j t t' a b o :
  i < j -> t <> t' ->
  nth_error tr i = Some (t, a) -> nth_error tr j = Some (t', b) ->
  a <> EOEnd o ->
  In (o, t) (started (st tr i)) -> ~ In o (finished (st tr i)) ->
  In (t', o) (completed (st tr j)) ->
  hb tr i j.
Proof.
  intros Hij Htt Hi Hj Hna Hrun Hnf Hc.
  set (P := fun s => memb to_eqb (t', o) (completed s)).
  destruct (flip_up P tr 0 j (Nat.le_0_l _)) as [k [_ [Hkj [Pk PSk]]]].
  - reflexivity.
  - apply (memb_In _ to_eqb_eq). assumption.
  - unfold P in *. apply (memb_false _ to_eqb_eq) in Pk. apply (memb_In _ to_eqb_eq) in PSk.
    assert (Hchg : st tr (S k) <> st tr k) by (intros Heq; rewrite Heq in PSk; contradiction).
    destruct (st_change _ _ Hchg) as [e [s' [He [Hs Hs']]]]. rewrite Hs' in PSk.
    destruct (step_completed_gain _ _ _ _ _ Hs PSk Pk) as [[-> Hst]|[-> Hfin]].
    + (* t' itself ran the body: but t did *)
      exfalso. apply Htt. eapply once_one_runner; eauto.
    + (* t' skipped at k: the body had finished, so k is after i and t's EOEnd lies in between *)
      assert (Hik : i < k).
      { destruct (Nat.lt_trichotomy i k) as [H|[H|H]]; [assumption | |].
        - exfalso. subst k. pose proof (nth_inj _ _ _ _ Hi He) as X. inversion X. congruence.
        - exfalso. apply Hnf. apply (proj1 (proj2 (st_mono tr k i (Nat.lt_le_incl _ _ H)))). assumption. }
      set (Q := fun s => memb String.eqb o (finished s)).
      destruct (flip_up Q tr i k (Nat.lt_le_incl _ _ Hik)) as [k2 [H1 [H2 [Q1 Q2]]]].
      * unfold Q. apply (memb_false _ String.eqb_eq). assumption.
      * unfold Q. apply (memb_In _ String.eqb_eq). assumption.
      * unfold Q in *. apply (memb_false _ String.eqb_eq) in Q1. apply (memb_In _ String.eqb_eq) in Q2.
        assert (Hchg2 : st tr (S k2) <> st tr k2) by (intros Heq; rewrite Heq in Q2; contradiction).
        destruct (st_change _ _ Hchg2) as [e2 [s2 [He2 [Hs2 Hs2']]]]. rewrite Hs2' in Q2.
        destruct (step_finished_gain _ _ _ _ Hs2 Q2 Q1) as [t2 [-> Hst2]].
        assert (t2 = t) by (eapply once_one_runner; eauto). subst t2.
        assert (i <> k2). { intros ->. pose proof (nth_inj _ _ _ _ Hi He2) as X. inversion X. congruence. }
        eapply hb_trans; [apply hb_step; eapply hb_po with (i := i) (j := k2); eauto; lia|].
        eapply hb_trans; [apply hb_step; eapply hb_once with (i := k2) (j := k); eauto|].
        apply hb_step. eapply hb_po with (i := k) (j := j); eauto.
Qed.

(* ================================================================ the discipline on traces *)
Lemma disc_from_nth D tr : forall s k e,
  disc_from D s tr -> nth_error tr k = Some e ->
  acc_ok D (run s (firstn k tr)) e = true /\ step (run s (firstn k tr)) e <> None.
Proof.
  induction tr as [|e0 tr IH]; intros s k e HD HN.
  - destruct k; discriminate.
  - destruct HD as [Hok [s' [Hs HD']]]. destruct k as [|k]; simpl in *.
    + inversion HN; subst. split; [assumption | congruence].
    + assert (Est : step_total s e0 = s') by (unfold step_total; rewrite Hs; reflexivity).
      unfold run in *. simpl. rewrite Est. apply IH; assumption.
Qed.

Lemma disc_valid D tr : disc_from D tst0 tr -> valid tr.
Proof. intros HD k e HN. apply (disc_from_nth D tr tst0 k e HD HN). Qed.

Lemma dsat_write_read s t p : dsat_write s t p = true -> dsat_read s t p = true.
Proof. destruct p; simpl; intros H; rewrite H; reflexivity. Qed.

(* two conflicting accesses that both obey the discipline share a protection that the write(s) satisfy
   in write mode *)
Lemma common_prot ps s1 t1 s2 t2 (w1 w2 : bool) :
  (w1 = true \/ w2 = true) ->
  (if w1 then dwrite_ok ps s1 t1 else dread_ok ps s1 t1) = true ->
  (if w2 then dwrite_ok ps s2 t2 else dread_ok ps s2 t2) = true ->
  exists p, dsat_read s1 t1 p = true /\ dsat_read s2 t2 p = true /\
            (w1 = true -> dsat_write s1 t1 p = true) /\ (w2 = true -> dsat_write s2 t2 p = true).
Proof.
  unfold dwrite_ok, dread_ok. intros HW H1 H2.
  destruct w1, w2.
  - apply Bool.andb_true_iff in H1, H2. destruct H1 as [N1 A1], H2 as [N2 A2].
    destruct ps as [|p ps]; [discriminate|]. simpl in A1, A2.
    apply Bool.andb_true_iff in A1, A2. destruct A1 as [A1 _], A2 as [A2 _].
    exists p. repeat split; auto using dsat_write_read.
  - apply Bool.andb_true_iff in H1. destruct H1 as [N1 A1].
    destruct ps as [|p0 ps0] eqn:E; [discriminate|]. rewrite <- E in *.
    assert (is_nil ps = false) by (rewrite E; reflexivity). rewrite H in H2. simpl in H2.
    apply existsb_exists in H2. destruct H2 as [p [Hin Hp]].
    rewrite forallb_forall in A1. specialize (A1 _ Hin).
    exists p. repeat split; auto using dsat_write_read; discriminate.
  - apply Bool.andb_true_iff in H2. destruct H2 as [N2 A2].
    destruct ps as [|p0 ps0] eqn:E; [discriminate|]. rewrite <- E in *.
    assert (is_nil ps = false) by (rewrite E; reflexivity). rewrite H in H1. simpl in H1.
    apply existsb_exists in H1. destruct H1 as [p [Hin Hp]].
    rewrite forallb_forall in A2. specialize (A2 _ Hin).
    exists p. repeat split; auto using dsat_write_read; discriminate.
  - destruct HW; discriminate.
Qed.

Lemma acc_ok_unfold D s t a x w :
  acc_of a = Some (x, w) ->
  acc_ok D s (t, a) = (if w then dwrite_ok (D x) s t else dread_ok (D x) s t).
Proof. destruct a; simpl; intros H; inversion H; subst; reflexivity. Qed.

(* Trace-level soundness: a valid trace on which every access obeys the discipline has no race. *)
Theorem discipline_sound_trace D tr : disc_from D tst0 tr -> ~ race tr.
Proof.
  intros HD [i [j [t [t' [a [b [x [wi [wj [Hij [Hi [Hj [Htt [Ha [Hb [HW Hnhb]]]]]]]]]]]]]]]].
  assert (V := disc_valid _ _ HD).
  destruct (disc_from_nth D tr tst0 i _ HD Hi) as [Oi _].
  destruct (disc_from_nth D tr tst0 j _ HD Hj) as [Oj _].
  fold (st tr i) in Oi. fold (st tr j) in Oj.
  rewrite (acc_ok_unfold _ _ _ _ _ _ Ha) in Oi. rewrite (acc_ok_unfold _ _ _ _ _ _ Hb) in Oj.
  destruct (common_prot _ _ _ _ _ _ _ HW Oi Oj) as [p [Ri [Rj [Wi Wj]]]].
  assert (Hnrel : forall m l', a <> ERel m l') by (intros m l' ->; discriminate).
  apply Hnhb. destruct p as [l|o]; simpl in *.
  - (* a common lock *)
    assert (Hmi : exists mi, In (l, t, mi) (held (st tr i)) /\ (wi = true -> mi = MW)).
    { destruct (memb hold_eqb (l, t, MW) (held (st tr i))) eqn:E.
      - exists MW. split; [apply (memb_In _ hold_eqb_eq); assumption | auto].
      - simpl in Ri. exists MR. split; [apply (memb_In _ hold_eqb_eq); assumption|].
        intros Hw. specialize (Wi Hw). congruence. }
    assert (Hmj : exists mj, In (l, t', mj) (held (st tr j)) /\ (wj = true -> mj = MW)).
    { destruct (memb hold_eqb (l, t', MW) (held (st tr j))) eqn:E.
      - exists MW. split; [apply (memb_In _ hold_eqb_eq); assumption | auto].
      - simpl in Rj. exists MR. split; [apply (memb_In _ hold_eqb_eq); assumption|].
        intros Hw. specialize (Wj Hw). congruence. }
    destruct Hmi as [mi [Hhi Hwi]], Hmj as [mj [Hhj Hwj]].
    eapply lock_order; eauto. destruct HW; [left | right]; auto.
  - (* a common once object *)
    assert (Hne : a <> EOEnd o) by (intros ->; discriminate).
    assert (Run : forall s tt, memb so_eqb (o, tt) (started s) && negb (memb String.eqb o (finished s)) = true ->
                               In (o, tt) (started s) /\ ~ In o (finished s)).
    { intros s tt H. apply Bool.andb_true_iff in H. destruct H as [H1 H2]. split.
      - apply (memb_In _ so_eqb_eq). assumption.
      - apply (memb_false _ String.eqb_eq). destruct (memb String.eqb o (finished s)); simpl in *; congruence. }
    destruct HW as [Hw|Hw].
    + destruct (Run _ _ (Wi Hw)) as [S1 F1].
      apply Bool.orb_true_iff in Rj. destruct Rj as [Rj|Rj].
      * destruct (Run _ _ Rj) as [S2 _]. exfalso. apply Htt. eapply once_one_runner; eauto.
      * apply (memb_In _ to_eqb_eq) in Rj. eapply once_order; eauto.
    + destruct (Run _ _ (Wj Hw)) as [S2 F2].
      apply Bool.orb_true_iff in Ri. destruct Ri as [Ri|Ri].
      * destruct (Run _ _ Ri) as [S1 _]. exfalso. apply Htt. eapply once_one_runner; eauto.
      * apply (memb_In _ to_eqb_eq) in Ri. exfalso. apply F2.
        apply (proj1 (proj2 (st_mono tr i j (Nat.lt_le_incl _ _ Hij)))).
        eapply wf_completed; [apply st_wf | eassumption].
Qed.

(* ================================================================ from the static check to the traces *)
(* the static context under-approximates what thread t really holds in state s *)
Record sub_ctx (c : sctx) (s : tst) (t : tid) : Prop := mkSub {
  sub_held : forall m l, In (m, l) (sc_held c) -> In (l, t, m) (held s);
  sub_after : forall o, In o (sc_after c) -> In (t, o) (completed s);
  sub_in : forall o, In o (sc_in c) -> In (o, t) (started s) /\ ~ In o (finished s)
}.

Lemma sat_write_dyn c s t p : sub_ctx c s t -> sat_write_s c p = true -> dsat_write s t p = true.
Proof.
  intros [H1 H2 H3]. destruct p as [l|o]; simpl; intros H.
  - apply (memb_In _ ml_eqb_eq) in H. apply (memb_In _ hold_eqb_eq). auto.
  - apply (memb_In _ String.eqb_eq) in H. destruct (H3 _ H) as [A B].
    apply Bool.andb_true_iff. split; [apply (memb_In _ so_eqb_eq); assumption|].
    apply (memb_false _ String.eqb_eq) in B. rewrite B. reflexivity.
Qed.

Lemma sat_read_dyn c s t p : sub_ctx c s t -> sat_read_s c p = true -> dsat_read s t p = true.
Proof.
  intros [H1 H2 H3]. destruct p as [l|o]; simpl; intros H; apply Bool.orb_true_iff in H; apply Bool.orb_true_iff.
  - destruct H as [H|H]; apply (memb_In _ ml_eqb_eq) in H; [left | right]; apply (memb_In _ hold_eqb_eq); auto.
  - destruct H as [H|H]; apply (memb_In _ String.eqb_eq) in H.
    + left. destruct (H3 _ H) as [A B].
      apply Bool.andb_true_iff. split; [apply (memb_In _ so_eqb_eq); assumption|].
      apply (memb_false _ String.eqb_eq) in B. rewrite B. reflexivity.
    + right. apply (memb_In _ to_eqb_eq). auto.
Qed.

Lemma write_ok_dyn ps c s t : sub_ctx c s t -> write_ok_s ps c = true -> dwrite_ok ps s t = true.
Proof.
  unfold write_ok_s, dwrite_ok. intros HS H. apply Bool.andb_true_iff in H. destruct H as [N A].
  rewrite N. simpl. rewrite forallb_forall in *. intros p Hp. eapply sat_write_dyn; eauto.
Qed.

Lemma read_ok_dyn ps c s t : sub_ctx c s t -> read_ok_s ps c = true -> dread_ok ps s t = true.
Proof.
  unfold read_ok_s, dread_ok. intros HS H. apply Bool.orb_true_iff in H. apply Bool.orb_true_iff.
  destruct H as [H|H]; [left; assumption | right].
  apply existsb_exists in H. destruct H as [p [Hp Hs]]. apply existsb_exists. exists p. split; [assumption|].
  eapply sat_read_dyn; eauto.
Qed.

(* what a thread's runtime state promises *)
Definition rt_ok (D : discipline) (s : tst) (t : tid) (r : rthread) : Prop :=
  exists c, sub_ctx c s t /\ sc_in c = [] /\
    match r_cur r with
    | None => check D c (r_rest r) = true
    | Some (o, b) =>
        In (o, t) (started s) /\ ~ In o (finished s) /\
        check_body D (ctx_in c o) b = true /\ check D (ctx_after c o) (r_rest r) = true
    end.

Definition pool_ok (D : discipline) (s : tst) (pool : list rthread) : Prop :=
  wf s /\ forall t r, nth_error pool t = Some r -> rt_ok D s t r.

Lemma nth_replace_same {A} (l : list A) n x y :
  nth_error l n = Some y -> nth_error (replace_nth n x l) n = Some x.
Proof.
  revert n. induction l as [|z l IH]; intros [|n] H; simpl in *; try discriminate; auto.
Qed.

Lemma nth_replace_other {A} (l : list A) n m x :
  n <> m -> nth_error (replace_nth n x l) m = nth_error l m.
Proof.
  revert n m. induction l as [|z l IH]; intros [|n] [|m] H; simpl; auto; try congruence.
Qed.

(* a step of thread t leaves the holds, running bodies and completions of every other thread alone *)
Lemma step_frame s t e s' t2 :
  wf s -> step s (t, e) = Some s' -> t2 <> t ->
  (forall l m, In (l, t2, m) (held s) -> In (l, t2, m) (held s')) /\
  (forall o, In (o, t2) (started s) -> ~ In o (finished s) -> ~ In o (finished s')).
Proof.
  intros W HS Hne. destruct e; simpl in HS.
  - destruct (can_acq _ _ _); [|discriminate]. inversion HS; subst; simpl. split; auto.
  - destruct (remove1 (l, t, m) (held s)) as [h|] eqn:R; [|discriminate]. inversion HS; subst; simpl. split; auto.
    intros l0 m0 HI. eapply remove1_other; eauto. intros E. inversion E. congruence.
  - inversion HS; subst. split; auto.
  - inversion HS; subst. split; auto.
  - destruct (existsb _ _); [discriminate|]. inversion HS; subst; simpl. split; auto.
  - destruct (memb so_eqb (o, t) (started s)) eqn:E1; simpl in HS; [|discriminate].
    destruct (negb _); [|discriminate]. inversion HS; subst; simpl. split; auto.
    intros o0 HI HN [H|H]; [|contradiction]. subst o0.
    apply (memb_In _ so_eqb_eq) in E1. apply Hne. eapply (wf_starter _ W); eauto.
  - destruct (memb _ _ _); [|discriminate]. inversion HS; subst; simpl. split; auto.
Qed.

Lemma sub_ctx_frame c s t e s' t2 :
  wf s -> step s (t, e) = Some s' -> t2 <> t -> sub_ctx c s t2 -> sub_ctx c s' t2.
Proof.
  intros W HS Hne [H1 H2 H3]. destruct (step_frame _ _ _ _ _ W HS Hne) as [F1 F2].
  destruct (step_mono _ _ _ HS) as [M1 [M2 M3]]. split.
  - intros m l HI. apply F1. auto.
  - intros o HI. apply M3. auto.
  - intros o HI. destruct (H3 _ HI) as [A B]. split; [apply M1; assumption | apply F2; assumption].
Qed.

Lemma rt_ok_frame D s t e s' t2 r :
  wf s -> step s (t, e) = Some s' -> t2 <> t -> rt_ok D s t2 r -> rt_ok D s' t2 r.
Proof.
  intros W HS Hne [c [HC [Hin HR]]]. exists c. split; [eapply sub_ctx_frame; eauto|]. split; [assumption|].
  destruct (r_cur r) as [[o b]|]; [|assumption].
  destruct HR as [A [B [C1 C2]]]. destruct (step_frame _ _ _ _ _ W HS Hne) as [F1 F2].
  destruct (step_mono _ _ _ HS) as [M1 _]. repeat split; auto.
Qed.

(* one move of thread t: the access (if any) obeys the discipline dynamically, and the promise is kept *)
Lemma rt_ok_step D s t r e r' s' :
  wf s -> rt_ok D s t r -> In (e, r') (tnext r) -> step s (t, e) = Some s' ->
  acc_ok D s (t, e) = true /\ rt_ok D s' t r'.
Proof.
  intros W [c [HC [Hin HR]]] HM HS. destruct HC as [H1 H2 H3].
  destruct (step_mono _ _ _ HS) as [M1 [M2 M3]].
  unfold tnext in HM. destruct r as [cur rest]; simpl in *. destruct cur as [[o b]|].
  - destruct HR as [A [B [C1 C2]]]. destruct b as [|[w x] b].
    + (* end of the body *)
      destruct HM as [HM|[]]. inversion HM; subst; clear HM. split; [reflexivity|].
      simpl in HS. destruct (memb so_eqb (o, t) (started s)) eqn:E1; simpl in HS; [|discriminate].
      destruct (negb _); [|discriminate]. inversion HS; subst; simpl in *.
      exists (ctx_after c o). split; [|split; [assumption | assumption]].
      split; simpl; auto.
      * intros o0 [<-|HI]; [left; reflexivity | right; auto].
      * rewrite Hin. intros o0 [].
    + (* an access inside the body *)
      destruct HM as [HM|[]]. inversion HM; subst; clear HM.
      assert (HSub : sub_ctx (ctx_in c o) s t).
      { split; simpl; auto. rewrite Hin. intros o0 [<-|[]]. auto. }
      simpl in C1. apply Bool.andb_true_iff in C1. destruct C1 as [C1 C1'].
      assert (s' = s) by (destruct w; simpl in HS; inversion HS; reflexivity). subst s'.
      split.
      * destruct w; simpl in *; [eapply write_ok_dyn | eapply read_ok_dyn]; eauto.
      * exists c. split; [split; auto|]. split; [assumption|]. simpl. auto.
  - destruct rest as [|i rest]; [destruct HM|]. destruct i; simpl in HM.
    + (* acquire *)
      destruct HM as [HM|[]]. inversion HM; subst; clear HM. split; [reflexivity|].
      simpl in HS. destruct (can_acq _ _ _); [|discriminate]. inversion HS; subst; simpl in *.
      exists (ctx_acq c m l). split; [|split; [assumption | assumption]].
      split; simpl; auto.
      intros m0 l0 [E|HI]; [inversion E; subst; left; reflexivity | right; auto].
    + (* release *)
      destruct HM as [HM|[]]. inversion HM; subst; clear HM. split; [reflexivity|].
      simpl in HS. destruct (remove1 (l, t, m) (held s)) as [h|] eqn:R; [|discriminate]. inversion HS; subst; simpl in *.
      exists (ctx_rel c m l). split; [|split; [assumption | assumption]].
      split; simpl; auto.
      intros m0 l0 HI. apply filter_In in HI. destruct HI as [HI HF].
      eapply remove1_other; eauto. intros E. inversion E; subst.
      assert (ml_eqb (m, l) (m, l) = true) by (apply ml_eqb_eq; reflexivity).
      rewrite H in HF. discriminate.
    + (* read *)
      destruct HM as [HM|[]]. inversion HM; subst; clear HM.
      simpl in HR. apply Bool.andb_true_iff in HR. destruct HR as [R1 R2].
      simpl in HS. inversion HS; subst. split.
      * simpl. eapply read_ok_dyn; eauto. split; auto.
      * exists c. split; [split; auto|]. split; assumption.
    + (* write *)
      destruct HM as [HM|[]]. inversion HM; subst; clear HM.
      simpl in HR. apply Bool.andb_true_iff in HR. destruct HR as [R1 R2].
      simpl in HS. inversion HS; subst. split.
      * simpl. eapply write_ok_dyn; eauto. split; auto.
      * exists c. split; [split; auto|]. split; assumption.
    + (* once *)
      simpl in HR. apply Bool.andb_true_iff in HR. destruct HR as [R1 R2].
      destruct HM as [HM|[HM|[]]]; inversion HM; subst; clear HM; (split; [reflexivity|]); simpl in HS.
      * (* this thread runs the body *)
        destruct (existsb (fun p => String.eqb (fst p) o) (started s)) eqn:E; [discriminate|].
        inversion HS; subst; simpl in *.
        exists c. split; [split; simpl; auto|]. 
        { intros o0 HI. destruct (H3 _ HI) as [A B]. split; [right; assumption | assumption]. }
        split; [assumption|]. simpl. repeat split; auto.
        intros HF. destruct (wf_finished _ W _ HF) as [t0 Ht0].
        assert (existsb (fun p : string * tid => String.eqb (fst p) o) (started s) = true).
        { apply existsb_exists. exists (o, t0). split; [assumption | apply String.eqb_refl]. }
        congruence.
      * (* the body had already finished *)
        destruct (memb String.eqb o (finished s)) eqn:E; [|discriminate]. inversion HS; subst; simpl in *.
        exists (ctx_after c o). split; [|split; [assumption | assumption]].
        split; simpl; auto.
        intros o0 [<-|HI]; [left; reflexivity | right; auto].
Qed.

Lemma exec_disc D pool s tr : exec pool s tr -> pool_ok D s pool -> disc_from D s tr.
Proof.
  induction 1 as [|pool s t r e r' s' tr Hn Hm Hs Hex IH]; intros [W HP]; simpl; [exact I|].
  destruct (rt_ok_step D s t r e r' s' W (HP _ _ Hn) Hm Hs) as [Hacc Hrt].
  split; [assumption|]. exists s'. split; [assumption|].
  apply IH. split; [eapply step_wf; eauto|].
  intros t2 r2 Hn2. destruct (Nat.eq_dec t t2) as [<-|Hne].
  - rewrite (nth_replace_same _ _ _ _ Hn) in Hn2. inversion Hn2; subst. assumption.
  - rewrite (nth_replace_other _ _ _ _ Hne) in Hn2. eapply rt_ok_frame; eauto.
Qed.

Lemma start_ok D P : (forall th, In th P -> thread_ok D th = true) -> pool_ok D tst0 (start P).
Proof.
  intros H. split; [apply wf0|]. intros t r Hn. unfold start in Hn.
  apply nth_error_In in Hn. apply in_map_iff in Hn. destruct Hn as [th [<- Hin]].
  exists ctx0. split; [split; simpl; intros; contradiction|]. split; [reflexivity|].
  simpl. apply H. assumption.
Qed.

(* C16_discipline_sound: if the static lock/once discipline holds for every thread of a program
   (any number of threads), no schedule of the program has a data race. *)
Theorem discipline_sound D (P : list thread) tr :
  (forall th, In th P -> thread_ok D th = true) -> schedule_of P tr -> ~ race tr.
Proof.
  intros HP HS. apply (discipline_sound_trace D). eapply exec_disc; eauto. apply start_ok. assumption.
Qed.
