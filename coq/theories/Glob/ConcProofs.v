(* C16 — soundness of the lock / once discipline (proofs for Glob/Conc.v). *)
From KV Require Import Base.Prelude Glob.Conc.
From Coq Require Import Relations.Relation_Operators Lia.

(* ================================================================ reflection of the boolean tests *)
Lemma mode_eqb_eq a b : mode_eqb a b = true <-> a = b.
Proof. destruct a, b; simpl; split; congruence. Qed.

Lemma hold_eqb_eq (a b : hold) : hold_eqb a b = true <-> a = b.
Proof.
  destruct a as [[l t] m], b as [[l' t'] m']; unfold hold_eqb.
  rewrite !Bool.andb_true_iff, String.eqb_eq, Nat.eqb_eq, mode_eqb_eq.
  split; [intros [[-> ->] ->]; reflexivity | intros H; inversion H; auto].
Qed.

Lemma so_eqb_eq (a b : string * tid) : so_eqb a b = true <-> a = b.
Proof.
  destruct a, b; unfold so_eqb; simpl. rewrite Bool.andb_true_iff, String.eqb_eq, Nat.eqb_eq.
  split; [intros [-> ->]; reflexivity | intros H; inversion H; auto].
Qed.

Lemma to_eqb_eq (a b : tid * string) : to_eqb a b = true <-> a = b.
Proof.
  destruct a, b; unfold to_eqb; simpl. rewrite Bool.andb_true_iff, String.eqb_eq, Nat.eqb_eq.
  split; [intros [-> ->]; reflexivity | intros H; inversion H; auto].
Qed.

Lemma ml_eqb_eq (a b : mode * string) : ml_eqb a b = true <-> a = b.
Proof.
  destruct a, b; unfold ml_eqb; simpl. rewrite Bool.andb_true_iff, mode_eqb_eq, String.eqb_eq.
  split; [intros [-> ->]; reflexivity | intros H; inversion H; auto].
Qed.

Lemma memb_In {A} (eq : A -> A -> bool) (Heq : forall a b, eq a b = true <-> a = b) x l :
  memb eq x l = true <-> In x l.
Proof.
  unfold memb. rewrite existsb_exists. split.
  - intros [y [Hy He]]. apply Heq in He. subst. assumption.
  - intros H. exists x. split; [assumption | apply Heq; reflexivity].
Qed.

Lemma memb_false {A} (eq : A -> A -> bool) (Heq : forall a b, eq a b = true <-> a = b) x l :
  memb eq x l = false <-> ~ In x l.
Proof.
  rewrite <- (memb_In eq Heq). destruct (memb eq x l); split; intros H; try congruence;
    try (exfalso; apply H; reflexivity).
Qed.

Definition heldb (h : hold) (s : tst) : bool := memb hold_eqb h (held s).
Lemma heldb_In h s : heldb h s = true <-> In h (held s).
Proof. apply memb_In, hold_eqb_eq. Qed.

Lemma nth_inj (tr : trace) k (e1 e2 : event) : nth_error tr k = Some e1 -> nth_error tr k = Some e2 -> e1 = e2.
Proof. intros H1 H2. rewrite H1 in H2. inversion H2. reflexivity. Qed.

(* ================================================================ states along a trace *)
Lemma run_app s (a b : trace) : run s (a ++ b)%list = run (run s a) b.
Proof. unfold run. apply fold_left_app. Qed.

Lemma firstn_S_nth {A} (l : list A) k e :
  nth_error l k = Some e -> firstn (S k) l = (firstn k l ++ [e])%list.
Proof.
  revert k. induction l as [|x l IH]; intros [|k] H; simpl in *; try discriminate.
  - inversion H. reflexivity.
  - rewrite (IH _ H). reflexivity.
Qed.

Lemma st_S tr k e : nth_error tr k = Some e -> st tr (S k) = step_total (st tr k) e.
Proof.
  intros H. unfold st. rewrite (firstn_S_nth _ _ _ H), run_app. reflexivity.
Qed.

Lemma st_past tr k : nth_error tr k = None -> st tr (S k) = st tr k.
Proof.
  intros H. apply nth_error_None in H. unfold st.
  rewrite !firstn_all2 by lia. reflexivity.
Qed.

Lemma st_0 tr : st tr 0 = tst0.
Proof. reflexivity. Qed.

Lemma st_change tr k :
  st tr (S k) <> st tr k ->
  exists e s', nth_error tr k = Some e /\ step (st tr k) e = Some s' /\ st tr (S k) = s'.
Proof.
  intros H. destruct (nth_error tr k) as [e|] eqn:E.
  - rewrite (st_S _ _ _ E) in *. unfold step_total in *.
    destruct (step (st tr k) e) as [s'|] eqn:S; [| congruence].
    exists e, s'. auto.
  - rewrite (st_past _ _ E) in H. congruence.
Qed.

(* a boolean observation that is false at i and true at j >= i flips somewhere in between *)
Lemma flip_up (P : tst -> bool) tr i j :
  i <= j -> P (st tr i) = false -> P (st tr j) = true ->
  exists k, i <= k /\ k < j /\ P (st tr k) = false /\ P (st tr (S k)) = true.
Proof.
  induction j as [|j IH]; intros Hle Hi Hj.
  - assert (i = 0) by lia. subst. congruence.
  - destruct (Nat.eq_dec i (S j)) as [->|Hne]; [congruence|].
    destruct (P (st tr j)) eqn:Pj.
    + destruct IH as [k [H1 [H2 [H3 H4]]]]; [lia | assumption | reflexivity |].
      exists k. repeat split; auto; lia.
    + exists j. repeat split; auto; lia.
Qed.

Lemma flip_down (P : tst -> bool) tr i j :
  i <= j -> P (st tr i) = true -> P (st tr j) = false ->
  exists k, i <= k /\ k < j /\ P (st tr k) = true /\ P (st tr (S k)) = false.
Proof.
  intros Hle Hi Hj.
  destruct (flip_up (fun s => negb (P s)) tr i j Hle) as [k [H1 [H2 [H3 H4]]]].
  - rewrite Hi. reflexivity.
  - rewrite Hj. reflexivity.
  - exists k. repeat split; auto.
    + destruct (P (st tr k)); simpl in *; congruence.
    + destruct (P (st tr (S k))); simpl in *; congruence.
Qed.

(* ================================================================ how one step changes the held set *)
Lemma remove1_other x y h h' : remove1 x h = Some h' -> In y h -> y <> x -> In y h'.
Proof.
  revert h'. induction h as [|z h IH]; intros h' HR HI Hne; simpl in *; [contradiction|].
  destruct (hold_eqb x z) eqn:E.
  - inversion HR; subst. apply hold_eqb_eq in E. subst.
    destruct HI as [->|HI]; [congruence | assumption].
  - destruct (remove1 x h) as [t'|] eqn:R; [|discriminate]. inversion HR; subst.
    destruct HI as [->|HI]; [left; reflexivity | right; eapply IH; eauto].
Qed.

Lemma remove1_sub x y h h' : remove1 x h = Some h' -> In y h' -> In y h.
Proof.
  revert h'. induction h as [|z h IH]; intros h' HR HI; simpl in *; [discriminate|].
  destruct (hold_eqb x z) eqn:E.
  - inversion HR; subst. right. assumption.
  - destruct (remove1 x h) as [t'|] eqn:R; [|discriminate]. inversion HR; subst.
    destruct HI as [->|HI]; [left; reflexivity | right; eapply IH; eauto].
Qed.

Lemma remove1_some_in x h h' : remove1 x h = Some h' -> In x h.
Proof.
  revert h'. induction h as [|z h IH]; intros h' HR; simpl in *; [discriminate|].
  destruct (hold_eqb x z) eqn:E.
  - apply hold_eqb_eq in E. left. congruence.
  - destruct (remove1 x h) as [t'|] eqn:R; [|discriminate]. right. eapply IH. reflexivity.
Qed.

(* a hold appears only through the matching acquire *)
Lemma step_held_gain s e s' h :
  step s e = Some s' -> In h (held s') -> ~ In h (held s) ->
  exists l t m, h = (l, t, m) /\ e = (t, EAcq m l).
Proof.
  destruct e as [t a]. destruct a; simpl; intros HS HI HN.
  - destruct (can_acq (held s) l m); [|discriminate]. inversion HS; subst; simpl in *.
    destruct HI as [<-|HI]; [| contradiction]. exists l, t, m. auto.
  - destruct (remove1 (l, t, m) (held s)) as [h'|] eqn:R; [|discriminate]. inversion HS; subst; simpl in *.
    exfalso. apply HN. eapply remove1_sub; eauto.
  - inversion HS; subst. contradiction.
  - inversion HS; subst. contradiction.
  - destruct (existsb _ _); [discriminate|]. inversion HS; subst; simpl in *. contradiction.
  - destruct (_ && _); [|discriminate]. inversion HS; subst; simpl in *. contradiction.
  - destruct (memb _ _ _); [|discriminate]. inversion HS; subst; simpl in *. contradiction.
Qed.

(* a hold disappears only through the matching release *)
Lemma step_held_loss s e s' h :
  step s e = Some s' -> In h (held s) -> ~ In h (held s') ->
  exists l t m, h = (l, t, m) /\ e = (t, ERel m l).
Proof.
  destruct e as [t a]. destruct a; simpl; intros HS HI HN.
  - destruct (can_acq (held s) l m); [|discriminate]. inversion HS; subst; simpl in *.
    exfalso. apply HN. right. assumption.
  - destruct (remove1 (l, t, m) (held s)) as [h'|] eqn:R; [|discriminate]. inversion HS; subst; simpl in *.
    destruct (hold_eqb h (l, t, m)) eqn:E.
    + apply hold_eqb_eq in E. subst. exists l, t, m. auto.
    + exfalso. apply HN. eapply remove1_other; eauto. intros ->.
      assert (hold_eqb (l, t, m) (l, t, m) = true) by (apply hold_eqb_eq; reflexivity). congruence.
  - inversion HS; subst. contradiction.
  - inversion HS; subst. contradiction.
  - destruct (existsb _ _); [discriminate|]. inversion HS; subst; simpl in *. contradiction.
  - destruct (_ && _); [|discriminate]. inversion HS; subst; simpl in *. contradiction.
  - destruct (memb _ _ _); [|discriminate]. inversion HS; subst; simpl in *. contradiction.
Qed.

(* an acquire is enabled only when no conflicting hold exists *)
Lemma acq_enabled_compat s t' m' l s' t m :
  step s (t', EAcq m' l) = Some s' -> In (l, t, m) (held s) -> (m = MW \/ m' = MW) -> False.
Proof.
  simpl. intros HS HI HM. destruct (can_acq (held s) l m') eqn:C; [|discriminate].
  unfold can_acq in C. rewrite forallb_forall in C. specialize (C _ HI). simpl in C.
  rewrite String.eqb_refl in C. simpl in C.
  destruct m, m'; simpl in C; try discriminate. destruct HM; discriminate.
Qed.

(* ---------- positions of the acquire before, and the release after ---------- *)
Lemma acq_point tr j h :
  In h (held (st tr j)) ->
  exists p l t m, h = (l, t, m) /\ p < j /\ nth_error tr p = Some (t, EAcq m l) /\
                  forall k, p < k -> k <= j -> In h (held (st tr k)).
Proof.
  induction j as [|j IH]; intros HI.
  - rewrite st_0 in HI. simpl in HI. contradiction.
  - destruct (heldb h (st tr j)) eqn:Hj.
    + apply heldb_In in Hj. destruct (IH Hj) as [p [l [t [m [E [Hp [Hn Hk]]]]]]].
      exists p, l, t, m. repeat split; auto.
      intros k H1 H2. destruct (Nat.eq_dec k (S j)) as [->|]; [assumption | apply Hk; lia].
    + assert (Hn : ~ In h (held (st tr j))).
      { intros H. apply heldb_In in H. congruence. }
      assert (Hc : st tr (S j) <> st tr j) by (intros Heq; rewrite Heq in HI; contradiction).
      destruct (st_change _ _ Hc) as [e [s' [He [Hs Hs']]]]. rewrite Hs' in HI.
      destruct (step_held_gain _ _ _ _ Hs HI Hn) as [l [t [m [-> ->]]]].
      exists j, l, t, m. repeat split; auto.
      intros k H1 H2. assert (k = S j) by lia. subst k. rewrite Hs'. assumption.
Qed.

Lemma rel_point tr i p h :
  i <= p -> In h (held (st tr i)) -> ~ In h (held (st tr p)) ->
  exists k l t m, h = (l, t, m) /\ i <= k /\ k < p /\ nth_error tr k = Some (t, ERel m l).
Proof.
  intros Hle Hi Hp.
  destruct (flip_down (heldb h) tr i p Hle) as [k [H1 [H2 [H3 H4]]]].
  - apply heldb_In. assumption.
  - destruct (heldb h (st tr p)) eqn:E; [|reflexivity]. apply heldb_In in E. contradiction.
  - apply heldb_In in H3.
    assert (Hn : ~ In h (held (st tr (S k)))) by (intros H; apply heldb_In in H; congruence).
    assert (Hc : st tr (S k) <> st tr k) by (intros Heq; rewrite Heq in Hn; contradiction).
    destruct (st_change _ _ Hc) as [e [s' [He [Hs Hs']]]]. rewrite Hs' in Hn.
    destruct (step_held_loss _ _ _ _ Hs H3 Hn) as [l [t [m [-> ->]]]].
    exists k, l, t, m. auto.
Qed.

(* ================================================================ happens-before chains *)
Lemma hb_step tr i j : hb1 tr i j -> hb tr i j.
Proof. apply t_step. Qed.
Lemma hb_trans tr i j k : hb tr i j -> hb tr j k -> hb tr i k.
Proof. apply t_trans. Qed.

(* Two threads hold the same lock, at least one of them exclusively, at two different moments:
   the earlier moment happens before the later one. *)
Lemma lock_order tr i j t t' a b l mi mj :
  valid tr -> i < j -> t <> t' ->
  nth_error tr i = Some (t, a) -> nth_error tr j = Some (t', b) ->
  (forall m l', a <> ERel m l') ->
  In (l, t, mi) (held (st tr i)) -> In (l, t', mj) (held (st tr j)) ->
  (mi = MW \/ mj = MW) ->
  hb tr i j.
Proof.
  intros V Hij Htt Hi Hj Hnrel HIi HIj HM.
  destruct (acq_point _ _ _ HIj) as [p [l0 [t0 [m0 [E [Hp [Hnp Hkp]]]]]]].
  inversion E; subst l0 t0 m0; clear E.
  assert (Vp := V _ _ Hnp).
  destruct (step (st tr p) (t', EAcq mj l)) as [sp|] eqn:Sp; [|congruence].
  destruct (Nat.lt_trichotomy p i) as [Hlt|[Heq|Hgt]].
  - (* t' acquired before i and still holds at i; t must have acquired in between or before: both impossible *)
    exfalso.
    assert (HIt' : In (l, t', mj) (held (st tr i))) by (apply Hkp; lia).
    destruct (acq_point _ _ _ HIi) as [q [l0 [t0 [m0 [E [Hq [Hnq Hkq]]]]]]].
    inversion E; subst l0 t0 m0; clear E.
    assert (Vq := V _ _ Hnq).
    destruct (step (st tr q) (t, EAcq mi l)) as [sq|] eqn:Sq; [|congruence].
    destruct (Nat.lt_trichotomy p q) as [H|[H|H]].
    + (* t acquires at q while t' holds *)
      assert (In (l, t', mj) (held (st tr q))) by (apply Hkp; lia).
      eapply (acq_enabled_compat _ _ _ _ _ _ _ Sq); eauto. tauto.
    + subst q. rewrite Hnp in Hnq. inversion Hnq. congruence.
    + (* t' acquires at p while t holds *)
      assert (In (l, t, mi) (held (st tr p))) by (apply Hkq; lia).
      eapply (acq_enabled_compat _ _ _ _ _ _ _ Sp); eauto.
  - subst p. rewrite Hi in Hnp. inversion Hnp. congruence.
  - (* the acquire of t' is after i: t released in between *)
    assert (Hnot : ~ In (l, t, mi) (held (st tr p))).
    { intros H. eapply (acq_enabled_compat _ _ _ _ _ _ _ Sp); eauto. }
    destruct (rel_point tr i p _ (Nat.lt_le_incl _ _ Hgt) HIi Hnot) as [k [l0 [t0 [m0 [E [H1 [H2 Hnk]]]]]]].
    inversion E; subst l0 t0 m0; clear E.
    assert (i <> k). { intros ->. rewrite Hi in Hnk. inversion Hnk. eapply Hnrel; eauto. }
    eapply hb_trans; [apply hb_step; eapply hb_po with (i := i) (j := k); eauto; lia|].
    eapply hb_trans; [apply hb_step; eapply hb_lock with (i := k) (j := p); eauto|].
    apply hb_step. eapply hb_po with (i := p) (j := j); eauto.
Qed.

(* ================================================================ once objects *)
Record wf (s : tst) : Prop := mkWf {
  wf_starter : forall o t t', In (o, t) (started s) -> In (o, t') (started s) -> t = t';
  wf_completed : forall t o, In (t, o) (completed s) -> In o (finished s)
}.

Lemma wf0 : wf tst0.
Proof. split; simpl; intros; contradiction. Qed.

Lemma step_wf s e s' : wf s -> step s e = Some s' -> wf s'.
Proof.
  intros [W1 W2]. destruct e as [t a]. destruct a; simpl; intros HS.
  - destruct (can_acq _ _ _); [|discriminate]. inversion HS; subst. split; simpl; auto.
  - destruct (remove1 _ _); [|discriminate]. inversion HS; subst. split; simpl; auto.
  - inversion HS; subst. split; auto.
  - inversion HS; subst. split; auto.
  - destruct (existsb (fun p => String.eqb (fst p) o) (started s)) eqn:E; [discriminate|].
    inversion HS; subst. split; simpl; auto.
    assert (Hno : forall t0, ~ In (o, t0) (started s)).
    { intros t0 HI. assert (existsb (fun p : string * tid => String.eqb (fst p) o) (started s) = true).
      { apply existsb_exists. exists (o, t0). split; [assumption | apply String.eqb_refl]. }
      congruence. }
    intros o0 t0 t0' [H1|H1] [H2|H2].
    + inversion H1; inversion H2; subst; reflexivity.
    + inversion H1; subst. exfalso. eapply Hno; eauto.
    + inversion H2; subst. exfalso. eapply Hno; eauto.
    + eapply W1; eauto.
  - destruct (_ && _); [|discriminate]. inversion HS; subst. split; simpl; auto.
    intros t0 o0 [H|H]; [inversion H; subst; left; reflexivity | right; eapply W2; eauto].
  - destruct (memb String.eqb o (finished s)) eqn:E; [|discriminate]. inversion HS; subst. split; simpl; auto.
    intros t0 o0 [H|H]; [inversion H; subst; apply (memb_In _ String.eqb_eq); assumption | eapply W2; eauto].
Qed.

Lemma st_wf tr k : wf (st tr k).
Proof.
  induction k as [|k IH]; [apply wf0|].
  destruct (nth_error tr k) as [e|] eqn:E.
  - rewrite (st_S _ _ _ E). unfold step_total. destruct (step (st tr k) e) eqn:S; [eapply step_wf; eauto | assumption].
  - rewrite (st_past _ _ E). assumption.
Qed.

Lemma step_mono s e s' :
  step s e = Some s' ->
  incl (started s) (started s') /\ incl (finished s) (finished s') /\ incl (completed s) (completed s').
Proof.
  destruct e as [t a]. destruct a; simpl; intros HS.
  - destruct (can_acq _ _ _); [|discriminate]. inversion HS; subst; simpl. repeat split; apply incl_refl.
  - destruct (remove1 _ _); [|discriminate]. inversion HS; subst; simpl. repeat split; apply incl_refl.
  - inversion HS; subst. repeat split; apply incl_refl.
  - inversion HS; subst. repeat split; apply incl_refl.
  - destruct (existsb _ _); [discriminate|]. inversion HS; subst; simpl.
    repeat split; try apply incl_refl. apply incl_tl, incl_refl.
  - destruct (_ && _); [|discriminate]. inversion HS; subst; simpl.
    repeat split; try apply incl_refl; apply incl_tl, incl_refl.
  - destruct (memb _ _ _); [|discriminate]. inversion HS; subst; simpl.
    repeat split; try apply incl_refl; apply incl_tl, incl_refl.
Qed.

Lemma st_mono tr i j :
  i <= j ->
  incl (started (st tr i)) (started (st tr j)) /\ incl (finished (st tr i)) (finished (st tr j)) /\
  incl (completed (st tr i)) (completed (st tr j)).
Proof.
  induction j as [|j IH]; intros Hle.
  - assert (i = 0) by lia. subst. repeat split; apply incl_refl.
  - destruct (Nat.eq_dec i (S j)) as [->|Hne]; [repeat split; apply incl_refl|].
    destruct IH as [I1 [I2 I3]]; [lia|].
    destruct (nth_error tr j) as [e|] eqn:E.
    + rewrite (st_S _ _ _ E). unfold step_total. destruct (step (st tr j) e) eqn:S; [|auto].
      destruct (step_mono _ _ _ S) as [J1 [J2 J3]].
      repeat split; eapply incl_tran; eauto.
    + rewrite (st_past _ _ E). auto.
Qed.

Lemma once_one_runner tr i j o t t' :
  In (o, t) (started (st tr i)) -> In (o, t') (started (st tr j)) -> t = t'.
Proof.
  intros Hi Hj. destruct (Nat.le_ge_cases i j) as [H|H].
  - apply (wf_starter _ (st_wf tr j) o); [apply (proj1 (st_mono tr i j H)) |]; assumption.
  - apply (wf_starter _ (st_wf tr i) o); [| apply (proj1 (st_mono tr j i H))]; assumption.
Qed.

(* a thread's "Do returned" record appears only through its own EOEnd / EOSkip *)
Lemma step_completed_gain s e s' t o :
  step s e = Some s' -> In (t, o) (completed s') -> ~ In (t, o) (completed s) ->
  (e = (t, EOEnd o) /\ In (o, t) (started s)) \/ (e = (t, EOSkip o) /\ In o (finished s)).
Proof.
  destruct e as [t0 a]. destruct a; simpl; intros HS HI HN.
  - destruct (can_acq _ _ _); [|discriminate]. inversion HS; subst; simpl in *. contradiction.
  - destruct (remove1 _ _); [|discriminate]. inversion HS; subst; simpl in *. contradiction.
  - inversion HS; subst. contradiction.
  - inversion HS; subst. contradiction.
  - destruct (existsb _ _); [discriminate|]. inversion HS; subst; simpl in *. contradiction.
  - destruct (memb so_eqb (o0, t0) (started s)) eqn:E1; simpl in HS; [|discriminate].
    destruct (negb _); [|discriminate]. inversion HS; subst; simpl in *.
    destruct HI as [H|H]; [|contradiction]. inversion H; subst. left. split; [reflexivity|].
    apply (memb_In _ so_eqb_eq). assumption.
  - destruct (memb String.eqb o0 (finished s)) eqn:E1; [|discriminate]. inversion HS; subst; simpl in *.
    destruct HI as [H|H]; [|contradiction]. inversion H; subst. right. split; [reflexivity|].
    apply (memb_In _ String.eqb_eq). assumption.
Qed.

(* a once object becomes finished only through the EOEnd of the thread that started it *)
Lemma step_finished_gain s e s' o :
  step s e = Some s' -> In o (finished s') -> ~ In o (finished s) ->
  exists t, e = (t, EOEnd o) /\ In (o, t) (started s).
Proof.
  destruct e as [t0 a]. destruct a; simpl; intros HS HI HN.
  - destruct (can_acq _ _ _); [|discriminate]. inversion HS; subst; simpl in *. contradiction.
  - destruct (remove1 _ _); [|discriminate]. inversion HS; subst; simpl in *. contradiction.
  - inversion HS; subst. contradiction.
  - inversion HS; subst. contradiction.
  - destruct (existsb _ _); [discriminate|]. inversion HS; subst; simpl in *. contradiction.
  - destruct (memb so_eqb (o0, t0) (started s)) eqn:E1; simpl in HS; [|discriminate].
    destruct (negb _); [|discriminate]. inversion HS; subst; simpl in *.
    destruct HI as [H|H]; [|contradiction]. subst. exists t0. split; [reflexivity|].
    apply (memb_In _ so_eqb_eq). assumption.
  - destruct (memb _ _ _); [|discriminate]. inversion HS; subst; simpl in *. contradiction.
Qed.

(* An access made while running the body of o happens before every access another thread makes after
   its own Do(o) returned. *)
Lemma once_order tr i j t t' a b o :
  i < j -> t <> t' ->
  nth_error tr i = Some (t, a) -> nth_error tr j = Some (t', b) ->
  a <> EOEnd o ->
  In (o, t) (started (st tr i)) -> ~ In o (finished (st tr i)) ->
  In (t', o) (completed (st tr j)) ->
  hb tr i j.
Proof.
  intros Hij Htt Hi Hj Hna Hrun Hnf Hc.
  set (P := fun s => memb to_eqb (t', o) (completed s)).
  destruct (flip_up P tr 0 j (Nat.le_0_l _)) as [k [_ [Hkj [Pk PSk]]]].
  - reflexivity.
  - apply (memb_In _ to_eqb_eq). assumption.
  - unfold P in *. apply (memb_false _ to_eqb_eq) in Pk. apply (memb_In _ to_eqb_eq) in PSk.
    assert (Hchg : st tr (S k) <> st tr k) by (intros Heq; rewrite Heq in PSk; contradiction).
    destruct (st_change _ _ Hchg) as [e [s' [He [Hs Hs']]]]. rewrite Hs' in PSk.
    destruct (step_completed_gain _ _ _ _ _ Hs PSk Pk) as [[-> Hst]|[-> Hfin]].
    + (* t' itself ran the body: but t did *)
      exfalso. apply Htt. eapply once_one_runner; eauto.
    + (* t' skipped at k: the body had finished, so k is after i and t's EOEnd lies in between *)
      assert (Hik : i < k).
      { destruct (Nat.lt_trichotomy i k) as [H|[H|H]]; [assumption | |].
        - exfalso. subst k. pose proof (nth_inj _ _ _ _ Hi He) as X. inversion X. congruence.
        - exfalso. apply Hnf. apply (proj1 (proj2 (st_mono tr k i (Nat.lt_le_incl _ _ H)))). assumption. }
      set (Q := fun s => memb String.eqb o (finished s)).
      destruct (flip_up Q tr i k (Nat.lt_le_incl _ _ Hik)) as [k2 [H1 [H2 [Q1 Q2]]]].
      * unfold Q. apply (memb_false _ String.eqb_eq). assumption.
      * unfold Q. apply (memb_In _ String.eqb_eq). assumption.
      * unfold Q in *. apply (memb_false _ String.eqb_eq) in Q1. apply (memb_In _ String.eqb_eq) in Q2.
        assert (Hchg2 : st tr (S k2) <> st tr k2) by (intros Heq; rewrite Heq in Q2; contradiction).
        destruct (st_change _ _ Hchg2) as [e2 [s2 [He2 [Hs2 Hs2']]]]. rewrite Hs2' in Q2.
        destruct (step_finished_gain _ _ _ _ Hs2 Q2 Q1) as [t2 [-> Hst2]].
        assert (t2 = t) by (eapply once_one_runner; eauto). subst t2.
        assert (i <> k2). { intros ->. pose proof (nth_inj _ _ _ _ Hi He2) as X. inversion X. congruence. }
        eapply hb_trans; [apply hb_step; eapply hb_po with (i := i) (j := k2); eauto; lia|].
        eapply hb_trans; [apply hb_step; eapply hb_once with (i := k2) (j := k); eauto|].
        apply hb_step. eapply hb_po with (i := k) (j := j); eauto.
Qed.

(* ================================================================ the discipline on traces *)
Lemma disc_from_nth D tr : forall s k e,
  disc_from D s tr -> nth_error tr k = Some e ->
  acc_ok D (run s (firstn k tr)) e = true /\ step (run s (firstn k tr)) e <> None.
Proof.
  induction tr as [|e0 tr IH]; intros s k e HD HN.
  - destruct k; discriminate.
  - destruct HD as [Hok [s' [Hs HD']]]. destruct k as [|k]; simpl in *.
    + inversion HN; subst. split; [assumption | congruence].
    + assert (Est : step_total s e0 = s') by (unfold step_total; rewrite Hs; reflexivity).
      unfold run in *. simpl. rewrite Est. apply IH; assumption.
Qed.

Lemma disc_valid D tr : disc_from D tst0 tr -> valid tr.
Proof. intros HD k e HN. apply (disc_from_nth D tr tst0 k e HD HN). Qed.

Lemma dsat_write_read s t p : dsat_write s t p = true -> dsat_read s t p = true.
Proof. destruct p; simpl; intros H; rewrite H; reflexivity. Qed.

(* two conflicting accesses that both obey the discipline share a protection that the write(s) satisfy
   in write mode *)
Lemma common_prot ps s1 t1 s2 t2 (w1 w2 : bool) :
  (w1 = true \/ w2 = true) ->
  (if w1 then dwrite_ok ps s1 t1 else dread_ok ps s1 t1) = true ->
  (if w2 then dwrite_ok ps s2 t2 else dread_ok ps s2 t2) = true ->
  exists p, dsat_read s1 t1 p = true /\ dsat_read s2 t2 p = true /\
            (w1 = true -> dsat_write s1 t1 p = true) /\ (w2 = true -> dsat_write s2 t2 p = true).
Proof.
  unfold dwrite_ok, dread_ok. intros HW H1 H2.
  destruct w1, w2.
  - apply Bool.andb_true_iff in H1, H2. destruct H1 as [N1 A1], H2 as [N2 A2].
    destruct ps as [|p ps]; [discriminate|]. simpl in A1, A2.
    apply Bool.andb_true_iff in A1, A2. destruct A1 as [A1 _], A2 as [A2 _].
    exists p. repeat split; auto using dsat_write_read.
  - apply Bool.andb_true_iff in H1. destruct H1 as [N1 A1].
    destruct ps as [|p0 ps0] eqn:E; [discriminate|]. rewrite <- E in *.
    assert (is_nil ps = false) by (rewrite E; reflexivity). rewrite H in H2. simpl in H2.
    apply existsb_exists in H2. destruct H2 as [p [Hin Hp]].
    rewrite forallb_forall in A1. specialize (A1 _ Hin).
    exists p. repeat split; auto using dsat_write_read; discriminate.
  - apply Bool.andb_true_iff in H2. destruct H2 as [N2 A2].
    destruct ps as [|p0 ps0] eqn:E; [discriminate|]. rewrite <- E in *.
    assert (is_nil ps = false) by (rewrite E; reflexivity). rewrite H in H1. simpl in H1.
    apply existsb_exists in H1. destruct H1 as [p [Hin Hp]].
    rewrite forallb_forall in A2. specialize (A2 _ Hin).
    exists p. repeat split; auto using dsat_write_read; discriminate.
  - destruct HW; discriminate.
Qed.

Lemma acc_ok_unfold D s t a x w :
  acc_of a = Some (x, w) ->
  acc_ok D s (t, a) = (if w then dwrite_ok (D x) s t else dread_ok (D x) s t).
Proof. destruct a; simpl; intros H; inversion H; subst; reflexivity. Qed.

(* Trace-level soundness: a valid trace on which every access obeys the discipline has no race. *)
Theorem discipline_sound_trace D tr : disc_from D tst0 tr -> ~ race tr.
Proof.
  intros HD [i [j [t [t' [a [b [x [wi [wj [Hij [Hi [Hj [Htt [Ha [Hb [HW Hnhb]]]]]]]]]]]]]]]].
  assert (V := disc_valid _ _ HD).
  destruct (disc_from_nth D tr tst0 i _ HD Hi) as [Oi _].
  destruct (disc_from_nth D tr tst0 j _ HD Hj) as [Oj _].
  fold (st tr i) in Oi. fold (st tr j) in Oj.
  rewrite (acc_ok_unfold _ _ _ _ _ _ Ha) in Oi. rewrite (acc_ok_unfold _ _ _ _ _ _ Hb) in Oj.
  destruct (common_prot _ _ _ _ _ _ _ HW Oi Oj) as [p [Ri [Rj [Wi Wj]]]].
  assert (Hnrel : forall m l', a <> ERel m l') by (intros m l' ->; discriminate).
  apply Hnhb. destruct p as [l|o]; simpl in *.
  - (* a common lock *)
    assert (Hmi : exists mi, In (l, t, mi) (held (st tr i)) /\ (wi = true -> mi = MW)).
    { destruct (memb hold_eqb (l, t, MW) (held (st tr i))) eqn:E.
      - exists MW. split; [apply (memb_In _ hold_eqb_eq); assumption | auto].
      - simpl in Ri. exists MR. split; [apply (memb_In _ hold_eqb_eq); assumption|].
        intros Hw. specialize (Wi Hw). congruence. }
    assert (Hmj : exists mj, In (l, t', mj) (held (st tr j)) /\ (wj = true -> mj = MW)).
    { destruct (memb hold_eqb (l, t', MW) (held (st tr j))) eqn:E.
      - exists MW. split; [apply (memb_In _ hold_eqb_eq); assumption | auto].
      - simpl in Rj. exists MR. split; [apply (memb_In _ hold_eqb_eq); assumption|].
        intros Hw. specialize (Wj Hw). congruence. }
    destruct Hmi as [mi [Hhi Hwi]], Hmj as [mj [Hhj Hwj]].
    eapply lock_order; eauto. destruct HW; [left | right]; auto.
  - (* a common once object *)
    assert (Hne : a <> EOEnd o) by (intros ->; discriminate).
    assert (Run : forall s tt, memb so_eqb (o, tt) (started s) && negb (memb String.eqb o (finished s)) = true ->
                               In (o, tt) (started s) /\ ~ In o (finished s)).
    { intros s tt H. apply Bool.andb_true_iff in H. destruct H as [H1 H2]. split.
      - apply (memb_In _ so_eqb_eq). assumption.
      - apply (memb_false _ String.eqb_eq). destruct (memb String.eqb o (finished s)); simpl in *; congruence. }
    destruct HW as [Hw|Hw].
    + destruct (Run _ _ (Wi Hw)) as [S1 F1].
      apply Bool.orb_true_iff in Rj. destruct Rj as [Rj|Rj].
      * destruct (Run _ _ Rj) as [S2 _]. exfalso. apply Htt. eapply once_one_runner; eauto.
      * apply (memb_In _ to_eqb_eq) in Rj. eapply once_order; eauto.
    + destruct (Run _ _ (Wj Hw)) as [S2 F2].
      apply Bool.orb_true_iff in Ri. destruct Ri as [Ri|Ri].
      * destruct (Run _ _ Ri) as [S1 _]. exfalso. apply Htt. eapply once_one_runner; eauto.
      * apply (memb_In _ to_eqb_eq) in Ri. exfalso. apply F2.
        apply (proj1 (proj2 (st_mono tr i j (Nat.lt_le_incl _ _ Hij)))).
        eapply wf_completed; [apply st_wf | eassumption].
Qed.
