(* C12: totality of nameReferenceTransformer.Transform (Res/NameRef.v, owner C03).
   The model's Panic sources are exactly two:
     (P1) Resource.PrevIds on CSV build annotations of unequal length (finding F7a);
     (P2) FieldSetter{StringValue: ""}: a selected candidate whose current name is empty
          (set_string_scalar / set_string_field) - no finding: every resource that enters a build
          has passed GetValidatedMetadata (non-empty metadata.name).
   Proved here: never Diverge; P1 anywhere in the resource list makes the transformer panic;
   without P1 and with non-empty names it is safe, for every rule table that does not write the
   identity fields ([rule_ok], which the generated table satisfies: C03Facts.gen_rule_ok). *)
From KV Require Import Yaml.Fns Yaml.FieldSpec Yaml.TotalityProofs Glob.TotalityMore.
From KV Require Import Res.Resource Res.NameRef Res.NameRefProofs Res.RewriteProofs.

Section NR.
  Variable cs : string -> string -> bool.
  Variable nonstr : string -> bool.

  (* ---- the primitives ---- *)
  Lemma prev_ids_ok_or_panic r : (exists l, prev_ids r = Ok l) \/ prev_ids r = Panic.
  Proof.
    unfold prev_ids. destruct (r_pnames r); [|eauto].
    destruct (_ && _); [destruct (parse_group_version _); eauto|auto].
  Qed.

  Lemma safe_view r : prev_ids r <> Panic -> safe (view cs r).
  Proof.
    intros H. unfold view. destruct (prev_ids_ok_or_panic r) as [[l E]|E]; [|congruence].
    rewrite E. cbn. apply safe_ok.
  Qed.

  Lemma view_name r c : view cs r = Ok c -> c_name c = get_name (r_node r).
  Proof.
    unfold view. destruct (prev_ids r); cbn; intros H; try discriminate. inversion H; reflexivity.
  Qed.

  Lemma safe_org_id r : prev_ids r <> Panic -> safe (org_id cs r).
  Proof.
    intros H. unfold org_id. destruct (prev_ids_ok_or_panic r) as [[l E]|E]; [|congruence].
    rewrite E. cbn. destruct l; apply safe_ok.
  Qed.

  Lemma org_id_panic r : prev_ids r = Panic -> org_id cs r = Panic.
  Proof. intros E. unfold org_id. rewrite E. reflexivity. Qed.

  Lemma org_id_ok_or_panic r : (exists x, org_id cs r = Ok x) \/ org_id cs r = Panic.
  Proof.
    unfold org_id. destruct (prev_ids_ok_or_panic r) as [[l E]|E]; rewrite E; cbn; auto.
    destruct l; eauto.
  Qed.

  Definition named (c : cand) : Prop := c_name c <> "".

  Lemma safe_set_string_scalar v n : v <> "" -> safe (set_string_scalar v n).
  Proof.
    intros H. unfold set_string_scalar. destruct (String.eqb v "") eqn:E.
    - apply String.eqb_eq in E. contradiction.
    - apply safe_set_scalar.
  Qed.
  Lemma safe_set_string_field name v n : v <> "" -> safe (set_string_field nonstr name v n).
  Proof.
    intros H. unfold set_string_field. destruct (String.eqb v "") eqn:E.
    - apply String.eqb_eq in E. contradiction.
    - apply safe_set_field.
  Qed.

  Lemma select_in x old l identical c :
    select_referral x old l identical = Ok (Some c) -> In c l.
  Proof. intros H. apply select_referral_in in H. apply sieve4_sound in H. tauto. Qed.

  Lemma mapping_cands_sub kvs cands c : In c (mapping_cands kvs cands) -> In c cands.
  Proof.
    unfold mapping_cands, by_namespace. destruct (find_field "namespace" kvs) as [nsn|]; [|auto].
    destruct (is_null nsn || String.eqb (node_value nsn) ""); [auto|].
    destruct (String.eqb _ _); [contradiction|].
    destruct (filter _ cands) eqn:E.
    - intros H. apply filter_In in H. tauto.
    - rewrite <- E. intros H. apply filter_In in H. tauto.
  Qed.

  Lemma safe_nr_set_scalar x cands n : Forall named cands -> safe (nr_set_scalar x cands n).
  Proof.
    intros Hc. unfold nr_set_scalar. apply safe_bind; [apply safe_select_referral|].
    intros [c|] E; [|apply safe_ok]. destruct (String.eqb _ _); [apply safe_ok|].
    apply safe_set_string_scalar. apply select_in in E. rewrite Forall_forall in Hc. exact (Hc c E).
  Qed.

  Lemma safe_nr_set_mapping x cands n : Forall named cands -> safe (nr_set_mapping nonstr x cands n).
  Proof.
    intros Hc. unfold nr_set_mapping. destruct n as [t s v|kvs|es]; try apply safe_err.
    destruct (find_field "name" kvs) as [nn|]; [|apply safe_err].
    apply safe_bind; [apply safe_select_referral|].
    intros [c|] E; [|apply safe_ok]. destruct (_ && _); [apply safe_ok|].
    assert (Hn : c_name c <> "").
    { apply select_in in E. apply mapping_cands_sub in E. rewrite Forall_forall in Hc. exact (Hc c E). }
    apply safe_bind'; [apply safe_set_string_field; exact Hn|].
    intros n1. destruct (String.eqb (c_ns c) "") eqn:En; [apply safe_ok|].
    apply safe_set_string_field. intros Z. rewrite Z in En. discriminate.
  Qed.

  Lemma safe_nr_set x cands n : Forall named cands -> safe (nr_set nonstr x cands n).
  Proof.
    intros Hc. unfold nr_set. destruct (is_null n); [apply safe_ok|].
    destruct n as [t s v|kvs|es].
    - apply safe_nr_set_scalar; auto.
    - apply safe_nr_set_mapping; auto.
    - apply safe_bind'; [|intros; apply safe_ok]. apply safe_mapM. intros e.
      unfold nr_set_elem. destruct (is_null e); [apply safe_ok|].
      destruct e; [apply safe_nr_set_scalar|apply safe_nr_set_mapping|apply safe_err]; auto.
  Qed.

  Lemma safe_apply_rule cands fs tg r : Forall named cands -> safe (apply_rule cs nonstr cands fs tg r).
  Proof.
    intros Hc. unfold apply_rule. apply safe_bind'; [|intros; apply safe_ok].
    apply safe_fs_filter. intros n. apply safe_nr_set. exact Hc.
  Qed.

  Lemma safe_rb_subject_namespaces es : safe (rb_subject_namespaces es).
  Proof.
    induction es as [|e t IH]; cbn; [apply safe_ok|].
    destruct e as [a b c|kvs|l]; try apply safe_err.
    apply safe_bind'; [|intros; apply safe_bind'; [exact IH|intros; apply safe_ok]].
    destruct (find_field "namespace" kvs) as [ns|]; [|apply safe_ok].
    destruct (find_field "kind" kvs) as [k|]; [|apply safe_ok].
    destruct (_ && _); [|apply safe_ok]. destruct (is_string_scalar ns); [apply safe_ok|apply safe_err].
  Qed.

  Lemma safe_referencable m r : safe (referencable cs m r).
  Proof.
    unfold referencable. destruct (id_cluster_scoped _); [apply safe_ok|].
    apply safe_bind'; [|intros; apply safe_ok].
    unfold rolebinding_namespaces. destruct (negb _); [apply safe_ok|].
    destruct (map_field_value "subjects" _) as [[a b c|kvs|es]|]; try apply safe_ok.
    apply safe_rb_subject_namespaces.
  Qed.

  (* ---- the invariant: every resource has well-formed CSV annotations and a non-empty name ---- *)
  Definition good (r : resource) : Prop := prev_ids r <> Panic /\ get_name (r_node r) <> "".

  Lemma prev_ids_panic_bookkeeping r r' :
    same_bookkeeping r r' -> prev_ids r' = Panic -> prev_ids r = Panic.
  Proof.
    intros (B1 & B2 & B3 & _). unfold prev_ids. rewrite B1, B2, B3.
    destruct (r_pnames r); [|discriminate].
    destruct (_ && _); [destruct (parse_group_version _), (parse_group_version _); discriminate|auto].
  Qed.

  Lemma good_same r r' : same_identity r r' -> good r -> good r'.
  Proof.
    intros [Hi Hb] [G1 G2]. split.
    - intros E. apply G1. eapply prev_ids_panic_bookkeeping; eauto.
    - unfold ident in Hi. inversion Hi as [[Ha Hk Hn Hns]]. rewrite Hn. exact G2.
  Qed.

  Lemma select_by_incl {A} flags (l : list A) x : In x (select_by flags l) -> In x l.
  Proof.
    revert l. induction flags as [|[|] f IH]; intros [|y l]; cbn; try tauto.
    - intros [->|H]; auto.
    - intros H. right. auto.
  Qed.

  Lemma safe_views l : Forall good l ->
    safe (mapM (view cs) l) /\ forall cands, mapM (view cs) l = Ok cands -> Forall named cands.
  Proof.
    induction 1 as [|r t [G1 G2] Ht [IH1 IH2]]; cbn.
    - split; [apply safe_ok|]. intros cands E. inversion E. constructor.
    - split.
      + apply safe_bind'; [apply safe_view; auto|]. intros c. apply safe_bind'; [exact IH1|intros; apply safe_ok].
      + intros cands E. destruct (view cs r) as [c| | |] eqn:V; cbn in E; try discriminate.
        destruct (mapM (view cs) t) as [cs'| | |]; cbn in E; try discriminate. inversion E; subst.
        constructor; [|apply IH2; reflexivity]. unfold named. rewrite (view_name _ _ V). exact G2.
  Qed.

  Lemma safe_apply_rules mb ma flags : forall fl r,
    Forall (fun p => rule_ok (fst p)) fl -> Forall good mb -> Forall good ma -> good r ->
    safe (apply_rules cs nonstr mb ma flags fl r) /\
    forall r', apply_rules cs nonstr mb ma flags fl r = Ok r' -> good r'.
  Proof.
    induction fl as [|[fs tg] t IH]; intros r Hok Hmb Hma Hr; cbn [apply_rules].
    - split; [apply safe_ok|]. intros r' E. inversion E; subst; auto.
    - inversion Hok as [|? ? H1 H2]; subst. cbn [fst] in H1.
      assert (Hsel : Forall good (select_by flags (mb ++ r :: ma)%list)).
      { apply Forall_forall. intros y Hy. apply select_by_incl in Hy. apply in_app_or in Hy.
        destruct Hy as [Hy|[Hy|Hy]].
        - eapply Forall_forall in Hmb; eauto.
        - subst y. exact Hr.
        - eapply Forall_forall in Hma; eauto. }
      destruct (safe_views _ Hsel) as [Sv Nv].
      split.
      + apply safe_bind; [exact Sv|]. intros cands Ec.
        apply safe_bind; [apply safe_apply_rule; auto|]. intros r1 E1.
        assert (G1 : good r1) by (eapply good_same; [eapply apply_rule_identity; eauto|auto]).
        exact (proj1 (IH r1 H2 Hmb Hma G1)).
      + intros r' E. destruct (mapM (view cs) _) as [cands| | |]; cbn [bind] in E; try discriminate.
        destruct (apply_rule cs nonstr cands fs tg r) as [r1| | |] eqn:E1; cbn [bind] in E; try discriminate.
        assert (G1 : good r1) by (eapply good_same; [eapply apply_rule_identity; eauto|auto]).
        exact (proj2 (IH r1 H2 Hmb Hma G1) r' E).
  Qed.

  Lemma safe_transform_loop : forall filters done todo,
    Forall (Forall (fun p => rule_ok (fst p))) filters -> Forall good done -> Forall good todo ->
    safe (transform_loop cs nonstr filters done todo).
  Proof.
    induction filters as [|fl filters IH]; intros done todo Hok Hd Ht.
    - destruct todo; cbn; apply safe_ok.
    - inversion Hok as [|? ? Hfl Hrest]; subst.
      destruct todo as [|r t]; cbn [transform_loop]; [apply safe_ok|].
      inversion Ht as [|? ? Hr Htt]; subst.
      destruct fl as [|f0 fl'].
      + apply IH; auto. apply Forall_app. split; auto.
      + apply safe_bind'; [apply safe_referencable|]. intros flags.
        destruct (safe_apply_rules done t flags (f0 :: fl') r Hfl Hd Htt Hr) as [S G].
        apply safe_bind; [exact S|]. intros r' E. apply IH; auto.
        apply Forall_app. split; auto.
  Qed.

  (* ---- the three statements ---- *)

  (* never Diverge: no hypothesis at all *)
  Lemma nd_bind {X Y} (w : res X) (f : X -> res Y) :
    w <> Diverge -> (forall a, f a <> Diverge) -> bind w f <> Diverge.
  Proof. intros Hw Hf. destruct w; cbn; try discriminate; auto. Qed.

  Lemma nd_mapM {X Y} (f : X -> res Y) l : (forall x, f x <> Diverge) -> mapM f l <> Diverge.
  Proof.
    intros Hf. induction l as [|x t IH]; cbn; [discriminate|].
    apply nd_bind; auto. intros y. apply nd_bind; auto. discriminate.
  Qed.

  Lemma view_nd r : view cs r <> Diverge.
  Proof. unfold view. destruct (prev_ids_ok_or_panic r) as [[l E]|E]; rewrite E; cbn; discriminate. Qed.

  Lemma set_string_scalar_nd v n : set_string_scalar v n <> Diverge.
  Proof. unfold set_string_scalar. destruct (String.eqb v ""); [discriminate|apply safe_set_scalar]. Qed.
  Lemma set_string_field_nd name v n : set_string_field nonstr name v n <> Diverge.
  Proof. unfold set_string_field. destruct (String.eqb v ""); [discriminate|apply safe_set_field]. Qed.

  Lemma nr_set_nd x cands n : nr_set nonstr x cands n <> Diverge.
  Proof.
    assert (S : forall m, nr_set_scalar x cands m <> Diverge).
    { intros m. unfold nr_set_scalar. apply nd_bind; [apply safe_select_referral|].
      intros [c|]; [|discriminate]. destruct (String.eqb _ _); [discriminate|apply set_string_scalar_nd]. }
    assert (M : forall m, nr_set_mapping nonstr x cands m <> Diverge).
    { intros m. unfold nr_set_mapping. destruct m as [t s v|kvs|es]; try discriminate.
      destruct (find_field "name" kvs); [|discriminate].
      apply nd_bind; [apply safe_select_referral|]. intros [c|]; [|discriminate].
      destruct (_ && _); [discriminate|]. apply nd_bind; [apply set_string_field_nd|].
      intros n1. destruct (String.eqb _ _); [discriminate|apply set_string_field_nd]. }
    unfold nr_set. destruct (is_null n); [discriminate|]. destruct n as [t s v|kvs|es]; auto.
    apply nd_bind; [|discriminate]. apply nd_mapM. intros e. unfold nr_set_elem.
    destruct (is_null e); [discriminate|]. destruct e; auto. discriminate.
  Qed.

  Lemma apply_rules_nd mb ma flags : forall fl r, apply_rules cs nonstr mb ma flags fl r <> Diverge.
  Proof.
    induction fl as [|[fs tg] t IH]; intros r; cbn [apply_rules]; [discriminate|].
    apply nd_bind; [apply nd_mapM; apply view_nd|]. intros cands.
    apply nd_bind; [|intros; apply IH].
    unfold apply_rule. apply nd_bind; [|discriminate]. apply fs_filter_no_diverge. intros n. apply nr_set_nd.
  Qed.

  Lemma transform_loop_nd : forall filters done todo, transform_loop cs nonstr filters done todo <> Diverge.
  Proof.
    induction filters as [|fl filters IH]; intros done todo.
    - destruct todo; cbn; discriminate.
    - destruct todo as [|r t]; cbn [transform_loop]; [discriminate|].
      destruct fl; [apply IH|].
      apply nd_bind; [apply safe_referencable|]. intros flags.
      apply nd_bind; [apply apply_rules_nd|intros; apply IH].
  Qed.

  Theorem nameref_transform_no_diverge rules m : nameref_transform cs nonstr rules m <> Diverge.
  Proof.
    unfold nameref_transform. apply nd_bind; [|intros; apply transform_loop_nd].
    apply nd_mapM. intros r. destruct (org_id_ok_or_panic r) as [[x E]|E]; rewrite E; discriminate.
  Qed.

  (* P1 is a certain panic: a resource with ill-formed CSV annotations anywhere in the list *)
  Theorem nameref_transform_panics_on_bad_csv rules m :
    (exists r, In r m /\ prev_ids r = Panic) -> nameref_transform cs nonstr rules m = Panic.
  Proof.
    intros (r & Hin & Hp). unfold nameref_transform.
    assert (E : mapM (org_id cs) m = Panic).
    { clear rules. induction m as [|a t IH]; [contradiction|]. cbn [mapM].
      destruct Hin as [->|Hin].
      - rewrite (org_id_panic _ Hp). reflexivity.
      - destruct (org_id_ok_or_panic a) as [[x E]|E]; rewrite E; cbn [bind]; [|reflexivity].
        rewrite (IH Hin). reflexivity. }
    rewrite E. reflexivity.
  Qed.

  (* without P1 and P2: Ok or Err *)
  Theorem nameref_transform_safe rules m :
    (forall b f, In b rules -> In f (nb_referrers b) -> rule_ok f) ->
    (forall r, In r m -> prev_ids r <> Panic) ->
    (forall r, In r m -> get_name (r_node r) <> "") ->
    safe (nameref_transform cs nonstr rules m).
  Proof.
    intros Hok H1 H2. unfold nameref_transform.
    assert (Hg : Forall good m) by (apply Forall_forall; intros r Hr; split; auto).
    apply safe_bind.
    - clear -Hg. induction Hg as [|r t [G1 G2] Ht IH]; cbn; [apply safe_ok|].
      apply safe_bind'; [apply safe_org_id; auto|]. intros x. apply safe_bind'; [exact IH|intros; apply safe_ok].
    - intros orgs _. apply safe_transform_loop; auto.
      apply Forall_forall. intros fl Hin. apply in_map_iff in Hin as (org & <- & _).
      apply filters_for_ok. assumption.
  Qed.
End NR.
