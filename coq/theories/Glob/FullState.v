(* C01, state half — the FULL vector of package-level state that a build can write (every variable the globals
   translator lists as GMutable, Gen/Globals.v), and history independence over it.

   variable                                           treatment
   kyaml/openapi.{kubernetesOpenAPIVersion,           the OpenAPI state machine [ost] (Glob/OpenApiState.v)
     customSchema, globalSchema}
   api/internal/plugins/builtinconfig.defaultConfig   [g_defcfg]: None until the first MakeDefaultConfig, then the parsed
                                                      compile-time constant; builds only ever receive DeepCopy()s of it
                                                      (Gen_deepcopy_ok), so what they observe is the constant
   api/internal/plugins/loader.registry               written only by loadGoPlugin (Go plugins: disabled by the default
                                                      options, outside the property's trees): not written by a build
   kyaml/fieldmeta.shortHandRef                       written only by SetShortHandRef (CLI set-up, unreachable from Run):
                                                      not written by a build
   The obligation [written_globals_closed] pins this list to the generated table: a NEW written global breaks it. *)
From KV Require Import Base.Prelude Glob.OpenApiState Glob.OpenApiStateProofs Glob.OpenApiHistoryProofs.
From KV Require Import Glob.GlobalsTypes Gen.Globals.

Record gstate := mkG {
  g_openapi : ost;
  g_defcfg : bool            (* defaultConfig has been parsed (its value is a compile-time constant) *)
}.
Definition gstate0 : gstate := mkG ost0 false.

(* a build as far as package-level state is concerned: its OpenAPI part and how often it asks for the default
   transformer configuration (once per kustomization layer) *)
Record gbuild := mkGB { gb_build : build; gb_layers : nat }.

(* MakeDefaultConfig: parse once, hand out a deep copy of the constant: the observation is the unit value *)
Definition make_default_config (g : gstate) : gstate * unit := (mkG (g_openapi g) true, tt).

Definition run_gbuild (e : env) (g : gstate) (b : gbuild) : gstate * (oclass * list answer * list unit) :=
  let '(s1, c, l) := run_build e (g_openapi g) (gb_build b) in
  (mkG s1 (g_defcfg g || negb (Nat.eqb (gb_layers b) 0)), (c, l, repeat tt (gb_layers b))).

Definition run_ghistory (e : env) (g : gstate) (h : list gbuild) : gstate :=
  fold_left (fun st b => fst (run_gbuild e st b)) h g.

Definition gobserve (e : env) (g : gstate) (b : gbuild) : oclass * list answer * list unit := snd (run_gbuild e g b).

Definition written_globals : list string :=
  map g_name (filter (fun g => match g_kind g with GMutable => true | _ => false end) gen_global_vars).

Lemma written_globals_closed :
  written_globals =
  ["api/internal/plugins/builtinconfig.defaultConfig"; "api/internal/plugins/loader.registry";
   "kyaml/fieldmeta.shortHandRef"; "kyaml/openapi.customSchema"; "kyaml/openapi.globalSchema";
   "kyaml/openapi.kubernetesOpenAPIVersion"].
Proof. vm_compute. reflexivity. Qed.

Lemma run_ghistory_openapi e h : forall g,
  g_openapi (run_ghistory e g h) = run_history e (g_openapi g) (map gb_build h).
Proof.
  unfold run_ghistory, run_history. induction h as [|b h IH]; intros g; simpl; [reflexivity|].
  rewrite IH. unfold run_gbuild. destruct (run_build e (g_openapi g) (gb_build b)) as [[s1 c] l]. reflexivity.
Qed.

(* history independence over the full vector *)
Theorem full_state_history_independent e h b :
  env_ok e -> forallb valid_build (map gb_build h) = true -> valid_build (gb_build b) = true ->
  gobserve e (run_ghistory e gstate0 h) b = gobserve e gstate0 b.
Proof.
  intros HE HH HB. unfold gobserve, run_gbuild. rewrite run_ghistory_openapi. cbn [g_openapi gstate0].
  pose proof (history_independent e (map gb_build h) (gb_build b) HE HH HB) as H. unfold observe in H.
  destruct (run_build e (run_history e ost0 (map gb_build h)) (gb_build b)) as [[s1 c] l].
  destruct (run_build e ost0 (gb_build b)) as [[s1' c'] l']. simpl. inversion H. reflexivity.
Qed.
