(* C16 — obligations over the generated table, discharged by computation. *)
From KV Require Import Glob.GlobalsTypes Glob.Conc Glob.GlobalsAllow Glob.GlobalsCheck.
From KV Require Import Gen.Globals Gen.DeepCopy.

(* every access to a package-level mutable variable obeys the discipline of its variable, or is allow-listed
   with a reason that applies; no allow-list entry is stale *)
Lemma globals_disciplined : globals_ok var_prots allow_list gen_accesses = true.
Proof. vm_compute. reflexivity. Qed.

Lemma globals_vars_covered : vars_ok var_prots allow_list gen_global_vars = true.
Proof. vm_compute. reflexivity. Qed.

(* the strict obligation (no known findings) still fails on the current tree: a reachable store clears the init
   flag (SetSchema, explicit built-in version), while reachable reads of the maps are justified ONLY by "after
   initSchema() returned" (no lock held) — the once-reading of initSchema that justifies them does not hold *)
Lemma globals_strict_refuted :
  (exists r, In r gen_accesses /\ a_reach r = true /\ is_reset_site r = true /\
             a_fn r = "SetSchema" /\ a_var r = "kyaml/openapi.globalSchema.schemaInit" /\ a_val r = "false" /\ a_ord r = 1%N) /\
  (exists r, In r gen_accesses /\ a_reach r = true /\ a_fn r = "SchemaForResourceType" /\
             a_kind r = AMapRead /\ a_ctx r = ["A:kyaml/openapi.initSchema"]).
Proof.
  split.
  - exists (mkAcc "kyaml/openapi" "SetSchema" "kyaml/openapi.globalSchema.schemaInit" AWrite 1%N
                  ["W:kyaml/openapi.schemaLock"] true "false").
    repeat split; try reflexivity. vm_compute. tauto.
  - exists (mkAcc "kyaml/openapi" "SchemaForResourceType" "kyaml/openapi.globalSchema.schemaByResourceType[]" AMapRead 0%N
                  ["A:kyaml/openapi.initSchema"] true "").
    repeat split; try reflexivity. vm_compute. tauto.
Qed.

(* the only row excused as a known finding: the store that clears schemaInit when a build names a built-in version *)
Lemma globals_findings_are_reinit :
  map (fun r => (a_fn r, a_var r, a_ord r)) (finding_rows var_prots allow_list gen_accesses)
  = [("SetSchema", "kyaml/openapi.globalSchema.schemaInit", 1%N)].
Proof. vm_compute. reflexivity. Qed.

(* the repaired read: both rows of IsNamespaceScoped are under the read lock and judged disciplined *)
Lemma globals_is_ns_scoped_locked :
  forallb (fun r => negb (String.eqb (a_fn r) "IsNamespaceScoped") || row_disciplined var_prots r) gen_accesses = true /\
  existsb (fun r => String.eqb (a_fn r) "IsNamespaceScoped") gen_accesses = true.
Proof. split; vm_compute; reflexivity. Qed.

(* the row judgement is the judgement of the soundness theorem: a disciplined write row carries a context in
   which Conc.write_ok_s holds, and so on *)
Lemma row_disciplined_write r :
  row_disciplined var_prots r = true -> (a_kind r = AWrite \/ a_kind r = AMapWrite) ->
  write_ok_s (prots_of var_prots (a_var r)) (ctx_of_tokens (a_ctx r)) = true.
Proof.
  unfold row_disciplined. intros H [E|E]; rewrite E in H; apply Bool.andb_true_iff in H; tauto.
Qed.

Lemma row_disciplined_read r :
  row_disciplined var_prots r = true -> (a_kind r = ARead \/ a_kind r = AMapRead \/ a_kind r = ARefUse) ->
  read_ok_s (prots_of var_prots (a_var r)) (ctx_of_tokens (a_ctx r)) = true.
Proof.
  unfold row_disciplined. intros H [E|[E|E]]; rewrite E in H; apply Bool.andb_true_iff in H; tauto.
Qed.

(* every reference-typed field of the process-global default TransformerConfig is deep-copied by DeepCopy, and the
   DeepCopy methods of the field types allocate and copy *)
Lemma deepcopy_disciplined : deepcopy_ok gen_tc_fields gen_tc_copy_types = true.
Proof. vm_compute. reflexivity. Qed.
