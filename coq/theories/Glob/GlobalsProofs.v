(* C16 — obligations over the generated table, discharged by computation. *)
From KV Require Import Glob.GlobalsTypes Glob.Conc Glob.GlobalsAllow Glob.GlobalsCheck.
From KV Require Import Gen.Globals Gen.DeepCopy.

(* every access to a package-level mutable variable obeys the discipline of its variable, or is allow-listed
   with a reason that applies; no allow-list entry is stale *)
Lemma globals_disciplined : globals_ok var_prots allow_list gen_accesses = true.
Proof. vm_compute. reflexivity. Qed.

Lemma globals_vars_covered : vars_ok var_prots allow_list gen_global_vars = true.
Proof. vm_compute. reflexivity. Qed.

(* no row is excused as a known finding any more (both C16 races are repaired in /repo) *)
Lemma globals_no_findings : finding_rows var_prots allow_list gen_accesses = [].
Proof. vm_compute. reflexivity. Qed.

(* the stores that clear the init flag are exactly the three listed reset sites, all under the write lock *)
Lemma globals_reset_sites :
  map (fun r => (a_fn r, a_var r, a_ord r, a_ctx r)) (filter (fun r => is_reset_site r && a_reach r) gen_accesses)
  = [("SetSchema", "kyaml/openapi.globalSchema.schemaInit", 0%N, ["W:kyaml/openapi.schemaLock"]);
     ("SetSchema", "kyaml/openapi.globalSchema.schemaInit", 1%N, ["W:kyaml/openapi.schemaLock"]);
     ("dropParsedSchema", "kyaml/openapi.globalSchema", 0%N, ["W:kyaml/openapi.schemaLock"])].
Proof. vm_compute. reflexivity. Qed.

(* the repaired read: both rows of IsNamespaceScoped are under the read lock and judged disciplined *)
Lemma globals_is_ns_scoped_locked :
  forallb (fun r => negb (String.eqb (a_fn r) "IsNamespaceScoped") || row_disciplined var_prots r) gen_accesses = true /\
  existsb (fun r => String.eqb (a_fn r) "IsNamespaceScoped") gen_accesses = true.
Proof. split; vm_compute; reflexivity. Qed.

(* the row judgement is the judgement of the soundness theorem: a disciplined write row carries a context in
   which Conc.write_ok_s holds, and so on *)
Lemma row_disciplined_write r :
  row_disciplined var_prots r = true -> (a_kind r = AWrite \/ a_kind r = AMapWrite) ->
  write_ok_s (prots_of var_prots (a_var r)) (ctx_of_tokens (a_ctx r)) = true.
Proof.
  unfold row_disciplined. intros H [E|E]; rewrite E in H; apply Bool.andb_true_iff in H; tauto.
Qed.

Lemma row_disciplined_read r :
  row_disciplined var_prots r = true -> (a_kind r = ARead \/ a_kind r = AMapRead \/ a_kind r = AMapRange \/ a_kind r = ARefUse) ->
  read_ok_s (prots_of var_prots (a_var r)) (ctx_of_tokens (a_ctx r)) = true.
Proof.
  unfold row_disciplined. intros H [E|[E|[E|E]]]; rewrite E in H; apply Bool.andb_true_iff in H; tauto.
Qed.

(* every reference-typed field of the process-global default TransformerConfig is deep-copied by DeepCopy, and the
   DeepCopy methods of the field types allocate and copy *)
Lemma deepcopy_disciplined : deepcopy_ok gen_tc_fields gen_tc_copy_types = true.
Proof. vm_compute. reflexivity. Qed.

(* no function ranges over a package-level map of kyaml/openapi *)
Lemma globals_no_range_over_schema_maps : range_rows "kyaml/openapi." gen_accesses = [].
Proof. vm_compute. reflexivity. Qed.
