(* C16 — obligations over the generated table, discharged by computation. *)
From KV Require Import Glob.GlobalsTypes Glob.Conc Glob.GlobalsAllow Glob.GlobalsCheck.
From KV Require Import Gen.Globals Gen.DeepCopy.

(* every access to a package-level mutable variable obeys the discipline of its variable, or is allow-listed
   with a reason that applies; no allow-list entry is stale *)
Lemma globals_disciplined : globals_ok var_prots allow_list gen_accesses = true.
Proof. vm_compute. reflexivity. Qed.

Lemma globals_vars_covered : forallb (var_covered var_prots allow_list) gen_global_vars = true.
Proof. vm_compute. reflexivity. Qed.

(* the strict obligation (no known findings) fails on the current tree, exactly at IsNamespaceScoped *)
Lemma globals_strict_refuted :
  exists r, In r gen_accesses /\ a_reach r = true /\ row_disciplined var_prots r = false /\
            a_fn r = "IsNamespaceScoped" /\ a_ctx r = [].
Proof.
  exists (mkAcc "kyaml/openapi" "IsNamespaceScoped" "kyaml/openapi.globalSchema.namespaceabilityByResourceType[]"
                AMapRead 0%N [] true "").
  repeat split; try reflexivity. vm_compute. tauto.
Qed.

Lemma globals_findings_are_f9 :
  map (fun r => (a_fn r, a_var r)) (finding_rows var_prots allow_list gen_accesses)
  = [("IsNamespaceScoped", "kyaml/openapi.globalSchema.namespaceabilityByResourceType");
     ("IsNamespaceScoped", "kyaml/openapi.globalSchema.namespaceabilityByResourceType[]");
     ("SetSchema", "kyaml/openapi.globalSchema.schemaInit")].
Proof. vm_compute. reflexivity. Qed.

(* the row judgement is the judgement of the soundness theorem: a disciplined write row carries a context in
   which Conc.write_ok_s holds, and so on *)
Lemma row_disciplined_write r :
  row_disciplined var_prots r = true -> (a_kind r = AWrite \/ a_kind r = AMapWrite) ->
  write_ok_s (prots_of var_prots (a_var r)) (ctx_of_tokens (a_ctx r)) = true.
Proof.
  unfold row_disciplined. intros H [E|E]; rewrite E in H; apply Bool.andb_true_iff in H; tauto.
Qed.

Lemma row_disciplined_read r :
  row_disciplined var_prots r = true -> (a_kind r = ARead \/ a_kind r = AMapRead \/ a_kind r = ARefUse) ->
  read_ok_s (prots_of var_prots (a_var r)) (ctx_of_tokens (a_ctx r)) = true.
Proof.
  unfold row_disciplined. intros H [E|[E|E]]; rewrite E in H; apply Bool.andb_true_iff in H; tauto.
Qed.

(* every reference-typed field of the process-global default TransformerConfig is deep-copied by DeepCopy, and the
   DeepCopy methods of the field types allocate and copy *)
Lemma deepcopy_disciplined : deepcopy_ok gen_tc_fields gen_tc_copy_types = true.
Proof. vm_compute. reflexivity. Qed.
