(* C16 — concurrent builds over the OpenAPI state machine: every build is a thread whose steps are the
   *atomic* actions of kyaml/openapi on the package-level state (each runs under schemaLock, or is a single
   map read), interleaved arbitrarily.  Definitions only (proofs: OpenApiConcProofs.v).

   Decomposition of the API into atomic actions (openapi.go):
     SetSchema                          one action (lock held throughout)
     IsNamespaceScoped (not precomputed) isInitSchemaNeeded... (locked) ; [initSchema (locked)] ; map read (read-locked
                                        since /repo db2770f; a separate critical section, hence a separate action)
     SchemaForResourceType              initSchema (locked) ; map read (unlocked)
   A precomputed kind is answered from the immutable table without touching the state. *)
From KV Require Import Base.Prelude Glob.OpenApiState.

Inductive micro :=
| MSet (fv : option string) (sc : option schema) (reset : bool)
| MNeed (t : tm)
| MInit
| MReadNs (t : tm)
| MReadBt (t : tm).

Record tstate := mkTs {
  ts_micro : list micro;     (* atomic actions still to do for the query in progress *)
  ts_rest : list query;      (* queries not yet started *)
  ts_ans : list answer;      (* answers so far *)
  ts_class : oclass          (* COk while running; CErr / CPanic once an action failed: the build stops *)
}.

Definition thread_of (b : build) : tstate :=
  mkTs [MSet (b_ver b) (b_schema b) true] (b_queries b) [] COk.

Definition is_ok (c : oclass) : bool := match c with COk => true | _ => false end.

Definition tdone (th : tstate) : bool :=
  negb (is_ok (ts_class th)) || (match ts_micro th, ts_rest th with [], [] => true | _, _ => false end).

(* one step of a thread: Some (new global state, new thread state), None when the thread is finished *)
Definition tstep (e : env) (s : ost) (th : tstate) : option (ost * tstate) :=
  if negb (is_ok (ts_class th)) then None else
  match ts_micro th with
  | m :: ms =>
      match m with
      | MSet fv sc r =>
          let '(s1, c) := set_schema s fv sc r in
          Some (s1, if is_ok c
                    then mkTs ms (ts_rest th) (if r then ts_ans th else (ts_ans th ++ [ASub])%list) COk
                    else mkTs [] [] (ts_ans th) c)
      | MNeed t =>
          let '(s1, need) := is_init_needed s in
          Some (s1, mkTs ((if need then [MInit; MReadNs t] else [MReadNs t]) ++ ms)%list (ts_rest th) (ts_ans th) COk)
      | MInit =>
          let '(s1, c) := init_schema e s in
          Some (s1, if is_ok c then mkTs ms (ts_rest th) (ts_ans th) COk else mkTs [] [] (ts_ans th) c)
      | MReadNs t =>
          let '(nsd, found) := ns_lookup s t in
          Some (s, mkTs ms (ts_rest th) (ts_ans th ++ [ANs (found && negb nsd)])%list COk)
      | MReadBt t =>
          Some (s, mkTs ms (ts_rest th) (ts_ans th ++ [ASchema (alook tm_eqb t (opt_list (o_bytype s)))])%list COk)
      end
  | [] =>
      match ts_rest th with
      | [] => None
      | q :: qs =>
          (* start the next query (no access to the shared state) *)
          Some (s, match q with
                   | QNs t =>
                       match precomputed t with
                       | Some b => mkTs [] qs (ts_ans th ++ [ANs (negb b)])%list COk
                       | None => mkTs [MNeed t] qs (ts_ans th) COk
                       end
                   | QSchema t => mkTs [MInit; MReadBt t] qs (ts_ans th) COk
                   | QSub fv sc => mkTs [MSet fv sc false] qs (ts_ans th) COk
                   | QFail => mkTs [] [] (ts_ans th) CErr
                   end)
      end
  end.

(* a thread running alone *)
Inductive steps (e : env) : ost -> tstate -> ost -> tstate -> Prop :=
| steps_refl : forall s th, steps e s th s th
| steps_step : forall s th s1 th1 s2 th2,
    tstep e s th = Some (s1, th1) -> steps e s1 th1 s2 th2 -> steps e s th s2 th2.

(* a schedule: which thread moves next (a finished or non-existent thread's turn is a no-op) *)
Fixpoint run_sched (e : env) (s : ost) (pool : list tstate) (sched : list nat) : ost * list tstate :=
  match sched with
  | [] => (s, pool)
  | i :: rest =>
      match nth_error pool i with
      | Some th =>
          match tstep e s th with
          | Some (s1, th1) => run_sched e s1 (replace_nth i th1 pool) rest
          | None => run_sched e s pool rest
          end
      | None => run_sched e s pool rest
      end
  end.
