(* C12: HAND-MAINTAINED allow-list for the generated panic-site table (Gen/PanicSites.v).
   Every panic(...) / log.Fatal* / os.Exit / single-value type assertion / MustCompile(non-constant) /
   call of a kustomize Must* or *OrDie helper in the kustomize packages reachable from api/krusty must have an entry here, with the reason why
   it may stay. A site without an entry breaks Gen_panic_sites_ok (Glob/PanicAllowProofs.v).

   Justification classes
     Unreachable g   cannot fire on the build path; g names the preceding check / invariant
     InitOnly w      depends only on compiled-in constants
     KnownFinding c  DOES fire on malformed input: c is the class id of the finding in findings.d/C12.txt
                     (obligation Gen_panic_known_findings_listed checks that c is listed there)
     OutOfScope w    plugins / helm / exec / git / containers: not reachable from builds of local trees
                     with krusty.MakeDefaultOptions()

   Keys never mention files or lines. When a site is repaired (e.g. the assertion becomes a checked
   one) its entry becomes stale: [stale_entries] lists such entries (Gen_panic_allow_stale_now). *)
From KV Require Export Glob.PanicSiteTypes.
Open Scope string_scope.

(* whole packages that builds of local trees with default options never enter *)
Definition panic_allow_pkgs : list (string * just) := [
  ("api/internal/git", OutOfScope "remote bases: git clone through os/exec; generated trees are local");
  ("api/internal/plugins/execplugin", OutOfScope "exec plugins are disabled by PluginRestrictionsBuiltinsOnly (MakeDefaultOptions)");
  ("api/internal/plugins/fnplugin", OutOfScope "KRM function plugins (containers / exec) are disabled by default options");
  ("kyaml/fn/runtime/container", OutOfScope "container functions: not run by builds with default options");
  ("kyaml/fn/runtime/exec", OutOfScope "exec functions: not run by builds with default options");
  ("kyaml/fn/runtime/runtimeutil", OutOfScope "function runtime helpers, only used by fnplugin");
  ("kyaml/runfn", OutOfScope "function runner, only used by fnplugin")
].

Definition panic_allow : list allow := [
  (* ---- api/filters/refvar ---- *)
  mkAllow (mkSite "api/filters/refvar" "updateNodeValue" SkAssert 0)
    (Unreachable "default branch of a type switch over the value produced by MakePrimitiveReplacer, which only lets string/int/int32/int64/float32/float64/bool through (anything else is replaced by the string $(NAME)); all non-string cases precede the default");
  (* ---- api/filters/nameref ---- *)
  mkAllow (mkSite "api/filters/nameref" "getRoleRefGvk" SkMustCall 0)
    (Unreachable "MustString = yaml encoding of a node that came out of the go-yaml decoder, used only to format the 'roleRef cannot be found' error; the encoder does not reject duplicate or non-string keys and only fails on node kinds the decoder does not produce (searched: unmarshalable objects x error paths, no failure)");
  mkAllow (mkSite "api/filters/nameref" "getRoleRefGvk" SkMustCall 1)
    (Unreachable "as ordinal 0, for the 'apiGroup cannot be found in roleRef' error");
  mkAllow (mkSite "api/filters/nameref" "getRoleRefGvk" SkMustCall 2)
    (Unreachable "as ordinal 0, for the 'kind cannot be found in roleRef' error");
  (* ---- api/internal/accumulator ---- *)
  mkAllow (mkSite "api/internal/accumulator" "newNameReferenceTransformer" SkFatal 0)
    (Unreachable "argument is ra.tConfig.NameReference after KustTarget.accumulateTarget merged builtinconfig.MakeDefaultConfig(), whose nameReference table is non-empty (Gen table); a merge never yields nil");
  (* ---- api/internal/loader ---- *)
  mkAllow (mkSite "api/internal/loader" "NewLoaderOrDie" SkFatal 0)
    (Unreachable "not on the build path: krusty.Run uses loader.NewLoader (error return); NewLoaderOrDie is only called by api/pkg/loader helpers for embedders");
  (* ---- api/internal/plugins ---- *)
  mkAllow (mkSite "api/internal/plugins/builtinconfig" "MakeDefaultConfig" SkFatal 0)
    (InitOnly "parses the compiled-in constant builtinpluginconsts.GetDefaultFieldSpecs() once (sync.Once); independent of the input tree");
  mkAllow (mkSite "api/internal/plugins/loader" "copyPlugin" SkAssert 0)
    (OutOfScope "Go (.so) plugin registry: only used by loadGoPlugin, which default options (BploUseStaticallyLinked, builtins only) never reach; besides, reflect.New of the same concrete type implements the same interface");
  (* ---- api/resmap ---- *)
  mkAllow (mkSite "api/resmap" "(*Factory).FromResource" SkPanic 0)
    (Unreachable "newResMapFromResourceSlice of a ONE-element slice: resWrangler.Append only fails on an id already present");
  mkAllow (mkSite "api/resmap" "(*Factory).FromResourceSlice" SkPanic 0)
    (Unreachable "since fix Z-ignorelocal KustTarget.IgnoreLocal (its only caller in the closure) appends the resources itself and returns the id conflict as an error; witness n2 is a regression input");
  (* ---- api/resource ---- *)
  mkAllow (mkSite "api/resource" "(*Factory).makeOne" SkFatal 0)
    (Unreachable "callers pass yaml.FromMap's result after its error check, nodes that survived DropLocalNodes/dropBadNodes (IsNilOrEmpty filtered), or generators.MakeConfigMap/MakeSecret results after their error check: never nil");
  mkAllow (mkSite "api/resource" "(*Resource).appendCsvAnnotation" SkPanic 0)
    (KnownFinding "panic:api/resource.(*Resource).appendCsvAnnotation:explicit-wrong-node-kind");
  mkAllow (mkSite "api/resource" "(*Resource).RemoveBuildAnnotations" SkPanic 0)
    (KnownFinding "panic:api/resource.(*Resource).RemoveBuildAnnotations:explicit-wrong-node-kind");
  mkAllow (mkSite "api/resource" "(*Resource).enable" SkPanic 0)
    (KnownFinding "panic:api/resource.(*Resource).enable:explicit-wrong-node-kind");
  mkAllow (mkSite "api/resource" "(*Resource).MustYaml" SkFatal 0)
    (Unreachable "since fix Z-nameref nameref.Filter.failureDetails (its only callers in the closure) renders with AsYAML and shows the marshalling error; witness n14 is a regression input");
  mkAllow (mkSite "api/resource" "(*Resource).SetBehavior" SkPanic 0)
    (Unreachable "only called from Factory.makeOne with generator args, on the RNode freshly built by generators.MakeConfigMap/MakeSecret: metadata.annotations is absent or a mapping of strings built from a Go map, so SetAnnotations cannot fail");
  mkAllow (mkSite "api/resource" "(*Resource).PrevIds" SkPanic 0)
    (KnownFinding "panic:api/resource.(*Resource).PrevIds:explicit-number-of-previous");
  (* ---- kyaml/filesys ---- *)
  mkAllow (mkSite "kyaml/filesys" "(*fsNode).Name" SkFatal 0)
    (Unreachable "in-memory tree invariant: a node's parent pointer is only set by addDir/addFile of a directory node");
  mkAllow (mkSite "kyaml/filesys" "(*fsNode).Name" SkFatal 1)
    (Unreachable "in-memory tree invariant: a node with a parent is stored in parent.dir under its name (insertions and Remove keep both in step)");
  mkAllow (mkSite "kyaml/filesys" "(*fsNode).Path" SkFatal 0)
    (Unreachable "in-memory tree invariant: parent is a directory node (see Name)");
  mkAllow (mkSite "kyaml/filesys" "(*fsNode).Remove" SkFatal 0)
    (Unreachable "in-memory tree invariant: parent is a directory node; builds do not remove files");
  mkAllow (mkSite "kyaml/filesys" "(*fsNode).Remove" SkFatal 1)
    (Unreachable "in-memory tree invariant: node is stored in parent.dir; builds do not remove files");
  mkAllow (mkSite "kyaml/filesys" "(*fsNode).RegExpGlob" SkMustCompile 0)
    (Unreachable "RegExpGlob has no caller on the build path (FileSystem.Glob is used instead); test helper");
  mkAllow (mkSite "kyaml/filesys" "fsOnDisk.CleanedAbs" SkFatal 0)
    (Unreachable "on-disk only: reached when EvalSymlinks succeeded and the path is an existing non-directory; its filepath.Dir is then a directory (OS invariant)");
  mkAllow (mkSite "kyaml/filesys" "fsOnDisk.CleanedAbs" SkFatal 1)
    (Unreachable "on-disk only: filepath.Dir(p) is a prefix of p for a cleaned absolute p");
  mkAllow (mkSite "kyaml/filesys" "fsOnDisk.CleanedAbs" SkFatal 2)
    (Unreachable "on-disk only: filepath.Join(Dir p, Base p) = p for a cleaned absolute p");
  (* ---- kyaml/openapi ---- *)
  mkAllow (mkSite "kyaml/openapi" "initSchema" SkPanic 0)
    (KnownFinding "panic:kyaml/openapi.initSchema:explicit-invalid-schema-file");
  mkAllow (mkSite "kyaml/openapi" "initSchema" SkPanic 1)
    (InitOnly "parses the compiled-in kustomization API asset");
  mkAllow (mkSite "kyaml/openapi" "initSchema" SkMustCall 0)
    (InitOnly "kustomizationapi.MustAsset of the constant kustomizationAPIAssetName embedded in the package");
  mkAllow (mkSite "kyaml/openapi" "parseBuiltinSchema" SkPanic 0)
    (InitOnly "parses the compiled-in kubernetes swagger.pb of a version accepted by SetSchema (membership in OpenAPIMustAsset is checked there)");
  mkAllow (mkSite "kyaml/openapi/kubernetesapi/v1_21_2" "MustAsset" SkPanic 0)
    (InitOnly "go-bindata accessor: called with the constant asset name that the package itself embeds");
  mkAllow (mkSite "kyaml/openapi/kustomizationapi" "MustAsset" SkPanic 0)
    (InitOnly "go-bindata accessor: called with the constant kustomizationAPIAssetName");
  (* ---- kyaml/yaml ---- *)
  mkAllow (mkSite "kyaml/yaml" "MustParse" SkPanic 0)
    (Unreachable "no caller on the build path passes input-derived text (used with constant strings in kyaml and in tests)");
  mkAllow (mkSite "kyaml/yaml" "(*RNode).SetDataMap" SkFatal 0)
    (Unreachable "receiver is the non-nil generated resource in resWrangler.appendReplaceOrMerge (BehaviorMerge)");
  mkAllow (mkSite "kyaml/yaml" "(*RNode).SetDataMap" SkFatal 1)
    (Unreachable "Clear(data) on the root of the freshly generated ConfigMap/Secret (a mapping): FieldClearer only fails on non-mapping receivers");
  mkAllow (mkSite "kyaml/yaml" "(*RNode).SetDataMap" SkFatal 2)
    (KnownFinding "exit:log.Fatal:kyaml/yaml.(*RNode).SetDataMap");
  mkAllow (mkSite "kyaml/yaml" "(*RNode).SetBinaryDataMap" SkFatal 0)
    (Unreachable "as SetDataMap ordinal 0");
  mkAllow (mkSite "kyaml/yaml" "(*RNode).SetBinaryDataMap" SkFatal 1)
    (Unreachable "as SetDataMap ordinal 1");
  mkAllow (mkSite "kyaml/yaml" "(*RNode).SetBinaryDataMap" SkFatal 2)
    (KnownFinding "exit:log.Fatal:kyaml/yaml.(*RNode).SetBinaryDataMap");
  mkAllow (mkSite "kyaml/yaml" "(*RNode).MustString" SkPanic 0)
    (Unreachable "used to format error messages (filters/nameref roleRef errors, merge2 directive errors) about nodes that came out of the go-yaml decoder; the encoder only fails on node kinds the decoder does not produce");
  mkAllow (mkSite "kyaml/yaml/merge2" "determineSmpDirective" SkMustCall 0)
    (Unreachable "MustString of the patch node (decoder output) while formatting the 'invalid $patch directive' error: see nameref getRoleRefGvk ordinal 0");
  (* ---- kyaml/yaml/internal/k8sgen (vendored apimachinery label/validation helpers) ---- *)
  mkAllow (mkSite "kyaml/yaml/internal/k8sgen/pkg/util/sets" "StringKeySet" SkAssert 0)
    (Unreachable "no caller in the closure (vendored helper); documented to take map[string]T only");
  mkAllow (mkSite "kyaml/yaml/internal/k8sgen/pkg/util/validation/field" "ErrorType.String" SkPanic 0)
    (Unreachable "default branch of a switch over the package's own ErrorType constants; values are only created from those constants");
  mkAllow (mkSite "kyaml/yaml/internal/k8sgen/pkg/util/validation/field" "fromAggregate" SkAssert 0)
    (Unreachable "aggregate built by ErrorList.ToAggregate from *Error values only");
  mkAllow (mkSite "kyaml/yaml/internal/k8sgen/pkg/util/validation/field" "ErrorList.Filter" SkAssert 0)
    (Unreachable "utilerrors.FilterOut of an Aggregate returns an Aggregate (or nil, checked on the line before)")
].
