(* C16 — hand-written side of the obligation over the generated access table:
   (1) the protection discipline of every package-level mutable variable;
   (2) the allow-list: rows that do not meet the discipline, each with a justification.
   Keyed by (package, function, variable, kind, ordinal) — never by line. *)
From KV Require Import Glob.GlobalsTypes Glob.Conc.

Definition schemaLock := "kyaml/openapi.schemaLock".
Definition initSchema := "kyaml/openapi.initSchema".
Definition initDefaultConfig := "api/internal/plugins/builtinconfig.initDefaultConfig".

(* protections by variable prefix (first match wins):
   - the maps filled by parse() are written only inside initSchema (once-like as long as schemaInit is
     never cleared) and under schemaLock; they may be read under the lock or after initSchema() returned;
   - everything else in kyaml/openapi is only ever touched under schemaLock;
   - builtinconfig.defaultConfig is written inside initDefaultConfig.Do and read after it;
   - variables without an entry have no protection: every write / escape must be allow-listed. *)
Definition var_prots : list (string * list prot) := [
  ("kyaml/openapi.globalSchema.schemaByResourceType", [PLock schemaLock; POnce initSchema]);
  ("kyaml/openapi.globalSchema.namespaceabilityByResourceType", [PLock schemaLock; POnce initSchema]);
  ("kyaml/openapi.globalSchema.schema", [PLock schemaLock; POnce initSchema]);
  ("kyaml/openapi.", [PLock schemaLock]);
  ("api/internal/plugins/builtinconfig.defaultConfig", [POnce initDefaultConfig])
].

Inductive reason :=
| KnownFinding (class : string)     (* a confirmed defect, listed in findings.d *)
| NotOnRunPath (why : string)       (* valid only for rows with a_reach = false *)
| OutOfScope (why : string)
| ResetSite (hypothesis : string)   (* clears the init flag: excluded by the named hypothesis of the theorems *)
| ReadOnlyUse (why : string).

Record allow := mkAllow {
  al_pkg : string; al_fn : string; al_var : string; al_kind : akind; al_ord : N; al_reason : reason
}.

Definition api_only := NotOnRunPath "public API of kyaml/openapi that krusty.Run never calls".
Definition goplugins := OutOfScope "Go-plugin registry: only touched when a Go plugin (.so) is loaded; plugins are disabled by krusty.MakeDefaultOptions and outside the property's trees".
Definition shorthand := OutOfScope "kyaml/fieldmeta.shortHandRef is written only by SetShortHandRef (cmd/config CLI set-up), never during a build".

Definition allow_list : list allow := [
  (* (the unlocked map read in IsNamespaceScoped, finding F9, was repaired in /repo db2770f: its rows now carry
     R:schemaLock and need no entry; if the lock disappears again the rows fail the obligation) *)
  (* sites that clear schemaInit: only executed for a custom schema / an explicit version / by ResetOpenAPI *)
  mkAllow "kyaml/openapi" "SetSchema" "kyaml/openapi.globalSchema.schemaInit" AWrite 0
          (ResetSite "the build installs a custom schema (openapi: path) — outside C16's domain");
  (* ... or selects a DIFFERENT built-in version than the one in use (since /repo 5e76c27: selecting the version
     already in use keeps the parsed schema; with a single compiled-in version this store is dead for valid input) *)
  mkAllow "kyaml/openapi" "SetSchema" "kyaml/openapi.globalSchema.schemaInit" AWrite 1
          (ResetSite "the build selects a built-in version different from the one in use — outside C16's domain (one built-in version)");
  (* dropParsedSchema (since /repo 66a399d): the selection moves away from a custom schema or to a different one *)
  mkAllow "kyaml/openapi" "dropParsedSchema" "kyaml/openapi.globalSchema" AWrite 0
          (ResetSite "a custom schema is dropped or replaced — outside C16's domain");
  mkAllow "kyaml/openapi" "ResetOpenAPI" "kyaml/openapi.globalSchema" AWrite 0
          (ResetSite "ResetOpenAPI is test/API-only: not reachable from krusty.Run");
  (* rootSchema hands out &globalSchema.schema after initSchema(); its users (Resolve) only read through it *)
  mkAllow "kyaml/openapi" "rootSchema" "kyaml/openapi.globalSchema.schema" AEscape 0
          (ReadOnlyUse "pointer returned after initSchema(); Resolve/jsonpointer only read the definitions");
  (* unlocked, but not on the build path *)
  mkAllow "kyaml/openapi" "SuppressBuiltInSchemaUse" "kyaml/openapi.globalSchema.noUseBuiltInSchema" AWrite 0 api_only;
  (* outside the property *)
  (* (a variable without protections is judged "never written after initialisation": its reads pass, its
     writes need an entry; excusing the write excuses the variable) *)
  mkAllow "api/internal/plugins/loader" "(*Loader).loadGoPlugin" "api/internal/plugins/loader.registry[]" AMapWrite 0 goplugins;
  mkAllow "kyaml/fieldmeta" "SetShortHandRef" "kyaml/fieldmeta.shortHandRef" AWrite 0 shorthand
]%N.

(* ---------- package-level objects that are initialised once but whose reference is used by calls ---------- *)
(* A `var x = sha256.New()`-style object is written only by the initialiser, yet mutated through its methods: the
   translator lists every package-level variable of reference type (pointer / interface / map / slice / func) whose
   value is passed to a call or has a method called on it outside initialisers (GRefUsed). Each must be excused here,
   by type or by name, with the reason why sharing it between concurrent builds is harmless. *)
Definition ref_type_allow : list (string * string) := [
  ("*regexp.Regexp", "a compiled Regexp is safe for concurrent use by multiple goroutines (package regexp documentation)");
  ("error", "sentinel error values: only returned and compared, never written through")
].

Definition ref_var_allow : list (string * string) := [
  ("api/internal/builtins.defaultOrderFirst", "legacy sort order table: copied / ranged by the sort-order plugin, never appended to or sorted in place");
  ("api/internal/builtins.defaultOrderLast", "legacy sort order table: as defaultOrderFirst");
  ("api/kv.utf8bom", "byte-order-mark constant passed to bytes.TrimPrefix (read-only)");
  ("kyaml/kio.DefaultMatch", "glob list assigned to reader fields and ranged; never modified");
  ("kyaml/kio.MatchAll", "glob list assigned to reader fields and ranged; never modified");
  ("kyaml/openapi/kubernetesapi/v1_21_2._kubernetesapiV1_21_2SwaggerPb", "embedded asset bytes handed to the gzip reader (read-only)");
  ("kyaml/openapi/kustomizationapi._kustomizationapiSwaggerJson", "embedded asset bytes handed to the gzip reader (read-only)");
  ("kyaml/yaml/walk.ClearNode", "sentinel *RNode compared by pointer and returned to signal 'clear'; the walker never writes through it")
].
