(* C12: HAND-MAINTAINED account of every place where a Gallina MODEL of the framework produces the
   outcome [Panic] (generated list: Gen/C12ModelPanics.v, by translate/c12modelpanics.go).
   Each producer is either a listed finding, a repaired defect, or dead code of the model with the
   theorem that says so. A new [Panic] constructor in any model file breaks
   Gen_model_panics_accounted until it is entered here. *)
From KV Require Export Base.Prelude.
Open Scope string_scope.

Inductive mp_disposition :=
| MFinding (cls : string)              (* the model reproduces a listed finding of findings.d/C12.txt *)
| MFindings (cls : list string)        (* one producer shared by several finding classes (a helper used by several modelled methods) *)
| MFixed (cls : string)                (* repaired in /repo: the producer is switched off by a generated flag / kept for the record *)
| MDead (theorem : string)             (* the producer cannot fire: the named theorem of Props/C12.v (or C12P.v) proves it, possibly under the stated guard *)
| MOutsideBuild (why : string).        (* not krusty.Run / the YAML readers (other commands of the CLI) *)

Definition model_panic_map : list ((string * string * nat) * mp_disposition) := [
  (("Edit/Ops.v", "write_to_labels", 0),
     MOutsideBuild "kustomize edit (C17): a command of the CLI, not a build or a reader; out of the C12 quantifier");
  (("Fs/DiskFs.v", "d_cleaned_abs", 0), MDead "C12_disk_cleaned_abs_partial (well-formed tree with a directory root)");
  (("Fs/DiskFs.v", "d_cleaned_abs", 1), MDead "C12_disk_cleaned_abs_partial (well-formed tree with a directory root)");
  (("Fs/DiskFs.v", "d_cleaned_abs", 2), MDead "C12_disk_cleaned_abs_partial (well-formed tree with a directory root)");
  (("Res/BuildAnnot.v", "panic_on_err", 0),
     MFindings ["panic:api/resource.(*Resource).appendCsvAnnotation:explicit-wrong-node-kind";
                "panic:api/resource.(*Resource).enable:explicit-wrong-node-kind";
                "panic:api/resource.(*Resource).RemoveBuildAnnotations:explicit-wrong-node-kind"]);
  (("Res/Image.v", "is_matched", 0), MFixed "panic:api/internal/image.IsImageMatched:nil-deref");
  (("Res/NameRef.v", "set_string_scalar", 0),
     MDead "C12_total_core_nameref_transform (every candidate has a non-empty name: GetValidatedMetadata at load)");
  (("Res/NameRef.v", "set_string_field", 0),
     MDead "C12_total_core_nameref_transform (every candidate has a non-empty name: GetValidatedMetadata at load)");
  (("Res/Pipeline.v", "ignore_local", 0), MFixed "panic:api/resmap.(*Factory).FromResourceSlice:explicit-may-not-add");
  (("Res/ResMapModel.v", "prev_ids", 0), MFinding "panic:api/resource.(*Resource).PrevIds:explicit-number-of-previous");
  (("Res/ResMapModel.v", "ignore_local", 0), MFixed "panic:api/resmap.(*Factory).FromResourceSlice:explicit-may-not-add");
  (("Res/Resource.v", "prev_ids", 0), MFinding "panic:api/resource.(*Resource).PrevIds:explicit-number-of-previous");
  (("Res/Selector.v", "resource_prev_ids", 0), MFinding "panic:api/resource.(*Resource).PrevIds:explicit-number-of-previous");
  (("Yaml/Walk.v", "append_list_node", 0), MDead "C12_merge2_no_panic / C12_merge3_no_panic (no hypothesis)")
].

Definition key_eqb (a b : string * string * nat) : bool :=
  let '(f, d, o) := a in let '(f', d', o') := b in
  String.eqb f f' && String.eqb d d' && Nat.eqb o o'.

Definition mp_lookup (k : string * string * nat) : option mp_disposition :=
  match find (fun e => key_eqb (fst e) k) model_panic_map with Some e => Some (snd e) | None => None end.

Definition mp_text_nonempty (d : mp_disposition) : bool :=
  match d with
  | MFinding s | MFixed s | MDead s | MOutsideBuild s => negb (String.eqb s "")
  | MFindings l => match l with [] => false | _ => true end
  end.

Definition mp_accounted (k : string * string * nat) : bool :=
  match mp_lookup k with Some d => mp_text_nonempty d | None => false end.

Definition mp_finding_classes : list string :=
  flat_map (fun e => match snd e with MFinding c => [c] | MFindings l => l | _ => [] end) model_panic_map.
Definition mp_fixed_classes : list string :=
  flat_map (fun e => match snd e with MFixed c => [c] | _ => [] end) model_panic_map.
(* entries whose producer no longer exists. An MFixed entry may outlive its producer: the owner of the
   model removes the Panic branch when the model follows the repair, in its own time *)
Definition mp_stale (gen : list (string * string * nat)) : list (string * string * nat) :=
  map fst (filter (fun e => match snd e with MFixed _ => false | _ => negb (existsb (key_eqb (fst e)) gen) end)
                  model_panic_map).
