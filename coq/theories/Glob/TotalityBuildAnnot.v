(* C12: exact triggers of the three "explicit-wrong-node-kind" findings over Res/BuildAnnot.v.
   On a document of the domain (root mapping, first metadata field a non-empty mapping):
     appendCsvAnnotation(name, value) panics  <->  value <> "" and yaml.SetAnnotation fails; with unique
                                                   keys in the root and in metadata that is exactly:
                                                   metadata.annotations is a NON-EMPTY SEQUENCE;
     enable(key)                      panics  <->  GetAnnotations has an entry whose key text is "";
     RemoveBuildAnnotations()         panics  <->  GetAnnotations has an entry whose key text is "".
   None of them diverges. *)
From KV Require Import Yaml.Fns Yaml.Annot Yaml.TotalityProofs Glob.TotalityMore Res.BuildAnnot.
Local Open Scope list_scope.

Lemma panic_on_err_panic {A} (r : res A) : safe r -> (panic_on_err r = Panic <-> r = Err).
Proof. intros [Hp Hd]. destruct r; cbn; split; intros H; try discriminate; try congruence; auto. Qed.
Lemma panic_on_err_nd {A} (r : res A) : safe r -> panic_on_err r <> Diverge.
Proof. intros [Hp Hd]. destruct r; cbn; try discriminate; congruence. Qed.

Lemma safe_set_annotations m n : safe (set_annotations m n).
Proof. unfold set_annotations. destruct (set_annotations_fails m n); [apply safe_err|apply safe_ok]. Qed.

Lemma set_annotations_err m n : set_annotations m n = Err <-> set_annotations_fails m n = true.
Proof. unfold set_annotations. destruct (set_annotations_fails m n); split; intros H; congruence. Qed.

(* ---- enable / RemoveBuildAnnotations ---- *)

Lemma has_key_app k a b : has_key k (a ++ b) = has_key k a || has_key k b.
Proof. unfold has_key. apply existsb_app. Qed.

Lemma has_key_filter_build a :
  has_key "" (filter (fun kv => negb (str_in (fst kv) build_annotations)) a) = has_key "" a.
Proof.
  induction a as [|[k v] t IH]; cbn; [reflexivity|].
  destruct (String.eqb k "") eqn:E.
  - apply String.eqb_eq in E. subst k. cbn. reflexivity.
  - destruct (negb _); cbn; rewrite ?E; cbn; exact IH.
Qed.

(* without a second annotations field, SetAnnotations of a non-empty map fails exactly on an empty key *)
Lemma fails_no_shadow m n : shadow_field n = None -> m <> [] -> set_annotations_fails m n = has_key "" m.
Proof. intros H Hm. unfold set_annotations_fails. rewrite H. destruct m; [contradiction|reflexivity]. Qed.

Section Methods.
  Variable nonstr : string -> bool.

  (* exact, any document of the model *)
  Theorem enable_panic_iff key n :
    enable key n = Panic <-> set_annotations_fails (get_annotations n ++ [(key, K_utils_Enabled)]) n = true.
  Proof. unfold enable. rewrite panic_on_err_panic by apply safe_set_annotations. apply set_annotations_err. Qed.

  Theorem remove_build_annotations_panic_iff n :
    remove_build_annotations n = Panic <->
    (get_annotations n <> nil) /\
    set_annotations_fails (filter (fun kv => negb (str_in (fst kv) build_annotations)) (get_annotations n)) n = true.
  Proof.
    unfold remove_build_annotations. destruct (get_annotations n) as [|p t] eqn:E.
    { split; [discriminate|]. intros [H _]. contradiction. }
    rewrite panic_on_err_panic by apply safe_set_annotations. rewrite set_annotations_err.
    split; [intros H; split; [discriminate|exact H]|tauto].
  Qed.

  (* the readable form: metadata has ONE annotations field *)
  Theorem enable_panic_iff_unique key n :
    key <> "" -> shadow_field n = None ->
    (enable key n = Panic <-> has_key "" (get_annotations n) = true).
  Proof.
    intros Hk Hs. rewrite enable_panic_iff, fails_no_shadow; auto.
    - rewrite has_key_app. cbn [has_key existsb fst].
      destruct (String.eqb key "") eqn:Ek; [apply String.eqb_eq in Ek; contradiction|].
      rewrite !Bool.orb_false_r. tauto.
    - destruct (get_annotations n); discriminate.
  Qed.

  Theorem remove_build_annotations_panic_iff_unique n :
    shadow_field n = None ->
    (remove_build_annotations n = Panic <-> has_key "" (get_annotations n) = true).
  Proof.
    intros Hs. rewrite remove_build_annotations_panic_iff. split.
    - intros [Hne H]. destruct (filter _ (get_annotations n)) eqn:F.
      + cbn in H. discriminate.
      + rewrite fails_no_shadow in H; [|exact Hs|discriminate]. rewrite <- F, has_key_filter_build in H. exact H.
    - intros H. split; [intros Z; rewrite Z in H; discriminate|].
      destruct (filter (fun kv => negb (str_in (fst kv) build_annotations)) (get_annotations n)) eqn:F.
      + rewrite <- (has_key_filter_build (get_annotations n)), F in H. discriminate.
      + rewrite fails_no_shadow; [|exact Hs|discriminate]. rewrite <- F, has_key_filter_build. exact H.
  Qed.

  Lemma enable_no_diverge key n : enable key n <> Diverge.
  Proof. apply panic_on_err_nd, safe_set_annotations. Qed.
  Lemma remove_build_annotations_no_diverge n : remove_build_annotations n <> Diverge.
  Proof.
    unfold remove_build_annotations. destruct (get_annotations n); [discriminate|].
    apply panic_on_err_nd, safe_set_annotations.
  Qed.

  (* ---- appendCsvAnnotation ---- *)

  Theorem append_csv_annotation_panic_iff name value n :
    append_csv_annotation nonstr name value n = Panic <->
    value <> "" /\
    set_annotation nonstr name
      (join_with "," (match assoc_last name (get_annotations n) with Some s => split_on ","%char s | None => [] end ++ [value])) n = Err.
  Proof.
    unfold append_csv_annotation. destruct (String.eqb value "") eqn:E.
    - apply String.eqb_eq in E. split; [discriminate|]. intros [H _]. contradiction.
    - rewrite panic_on_err_panic by apply safe_set_annotation. split; [intros H; split; auto|tauto].
      intros Z. subst. discriminate.
  Qed.

  Lemma append_csv_annotation_no_diverge name value n : append_csv_annotation nonstr name value n <> Diverge.
  Proof.
    unfold append_csv_annotation. destruct (String.eqb value ""); [discriminate|].
    apply panic_on_err_nd, safe_set_annotation.
  Qed.
End Methods.

(* witnesses (replayed on the implementation by corpus/C12/n5, n7, n8 and by the core correspondence) *)
Definition doc_with_annotations (a : node) : node :=
  Map [("kind", Scalar TStr SPlain "ConfigMap");
       ("metadata", Map [("name", Scalar TStr SPlain "cm"); ("annotations", a)])].

Example append_csv_panics_on_list :
  append_csv_annotation (fun _ => false) K_utils_BuildAnnotationPrefixes "p-"
    (doc_with_annotations (Seq [Scalar TStr SPlain "a"; Scalar TStr SPlain "b"])) = Panic.
Proof. vm_compute. reflexivity. Qed.

Example append_csv_ok_on_scalar_and_map :
  class_of (append_csv_annotation (fun _ => false) K_utils_BuildAnnotationPrefixes "p-" (doc_with_annotations (Scalar TStr SPlain "foo"))) = COk /\
  class_of (append_csv_annotation (fun _ => false) K_utils_BuildAnnotationPrefixes "p-" (doc_with_annotations (Map [("a", Scalar TStr SPlain "b")]))) = COk /\
  class_of (append_csv_annotation (fun _ => false) K_utils_BuildAnnotationPrefixes "p-" (doc_with_annotations (Seq []))) = COk.
Proof. vm_compute. repeat split. Qed.

Example remove_build_panics_on_empty_key :
  remove_build_annotations (doc_with_annotations (Map [("", Scalar TStr SPlain "x")])) = Panic /\
  remove_build_annotations (doc_with_annotations (Seq [Map []; Map []])) = Panic /\
  enable K_utils_BuildAnnotationAllowNameChange (doc_with_annotations (Seq [Map []; Map []])) = Panic /\
  class_of (remove_build_annotations (doc_with_annotations (Seq [Scalar TStr SPlain "a"; Scalar TStr SPlain "b"]))) = COk.
Proof. vm_compute. repeat split. Qed.

(* ---- kyaml/openapi initSchema over Glob/OpenApiState.v (owner C01/C16) ----
   finding panic:kyaml/openapi.initSchema:explicit-invalid-schema-file: with a custom schema selected and the
   builtin assets and the kustomization schema intact (they are compiled in), init_schema panics EXACTLY when the
   custom schema does not decode ([s_valid] false). *)
From KV Require Glob.OpenApiState.

Lemma init_schema_custom_panic_iff e s c :
  OpenApiState.o_init s = false -> OpenApiState.o_custom s = Some c ->
  (exists s2, OpenApiState.parse_builtin e (OpenApiState.with_init s true) OpenApiState.default_version = Some s2) ->
  OpenApiState.s_valid (OpenApiState.e_kust e) = true ->
  (snd (OpenApiState.init_schema e s) = CPanic <-> OpenApiState.s_valid c = false).
Proof.
  intros Hi Hc [s2 Hb] Hk. unfold OpenApiState.init_schema. rewrite Hi.
  assert (Hc1 : OpenApiState.o_custom (OpenApiState.with_init s true) = Some c) by (destruct s; cbn in *; exact Hc).
  rewrite Hc1, Hb.
  destruct (OpenApiState.s_valid c) eqn:Ev.
  - split; [|discriminate]. intros H. exfalso. revert H.
    assert (Ed : OpenApiState.o_dflt (OpenApiState.parse_into (OpenApiState.with_dflt s2 OpenApiState.Parsed) c) = OpenApiState.Parsed)
      by (unfold OpenApiState.parse_into; destruct (fold_left _ _ _); destruct s2; reflexivity).
    rewrite Ed, Hk. cbn. discriminate.
  - cbn. split; auto.
Qed.
