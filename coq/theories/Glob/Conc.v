(* C16 — lock / once discipline over interleavings: definitions (proofs: ConcProofs.v).

   Threads execute atomic actions; a schedule (trace) is an interleaving of the threads' actions that
   respects the semantics of the synchronisation objects:
     - read/write locks (sync.RWMutex; a sync.Mutex is a lock only ever taken in write mode),
     - once objects (sync.Once, and "initialise under a flag" functions such as openapi.initSchema as long
       as the flag is never cleared): the body runs at most once, every other caller skips it after it finished.
   Happens-before follows the Go memory model: program order; an unlock is synchronised before every later
   lock of the same mutex (a read-unlock only before later write-locks, a read-lock only after earlier
   write-unlocks); the completion of the once body is synchronised before the return of every other Do.
   A race is a pair of conflicting accesses (same variable, different threads, one a write) not ordered by
   happens-before.

   A protection discipline [D] gives every shared variable a list of protections (a lock, a once object):
     a write must satisfy ALL protections of its variable (and the list must not be empty),
     a read must satisfy AT LEAST ONE (an empty list = never written after initialisation: reads are free).
   The same predicates ([write_ok_s] / [read_ok_s] on a static context) are what the obligation over the
   generated access table (Glob/GlobalsCheck.v) evaluates on every row of Gen/Globals.v. *)
From KV Require Import Base.Prelude.
From Coq Require Import Relations.Relation_Operators.

Definition tid := nat.

Inductive mode := MW | MR.
Definition mode_eqb (a b : mode) : bool :=
  match a, b with MW, MW | MR, MR => true | _, _ => false end.

Inductive prot := PLock (l : string) | POnce (o : string).

(* ---------- events and traces ---------- *)
Inductive ev :=
| EAcq (m : mode) (l : string)
| ERel (m : mode) (l : string)
| ERd (x : string)
| EWr (x : string)
| EOBegin (o : string)      (* this thread starts executing the body of once object o *)
| EOEnd (o : string)        (* ... and finishes it *)
| EOSkip (o : string).      (* Do returned without running the body: it had already finished *)

Definition event := (tid * ev)%type.
Definition trace := list event.

(* ---------- state of the synchronisation objects ---------- *)
Definition hold := (string * tid * mode)%type.
Definition hold_eqb (a b : hold) : bool :=
  let '(l, t, m) := a in let '(l', t', m') := b in
  String.eqb l l' && Nat.eqb t t' && mode_eqb m m'.

Record tst := mkT {
  held : list hold;                     (* (lock, thread, mode) for every lock currently held *)
  started : list (string * tid);        (* once objects whose body has been started, and by whom *)
  finished : list string;               (* once objects whose body has finished *)
  completed : list (tid * string)       (* (thread, once): the thread has returned from Do *)
}.
Definition tst0 : tst := mkT [] [] [] [].

Definition compat (m m' : mode) : bool := match m, m' with MR, MR => true | _, _ => false end.

Definition can_acq (h : list hold) (l : string) (m : mode) : bool :=
  forallb (fun x : hold => negb (String.eqb (fst (fst x)) l) || compat m (snd x)) h.

Fixpoint remove1 (x : hold) (h : list hold) : option (list hold) :=
  match h with
  | [] => None
  | y :: t => if hold_eqb x y then Some t
              else match remove1 x t with Some t' => Some (y :: t') | None => None end
  end.

Definition memb {A} (eq : A -> A -> bool) (x : A) (l : list A) : bool := existsb (eq x) l.
Definition so_eqb (a b : string * tid) : bool := String.eqb (fst a) (fst b) && Nat.eqb (snd a) (snd b).
Definition to_eqb (a b : tid * string) : bool := Nat.eqb (fst a) (fst b) && String.eqb (snd a) (snd b).

Definition step (s : tst) (e : event) : option tst :=
  let '(t, a) := e in
  match a with
  | EAcq m l =>
      if can_acq (held s) l m then Some (mkT ((l, t, m) :: held s) (started s) (finished s) (completed s))
      else None
  | ERel m l =>
      match remove1 (l, t, m) (held s) with
      | Some h => Some (mkT h (started s) (finished s) (completed s))
      | None => None
      end
  | ERd _ | EWr _ => Some s
  | EOBegin o =>
      if existsb (fun p => String.eqb (fst p) o) (started s) then None
      else Some (mkT (held s) ((o, t) :: started s) (finished s) (completed s))
  | EOEnd o =>
      if memb so_eqb (o, t) (started s) && negb (memb String.eqb o (finished s))
      then Some (mkT (held s) (started s) (o :: finished s) ((t, o) :: completed s))
      else None
  | EOSkip o =>
      if memb String.eqb o (finished s)
      then Some (mkT (held s) (started s) (finished s) ((t, o) :: completed s))
      else None
  end.

Definition step_total (s : tst) (e : event) : tst :=
  match step s e with Some s' => s' | None => s end.

Definition run (s : tst) (tr : trace) : tst := fold_left step_total tr s.

(* state before the k-th event of the trace *)
Definition st (tr : trace) (k : nat) : tst := run tst0 (firstn k tr).

(* every event is enabled when it happens *)
Definition valid (tr : trace) : Prop :=
  forall k e, nth_error tr k = Some e -> step (st tr k) e <> None.

(* ---------- happens-before and races ---------- *)
Inductive hb1 (tr : trace) : nat -> nat -> Prop :=
| hb_po : forall i j t a b,
    i < j -> nth_error tr i = Some (t, a) -> nth_error tr j = Some (t, b) -> hb1 tr i j
| hb_lock : forall i j t t' m m' l,
    i < j -> nth_error tr i = Some (t, ERel m l) -> nth_error tr j = Some (t', EAcq m' l) ->
    (m = MW \/ m' = MW) -> hb1 tr i j
| hb_once : forall i j t t' o,
    i < j -> nth_error tr i = Some (t, EOEnd o) -> nth_error tr j = Some (t', EOSkip o) -> hb1 tr i j.

Definition hb (tr : trace) : nat -> nat -> Prop := clos_trans nat (hb1 tr).

(* (variable, is-write) of an access event *)
Definition acc_of (a : ev) : option (string * bool) :=
  match a with ERd x => Some (x, false) | EWr x => Some (x, true) | _ => None end.

Definition race (tr : trace) : Prop :=
  exists i j t t' a b x wi wj,
    i < j /\ nth_error tr i = Some (t, a) /\ nth_error tr j = Some (t', b) /\ t <> t' /\
    acc_of a = Some (x, wi) /\ acc_of b = Some (x, wj) /\ (wi = true \/ wj = true) /\ ~ hb tr i j.

(* ---------- the discipline, dynamically (on the state at the access) ---------- *)
Definition dsat_write (s : tst) (t : tid) (p : prot) : bool :=
  match p with
  | PLock l => memb hold_eqb (l, t, MW) (held s)
  | POnce o => memb so_eqb (o, t) (started s) && negb (memb String.eqb o (finished s))
  end.
Definition dsat_read (s : tst) (t : tid) (p : prot) : bool :=
  match p with
  | PLock l => memb hold_eqb (l, t, MW) (held s) || memb hold_eqb (l, t, MR) (held s)
  | POnce o => (memb so_eqb (o, t) (started s) && negb (memb String.eqb o (finished s)))
               || memb to_eqb (t, o) (completed s)
  end.
Definition is_nil {A} (l : list A) : bool := match l with [] => true | _ => false end.
Definition dwrite_ok (ps : list prot) (s : tst) (t : tid) : bool :=
  negb (is_nil ps) && forallb (dsat_write s t) ps.
Definition dread_ok (ps : list prot) (s : tst) (t : tid) : bool :=
  is_nil ps || existsb (dsat_read s t) ps.

Definition discipline := string -> list prot.

Definition acc_ok (D : discipline) (s : tst) (e : event) : bool :=
  match snd e with
  | ERd x => dread_ok (D x) s (fst e)
  | EWr x => dwrite_ok (D x) s (fst e)
  | _ => true
  end.

(* the trace is valid and every access obeys the discipline in the state in which it happens *)
Fixpoint disc_from (D : discipline) (s : tst) (tr : trace) : Prop :=
  match tr with
  | [] => True
  | e :: tr' => acc_ok D s e = true /\ exists s', step s e = Some s' /\ disc_from D s' tr'
  end.

(* ---------- the discipline, statically (on a context computed along the program text) ---------- *)
Record sctx := mkCtx {
  sc_held : list (mode * string);       (* locks certainly held, with their mode *)
  sc_in : list string;                  (* once objects whose body we are certainly inside *)
  sc_after : list string                (* once objects whose Do has certainly returned in this thread *)
}.
Definition ctx0 : sctx := mkCtx [] [] [].

Definition ml_eqb (a b : mode * string) : bool := mode_eqb (fst a) (fst b) && String.eqb (snd a) (snd b).

Definition sat_write_s (c : sctx) (p : prot) : bool :=
  match p with
  | PLock l => memb ml_eqb (MW, l) (sc_held c)
  | POnce o => memb String.eqb o (sc_in c)
  end.
Definition sat_read_s (c : sctx) (p : prot) : bool :=
  match p with
  | PLock l => memb ml_eqb (MW, l) (sc_held c) || memb ml_eqb (MR, l) (sc_held c)
  | POnce o => memb String.eqb o (sc_in c) || memb String.eqb o (sc_after c)
  end.
Definition write_ok_s (ps : list prot) (c : sctx) : bool :=
  negb (is_nil ps) && forallb (sat_write_s c) ps.
Definition read_ok_s (ps : list prot) (c : sctx) : bool :=
  is_nil ps || existsb (sat_read_s c) ps.

(* ---------- programs ---------- *)
Inductive instr :=
| IAcq (m : mode) (l : string)
| IRel (m : mode) (l : string)
| IRd (x : string)
| IWr (x : string)
| IOnce (o : string) (body : list (bool * string)).   (* o.Do(func(){ accesses }): (true, x) = write x *)
Definition thread := list instr.

Definition ctx_acq (c : sctx) (m : mode) (l : string) : sctx :=
  mkCtx ((m, l) :: sc_held c) (sc_in c) (sc_after c).
(* an unlock forgets every static claim on that (mode, lock) *)
Definition ctx_rel (c : sctx) (m : mode) (l : string) : sctx :=
  mkCtx (filter (fun x => negb (ml_eqb (m, l) x)) (sc_held c)) (sc_in c) (sc_after c).
Definition ctx_in (c : sctx) (o : string) : sctx := mkCtx (sc_held c) (o :: sc_in c) (sc_after c).
Definition ctx_after (c : sctx) (o : string) : sctx := mkCtx (sc_held c) (sc_in c) (o :: sc_after c).

Definition check_body (D : discipline) (c : sctx) (b : list (bool * string)) : bool :=
  forallb (fun wx : bool * string =>
             if fst wx then write_ok_s (D (snd wx)) c else read_ok_s (D (snd wx)) c) b.

Fixpoint check (D : discipline) (c : sctx) (p : thread) : bool :=
  match p with
  | [] => true
  | IAcq m l :: t => check D (ctx_acq c m l) t
  | IRel m l :: t => check D (ctx_rel c m l) t
  | IRd x :: t => read_ok_s (D x) c && check D c t
  | IWr x :: t => write_ok_s (D x) c && check D c t
  | IOnce o b :: t => check_body D (ctx_in c o) b && check D (ctx_after c o) t
  end.

(* the static discipline of a whole thread: what the lock-set analysis establishes per access *)
Definition thread_ok (D : discipline) (p : thread) : bool := check D ctx0 p.

(* ---------- operational semantics of a pool of threads ---------- *)
Record rthread := mkR {
  r_cur : option (string * list (bool * string));   (* inside the body of a once object *)
  r_rest : thread
}.

(* the moves a thread can offer: (event, next thread state) *)
Definition tnext (r : rthread) : list (ev * rthread) :=
  match r_cur r with
  | Some (o, (w, x) :: b) => [((if w then EWr x else ERd x), mkR (Some (o, b)) (r_rest r))]
  | Some (o, []) => [(EOEnd o, mkR None (r_rest r))]
  | None =>
      match r_rest r with
      | [] => []
      | IAcq m l :: t => [(EAcq m l, mkR None t)]
      | IRel m l :: t => [(ERel m l, mkR None t)]
      | IRd x :: t => [(ERd x, mkR None t)]
      | IWr x :: t => [(EWr x, mkR None t)]
      | IOnce o b :: t => [(EOBegin o, mkR (Some (o, b)) t); (EOSkip o, mkR None t)]
      end
  end.

(* [exec pool s tr]: from thread pool [pool] and synchronisation state [s] the schedule [tr] can be executed
   (thread t = the t-th element of the pool; any number of threads; the schedule need not be complete) *)
Inductive exec : list rthread -> tst -> trace -> Prop :=
| exec_nil : forall pool s, exec pool s []
| exec_step : forall pool s t r e r' s' tr,
    nth_error pool t = Some r -> In (e, r') (tnext r) -> step s (t, e) = Some s' ->
    exec (replace_nth t r' pool) s' tr -> exec pool s ((t, e) :: tr).

Definition start (P : list thread) : list rthread := map (mkR None) P.

(* a schedule of the program P *)
Definition schedule_of (P : list thread) (tr : trace) : Prop := exec (start P) tst0 tr.
