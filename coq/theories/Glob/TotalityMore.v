(* C12: totality of the other properties' models (owners' files are imported, not copied).
   [safe r] = the outcome is Ok or Err: never Panic, never Diverge.
   One section per owner model; where the faithful model does panic or diverge the exact condition
   is stated together with the finding it corresponds to. *)
From KV Require Import Yaml.Fns Yaml.FieldSpec Yaml.TotalityProofs.
From KV Require Yaml.Split Yaml.Annot.

Definition safe {A} (r : res A) : Prop := r <> Panic /\ r <> Diverge.

Lemma safe_ok {A} (a : A) : safe (Ok a).
Proof. split; discriminate. Qed.
Lemma safe_err {A} : safe (@Err A).
Proof. split; discriminate. Qed.
Lemma safe_bind {A B} (w : res A) (f : A -> res B) :
  safe w -> (forall a, w = Ok a -> safe (f a)) -> safe (bind w f).
Proof.
  intros [Hp Hd] Hf. destruct w; cbn; try (split; discriminate); try congruence.
  apply Hf. reflexivity.
Qed.
Lemma safe_bind' {A B} (w : res A) (f : A -> res B) :
  safe w -> (forall a, safe (f a)) -> safe (bind w f).
Proof. intros Hw Hf. apply safe_bind; auto. Qed.
Lemma safe_iff_ok_or_err {A} (r : res A) : safe r <-> (exists a, r = Ok a) \/ r = Err.
Proof.
  split.
  - intros [Hp Hd]. destruct r; eauto; congruence.
  - intros [[a ->]| ->]; [apply safe_ok|apply safe_err].
Qed.
Lemma safe_mapM {A B} (f : A -> res B) l : (forall x, safe (f x)) -> safe (mapM f l).
Proof.
  intros Hf. induction l as [|x t IH]; cbn; [apply safe_ok|].
  apply safe_bind'; auto. intros y. apply safe_bind'; auto. intros ys. apply safe_ok.
Qed.
(* a match that only re-wraps the four outcomes *)
Lemma safe_rewrap {A B} (w : res A) (g : A -> res B) :
  safe w -> (forall a, safe (g a)) ->
  safe (match w with Ok a => g a | Err => Err | Panic => Panic | Diverge => Diverge end).
Proof. intros [Hp Hd] Hg. destruct w; auto; try congruence. apply safe_err. Qed.

Ltac safe_tac := first [apply safe_ok | apply safe_err].

(* ---------- kyaml core (Yaml/Fns.v, Yaml/FieldSpec.v), restated with [safe] ---------- *)

Lemma safe_walk {A} (k : node -> res (node * A)) cr ps n :
  (forall x, safe (k x)) -> safe (walk cr ps k n).
Proof.
  intros Hk. split.
  - apply walk_never_panics. intros x. apply Hk.
  - apply walk_never_diverges. intros x. apply Hk.
Qed.
Lemma safe_set_field nonstr name v keep n : safe (set_field nonstr name v keep n).
Proof. apply set_field_total. Qed.
Lemma safe_set_scalar v n : safe (set_scalar v n).
Proof. apply set_scalar_total. Qed.
Lemma safe_clear_field name n : safe (clear_field name n).
Proof. apply clear_field_total. Qed.
Lemma safe_fsslice ck ct sv l obj :
  (forall n, safe (sv n)) -> safe (fsslice_apply ck ct sv l obj).
Proof.
  intros H. split.
  - apply fsslice_apply_no_panic. intros n. apply H.
  - apply fsslice_apply_no_diverge. intros n. apply H.
Qed.
Lemma safe_fs_filter ck ct sv create path obj :
  (forall n, safe (sv n)) -> safe (fs_filter ck ct sv create path obj).
Proof.
  intros H. split.
  - apply fs_filter_no_panic. intros n. apply H.
  - apply fs_filter_no_diverge. intros n. apply H.
Qed.
Lemma safe_put nonstr ps name v n : safe (put nonstr ps name v n).
Proof.
  unfold put. apply safe_walk. intros x. unfold k_set_field.
  apply safe_bind'; [apply safe_set_field|intros; safe_tac].
Qed.
Lemma safe_clear_at ps name n : safe (clear_at ps name n).
Proof.
  unfold clear_at. apply safe_walk. intros x. unfold k_clear.
  apply safe_bind'; [apply safe_clear_field|intros; safe_tac].
Qed.

(* ---------- Yaml/Split.v (C13): splitDocuments and what ByteReader hands to the decoder ---------- *)

Ltac brk := repeat match goal with |- safe (if ?b then _ else _) => destruct b end.

Lemma safe_split_go : forall s acc m docs seps, safe (Split.split_go s acc m docs seps).
Proof.
  induction s as [|c s IH]; intros acc m docs seps; cbn [Split.split_go]; [safe_tac|].
  destruct m as [|k|line].
  - brk; apply IH.
  - destruct (Ascii.eqb c Split.dash).
    + destruct k as [|[|k]]; apply IH.
    + brk; apply IH.
  - destruct (Ascii.eqb c Split.nl); [|apply IH].
    brk; [apply IH|safe_tac].
Qed.

Lemma safe_split_documents_full s : safe (Split.split_documents_full s).
Proof. unfold Split.split_documents_full. destruct s; [safe_tac|apply safe_split_go]. Qed.

Lemma safe_split_documents s : safe (Split.split_documents s).
Proof.
  unfold Split.split_documents. pose proof (safe_split_documents_full s) as [Hp Hd].
  destruct (Split.split_documents_full s) as [[ds sp]| | |]; try congruence; safe_tac.
Qed.

Lemma safe_reader_chunks input : safe (Split.reader_chunks input).
Proof.
  unfold Split.reader_chunks. pose proof (safe_split_documents (Split.crlf_norm input)) as [Hp Hd].
  destruct (Split.split_documents _); try congruence; safe_tac.
Qed.

(* ---------- Yaml/Annot.v (C13): reader / writer annotation helpers ---------- *)

Lemma safe_clear_field_if_empty name n : safe (Annot.clear_field_if_empty name n).
Proof. unfold Annot.clear_field_if_empty. destruct n; try destruct (is_null _); safe_tac. Qed.

Lemma safe_clear_empty_annotations n : safe (Annot.clear_empty_annotations n).
Proof.
  unfold Annot.clear_empty_annotations. apply safe_bind'.
  - apply safe_walk. intros x. apply safe_bind'; [apply safe_clear_field_if_empty|intros; safe_tac].
  - intros r. apply safe_clear_field_if_empty.
Qed.

Lemma safe_set_annotation nonstr k v n : safe (Annot.set_annotation nonstr k v n).
Proof.
  unfold Annot.set_annotation. apply safe_bind'; [apply safe_clear_empty_annotations|].
  intros n1. apply safe_bind'; [apply safe_put|intros; safe_tac].
Qed.

Lemma safe_clear_annotation k n : safe (Annot.clear_annotation k n).
Proof. unfold Annot.clear_annotation. apply safe_bind'; [apply safe_clear_at|intros; safe_tac]. Qed.

Lemma safe_read_set nonstr i n : safe (Annot.read_set nonstr i n).
Proof.
  unfold Annot.read_set. apply safe_bind'; [apply safe_set_annotation|intros; apply safe_set_annotation].
Qed.

Lemma safe_write_clear n : safe (Annot.write_clear n).
Proof.
  unfold Annot.write_clear.
  repeat (apply safe_bind'; [apply safe_clear_annotation|intros ?]).
  apply safe_clear_empty_annotations.
Qed.

(* ---------- Yaml/Match.v (C10): PathMatcher ---------- *)
From KV Require Base.Regex Yaml.Match Yaml.MatchProofs Yaml.MatchTotalProofs.

Definition no_panic {A} (r : res A) : Prop := r <> Panic.
Lemma np_bind {A B} (w : res A) (f : A -> res B) :
  no_panic w -> (forall a, no_panic (f a)) -> no_panic (bind w f).
Proof. unfold no_panic. intros Hw Hf. destruct w; cbn; try discriminate; auto. Qed.

Lemma np_visit_elems f : (forall e, no_panic (f e)) -> forall es i, no_panic (Match.visit_elems f i es).
Proof.
  intros Hf. induction es as [|e t IH]; intros i; cbn; [discriminate|].
  apply np_bind; auto. intros r. apply np_bind; auto. intros rt. discriminate.
Qed.

Lemma np_retry_loop visit ne cr : (forall e, no_panic (visit e)) ->
  forall f app es, no_panic (Match.retry_loop visit ne cr app f es).
Proof.
  intros Hv. induction f as [|f IH]; intros app es; cbn; [discriminate|].
  apply np_bind; [apply np_visit_elems; auto|].
  intros r. destruct (snd r); [|discriminate]. destruct cr; [|discriminate].
  match goal with |- no_panic (if ?b then _ else _) => destruct b end; [discriminate|apply IH].
Qed.

(* PathMatcher never panics: any path, document, Create kind and retry budget *)
Lemma pm_no_panic parse enc nonstr create fuel : forall path n,
  Match.pm parse enc nonstr create fuel path n <> Panic.
Proof.
  induction path as [|p rest IH]; intros n; cbn [Match.pm]; [discriminate|].
  destruct (Match.classify_pm p) as [i|raw| |name].
  - destruct n as [t s v|kvs|es].
    + destruct (is_null _); [|discriminate]. destruct (_ && _); [|discriminate].
      apply np_bind; [apply IH|discriminate].
    + cbn. discriminate.
    + destruct (_ && _).
      * apply np_bind; [apply IH|discriminate].
      * destruct (nth_error es i); [|discriminate]. apply np_bind; [apply IH|discriminate].
  - destruct (split_index_name_value raw) as [[fld v]|]; [|discriminate].
    match goal with |- context [Match.retry_loop ?vis ?ne ?cr _] =>
      assert (R : forall f app es, no_panic (Match.retry_loop vis ne cr app f es)) end.
    { apply np_retry_loop. intros e. apply np_bind.
      - unfold Match.elem_regex. destruct (Regex.render _ _); [|discriminate].
        destruct (parse _); discriminate.
      - intros r. destruct (String.eqb fld "").
        + destruct (Regex.matches r (enc e)); discriminate.
        + destruct e as [t s x|kvs|es]; try discriminate.
          destruct (find_field fld kvs); [|discriminate].
          destruct (Regex.matches r _); [apply IH|discriminate]. }
    destruct n as [t s v0|kvs|es].
    + destruct (is_null _); [|discriminate]. apply np_bind; [apply R|discriminate].
    + cbn. discriminate.
    + apply np_bind; [apply R|discriminate].
  - destruct n as [t s v|kvs|es].
    + destruct (is_null _); discriminate.
    + cbn. discriminate.
    + apply np_bind; [apply np_visit_elems; intros e; apply IH|discriminate].
  - destruct (String.eqb name "").
    + destruct n as [t s v|kvs|es]; try discriminate.
      destruct (_ && _); [apply IH|].
      destruct (Match.is_create create); [|discriminate].
      apply np_bind; [apply IH|discriminate].
    + destruct n as [t s v|kvs|es].
      * destruct (is_null _); [|discriminate].
        destruct (Match.is_create create); [|discriminate].
        apply np_bind; [apply IH|discriminate].
      * destruct (find_field name kvs).
        -- apply np_bind; [apply IH|discriminate].
        -- destruct (Match.is_create create); [|discriminate].
           apply np_bind; [apply IH|discriminate].
      * cbn. discriminate.
Qed.

(* without Create: Ok or Err, with one unit of fuel (owner lemma pm_nocreate_total for Diverge) *)
Lemma safe_pm_nocreate parse enc nonstr fuel path n :
  safe (Match.pm parse enc nonstr None (S fuel) path n).
Proof. split; [apply pm_no_panic|apply MatchProofs.pm_nocreate_total]. Qed.

(* ---------- Fs/Path.v, Fs/MemFs.v, Fs/DiskFs.v, Fs/Loader.v (C05) ---------- *)
(* filepath.Clean / Join / Split / HasPrefix (Fs/Path.v) are plain Gallina functions string -> string:
   total by typing, nothing to state. *)
From KV Require Fs.Path Fs.MemFs Fs.DiskFs Fs.DiskFsProofs Fs.Loader Fs.LoaderProofs.

(* in-memory file system: no hypothesis *)
Lemma safe_m_walk : forall cs cur, safe (MemFs.m_walk cur cs).
Proof.
  induction cs as [|c cs IH]; intros cur; cbn; [safe_tac|].
  destruct cur as [content|es]; [safe_tac|]. destruct (MemFs.m_lookup c es); [apply IH|safe_tac].
Qed.

Lemma safe_m_find root p : safe (MemFs.m_find root p).
Proof.
  unfold MemFs.m_find. brk; try safe_tac.
  pose proof (safe_m_walk (Path.raw_comps (MemFs.clean_query p)) root) as [Hp Hd].
  destruct (MemFs.m_walk _ _) as [[n|]| | |]; try congruence; safe_tac.
Qed.

Lemma safe_m_cleaned_abs root p : safe (MemFs.m_cleaned_abs root p).
Proof.
  unfold MemFs.m_cleaned_abs. pose proof (safe_m_find root p) as [Hp Hd].
  destruct (MemFs.m_find root p) as [[[cs [c|es]]|]| | |]; try congruence; safe_tac.
Qed.

Lemma safe_m_read_file root p : safe (MemFs.m_read_file root p).
Proof.
  unfold MemFs.m_read_file. pose proof (safe_m_find root p) as [Hp Hd].
  destruct (MemFs.m_find root p) as [[[cs [c|es]]|]| | |]; try congruence; safe_tac.
Qed.

(* on-disk file system with symbolic links: link resolution has explicit fuel (255 links, as
   filepath.EvalSymlinks) and never diverges: running out of budget is the ELOOP error
   (owner lemma eval_links_ok_or_err) *)
Lemma safe_eval_links root b stk todo : safe (DiskFs.eval_links root b stk todo).
Proof. apply safe_iff_ok_or_err. apply DiskFsProofs.eval_links_ok_or_err. Qed.

Lemma safe_eval_symlinks root p : safe (DiskFs.eval_symlinks root p).
Proof.
  unfold DiskFs.eval_symlinks.
  pose proof (safe_eval_links root DiskFs.go_link_budget [] (Path.raw_comps p)) as [Hp Hd].
  destruct (DiskFs.eval_links _ _ _ _); try congruence; safe_tac.
Qed.

Lemma safe_d_read_file root cwd p : safe (DiskFs.d_read_file root cwd p).
Proof.
  unfold DiskFs.d_read_file. destruct (DiskFs.os_resolve root cwd p) as [[phys [c|es|t]]|]; safe_tac.
Qed.

(* fsOnDisk.CleanedAbs: its three log.Fatalf branches are dead on a well-formed tree whose root is a
   directory (owner lemma d_cleaned_abs_spec); never Diverge on any tree *)
Lemma d_cleaned_abs_no_diverge root cwd p : DiskFs.d_cleaned_abs root cwd p <> Diverge.
Proof.
  unfold DiskFs.d_cleaned_abs. pose proof (safe_eval_symlinks root (DiskFs.abs_path cwd p)) as [Hp Hd].
  destruct (DiskFs.eval_symlinks _ _); try congruence; try discriminate.
  repeat match goal with |- (if ?b then _ else _) <> _ => destruct b end; discriminate.
Qed.

Lemma safe_d_cleaned_abs root cwd p :
  DiskFsProofs.is_dir_node root -> DiskFs.wf_dnode root = true -> safe (DiskFs.d_cleaned_abs root cwd p).
Proof.
  intros Hr Hw. split; [|apply d_cleaned_abs_no_diverge].
  pose proof (LoaderProofs.d_cleaned_abs_spec root cwd p Hr Hw) as S.
  destruct (DiskFs.eval_links _ _ _ _) as [phys| | |].
  - destruct S as [_ S]. inversion S; congruence.
  - rewrite S. discriminate.
  - rewrite S. discriminate.
  - rewrite S. discriminate.
Qed.

(* the loader over ANY file system whose two operations are safe, with safe remote fetch / git *)
Section LoaderSafe.
  Variable fs : Loader.fsops.
  Hypothesis Hca : forall p, safe (Loader.f_cleaned_abs fs p).
  Hypothesis Hrf : forall p, safe (Loader.f_read_file fs p).
  Variable remote : string -> bool.
  Variable http_get : string -> res string.
  Variable is_repo : string -> bool.
  Variable git_new : Loader.loader -> string -> res Loader.loader.
  Hypothesis Hhttp : forall p, safe (http_get p).
  Hypothesis Hgit : forall l p, safe (git_new l p).

  Lemma safe_confirm_dir p : safe (Loader.confirm_dir fs p).
  Proof.
    unfold Loader.confirm_dir. brk; [safe_tac|].
    destruct (Hca p) as [Hp Hd]. destruct (Loader.f_cleaned_abs fs p) as [[d f]| | |]; try congruence; brk; safe_tac.
  Qed.

  Lemma safe_restrict l p : safe (Loader.restrict fs l p).
  Proof.
    unfold Loader.restrict, Loader.restrict_root_only. destruct (Loader.l_restr l); [|safe_tac].
    destruct (Hca p) as [Hp Hd]. destruct (Loader.f_cleaned_abs fs p) as [[d f]| | |]; try congruence; brk; safe_tac.
  Qed.

  Lemma safe_load l p : safe (Loader.load remote http_get fs l p).
  Proof.
    unfold Loader.load. brk; [apply Hhttp|].
    destruct (safe_restrict l (Loader.load_path l p)) as [Hp Hd].
    destruct (Loader.restrict _ _ _); try congruence; [apply Hrf|safe_tac].
  Qed.

  Lemma safe_new_root l p : safe (Loader.new_root is_repo git_new fs l p).
  Proof.
    unfold Loader.new_root. brk; try safe_tac; [apply Hgit|].
    destruct (safe_confirm_dir (Path.cd_join (Loader.l_root l) p)) as [Hp Hd].
    destruct (Loader.confirm_dir _ _); try congruence; brk; safe_tac.
  Qed.

  Lemma safe_new_loader r target : safe (Loader.new_loader is_repo git_new fs r target).
  Proof.
    unfold Loader.new_loader. brk; [apply Hgit|].
    destruct (safe_confirm_dir target) as [Hp Hd].
    destruct (Loader.confirm_dir _ _); try congruence; safe_tac.
  Qed.
End LoaderSafe.

(* ---------- Res/Resource.v (C03): Resource.PrevIds = defect F7a ---------- *)
From KV Require Res.Resource.

(* PrevIds panics EXACTLY when the three CSV build annotations have different numbers of entries
   (finding panic:api/resource Resource.PrevIds explicit-number-of-previous: a name containing
   "," stored by StorePreviousId); it never diverges *)
Lemma prev_ids_panic_iff r :
  Resource.prev_ids r = Panic <->
  exists s, Resource.r_pnames r = Some s /\
    (Nat.eqb (List.length (split_on ","%char s)) (List.length (split_on ","%char (Resource.or_empty (Resource.r_pnss r)))) &&
     Nat.eqb (List.length (split_on ","%char s)) (List.length (split_on ","%char (Resource.or_empty (Resource.r_pkinds r))))) = false.
Proof.
  unfold Resource.prev_ids. destruct (Resource.r_pnames r) as [s|].
  - destruct (_ && _) eqn:E.
    + destruct (parse_group_version _). split; [discriminate|]. intros [s' [H1 H2]]. inversion H1; subst. congruence.
    + split; auto. intros _. exists s. auto.
  - split; [discriminate|]. intros [s [H _]]. discriminate.
Qed.

Lemma prev_ids_no_diverge r : Resource.prev_ids r <> Diverge.
Proof.
  unfold Resource.prev_ids. destruct (Resource.r_pnames r); [|discriminate].
  destruct (_ && _); [destruct (parse_group_version _)|]; discriminate.
Qed.

(* the witness of F7a: one previous name "a,b" (a resource called a,b after StorePreviousId) *)
Lemma prev_ids_comma_witness : exists r, Resource.prev_ids r = Panic.
Proof.
  exists (Resource.set_previous_id (Resource.mkRes (Map []) None None None None None false) "ns" "a,b" "ConfigMap").
  vm_compute. reflexivity.
Qed.

(* ---------- Res/Labels.v (C08), Res/Namespace.v (C09): the field-spec driven filters ---------- *)
From KV Require Res.Labels Res.Namespace.

Lemma safe_label_filter nonstr labels fss obj : safe (Labels.label_filter nonstr labels fss obj).
Proof.
  unfold Labels.label_filter. generalize (Labels.sort_pairs labels) as kvs. intros kvs. revert obj.
  induction kvs as [|kv t IH]; intros obj; cbn; [safe_tac|].
  apply safe_bind'; [|intros; apply IH].
  unfold Labels.key_pass. apply safe_fsslice. intros n. unfold Labels.set_entry. apply safe_set_field.
Qed.

Lemma safe_run_label_transformer nonstr labels fss rs : safe (Labels.run_label_transformer nonstr labels fss rs).
Proof.
  unfold Labels.run_label_transformer. destruct labels; [safe_tac|].
  apply safe_mapM. intros x. apply safe_label_filter.
Qed.

Lemma safe_ns_setter c n : safe (Namespace.ns_setter c n).
Proof. unfold Namespace.ns_setter. brk; [safe_tac|apply safe_set_scalar]. Qed.

Lemma safe_visit_subject c field value o : safe (Namespace.visit_subject c field value o).
Proof.
  unfold Namespace.visit_subject. apply safe_bind'; [apply safe_walk; intros; safe_tac|].
  intros r. destruct (snd r) as [x|]; [|safe_tac].
  destruct (is_null x); [safe_tac|]. destruct x as [t s v|kvs|es]; try safe_tac.
  brk; [|safe_tac]. apply safe_bind'; [|intros; safe_tac].
  apply safe_walk. intros n. apply safe_bind'; [apply safe_ns_setter|intros; safe_tac].
Qed.

Lemma safe_role_binding_hack c obj : safe (Namespace.role_binding_hack c obj).
Proof.
  unfold Namespace.role_binding_hack. destruct (Namespace.ns_mode c); try safe_tac.
  - apply safe_bind'; [|intros; safe_tac]. apply safe_walk. intros subj.
    destruct (is_null subj); [safe_tac|]. destruct subj as [t s v|kvs|es]; try safe_tac.
    apply safe_bind'; [apply safe_mapM; intros; apply safe_visit_subject|intros; safe_tac].
  - apply safe_bind'; [|intros; safe_tac]. apply safe_walk. intros subj.
    destruct (is_null subj); [safe_tac|]. destruct subj as [t s v|kvs|es]; try safe_tac.
    apply safe_bind'; [apply safe_mapM; intros; apply safe_visit_subject|intros; safe_tac].
Qed.

Lemma safe_ns_filter t c obj : safe (Namespace.ns_filter t c obj).
Proof.
  unfold Namespace.ns_filter. apply safe_bind'.
  - brk; [safe_tac|]. apply safe_fsslice. intros n. apply safe_ns_setter.
  - intros o1. brk.
    + apply safe_bind'; [apply safe_role_binding_hack|]. intros o2. apply safe_fsslice. intros n. apply safe_ns_setter.
    + apply safe_fsslice. intros n. apply safe_ns_setter.
Qed.

Lemma safe_ns_transform t c rs : safe (Namespace.ns_transform t c rs).
Proof.
  unfold Namespace.ns_transform. brk; [safe_tac|].
  generalize (@nil node) as done. induction rs as [|r rest IH]; intros done; cbn; [safe_tac|].
  apply safe_bind'; [apply safe_ns_filter|]. intros r'. brk; [apply IH|safe_tac].
Qed.

(* ---------- Res/Generators.v (C06): resWrangler.appendReplaceOrMerge ---------- *)
From KV Require Res.Generators.

Lemma safe_rm_append rm o : safe (Generators.rm_append rm o).
Proof. unfold Generators.rm_append. brk; safe_tac. Qed.

Lemma safe_rm_replace rm o : safe (Generators.rm_replace rm o).
Proof. unfold Generators.rm_replace. destruct (Generators.indices _ _) as [|i [|j l]]; safe_tac. Qed.

(* the model keeps data / binaryData as string dictionaries: the log.Fatal of SetDataMap on a NON-STRING
   key (findings exit:log.Fatal of RNode.SetDataMap / SetBinaryDataMap) is outside it *)
Lemma safe_absorb rm r : safe (Generators.absorb rm r).
Proof.
  unfold Generators.absorb.
  destruct (Generators.absorb_action _ _); try safe_tac; try apply safe_rm_append.
  - destruct (Generators.indices _ _) as [|i [|j l]]; try safe_tac.
    destruct (nth_error rm i); [|safe_tac].
    apply safe_bind'; [apply safe_rm_replace|]. intros ir. brk; safe_tac.
  - destruct (Generators.indices _ _) as [|i [|j l]]; try safe_tac.
    destruct (nth_error rm i); [|safe_tac].
    apply safe_bind'; [apply safe_rm_replace|]. intros ir. brk; safe_tac.
Qed.

Lemma safe_absorb_all : forall l rm, safe (Generators.absorb_all rm l).
Proof.
  induction l as [|o t IH]; intros rm; cbn; [safe_tac|].
  apply safe_bind'; [apply safe_absorb|intros; apply IH].
Qed.

(* ---------- Res/NameRef.v (C03): selectReferral ---------- *)
From KV Require Res.NameRef.

Lemma safe_select_referral x old l identical : safe (NameRef.select_referral x old l identical).
Proof.
  unfold NameRef.select_referral.
  destruct (NameRef.sieve4 x old l) as [|c [|c' t]]; try safe_tac;
    match goal with |- safe (match ?l6 with _ => _ end) => destruct l6 as [|a [|b u]] end;
    try safe_tac; brk; safe_tac.
Qed.

(* ---------- instances of the loader lemmas for the two file systems ---------- *)
Section LoaderInstances.
  Variable remote : string -> bool.
  Variable http_get : string -> res string.
  Variable is_repo : string -> bool.
  Variable git_new : Loader.loader -> string -> res Loader.loader.
  Hypothesis Hhttp : forall p, safe (http_get p).
  Hypothesis Hgit : forall l p, safe (git_new l p).

  Lemma safe_loader_mem root l p r target :
    safe (Loader.load remote http_get (Loader.mem_ops root) l p) /\
    safe (Loader.new_root is_repo git_new (Loader.mem_ops root) l p) /\
    safe (Loader.new_loader is_repo git_new (Loader.mem_ops root) r target).
  Proof.
    repeat split;
      first [apply safe_load | apply safe_new_root | apply safe_new_loader]; auto;
      intros q; cbn; first [apply safe_m_cleaned_abs | apply safe_m_read_file].
  Qed.

  Lemma safe_loader_disk root cwd l p r target :
    DiskFsProofs.is_dir_node root -> DiskFs.wf_dnode root = true ->
    safe (Loader.load remote http_get (Loader.disk_ops root cwd) l p) /\
    safe (Loader.new_root is_repo git_new (Loader.disk_ops root cwd) l p) /\
    safe (Loader.new_loader is_repo git_new (Loader.disk_ops root cwd) r target).
  Proof.
    intros Hr Hw.
    repeat split;
      first [apply safe_load | apply safe_new_root | apply safe_new_loader]; auto;
      intros q; cbn; first [apply safe_d_cleaned_abs; assumption | apply safe_d_read_file].
  Qed.
End LoaderInstances.
