(* C01, state half, after the repairs of SetSchema / initSchema: the FULL history-independence theorem for the OpenAPI
   package-level state — what a build observes does not depend on the builds that ran before it, for ALL builds
   (any openapi field: none / version / custom schema / rejected combinations, sub-kustomizations with their own
   field), histories of any length.  Hypotheses: env_ok; every custom schema that occurs is accepted by parse()
   (a rejected one makes initSchema panic: covered by the correspondence and the byte-comparison search only). *)
From KV Require Import Base.Prelude Gen.OpenApiTables Glob.OpenApiState Glob.OpenApiStateProofs.

(* ================================================================ structural equality of schemas *)
Lemma leqb_eq {A} (eq : A -> A -> bool) (H : forall x y, eq x y = true -> x = y) :
  forall a b, leqb eq a b = true -> a = b.
Proof.
  induction a as [|x a IH]; intros [|y b] E; simpl in E; try discriminate; [reflexivity|].
  apply Bool.andb_true_iff in E. destruct E as [E1 E2]. rewrite (H _ _ E1), (IH _ E2). reflexivity.
Qed.

Lemma sdef_eqb_eq a b : sdef_eqb a b = true -> a = b.
Proof.
  destruct a, b. unfold sdef_eqb. simpl. intros E.
  repeat (apply Bool.andb_true_iff in E; destruct E as [E ?]).
  apply String.eqb_eq in E. apply String.eqb_eq in H0. apply Bool.eqb_prop in H.
  apply (leqb_eq tm_eqb (fun x y h => proj1 (tm_eqb_eq x y) h)) in H1. subst. reflexivity.
Qed.

Lemma path_eqb_eq (a b : tm * bool) : path_eqb a b = true -> a = b.
Proof.
  destruct a, b. unfold path_eqb. simpl. intros E. apply Bool.andb_true_iff in E. destruct E as [E1 E2].
  apply tm_eqb_eq in E1. apply Bool.eqb_prop in E2. subst. reflexivity.
Qed.

Lemma same_schema_eq a b : same_schema a b = true -> a = b.
Proof.
  destruct a, b. unfold same_schema. simpl. intros E.
  repeat (apply Bool.andb_true_iff in E; destruct E as [E ?]).
  apply N.eqb_eq in E. apply Bool.eqb_prop in H1.
  apply (leqb_eq _ sdef_eqb_eq) in H0. apply (leqb_eq _ path_eqb_eq) in H. subst. reflexivity.
Qed.

(* ================================================================ what parse() does to the namespaceability map *)
Definition has_true (ps : list (tm * bool)) (t : tm) : bool := existsb (fun p => tm_eqb t (fst p) && snd p) ps.
Definition has_any (ps : list (tm * bool)) (t : tm) : bool := existsb (fun p => tm_eqb t (fst p)) ps.
Definition ns_apply (ps : list (tm * bool)) (t : tm) (old : option bool) : option bool :=
  if has_true ps t then Some true
  else if has_any ps t then Some (match old with Some b => b | None => false end)
  else old.

Lemma ns_apply_cons p ps t old : ns_apply (p :: ps) t old = ns_apply ps t (ns_apply [p] t old).
Proof.
  unfold ns_apply, has_true, has_any. simpl.
  destruct (tm_eqb t (fst p)), (snd p), (existsb (fun p0 => tm_eqb t (fst p0) && snd p0) ps),
    (existsb (fun p0 => tm_eqb t (fst p0)) ps), old as [[|]|]; reflexivity.
Qed.

Lemma add_path_look ns p t : alook tm_eqb t (add_path ns p) = ns_apply [p] t (alook tm_eqb t ns).
Proof.
  destruct p as [k b]. unfold add_path, ns_apply, has_true, has_any. simpl. destruct b.
  - rewrite (alook_aset tm_eqb tm_eqb_eq). destruct (tm_eqb t k); reflexivity.
  - rewrite Bool.andb_false_r. simpl. destruct (tm_eqb t k) eqn:E.
    + apply tm_eqb_eq in E. subst t. destruct (alook tm_eqb k ns) eqn:L; simpl.
      * rewrite L. reflexivity.
      * apply (alook_aset_same tm_eqb tm_eqb_eq).
    + destruct (alook tm_eqb k ns); [reflexivity|]. apply (alook_aset_other tm_eqb tm_eqb_eq). assumption.
Qed.

Lemma ns_fold_look ps : forall ns t, alook tm_eqb t (fold_left add_path ps ns) = ns_apply ps t (alook tm_eqb t ns).
Proof.
  induction ps as [|p ps IH]; intros ns t; simpl; [reflexivity|].
  rewrite IH, add_path_look, <- ns_apply_cons. reflexivity.
Qed.

Lemma ns_after_parse_gen s d t : ns_look (parse_into s d) t = ns_apply (s_paths d) t (ns_look s t).
Proof.
  unfold ns_look, parse_into.
  destruct (fold_left add_def (s_defs d) (opt_list (o_defs s), opt_list (o_bytype s))) as [defs bt].
  simpl. apply ns_fold_look.
Qed.

Lemma bt_after_parse s d t :
  bt_look (parse_into s d) t = match claim_defs (s_defs d) t with Some v => Some v | None => bt_look s t end.
Proof. apply bytype_after_parse. Qed.

(* ================================================================ the documents a selection loads *)
Definition bt_step (d : schema) (t : tm) (acc : option val) : option val :=
  match claim_defs (s_defs d) t with Some v => Some v | None => acc end.
Definition bt_docs (ds : list schema) (t : tm) (x : option val) : option val :=
  fold_left (fun acc d => bt_step d t acc) ds x.
Definition ns_docs (ds : list schema) (t : tm) (x : option bool) : option bool :=
  fold_left (fun acc d => ns_apply (s_paths d) t acc) ds x.

(* initSchema loads: the default built-in schema, the custom schema if one is selected, the kustomization API *)
Definition docs (e : env) (c : option schema) : list schema :=
  builtin_of e :: (match c with Some c => [c] | None => [] end) ++ [e_kust e].

Record looks (s : ost) (ds : list schema) : Prop := mkLooks {
  lk_bt : forall t, bt_look s t = bt_docs ds t None;
  lk_ns : forall t, ns_look s t = ns_docs ds t None
}.

(* loading the documents of a selection over nothing, over the default documents, or over themselves gives the same *)
Lemma absorb_bt e c t ds0 :
  ds0 = [] \/ ds0 = docs e None \/ ds0 = docs e c ->
  bt_docs (docs e c) t (bt_docs ds0 t None) = bt_docs (docs e c) t None.
Proof.
  intros [->|[->| ->]]; [reflexivity | |]; unfold docs, bt_docs, bt_step; destruct c as [c|]; simpl;
    repeat match goal with |- context [claim_defs ?d t] => destruct (claim_defs d t) end; reflexivity.
Qed.

Lemma absorb_ns e c t ds0 :
  ds0 = [] \/ ds0 = docs e None \/ ds0 = docs e c ->
  ns_docs (docs e c) t (ns_docs ds0 t None) = ns_docs (docs e c) t None.
Proof.
  intros [->|[->| ->]]; [reflexivity | |]; unfold docs, ns_docs, ns_apply; destruct c as [c|]; simpl;
    repeat match goal with
           | |- context [has_true ?d t] => destruct (has_true d t)
           | |- context [has_any ?d t] => destruct (has_any d t)
           end; reflexivity.
Qed.

(* ================================================================ invariant of the reachable states *)
Definition maps_ok (e : env) (c : option schema) (s : ost) : Prop :=
  exists ds, (ds = [] \/ ds = docs e None \/ ds = docs e c) /\ looks s ds.

Record inv (e : env) (s : ost) : Prop := mkInv {
  iv_nob : o_nobuiltin s = false;
  iv_maps : maps_ok e (o_custom s) s;
  iv_init : o_init s = true -> looks s (docs e (o_custom s));
  iv_valid : forall c, o_custom s = Some c -> s_valid c = true
}.

(* holds whenever queries run: without a custom schema the selected version is the default one *)
Definition qok (s : ost) : Prop := o_custom s = None -> is_default_ver (o_ver s) = true.

Lemma looks_empty s : o_bytype s = None -> o_ns s = None -> looks s [].
Proof. intros H1 H2. split; intros t; unfold bt_look, ns_look; rewrite ?H1, ?H2; reflexivity. Qed.

Lemma inv0 e : inv e ost0.
Proof.
  split; simpl; try discriminate; auto.
  exists []. split; [auto | apply looks_empty; reflexivity].
Qed.

Lemma inv_drop e s c' : o_nobuiltin s = false -> (forall c, c' = Some c -> s_valid c = true) ->
  inv e (drop_parsed (with_custom s c')).
Proof.
  intros N HV. apply mkInv.
  - exact N.
  - exists []. split; [auto | apply looks_empty; reflexivity].
  - intros H; discriminate H.
  - exact HV.
Qed.

(* the scalar part of SetSchema's result depends only on the version / custom schema currently selected *)
Definition skel (ver : string) (custom : option schema) : ost := mkOst ver custom false NotParsed false None None None.
Definition triple (r : ost * oclass) : oclass * string * option schema := (snd r, o_ver (fst r), o_custom (fst r)).

Lemma set_schema_triple s fv sc r :
  triple (set_schema s fv sc r) = triple (set_schema (skel (o_ver s) (o_custom s)) fv sc r).
Proof.
  destruct s as [v c i d n df bt ns]. unfold set_schema, skel, triple. cbn [o_ver o_custom].
  destruct ((negb (String.eqb v "") || is_some c) && negb r); [reflexivity|].
  destruct sc as [c1|].
  - destruct fv; [reflexivity|]. destruct c as [c0|]; [destruct (same_schema c0 c1)|]; reflexivity.
  - destruct (String.eqb match fv with Some v0 => v0 | None => "" end "").
    + destruct c; reflexivity.
    + destruct (negb (str_in match fv with Some v0 => v0 | None => "" end gen_builtin_versions)); [reflexivity|].
      destruct c; [reflexivity|]. cbn [o_custom with_ver].
      destruct (same_builtin_version v match fv with Some v0 => v0 | None => "" end); reflexivity.
Qed.

Lemma single_builtin_version : gen_builtin_versions = [default_version].
Proof. vm_compute. reflexivity. Qed.

Lemma builtin_version_is_default v : str_in v gen_builtin_versions = true -> v = default_version.
Proof.
  rewrite single_builtin_version. simpl. rewrite Bool.orb_false_r. apply String.eqb_eq.
Qed.

Definition sc_valid (sc : option schema) : Prop := forall c, sc = Some c -> s_valid c = true.

Lemma looks_transfer s s' ds : o_bytype s' = o_bytype s -> o_ns s' = o_ns s -> looks s ds -> looks s' ds.
Proof.
  intros H1 H2 [L1 L2]. split; intros t; unfold bt_look, ns_look in *; rewrite ?H1, ?H2; [apply L1 | apply L2].
Qed.

Lemma maps_ok_transfer e c s s' : o_bytype s' = o_bytype s -> o_ns s' = o_ns s -> maps_ok e c s -> maps_ok e c s'.
Proof. intros H1 H2 [ds [Hds L]]. exists ds. split; [assumption | eapply looks_transfer; eauto]. Qed.

Lemma maps_ok_weaken e c s : maps_ok e None s -> maps_ok e c s.
Proof. intros [ds [Hds L]]. exists ds. split; [|assumption]. destruct Hds as [H|[H|H]]; auto. Qed.

Lemma maps_ok_empty e c s : o_bytype s = None -> o_ns s = None -> maps_ok e c s.
Proof. intros H1 H2. exists []. split; [auto | apply looks_empty; assumption]. Qed.

(* SetSchema keeps the invariant; when it succeeds and actually selects (reset, or nothing selected yet), or when the
   state was query-ready, the result is query-ready *)
Lemma set_schema_inv e s fv sc r :
  inv e s -> sc_valid sc -> (r = false -> qok s) ->
  inv e (fst (set_schema s fv sc r)) /\ (snd (set_schema s fv sc r) = COk -> qok (fst (set_schema s fv sc r))).
Proof.
  intros HI HV HQ. pose proof HI as [N M I V]. unfold set_schema.
  destruct ((negb (String.eqb (o_ver s) "") || is_some (o_custom s)) && negb r) eqn:ES.
  { simpl. split; [assumption|]. intros _. apply HQ.
    apply Bool.andb_true_iff in ES. destruct ES as [_ E]. destruct r; [discriminate | reflexivity]. }
  destruct sc as [c1|].
  - destruct fv as [v|]; cbn [fst snd]; [split; [assumption | discriminate]|].
    assert (V1 : s_valid c1 = true) by (apply HV; reflexivity).
    split; [| intros _ H; discriminate H].
    assert (VC : forall c, Some c1 = Some c -> s_valid c = true) by (intros c E; inversion E; subst; assumption).
    destruct (o_custom s) as [c0|] eqn:EC.
    + destruct (same_schema c0 c1) eqn:E.
      * apply same_schema_eq in E. subst c0. apply mkInv.
        -- exact N.
        -- eapply maps_ok_transfer; [| | exact M]; reflexivity.
        -- intros H; discriminate H.
        -- exact VC.
      * apply mkInv.
        -- exact N.
        -- apply maps_ok_empty; reflexivity.
        -- intros H; discriminate H.
        -- exact VC.
    + apply mkInv.
      * exact N.
      * apply maps_ok_weaken. eapply maps_ok_transfer; [| | exact M]; reflexivity.
      * intros H; discriminate H.
      * exact VC.
  - set (v := match fv with Some v0 => v0 | None => "" end).
    destruct (String.eqb v "") eqn:EV.
    + cbn [o_custom with_ver]. destruct (o_custom s) as [c0|] eqn:EC; cbn [fst snd].
      * split; [apply inv_drop; [exact N | discriminate] |].
        intros _ _. cbn [o_ver drop_parsed with_custom with_ver]. apply String.eqb_eq in EV. rewrite EV. reflexivity.
      * apply String.eqb_eq in EV. rewrite EV. split; [| intros _ _; reflexivity].
        apply mkInv.
        -- exact N.
        -- cbn [o_custom with_ver]. rewrite EC. eapply maps_ok_transfer; [| | exact M]; reflexivity.
        -- cbn [o_custom o_init with_ver]. rewrite EC. intros Hi. eapply looks_transfer; [| | exact (I Hi)]; reflexivity.
        -- cbn [o_custom with_ver]. rewrite EC. discriminate.
    + destruct (negb (str_in v gen_builtin_versions)) eqn:EB; cbn [fst snd].
      * split; [| discriminate]. apply mkInv.
        -- exact N.
        -- eapply maps_ok_transfer; [| | exact M]; reflexivity.
        -- cbn [o_custom o_init with_ver]. intros Hi. eapply looks_transfer; [| | exact (I Hi)]; reflexivity.
        -- exact V.
      * assert (Hv : v = default_version).
        { apply builtin_version_is_default. destruct (str_in v gen_builtin_versions); [reflexivity | discriminate]. }
        cbn [o_custom with_ver]. destruct (o_custom s) as [c0|] eqn:EC; cbn [fst snd].
        -- split; [apply inv_drop; [exact N | discriminate] |].
           intros _ _. cbn [o_ver drop_parsed with_custom with_ver]. rewrite Hv. apply is_default_ver_default.
        -- destruct (same_builtin_version (o_ver s) v); cbn [fst snd].
           ++ split; [| intros _ _; cbn [o_ver with_ver]; rewrite Hv; apply is_default_ver_default].
              apply mkInv.
              ** exact N.
              ** cbn [o_custom with_ver]. rewrite EC. eapply maps_ok_transfer; [| | exact M]; reflexivity.
              ** cbn [o_custom o_init with_ver]. rewrite EC. intros Hi. eapply looks_transfer; [| | exact (I Hi)]; reflexivity.
              ** cbn [o_custom with_ver]. rewrite EC. discriminate.
           ++ split; [| intros _ _; cbn [o_ver with_ver with_init]; rewrite Hv; apply is_default_ver_default].
              apply mkInv.
              ** exact N.
              ** cbn [o_custom with_ver with_init]. rewrite EC. eapply maps_ok_transfer; [| | exact M]; reflexivity.
              ** intros H; discriminate H.
              ** cbn [o_custom with_ver with_init]. rewrite EC. discriminate.
Qed.

(* ================================================================ initSchema, isInitSchemaNeeded *)
Lemma bt_look_with_init s b t : bt_look (with_init s b) t = bt_look s t. Proof. reflexivity. Qed.
Lemma bt_look_with_dflt s d t : bt_look (with_dflt s d) t = bt_look s t. Proof. reflexivity. Qed.
Lemma ns_look_with_init s b t : ns_look (with_init s b) t = ns_look s t. Proof. reflexivity. Qed.
Lemma ns_look_with_dflt s d t : ns_look (with_dflt s d) t = ns_look s t. Proof. reflexivity. Qed.

Lemma init_inv e s :
  env_ok e -> inv e s -> qok s ->
  exists s1, init_schema e s = (s1, COk) /\ inv e s1 /\ qok s1 /\
             o_ver s1 = o_ver s /\ o_custom s1 = o_custom s /\ o_init s1 = true.
Proof.
  intros [[B [EB PB]] KV KP] HI HQ. pose proof HI as [N M I V]. unfold init_schema.
  destruct (o_init s) eqn:EI.
  { exists s. split; [reflexivity|]. split; [exact HI|]. split; [exact HQ|]. auto. }
  assert (HB : builtin_of e = B) by (unfold builtin_of; rewrite EB; reflexivity).
  destruct M as [ds0 [Hds [L1 L2]]].
  cbn [with_init o_custom]. destruct (o_custom s) as [c|] eqn:EC.
  - (* a custom schema: built-in, custom, kustomization API *)
    assert (VC : s_valid c = true) by (apply V; reflexivity).
    unfold parse_builtin. cbn [o_nobuiltin with_init]. rewrite N, EB, VC.
    set (s1 := with_init s true). set (s3 := with_dflt (parse_into s1 B) Parsed).
    destruct (parse_into_scalars s3 c) as [P1 [P2 [P3 [P4 P5]]]].
    rewrite P4. unfold s3 at 1. cbn [o_dflt with_dflt]. rewrite KV.
    exists (parse_into (parse_into s3 c) (e_kust e)). split; [reflexivity|].
    destruct (parse_into_scalars (parse_into s3 c) (e_kust e)) as [Q1 [Q2 [Q3 [Q4 Q5]]]].
    destruct (parse_into_scalars s1 B) as [R1 [R2 [R3 [R4 R5]]]].
    assert (Ever : o_ver (parse_into (parse_into s3 c) (e_kust e)) = o_ver s)
      by (rewrite Q1, P1; unfold s3; cbn [o_ver with_dflt]; rewrite R1; reflexivity).
    assert (Ecus : o_custom (parse_into (parse_into s3 c) (e_kust e)) = Some c)
      by (rewrite Q2, P2; unfold s3; cbn [o_custom with_dflt]; rewrite R2; unfold s1; cbn [o_custom with_init]; exact EC).
    assert (Eini : o_init (parse_into (parse_into s3 c) (e_kust e)) = true)
      by (rewrite Q3, P3; unfold s3; cbn [o_init with_dflt]; rewrite R3; reflexivity).
    assert (HL : looks (parse_into (parse_into s3 c) (e_kust e)) (docs e (Some c))).
    { split; intros t.
      - rewrite !bt_after_parse. unfold s3. rewrite bt_look_with_dflt, bt_after_parse. unfold s1. rewrite bt_look_with_init, L1.
        rewrite <- (absorb_bt e (Some c) t ds0) by exact Hds.
        unfold docs, bt_docs at 1, bt_step. rewrite HB. reflexivity.
      - rewrite !ns_after_parse_gen. unfold s3. rewrite ns_look_with_dflt, ns_after_parse_gen. unfold s1. rewrite ns_look_with_init, L2.
        rewrite <- (absorb_ns e (Some c) t ds0) by exact Hds.
        unfold docs, ns_docs at 1. rewrite HB. reflexivity. }
    split; [|split; [intros X; rewrite Ecus in X; discriminate X | auto]].
    apply mkInv.
    + rewrite Q5, P5. unfold s3. cbn [o_nobuiltin with_dflt]. rewrite R5. exact N.
    + rewrite Ecus. exists (docs e (Some c)). auto.
    + intros _. rewrite Ecus. exact HL.
    + intros c' E. rewrite Ecus in E. inversion E; subst. exact VC.
  - (* the built-in schema *)
    cbn [o_ver with_init]. rewrite (HQ EC).
    unfold parse_builtin. cbn [o_nobuiltin with_init]. rewrite N, EB.
    set (s1 := with_init s true). set (s2 := with_dflt (parse_into s1 B) Parsed).
    cbn [o_dflt with_dflt]. rewrite KV.
    exists (parse_into s2 (e_kust e)). split; [reflexivity|].
    destruct (parse_into_scalars s2 (e_kust e)) as [Q1 [Q2 [Q3 [Q4 Q5]]]].
    destruct (parse_into_scalars s1 B) as [R1 [R2 [R3 [R4 R5]]]].
    assert (Ever : o_ver (parse_into s2 (e_kust e)) = o_ver s)
      by (rewrite Q1; unfold s2; cbn [o_ver with_dflt]; rewrite R1; reflexivity).
    assert (Ecus : o_custom (parse_into s2 (e_kust e)) = None)
      by (rewrite Q2; unfold s2; cbn [o_custom with_dflt]; rewrite R2; unfold s1; cbn [o_custom with_init]; exact EC).
    assert (Eini : o_init (parse_into s2 (e_kust e)) = true)
      by (rewrite Q3; unfold s2; cbn [o_init with_dflt]; rewrite R3; reflexivity).
    assert (HL : looks (parse_into s2 (e_kust e)) (docs e None)).
    { split; intros t.
      - rewrite bt_after_parse. unfold s2. rewrite bt_look_with_dflt, bt_after_parse. unfold s1. rewrite bt_look_with_init, L1.
        rewrite <- (absorb_bt e None t ds0) by (destruct Hds as [H|[H|H]]; auto).
        unfold docs, bt_docs at 1, bt_step. rewrite HB. reflexivity.
      - rewrite ns_after_parse_gen. unfold s2. rewrite ns_look_with_dflt, ns_after_parse_gen. unfold s1. rewrite ns_look_with_init, L2.
        rewrite <- (absorb_ns e None t ds0) by (destruct Hds as [H|[H|H]]; auto).
        unfold docs, ns_docs at 1. rewrite HB. reflexivity. }
    split; [|split; [intros _; rewrite Ever; apply HQ; exact EC | rewrite Ecus; auto]].
    apply mkInv.
    + rewrite Q5. unfold s2. cbn [o_nobuiltin with_dflt]. rewrite R5. exact N.
    + rewrite Ecus. exists (docs e None). auto.
    + intros _. rewrite Ecus. exact HL.
    + intros c' E. rewrite Ecus in E. discriminate.
Qed.

Lemma need_inv e s :
  inv e s -> qok s ->
  exists s1 b, is_init_needed s = (s1, b) /\ inv e s1 /\ qok s1 /\
               o_ver s1 = o_ver s /\ o_custom s1 = o_custom s /\ o_init s1 = o_init s /\
               (forall t, ns_look s1 t = ns_look s t) /\
               (b = true -> exists c, o_custom s = Some c) /\
               (b = false -> o_init s = true \/ o_custom s = None).
Proof.
  intros HI HQ. pose proof HI as [N M I V]. unfold is_init_needed.
  assert (Same : forall bb, (bb = true -> exists c, o_custom s = Some c) -> (bb = false -> o_init s = true \/ o_custom s = None) ->
                 exists s1 b, (s, bb) = (s1, b) /\ inv e s1 /\ qok s1 /\ o_ver s1 = o_ver s /\ o_custom s1 = o_custom s /\
                              o_init s1 = o_init s /\ (forall t, ns_look s1 t = ns_look s t) /\
                              (b = true -> exists c, o_custom s = Some c) /\ (b = false -> o_init s = true \/ o_custom s = None)).
  { intros bb H1 H0. exists s, bb. split; [reflexivity|]. split; [exact HI|]. split; [exact HQ|].
    split; [reflexivity|]. split; [reflexivity|]. split; [reflexivity|]. split; [reflexivity|]. split; assumption. }
  destruct (o_init s) eqn:EI.
  { apply Same; [intros X; discriminate X | intros _; left; reflexivity]. }
  destruct (o_custom s) as [c|] eqn:EC; cbn [is_some].
  { apply Same; [intros _; exists c; reflexivity | intros X; discriminate X]. }
  rewrite (HQ EC).
  destruct (o_dflt s).
  - exists (with_dflt s Delayed), false. split; [reflexivity|]. split.
    { apply mkInv.
      - exact N.
      - cbn [o_custom with_dflt]. rewrite EC. eapply maps_ok_transfer; [| | exact M]; reflexivity.
      - cbn [o_init with_dflt]. rewrite EI. intros X; discriminate X.
      - cbn [o_custom with_dflt]. rewrite EC. discriminate. }
    split; [intros _; apply HQ; exact EC|].
    split; [reflexivity|]. split; [cbn [o_custom with_dflt]; rewrite EC; reflexivity|]. split; [cbn [o_init with_dflt]; rewrite EI; reflexivity|].
    split; [reflexivity|]. split; [intros X; discriminate X | intros _; right; reflexivity].
  - apply Same; [intros X; discriminate X | intros _; right; reflexivity].
  - apply Same; [intros X; discriminate X | intros _; right; reflexivity].
Qed.

(* ================================================================ answers are functions of the selection *)
Lemma no_path_for_nonprecomputed (d : schema) t :
  paths_precomputed d -> precomputed t = None -> has_true (s_paths d) t = false /\ has_any (s_paths d) t = false.
Proof.
  intros HP Ht. split.
  - unfold has_true. destruct (existsb _ (s_paths d)) eqn:E; [|reflexivity].
    apply existsb_exists in E. destruct E as [p [Hp E]]. apply Bool.andb_true_iff in E. destruct E as [E _].
    apply tm_eqb_eq in E. subst. exfalso. apply (HP _ Hp). assumption.
  - unfold has_any. destruct (existsb _ (s_paths d)) eqn:E; [|reflexivity].
    apply existsb_exists in E. destruct E as [p [Hp E]].
    apply tm_eqb_eq in E. subst. exfalso. apply (HP _ Hp). assumption.
Qed.

Lemma ns_default_none e t ds :
  env_ok e -> precomputed t = None -> ds = [] \/ ds = docs e None -> ns_docs ds t None = None.
Proof.
  intros [[B [EB PB]] KV KP] Ht [->| ->]; [reflexivity|].
  assert (HB : builtin_of e = B) by (unfold builtin_of; rewrite EB; reflexivity).
  unfold docs, ns_docs, ns_apply. simpl. rewrite HB.
  destruct (no_path_for_nonprecomputed B t PB Ht) as [A1 A2].
  destruct (no_path_for_nonprecomputed (e_kust e) t KP Ht) as [A3 A4].
  rewrite A1, A2, A3, A4. reflexivity.
Qed.

(* the namespaceability entry a query sees: with a custom schema what its documents say, otherwise nothing *)
Definition ns_seen (e : env) (c : option schema) (t : tm) : option bool :=
  match c with Some _ => ns_docs (docs e c) t None | None => None end.
Definition cluster_seen (e : env) (c : option schema) (t : tm) : bool :=
  match precomputed t with
  | Some b => negb b
  | None => match ns_seen e c t with Some b => negb b | None => false end
  end.

Lemma ns_lookup_look s t : ns_lookup s t = match ns_look s t with Some b => (b, true) | None => (false, false) end.
Proof. reflexivity. Qed.

Lemma cluster_inv e s t :
  env_ok e -> inv e s -> qok s ->
  exists s1, is_cluster_scoped e s t = (s1, COk, cluster_seen e (o_custom s) t) /\ inv e s1 /\ qok s1 /\
             o_ver s1 = o_ver s /\ o_custom s1 = o_custom s.
Proof.
  intros HE HI HQ. unfold is_cluster_scoped, is_ns_scoped, cluster_seen.
  destruct (precomputed t) as [b|] eqn:EP.
  { exists s. split; [reflexivity|]. auto. }
  destruct (need_inv e s HI HQ) as [s1 [b [E1 [I1 [Q1 [V1 [C1 [N1 [L1 [B1 B0]]]]]]]]]]. rewrite E1.
  destruct b.
  - destruct (B1 eq_refl) as [c EC].
    destruct (init_inv e s1 HE I1 Q1) as [s2 [E2 [I2 [Q2 [V2 [C2 N2]]]]]]. rewrite E2.
    exists s2. split.
    + rewrite ns_lookup_look. pose proof (iv_init _ _ I2 N2) as [_ L]. rewrite L, C2, C1, EC.
      unfold ns_seen. destruct (ns_docs (docs e (Some c)) t None) as [[|]|]; reflexivity.
    + split; [exact I2|]. split; [exact Q2|]. split; congruence.
  - exists s1. split.
    + rewrite ns_lookup_look, L1.
      destruct (B0 eq_refl) as [Hi|EC].
      * pose proof (iv_init _ _ HI Hi) as [_ L]. rewrite L. unfold ns_seen.
        destruct (o_custom s) as [c|] eqn:EC.
        -- destruct (ns_docs (docs e (Some c)) t None) as [[|]|]; reflexivity.
        -- rewrite (ns_default_none e t _ HE EP (or_intror eq_refl)). reflexivity.
      * rewrite EC. unfold ns_seen.
        destruct (iv_maps _ _ HI) as [ds [Hds [_ L]]]. rewrite L. rewrite EC in Hds.
        rewrite (ns_default_none e t ds HE EP) by (destruct Hds as [H|[H|H]]; auto). reflexivity.
    + auto.
Qed.

Lemma schema_inv e s t :
  env_ok e -> inv e s -> qok s ->
  exists s1, schema_for e s t = (s1, COk, bt_docs (docs e (o_custom s)) t None) /\ inv e s1 /\ qok s1 /\
             o_ver s1 = o_ver s /\ o_custom s1 = o_custom s.
Proof.
  intros HE HI HQ. unfold schema_for.
  destruct (init_inv e s HE HI HQ) as [s1 [E1 [I1 [Q1 [V1 [C1 N1]]]]]]. rewrite E1.
  exists s1. split; [|auto].
  pose proof (iv_init _ _ I1 N1) as [L _]. fold (bt_look s1 t). rewrite L, C1. reflexivity.
Qed.

(* ================================================================ builds *)
Definition valid_sc (sc : option schema) : bool := match sc with Some c => s_valid c | None => true end.
Definition valid_query (q : query) : bool := match q with QSub _ sc => valid_sc sc | _ => true end.
Definition valid_build (b : build) : bool := valid_sc (b_schema b) && forallb valid_query (b_queries b).

Lemma valid_sc_prop sc : valid_sc sc = true -> sc_valid sc.
Proof. intros H c E. subst. exact H. Qed.

(* two query-ready states with the same selection: same outcome, same answers; the invariant survives in both *)
Lemma queries_sim e qs : forall s s',
  env_ok e -> forallb valid_query qs = true ->
  inv e s -> inv e s' -> qok s -> qok s' -> o_ver s = o_ver s' -> o_custom s = o_custom s' ->
  snd (fst (run_queries e s qs)) = snd (fst (run_queries e s' qs)) /\
  snd (run_queries e s qs) = snd (run_queries e s' qs) /\
  inv e (fst (fst (run_queries e s qs))) /\ inv e (fst (fst (run_queries e s' qs))).
Proof.
  induction qs as [|q qs IH]; intros s s' HE HV I1 I2 Q1 Q2 EV EC; simpl.
  { auto. }
  simpl in HV. apply Bool.andb_true_iff in HV. destruct HV as [Hq HV].
  destruct q as [t|t|fv sc|]; [| | | simpl; auto].
  - destruct (cluster_inv e s t HE I1 Q1) as [s1 [E1 [J1 [K1 [V1 C1]]]]].
    destruct (cluster_inv e s' t HE I2 Q2) as [s1' [E1' [J1' [K1' [V1' C1']]]]].
    rewrite E1, E1'. rewrite <- EC.
    destruct (IH s1 s1' HE HV J1 J1' K1 K1') as [A [B [C D]]]; try congruence.
    destruct (run_queries e s1 qs) as [[x c] l]. destruct (run_queries e s1' qs) as [[x' c'] l'].
    simpl in *. subst. auto.
  - destruct (schema_inv e s t HE I1 Q1) as [s1 [E1 [J1 [K1 [V1 C1]]]]].
    destruct (schema_inv e s' t HE I2 Q2) as [s1' [E1' [J1' [K1' [V1' C1']]]]].
    rewrite E1, E1'. rewrite <- EC.
    destruct (IH s1 s1' HE HV J1 J1' K1 K1') as [A [B [C D]]]; try congruence.
    destruct (run_queries e s1 qs) as [[x c] l]. destruct (run_queries e s1' qs) as [[x' c'] l'].
    simpl in *. subst. auto.
  - simpl in Hq. apply valid_sc_prop in Hq.
    pose proof (set_schema_triple s fv sc false) as T1. pose proof (set_schema_triple s' fv sc false) as T2.
    rewrite EV, EC in T1. rewrite <- T2 in T1. clear T2.
    destruct (set_schema_inv e s fv sc false I1 Hq (fun _ => Q1)) as [J1 K1].
    destruct (set_schema_inv e s' fv sc false I2 Hq (fun _ => Q2)) as [J1' K1'].
    destruct (set_schema s fv sc false) as [s1 c]. destruct (set_schema s' fv sc false) as [s1' c'].
    unfold triple in T1. simpl in *. inversion T1; subst c'.
    destruct c; simpl; auto.
    destruct (IH s1 s1' HE HV J1 J1' (K1 eq_refl) (K1' eq_refl)) as [A [B [C D]]]; try assumption.
    destruct (run_queries e s1 qs) as [[x c] l]. destruct (run_queries e s1' qs) as [[x' c'] l'].
    simpl in *. subst. auto.
Qed.

Lemma build_sim e b s s' :
  env_ok e -> valid_build b = true -> inv e s -> inv e s' ->
  snd (fst (run_build e s b)) = snd (fst (run_build e s' b)) /\
  snd (run_build e s b) = snd (run_build e s' b) /\
  inv e (fst (fst (run_build e s b))) /\ inv e (fst (fst (run_build e s' b))).
Proof.
  intros HE HV I1 I2. unfold valid_build in HV. apply Bool.andb_true_iff in HV. destruct HV as [Hs Hq].
  apply valid_sc_prop in Hs. unfold run_build.
  pose proof (set_schema_triple s (b_ver b) (b_schema b) true) as T1.
  pose proof (set_schema_triple s' (b_ver b) (b_schema b) true) as T2.
  assert (T0 : forall v c v' c',
             let r := triple (set_schema (skel v c) (b_ver b) (b_schema b) true) in
             let r' := triple (set_schema (skel v' c') (b_ver b) (b_schema b) true) in
             fst (fst r) = fst (fst r') /\ (fst (fst r) = COk -> r = r')).
  { intros v c v' c'. unfold set_schema, skel, triple. cbn [o_ver o_custom]. rewrite !Bool.andb_false_r.
    destruct (b_schema b) as [c1|].
    - destruct (b_ver b); [split; [reflexivity | intros X; discriminate X]|]. destruct c as [c0|], c' as [c0'|];
        repeat match goal with |- context [same_schema ?a ?b] => destruct (same_schema a b) end; split; reflexivity.
    - destruct (String.eqb match b_ver b with Some v0 => v0 | None => "" end "").
      + destruct c, c'; split; reflexivity.
      + destruct (negb (str_in match b_ver b with Some v0 => v0 | None => "" end gen_builtin_versions));
          [split; [reflexivity | intros X; discriminate X]|].
        destruct c, c'; cbn [o_custom with_ver];
          repeat match goal with |- context [same_builtin_version ?a ?b] => destruct (same_builtin_version a b) end; split; reflexivity. }
  specialize (T0 (o_ver s) (o_custom s) (o_ver s') (o_custom s')). cbv zeta in T0.
  rewrite <- T1, <- T2 in T0. clear T1 T2. destruct T0 as [TC TR].
  destruct (set_schema_inv e s (b_ver b) (b_schema b) true I1 Hs) as [J1 K1]; [discriminate|].
  destruct (set_schema_inv e s' (b_ver b) (b_schema b) true I2 Hs) as [J1' K1']; [discriminate|].
  destruct (set_schema s (b_ver b) (b_schema b) true) as [s1 c]. destruct (set_schema s' (b_ver b) (b_schema b) true) as [s1' c'].
  unfold triple in TC, TR. simpl in *. subst c'.
  destruct c; simpl; auto.
  specialize (TR eq_refl). inversion TR.
  apply queries_sim; auto.
Qed.

Lemma history_inv e h : forall s,
  env_ok e -> forallb valid_build h = true -> inv e s -> inv e (run_history e s h).
Proof.
  unfold run_history. induction h as [|b h IH]; intros s HE HV HI; simpl; [assumption|].
  simpl in HV. apply Bool.andb_true_iff in HV. destruct HV as [Hb Hh].
  apply IH; [assumption | assumption |].
  destruct (build_sim e b s s HE Hb HI HI) as [_ [_ [J _]]]. exact J.
Qed.

(* C01 (state half), FULL statement: what a build observes of the OpenAPI state does not depend on the builds that
   ran before it — for every build (any openapi field, sub-kustomizations with their own field) and every history,
   of any length. *)
Theorem history_independent e h b :
  env_ok e -> forallb valid_build h = true -> valid_build b = true ->
  observe e (run_history e ost0 h) b = observe e ost0 b.
Proof.
  intros HE HH HB. unfold observe.
  destruct (build_sim e b (run_history e ost0 h) ost0 HE HB (history_inv e h ost0 HE HH (inv0 e)) (inv0 e)) as [A [B _]].
  destruct (run_build e (run_history e ost0 h) b) as [[x c] l]. destruct (run_build e ost0 b) as [[x' c'] l'].
  simpl in *. subst. reflexivity.
Qed.

(* non-vacuity: histories that used to leak *)
Example history_independent_example :
  forallb valid_build (ex_H ++ ex_H2 ++ [ex_T2]) = true /\ valid_build ex_T = true /\
  observe ex_env (run_history ex_env ost0 (ex_H ++ ex_H2 ++ [ex_T2])) ex_T = (COk, [ANs false; ASchema None]).
Proof. repeat split; vm_compute; reflexivity. Qed.
