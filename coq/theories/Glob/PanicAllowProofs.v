(* C12: obligations over the generated panic-site table (finite, decided by vm_compute). *)
From KV Require Import Glob.PanicSiteTypes Glob.PanicAllow Gen.PanicSites Gen.C12Findings.
Open Scope string_scope.

(* every site of the source has a justification (own entry, or its package is out of scope) and
   none is of the unclassifiable kind *)
Lemma panic_sites_ok :
  forallb (site_allowed panic_allow_pkgs panic_allow) gen_panic_sites = true.
Proof. vm_compute. reflexivity. Qed.

(* the same, unfolded into the statement one wants to read *)
Lemma panic_sites_justified :
  forall s, In s gen_panic_sites ->
    s_kind s <> SkOther /\
    ((exists j, In (s_pkg s, j) panic_allow_pkgs) \/
     (exists j, In (mkAllow s j) panic_allow)).
Proof.
  intros s Hs.
  pose proof panic_sites_ok as H. rewrite forallb_forall in H. specialize (H s Hs).
  unfold site_allowed in H. apply andb_true_iff in H. destruct H as [Hk H].
  split.
  - intros E. rewrite E in Hk. discriminate.
  - apply orb_true_iff in H. destruct H as [H|H].
    + left. apply existsb_exists in H. destruct H as [[p j] [Hin Hp]].
      apply andb_true_iff in Hp. destruct Hp as [Hp _]. cbn in Hp. apply String.eqb_eq in Hp. subst p.
      exists j. exact Hin.
    + right. apply existsb_exists in H. destruct H as [[s' j] [Hin Hp]].
      apply andb_true_iff in Hp. destruct Hp as [Hp _]. cbn in Hp.
      exists j. replace s with s'; [exact Hin|].
      unfold site_eqb in Hp.
      apply andb_true_iff in Hp. destruct Hp as [Hp Ho].
      apply andb_true_iff in Hp. destruct Hp as [Hp Hkk].
      apply andb_true_iff in Hp. destruct Hp as [Hpk Hf].
      apply String.eqb_eq in Hpk. apply String.eqb_eq in Hf. apply Nat.eqb_eq in Ho.
      destruct s' as [p' f' k' o'], s as [p f k o]; cbn in *. subst.
      destruct k', k; try discriminate; reflexivity.
Qed.

(* every class id the allow-list refers to is a documented finding (findings.d/C12.txt) *)
Lemma panic_known_findings_listed :
  forallb (fun c => str_in c gen_c12_finding_classes) (known_classes panic_allow) = true.
Proof. vm_compute. reflexivity. Qed.

(* no entry of the allow-list is stale on the tree as found *)
Lemma panic_allow_not_stale : stale_entries gen_panic_sites panic_allow = [].
Proof. vm_compute. reflexivity. Qed.

(* the table is not empty and does contain the sites the property names (non-vacuity) *)
Definition site_csv_annotation_panic := mkSite "api/resource" "(*Resource).appendCsvAnnotation" SkPanic 0.
Definition site_previds_panic := mkSite "api/resource" "(*Resource).PrevIds" SkPanic 0.
Lemma panic_sites_nonempty :
  existsb (site_eqb site_csv_annotation_panic) gen_panic_sites = true /\
  existsb (site_eqb site_previds_panic) gen_panic_sites = true /\
  20 <= List.length gen_panic_sites /\ 40 <= List.length gen_panic_pkgs.
Proof. vm_compute. repeat split; repeat constructor. Qed.
