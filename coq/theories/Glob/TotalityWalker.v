(* C12: the generic walker (Yaml/Walk.v, owners C04 / C15) never panics, at ANY fuel, whatever the
   schema, options and documents: the only Panic constructor of the model - appendListNode indexing
   keys[0] of an empty key list - is dead, because validateKeys returns a non-empty key list for a
   non-empty one, every value tuple the associative-list loop visits is non-empty, and the key list
   of an associative list is never empty when that loop runs.
   The component lemmas mirror the owners' no-Diverge lemmas (Yaml/WalkProofs.v) for Panic. *)
From KV Require Import Yaml.Walk Yaml.WalkProofs Yaml.Merge2 Yaml.Merge3.
Local Open Scope list_scope.

Lemma bind_np {A B} (r : res A) (f : A -> res B) :
  r <> Panic -> (forall a, f a <> Panic) -> bind r f <> Panic.
Proof. destruct r; cbn; auto; discriminate. Qed.

Lemma clear_field_np k d : clear_field k d <> Panic.
Proof. destruct d as [t s v| |]; cbn; try discriminate. destruct t; discriminate. Qed.

Lemma set_field_np nonstr k v keep d : set_field nonstr k v keep d <> Panic.
Proof.
  unfold set_field. destruct v as [v0|]; [|apply clear_field_np].
  destruct (is_null v0 && negb keep); [apply clear_field_np|].
  destruct d as [t s x|kvs|es]; try discriminate.
  - destruct (is_null (Scalar t s x)); discriminate.
  - destruct (find_field k kvs); discriminate.
Qed.

Lemma set_field_w_np nonstr k r d : set_field_w nonstr k r d <> Panic.
Proof.
  unfold set_field_w. destruct r as [w|]; [|apply clear_field_np].
  destruct (w_inplace w && _); [|apply set_field_np].
  destruct d as [t s x|kvs|es]; try apply set_field_np.
  destruct (find_field k kvs); [discriminate|apply set_field_np].
Qed.

Lemma set_scalar_np v d : set_scalar v d <> Panic.
Proof.
  destruct d as [t s x| |]; cbn; try discriminate.
  destruct t; destruct v as [v0|]; try discriminate; destruct (is_null v0); discriminate.
Qed.

Lemma field_match_np k v e : field_match k v e <> Panic.
Proof.
  unfold field_match. destruct (is_null e); [discriminate|].
  destruct (String.eqb k ""); destruct e as [t s x|kvs|es]; try discriminate.
  destruct (find_field k kvs); discriminate.
Qed.

Lemma es_match_np ks : forall vs b e, es_match ks vs b e <> Panic.
Proof.
  induction ks as [|k ks IH]; intros vs b e; cbn; [discriminate|].
  destruct vs as [|v vs].
  - destruct b; [apply IH|discriminate].
  - apply bind_np; [apply field_match_np|]. intros [|]; [apply IH|discriminate].
Qed.

Lemma element_set_np elem ks vs es : element_set elem ks vs es <> Panic.
Proof.
  unfold element_set.
  apply bind_np.
  - induction es as [|e t IH]; [discriminate|].
    cbn. destruct (is_null e || is_empty_map e); [exact IH|].
    match goal with |- (if ?c then _ else _) <> _ => destruct c end.
    + apply bind_np; [exact IH|discriminate].
    + apply bind_np; [apply es_match_np|]. intros b.
      apply bind_np; [exact IH|]. intros r.
      destruct b; [destruct elem; discriminate|destruct vs; discriminate].
  - intros r. destruct elem as [x|]; [|discriminate].
    destruct (is_null x); [discriminate|]. destruct (snd r); discriminate.
Qed.

Lemma fold_res_np {A B} (F : A -> B -> res A) :
  (forall a b, F a b <> Panic) ->
  forall l acc, acc <> Panic ->
    fold_left (fun (acc : res A) b => do a <- acc; F a b) l acc <> Panic.
Proof.
  intros HF. induction l as [|b l IH]; intros acc Hacc; cbn; auto.
  apply IH. apply bind_np; auto.
Qed.

Lemma delete_elem_np vk vv des : delete_elem vk vv des <> Panic.
Proof.
  unfold delete_elem.
  apply (fold_res_np (fun l (_ : string) => element_set None vk vv l)); [|discriminate].
  intros; apply element_set_np.
Qed.

Lemma ensure_keys_np nonstr vk vv val : ensure_keys nonstr vk vv val <> Panic.
Proof.
  unfold ensure_keys.
  apply (fold_res_np (fun val (kv : string * string) =>
               if negb (has_field (fst kv) val) && negb (String.eqb (snd kv) "") then
                 if String.eqb (fst kv) "" then set_scalar (Some (Scalar TNone SPlain (snd kv))) val
                 else set_field nonstr (fst kv) (Some (Scalar TNone SPlain (snd kv))) false val
               else Ok val)); [|discriminate].
  intros a b. destruct (negb _ && _); [|discriminate].
  destruct (String.eqb (fst b) ""); [apply set_scalar_np|apply set_field_np].
Qed.

Lemma get_field_rnode_np k e : get_field_rnode k e <> Panic.
Proof. unfold get_field_rnode. destruct (is_null e); [discriminate|]. destruct e; discriminate. Qed.


(* appendListNode panics only on an EMPTY key list (and then only if there is something to append) *)
Lemma append_list_node_np dst src ks : ks <> [] -> append_list_node dst src ks <> Panic.
Proof.
  intros Hks. unfold append_list_node.
  destruct ks as [|k0 kt]; [contradiction|].
  match goal with
  | |- fold_left ?F src (Ok dst) <> _ =>
      change (fold_left (fun (acc : res (list node)) e => do d <- acc;
                (fun (dst : list node) (e : node) =>
                       if String.eqb k0 "" then element_set (Some e) [""%string] [node_value e] dst
                       else
                         do st <- fold_left
                                    (fun (acc : res (list node * list string)) (key : string) =>
                                       do st <- acc;
                                       do vn <- get_field_rnode key e;
                                       match vn with
                                       | None => Ok (fst st ++ [e], snd st)
                                       | Some x => Ok (fst st, snd st ++ [node_value x])
                                       end) (k0 :: kt) (Ok (dst, []));
                         do dst1 <- (if Nat.ltb 1 (List.length (k0 :: kt)) then element_set None (k0 :: kt) (snd st) (fst st)
                                     else Ok (fst st));
                         element_set (Some e) (k0 :: kt) (snd st) dst1) d e) src (Ok dst) <> Panic)
  end.
  apply fold_res_np; [|discriminate].
  intros a e. destruct (String.eqb k0 ""); [apply element_set_np|].
  apply bind_np.
  - apply (fold_res_np (fun (st : list node * list string) key =>
                          do vn <- get_field_rnode key e;
                          match vn with
                          | None => Ok (fst st ++ [e], snd st)
                          | Some x => Ok (fst st, snd st ++ [node_value x])
                          end)); [|discriminate].
    intros st key. apply bind_np; [apply get_field_rnode_np|]. intros [x|]; discriminate.
  - intros st. apply bind_np.
    + destruct (Nat.ltb 1 _); [apply element_set_np|discriminate].
    + intros; apply element_set_np.
Qed.

(* ---------- validateKeys keeps a non-empty key list non-empty ---------- *)

Lemma filter_nonempty_witness {A} (f : A -> bool) (l : list A) x : In x l -> f x = true -> filter f l <> [].
Proof.
  intros Hin Hf E. assert (H : In x (filter f l)) by (apply filter_In; auto). rewrite E in H. exact H.
Qed.

Lemma str_in_In x l : In x l -> str_in x l = true.
Proof.
  induction l as [|y t IH]; cbn; [contradiction|]. intros [->|H].
  - rewrite String.eqb_refl. reflexivity.
  - rewrite (IH H). apply Bool.orb_true_r.
Qed.

Lemma validate_keys_nonempty vl values ks : ks <> [] -> fst (validate_keys vl values ks) <> [].
Proof.
  intros Hks. unfold validate_keys.
  destruct (valid_key_set vl ks) as [|k0 set] eqn:E; cbn [fst]; [exact Hks|].
  assert (Hin : In k0 (valid_key_set vl ks)) by (rewrite E; left; reflexivity).
  unfold valid_key_set in Hin. apply filter_In in Hin as [Hk _].
  eapply filter_nonempty_witness; [exact Hk|]. apply str_in_In. left. reflexivity.
Qed.

(* ---------- every value tuple the loop visits is non-empty ---------- *)

Definition nonempty_all (vl : list (list string)) : Prop := Forall (fun v : list string => v <> []) vl.

Lemma fold_left_inv {A B} (P : A -> Prop) (f : A -> B -> A) l :
  (forall a b, P a -> P (f a b)) -> forall a, P a -> P (fold_left f l a).
Proof. intros Hf. induction l as [|b t IH]; intros a Ha; cbn; auto. Qed.

Section Values.
  Variable opts : wopts.

  Lemma element_values_nonempty ks srcs : nonempty_all (element_values opts ks srcs).
  Proof.
    unfold element_values. apply fold_left_inv; [|constructor].
    intros acc [n|] Hacc; [|exact Hacc].
    apply fold_left_inv; [|exact Hacc].
    intros acc' e Ha. destruct (map _ ks) as [|v vs] eqn:E; [exact Ha|].
    destruct (strs_in _ acc'); [exact Ha|]. apply Forall_app. split; [exact Ha|].
    constructor; [discriminate|constructor].
  Qed.

  Lemma element_values_nil_keys srcs : element_values opts [] srcs = [].
  Proof.
    unfold element_values.
    apply (fold_left_inv (fun acc : list (list string) => acc = [])); [|reflexivity].
    intros acc [n|] ->; [|reflexivity].
    apply (fold_left_inv (fun acc : list (list string) => acc = [])); [|reflexivity].
    intros acc' e ->. reflexivity.
  Qed.

  Lemma element_primitive_values_nonempty srcs : nonempty_all (element_primitive_values opts srcs).
  Proof.
    unfold element_primitive_values. apply fold_left_inv; [|constructor].
    intros acc [n|] Hacc; [|exact Hacc].
    apply fold_left_inv; [|exact Hacc].
    intros acc' e Ha. destruct (strs_in _ acc'); [exact Ha|]. apply Forall_app. split; [exact Ha|].
    constructor; [discriminate|constructor].
  Qed.
End Values.

Lemma mv_match_length a : forall b common acc c r,
  mv_match a b common acc = Some (c, r) -> List.length r = List.length acc + Nat.min (List.length a) (List.length b).
Proof.
  induction a as [|x a IH]; intros b common acc c r H; cbn in H.
  - inversion H; subst. cbn. lia.
  - destruct b as [|y b]; [inversion H; subst; cbn; lia|].
    destruct (String.eqb x y).
    + apply IH in H. rewrite H, app_length. cbn. lia.
    + destruct (negb _ && negb _); [discriminate|].
      apply IH in H. rewrite H, app_length. cbn. lia.
Qed.

Lemma values_match_nonempty a b r : a <> [] -> values_match a b = Some r -> r <> [].
Proof.
  intros Ha H. unfold values_match in H.
  destruct (Nat.eqb (List.length a) (List.length b)) eqn:E; [|discriminate].
  apply Nat.eqb_eq in E.
  destruct (mv_match a b false []) as [[[|] r']|] eqn:M; try discriminate. inversion H; subst.
  apply mv_match_length in M. cbn in M. intros Z. subst r. cbn in M.
  destruct a; [contradiction|]. cbn in *. rewrite <- E in M. cbn in M. lia.
Qed.

Lemma nonempty_replace_nth i r (l : list (list string)) : r <> [] -> nonempty_all l -> nonempty_all (replace_nth i r l).
Proof.
  intros Hr. revert i. induction l as [|x t IH]; intros i Hl.
  - destruct i; constructor.
  - inversion Hl; subst. destruct i; cbn; constructor; auto. apply IH. assumption.
Qed.

Lemma nonempty_nth (l : list (list string)) i v : nonempty_all l -> nth_error l i = Some v -> v <> [].
Proof. intros Hl E. apply nth_error_In in E. unfold nonempty_all in Hl. rewrite Forall_forall in Hl. auto. Qed.

Lemma merge_values_nonempty vl : nonempty_all vl -> nonempty_all (merge_values vl).
Proof.
  intros H. unfold merge_values. apply fold_left_inv; [|exact H].
  intros cur i Hc. destruct (nth_error cur i) as [v1|] eqn:E1; [|exact Hc].
  apply fold_left_inv; [|exact Hc].
  intros cur' j Hc'. destruct (nth_error cur' j) as [v2|]; [|exact Hc'].
  destruct (values_match v1 v2) as [r|] eqn:M; [|exact Hc'].
  assert (Hr : r <> []) by (eapply values_match_nonempty; [eapply nonempty_nth; [exact Hc|exact E1]|exact M]).
  apply nonempty_replace_nth; auto. apply nonempty_replace_nth; auto.
Qed.

(* ---------- the walker ---------- *)

Record vis_np (vis : visitor) : Prop := mkVisNp {
  vm_np : forall srcs, v_map vis srcs <> Panic;
  vl_np : forall b srcs, v_list vis b srcs <> Panic;
  vs_np : forall srcs, v_scalar vis srcs <> Panic
}.

Lemma fold_res_inv_np {A B} (P : A -> Prop) (F : A -> B -> res A) :
  (forall a b, P a -> F a b <> Panic /\ (forall a', F a b = Ok a' -> P a')) ->
  forall l acc, acc <> Panic -> (forall a, acc = Ok a -> P a) ->
    fold_left (fun (acc : res A) b => do a <- acc; F a b) l acc <> Panic /\
    (forall a', fold_left (fun (acc : res A) b => do a <- acc; F a b) l acc = Ok a' -> P a').
Proof.
  intros HF. induction l as [|b l IH]; intros acc Hnd Hacc; cbn.
  - split; auto.
  - apply IH.
    + destruct acc as [a| | |]; cbn; try discriminate; [|contradiction].
      apply HF. auto.
    + intros a' E. destruct acc as [a| | |]; cbn in E; try discriminate.
      eapply HF; eauto.
Qed.

Section NoPanic.
  Context {Sc : Type}.
  Variable sch : schema Sc.
  Variable opts : wopts.
  Variable nonstr : string -> bool.
  Variable vis : visitor.
  Hypothesis Hvis : vis_np vis.

  Notation rec_t := (@rec_t Sc).
  Definition rec_np (rec : rec_t) : Prop := forall sc a s, rec sc a s <> Panic.

  Lemma walk_fields_np rec sc alias srcs : rec_np rec ->
    forall names d, walk_fields sch nonstr rec sc alias srcs names d <> Panic.
  Proof.
    intros Hrec. induction names as [|key rest IH]; intros d; cbn; [discriminate|].
    apply bind_np; [apply Hrec|]. intros r. apply bind_np; [apply set_field_w_np|apply IH].
  Qed.

  Lemma walk_map_np rec sc alias srcs : rec_np rec -> walk_map sch nonstr vis rec sc alias srcs <> Panic.
  Proof.
    intros Hrec. unfold walk_map. apply bind_np; [apply (vm_np _ Hvis)|]. intros vr.
    destruct (resolve _ _ _) as [[[[d0 keep] inpl] alias']|]; [|discriminate].
    apply bind_np; [apply walk_fields_np; auto|discriminate].
  Qed.

  (* one step of the associative-list loop: no panic; a non-empty value tuple leaves a non-empty
     last-valid-keys list behind, an empty one leaves the state alone *)
  Lemma assoc_step_np rec esc alias srcs vl ks st values : rec_np rec -> ks <> [] ->
    assoc_step nonstr rec esc alias srcs vl ks st values <> Panic /\
    (forall st', assoc_step nonstr rec esc alias srcs vl ks st values = Ok st' ->
       (values <> [] -> snd st' <> []) /\ (snd st <> [] -> snd st' <> [])).
  Proof.
    intros Hrec Hks. unfold assoc_step. destruct st as [[des items] vk_last].
    destruct values as [|v0 vs].
    { split; [discriminate|]. intros st' E. inversion E; subst. split; [intros H; contradiction|auto]. }
    pose proof (validate_keys_nonempty vl (v0 :: vs) ks Hks) as Hvk.
    destruct (validate_keys vl (v0 :: vs) ks) as [vk vv]. cbn [fst] in Hvk.
    destruct (validate_keys [vv] vv vk) as [ek ev].
    match goal with |- bind ?R _ <> _ /\ _ => pose proof (Hrec _ _ _ : R <> Panic) as Hr; destruct R as [r| | |] end;
      cbn [bind]; try (split; [discriminate|intros; discriminate]); [|contradiction].
    destruct (is_dead r) eqn:Edead.
    - pose proof (delete_elem_np ek ev des) as Hd.
      destruct (delete_elem ek ev des) as [des'| | |]; cbn [bind];
        try (split; [discriminate|intros; discriminate]); [|contradiction].
      split; [discriminate|]. intros st' E. inversion E; subst. cbn. split; auto.
    - destruct r as [w|]; [|cbn in Edead; discriminate].
      pose proof (ensure_keys_np nonstr vk vv (w_node w)) as He.
      destruct (ensure_keys nonstr vk vv (w_node w)) as [val| | |]; cbn [bind];
        try (split; [discriminate|intros; discriminate]); [|contradiction].
      pose proof (element_set_np (Some val) vk vv items) as Hs.
      destruct (element_set (Some val) vk vv items) as [items'| | |]; cbn [bind];
        try (split; [discriminate|intros; discriminate]); [|contradiction].
      split; [discriminate|]. intros st' E. inversion E; subst. cbn. split; auto.
  Qed.

  Lemma assoc_loop_np rec esc alias srcs vl ks : rec_np rec -> ks <> [] ->
    forall todo st, nonempty_all todo ->
      assoc_loop nonstr rec esc alias srcs vl ks todo st <> Panic /\
      (forall st', assoc_loop nonstr rec esc alias srcs vl ks todo st = Ok st' ->
         (todo <> [] \/ snd st <> []) -> snd st' <> []).
  Proof.
    intros Hrec Hks. unfold assoc_loop.
    induction todo as [|values rest IH]; intros st Hne; cbn [fold_left].
    - split; [discriminate|]. intros st' E [H|H]; [contradiction|]. inversion E; subst. exact H.
    - inversion Hne as [|? ? Hv Hrest]; subst.
      destruct (assoc_step_np rec esc alias srcs vl ks st values Hrec Hks) as [Hnp Hinv].
      cbn [bind].
      destruct (assoc_step nonstr rec esc alias srcs vl ks st values) as [st1| | |] eqn:E1.
      + destruct (IH st1 Hrest) as [Hn2 Hi2]. split; [exact Hn2|].
        intros st' E _. apply Hi2; [exact E|]. right. destruct (Hinv st1 eq_refl) as [H1 _]. auto.
      + assert (F : forall l, fold_left (fun (acc : res astate) v => do st0 <- acc; assoc_step nonstr rec esc alias srcs vl ks st0 v) l Err = Err)
          by (induction l; cbn; auto).
        rewrite F. split; [discriminate|intros; discriminate].
      + contradiction.
      + assert (F : forall l, fold_left (fun (acc : res astate) v => do st0 <- acc; assoc_step nonstr rec esc alias srcs vl ks st0 v) l Diverge = Diverge)
          by (induction l; cbn; auto).
        rewrite F. split; [discriminate|intros; discriminate].
  Qed.

  Lemma set_assoc_np rec sc alias srcs values_list ks d inpl keep :
    rec_np rec -> ks <> [] -> nonempty_all values_list ->
    set_assoc sch opts nonstr rec sc alias srcs values_list ks d inpl keep <> Panic.
  Proof.
    intros Hrec Hks Hvl. unfold set_assoc.
    destruct d as [t s v|kvs|des0]; [destruct (is_null _); discriminate|cbn; discriminate|].
    set (vl := if Nat.ltb 1 (List.length ks) then merge_values values_list else values_list).
    assert (Hne : nonempty_all vl) by (subst vl; destruct (Nat.ltb _ _); [apply merge_values_nonempty|]; auto).
    destruct (assoc_loop_np rec (match sc with Some s => sc_elems sch s | None => None end) alias srcs vl ks Hrec Hks vl (des0, [], []) Hne)
      as [Hnp Hinv].
    destruct (assoc_loop nonstr rec _ alias srcs vl ks vl (des0, [], [])) as [[[des items] vk_last]| | |] eqn:El;
      cbn [bind]; try discriminate; [|contradiction].
    apply bind_np; [|discriminate].
    destruct vl as [|v0 vrest] eqn:Evl; [discriminate|].
    assert (Hk : vk_last <> []).
    { specialize (Hinv _ eq_refl). cbn [snd] in Hinv. apply Hinv. left. discriminate. }
    destruct (o_prepend opts); apply bind_np; try discriminate; apply append_list_node_np; exact Hk.
  Qed.

  Lemma element_key_np srcs : element_key opts srcs <> Panic.
  Proof.
    unfold element_key. apply bind_np.
    - apply (fold_res_np (fun key (s : option node) =>
                            match s with
                            | Some n =>
                                match elems_of n with
                                | [] => Ok key
                                | es =>
                                    let nk := assoc_key_of (o_assoc_keys opts) es in
                                    if negb (String.eqb key "") && negb (String.eqb key nk) then Err else Ok nk
                                end
                            | None => Ok key
                            end)); [|discriminate].
      intros a [n|]; [|discriminate]. destruct (elems_of n); [discriminate|].
      cbn. destruct (negb _ && _); discriminate.
    - intros k. destruct (String.eqb k ""); discriminate.
  Qed.

  Lemma walk_aseq_np rec sc alias srcs : rec_np rec -> walk_aseq sch opts nonstr vis rec sc alias srcs <> Panic.
  Proof.
    intros Hrec. unfold walk_aseq. apply bind_np; [apply (vl_np _ Hvis)|]. intros vr.
    destruct (resolve _ _ _) as [[[[d0 keep] inpl] alias']|]; [|discriminate].
    apply bind_np.
    - destruct (_ && _); [|discriminate]. apply bind_np; [apply element_key_np|discriminate].
    - intros ks.
      destruct ks as [|k0 kt].
      + rewrite element_values_nil_keys.
        apply set_assoc_np; auto; [discriminate|apply element_primitive_values_nonempty].
      + destruct (element_values opts (k0 :: kt) _) eqn:Ev.
        * apply set_assoc_np; auto; [discriminate|constructor].
        * apply set_assoc_np; auto; [discriminate|]. rewrite <- Ev. apply element_values_nonempty.
  Qed.

  (* Walker.Walk never panics, at any fuel *)
  Lemma walk_np : forall fuel sc alias srcs, walk sch opts nonstr vis fuel sc alias srcs <> Panic.
  Proof.
    induction fuel as [|f IH]; intros sc alias srcs; cbn [walk]; [discriminate|].
    assert (Hrec : rec_np (walk sch opts nonstr vis f)) by (intros sc' a s; apply IH).
    destruct (first_kind srcs) as [[| |]|].
    - destruct (all_valid KScalar srcs); [|discriminate].
      apply bind_np; [apply (vs_np _ Hvis)|discriminate].
    - destruct (all_valid KMap srcs); [|discriminate]. apply walk_map_np; auto.
    - destruct (all_valid KSeq srcs); [|discriminate].
      destruct (is_associative _ _ _ _); [apply walk_aseq_np; auto|].
      apply bind_np; [apply (vl_np _ Hvis)|discriminate].
    - apply walk_map_np; auto.
  Qed.

  Theorem walk_top_no_panic srcs : walk_top sch opts nonstr vis srcs <> Panic.
  Proof. unfold walk_top. apply bind_np; [apply walk_np|discriminate]. Qed.
End NoPanic.

(* ---------- the two visitors ---------- *)

Lemma determine_smp_np patch : determine_smp patch <> Panic.
Proof.
  unfold determine_smp. destruct patch as [[t s v|kvs|es]|]; try discriminate.
  - destruct (find_field smp_key kvs); [|discriminate]. destruct (smp_of_value _); discriminate.
  - destruct (element_by_key smp_key es) as [[t s v|kvs|es']|]; try discriminate.
    destruct (Nat.ltb _ _); [discriminate|]. destruct (find_field smp_key kvs); [|discriminate].
    destruct (smp_of_value _); [|discriminate]. apply bind_np; [apply element_set_np|discriminate].
Qed.

Lemma merger_np : vis_np merger.
Proof.
  constructor; cbn.
  - intros srcs. unfold m2_visit_map. destruct (o_null _).
    + destruct (determine_smp (origin_of srcs)) as [[ps o]| | |];
        repeat match goal with
               | |- context [match ?x with _ => _ end] => destruct x
               end; discriminate.
    + destruct (tagged_null _); [discriminate|].
      apply bind_np; [apply determine_smp_np|]. intros r. destruct (fst r); discriminate.
  - intros b srcs. unfold m2_visit_list. destruct (negb b); [destruct (origin_of srcs); discriminate|].
    destruct (o_null (dest_of srcs)).
    + destruct (o_null (origin_of srcs)); [discriminate|].
      destruct (determine_smp (origin_of srcs)) as [[ps o]| | |];
        repeat match goal with
               | |- context [match ?x with _ => _ end] => destruct x
               end; discriminate.
    + destruct (tagged_null _); [discriminate|].
      apply bind_np; [apply determine_smp_np|]. intros r. destruct (fst r); discriminate.
  - intros srcs. unfold m2_visit_scalar. destruct (origin_of srcs); discriminate.
Qed.

Lemma merger3_np : vis_np merger3.
Proof.
  constructor; cbn.
  - intros srcs. unfold m3_visit_map.
    repeat match goal with |- (if ?b then _ else _) <> _ => destruct b end; discriminate.
  - intros b srcs. unfold m3_visit_list.
    repeat match goal with
           | |- (if ?b then _ else _) <> _ => destruct b
           | |- (match ?x with _ => _ end) <> _ => destruct x
           end; discriminate.
  - intros srcs. unfold m3_visit_scalar.
    repeat match goal with
           | |- (if ?b then _ else _) <> _ => destruct b
           | |- (match ?x with _ => _ end) <> _ => destruct x
           end; discriminate.
Qed.

Section Merges.
  Context {Sc : Type}.
  Variable sch : schema Sc.
  Variable opts : wopts.
  Variable nonstr : string -> bool.

  Theorem merge2_no_panic patch target : merge2 sch opts nonstr patch target <> Panic.
  Proof. unfold merge2. apply walk_top_no_panic. apply merger_np. Qed.

  Theorem merge3_no_panic l o u : merge3 sch opts nonstr l o u <> Panic.
  Proof. unfold merge3. apply walk_top_no_panic. apply merger3_np. Qed.
End Merges.
