(* Record types of the generated table Gen/Globals.v (translate/globals.go). *)
From KV Require Export Base.Prelude.

Inductive gkind :=
| GMutable                  (* stored to / updated through / address-taken outside package initialisers *)
| GSync (ty : string)       (* sync.Mutex / RWMutex / Once / WaitGroup *)
| GRefUsed (reach : bool).  (* initialised once, but the reference it holds is passed to calls / has methods called
                               on it outside initialisers (reach: in a function reachable from krusty.Run) *)
Record gvar := mkGvar { g_name : string; g_kind : gkind; g_type : string }.

Inductive akind :=
| ARead        (* load of the variable / field *)
| AWrite       (* store to the variable / field *)
| AMapRead     (* lookup / len / element read through the map or slice held in the variable *)
| AMapRange    (* iteration (`range`) over the map held in the variable: the order is randomised per run *)
| AMapWrite    (* map update / element or field store through it *)
| ARefUse      (* the reference held in the variable is passed on / returned (treated as a read) *)
| AEscape      (* the address of the variable escapes (unclassifiable: must be allow-listed) *)
| AUnbalanced. (* a function that returns with a different set of global locks than it was entered with *)

Record gaccess := mkAcc {
  a_pkg : string;          (* package of the accessing function, relative to sigs.k8s.io/kustomize/ *)
  a_fn : string;           (* function (receiver-qualified; closures are parent$n) *)
  a_var : string;          (* <package>.<variable>[.field]*[[]] *)
  a_kind : akind;
  a_ord : N;               (* ordinal among the rows with the same (pkg, fn, var, kind) *)
  a_ctx : list string;     (* W:<lock> R:<lock> O:<once> A:<once> tokens that certainly hold *)
  a_reach : bool;          (* the function is reachable from krusty.Run (RTA) *)
  a_val : string           (* constant stored, for AWrite of a constant *)
}.

(* how TransformerConfig.DeepCopy fills a field of its result (Gen/DeepCopy.v) *)
Inductive dckind := DCDeep | DCShared | DCMissing | DCOther.
