From KV Require Import Glob.ModelPanicMap Gen.C12ModelPanics Gen.C12Findings.

Lemma model_panics_accounted : forallb mp_accounted gen_model_panics = true.
Proof. vm_compute. reflexivity. Qed.

Lemma model_panics_accounted_spec :
  forall k, In k gen_model_panics -> exists d, mp_lookup k = Some d.
Proof.
  intros k Hk. pose proof model_panics_accounted as H. rewrite forallb_forall in H.
  specialize (H k Hk). unfold mp_accounted in H. destruct (mp_lookup k); [eauto|discriminate].
Qed.

Lemma model_panic_classes_listed :
  forallb (fun c => str_in c gen_c12_finding_classes) mp_finding_classes = true /\
  forallb (fun c => str_in c gen_c12_fixed_classes) mp_fixed_classes = true.
Proof. split; vm_compute; reflexivity. Qed.

Lemma model_panic_map_not_stale : mp_stale gen_model_panics = [].
Proof. vm_compute. reflexivity. Qed.
