(* C16 — the decidable obligation over the generated access table Gen/Globals.v.
   Every row is judged with the *same* predicates ([write_ok_s] / [read_ok_s] of Glob/Conc.v) that the
   soundness theorem C16_discipline_sound is about; rows that fail must be in the allow-list. *)
From KV Require Import Glob.GlobalsTypes Glob.Conc Glob.GlobalsAllow.

Definition akind_eqb (a b : akind) : bool :=
  match a, b with
  | ARead, ARead | AWrite, AWrite | AMapRead, AMapRead | AMapRange, AMapRange | AMapWrite, AMapWrite
  | ARefUse, ARefUse | AEscape, AEscape | AUnbalanced, AUnbalanced => true
  | _, _ => false
  end.

(* a table entry ending in "." is a pure prefix (a whole package); any other entry names a variable or field and
   covers exactly it, its sub-fields ("p.f"), its elements ("p[]") and what it points to ("p->") — NOT a
   sibling whose name merely starts with the same letters (globalSchema.schema vs globalSchema.schemaInit) *)
Definition ends_with_dot (p : string) : bool := has_suffix "." p.
Definition var_matches (p v : string) : bool :=
  if ends_with_dot p then has_prefix p v
  else String.eqb p v || has_prefix (p ++ ".") v || has_prefix (p ++ "[") v || has_prefix (p ++ "-") v.

Fixpoint prots_of (tbl : list (string * list prot)) (v : string) : list prot :=
  match tbl with
  | [] => []
  | (p, ps) :: t => if var_matches p v then ps else prots_of t v
  end.

(* "W:x" -> Some ("W", "x") *)
Definition token (s : string) : option (string * string) :=
  match s with
  | String c (String ":" rest) => Some (String c EmptyString, rest)
  | _ => None
  end.

Definition ctx_of_tokens (l : list string) : sctx :=
  fold_right (fun tk c =>
                match token tk with
                | Some ("W", x) => mkCtx ((MW, x) :: sc_held c) (sc_in c) (sc_after c)
                | Some ("R", x) => mkCtx ((MR, x) :: sc_held c) (sc_in c) (sc_after c)
                | Some ("O", x) => mkCtx (sc_held c) (x :: sc_in c) (sc_after c)
                | Some ("A", x) => mkCtx (sc_held c) (sc_in c) (x :: sc_after c)
                | _ => c
                end) ctx0 l.

(* every token must be understood: an unknown token kind fails the row *)
Definition tokens_known (l : list string) : bool :=
  forallb (fun tk => match token tk with
                     | Some ("W", _) | Some ("R", _) | Some ("O", _) | Some ("A", _) => true
                     | _ => false
                     end) l.

(* does the row obey the discipline of its variable? *)
Definition row_disciplined (tbl : list (string * list prot)) (r : gaccess) : bool :=
  let ps := prots_of tbl (a_var r) in
  let c := ctx_of_tokens (a_ctx r) in
  tokens_known (a_ctx r) &&
  match a_kind r with
  | ARead | AMapRead | AMapRange | ARefUse => read_ok_s ps c
  | AWrite | AMapWrite => write_ok_s ps c
  | AEscape | AUnbalanced => false
  end.

(* does the row clear an init flag (or the whole struct that contains it)? such rows need a ResetSite entry
   even when they are properly locked, because the once-like reading of initSchema depends on them *)
Definition is_reset_site (r : gaccess) : bool :=
  match a_kind r with
  | AWrite =>
      (String.eqb (a_var r) "kyaml/openapi.globalSchema.schemaInit" && negb (String.eqb (a_val r) "true"))
      || String.eqb (a_var r) "kyaml/openapi.globalSchema"
  | _ => false
  end.

Definition allow_matches (a : allow) (r : gaccess) : bool :=
  String.eqb (al_pkg a) (a_pkg r) && String.eqb (al_fn a) (a_fn r) && String.eqb (al_var a) (a_var r)
  && akind_eqb (al_kind a) (a_kind r) && N.eqb (al_ord a) (a_ord r).

Definition reason_applies (rs : reason) (r : gaccess) : bool :=
  match rs with
  | NotOnRunPath _ => negb (a_reach r)
  | ResetSite _ => is_reset_site r
  | _ => true
  end.

Definition allowed (al : list allow) (r : gaccess) : bool :=
  existsb (fun a => allow_matches a r && reason_applies (al_reason a) r) al.

Definition row_ok (tbl : list (string * list prot)) (al : list allow) (r : gaccess) : bool :=
  (row_disciplined tbl r && negb (is_reset_site r)) || allowed al r.

(* no stale allow-list entries: each one matches a row that really needs it *)
Definition allow_used (tbl : list (string * list prot)) (rows : list gaccess) (a : allow) : bool :=
  existsb (fun r => allow_matches a r && negb (row_disciplined tbl r && negb (is_reset_site r))) rows.

Definition globals_ok (tbl : list (string * list prot)) (al : list allow) (rows : list gaccess) : bool :=
  forallb (row_ok tbl al) rows && forallb (allow_used tbl rows) al.

(* the rows that are excused only as known findings *)
Definition is_finding (rs : reason) : bool := match rs with KnownFinding _ => true | _ => false end.
Definition finding_rows (tbl : list (string * list prot)) (al : list allow) (rows : list gaccess) : list gaccess :=
  filter (fun r => negb (row_disciplined tbl r && negb (is_reset_site r))
                   && existsb (fun a => allow_matches a r && is_finding (al_reason a)) al) rows.

(* the mutable variables the table knows about must all be covered by the discipline table or be
   among the variables the allow-list excuses *)
Definition ref_allowed (g : gvar) : bool :=
  existsb (fun p => String.eqb (fst p) (g_type g)) ref_type_allow
  || existsb (fun p => String.eqb (fst p) (g_name g)) ref_var_allow.

Definition var_covered (tbl : list (string * list prot)) (al : list allow) (g : gvar) : bool :=
  match g_kind g with
  | GSync _ => true
  | GMutable =>
      negb (is_nil (prots_of tbl (g_name g)))
      || existsb (fun a => has_prefix (g_name g) (al_var a)) al
  | GRefUsed _ => ref_allowed g
  end.

(* no stale by-name excuses: each names a variable the table lists as GRefUsed *)
Definition ref_allow_used (vars : list gvar) (p : string * string) : bool :=
  existsb (fun g => String.eqb (g_name g) (fst p) && match g_kind g with GRefUsed _ => true | _ => false end) vars.

Definition vars_ok (tbl : list (string * list prot)) (al : list allow) (vars : list gvar) : bool :=
  forallb (var_covered tbl al) vars && forallb (ref_allow_used vars) ref_var_allow.

(* ---------- the copy discipline of the process-global default transformer configuration (Gen/DeepCopy.v) ---------- *)
Definition dc_is_deep (k : dckind) : bool := match k with DCDeep => true | _ => false end.
Definition tc_field_ok (f : string * string * bool * dckind) : bool :=
  let '(_, _, isref, k) := f in negb isref || dc_is_deep k.
Definition tc_type_ok (t : string * bool * bool * bool) : bool :=
  let '(_, has, mk, cp) := t in has && mk && cp.
Definition deepcopy_ok (fields : list (string * string * bool * dckind)) (tys : list (string * bool * bool * bool)) : bool :=
  negb (is_nil fields) && forallb tc_field_ok fields && negb (is_nil tys) && forallb tc_type_ok tys.

(* ---------- determinism: no iteration over the accumulated schema maps ---------- *)
(* kyaml/openapi ranges only over the maps of the document being parsed (parameters), never over the accumulated
   package-level maps: with several stored definitions claiming one group/version/kind, an index rebuilt by ranging over
   the accumulated map would pick the winner by Go's randomised iteration order. *)
Definition range_rows (prefix : string) (rows : list gaccess) : list gaccess :=
  filter (fun r => match a_kind r with AMapRange => has_prefix prefix (a_var r) | _ => false end) rows.
