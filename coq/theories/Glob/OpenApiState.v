(* Model of the package-level state of kyaml/openapi/openapi.go (C16, and the state half of C01).

   Definitions only (proofs: OpenApiStateProofs.v).  The model follows the code as it is:
     SetSchema                                openapi.go:611
     isInitSchemaNeededForNamespaceScopeCheck openapi.go:417
     initSchema / parseBuiltinSchema / parse  openapi.go:666 / 702 / 720
     AddDefinitions / findNamespaceability    openapi.go:318 / 758
     IsNamespaceScoped / IsCertainlyClusterScoped / SchemaForResourceType / GetSchemaVersion
     ResetOpenAPI / SuppressBuiltInSchemaUse / AddSchema
   and krusty.Run's use of it (kustomizer.go:85 reset=true; kusttarget.go:506 reset=false).

   Abstraction: an OpenAPI document is reduced to what parse() adds to the globals:
   its definitions (name, the type metas of its x-kubernetes-group-version-kind extension, a marker
   string = the definition's description, and whether the list the harness patches has a merge key)
   and, per GET path carrying a GVK extension, (type meta, path contains "namespaces/{namespace}").
   Domain restrictions of the abstraction (mirrored by the harness generators):
     - inside one document no two definitions claim the same type meta or the same name
       (Go ranges the definitions map in random order; a collision would be nondeterministic);
     - a document is either accepted as a whole by parse() or rejected before anything is added
       (no GVK extension with a missing "version"/"kind": toTypeMeta would panic half-way). *)
From KV Require Import Base.Prelude.
From KV Require Import Gen.OpenApiTables.

Definition tm := (string * string)%type.          (* apiVersion, kind *)
Definition tm_eqb (a b : tm) : bool := String.eqb (fst a) (fst b) && String.eqb (snd a) (snd b).

Record sdef := mkDef {
  d_name : string;
  d_tms : list tm;
  d_mark : string;
  d_mk : bool
}.

Record schema := mkSchema {
  s_id : N;
  s_valid : bool;                       (* parse() accepts the bytes *)
  s_defs : list sdef;
  s_paths : list (tm * bool)
}.

Inductive pstatus := NotParsed | Delayed | Parsed.

(* association lists: [aset] replaces the first binding of the key or appends one, so lists stay small;
   [alook] returns the first binding *)
Section Assoc.
  Context {K V : Type} (keq : K -> K -> bool).
  Fixpoint alook (k : K) (l : list (K * V)) : option V :=
    match l with
    | [] => None
    | (k', v) :: t => if keq k k' then Some v else alook k t
    end.
  Fixpoint aset (k : K) (v : V) (l : list (K * V)) : list (K * V) :=
    match l with
    | [] => [(k, v)]
    | (k', v') :: t => if keq k k' then (k, v) :: t else (k', v') :: aset k v t
    end.
End Assoc.

Record ost := mkOst {
  o_ver : string;                                   (* kubernetesOpenAPIVersion *)
  o_custom : option schema;                         (* customSchema (nil = None) *)
  o_init : bool;                                    (* globalSchema.schemaInit *)
  o_dflt : pstatus;                                 (* globalSchema.defaultBuiltInSchemaParseStatus *)
  o_nobuiltin : bool;                               (* globalSchema.noUseBuiltInSchema *)
  o_defs : option (list (string * string));         (* globalSchema.schema.Definitions: name -> marker; None = nil map *)
  o_bytype : option (list (tm * (string * bool)));  (* globalSchema.schemaByResourceType: marker, merge key *)
  o_ns : option (list (tm * bool))                  (* globalSchema.namespaceabilityByResourceType *)
}.

Definition ost0 : ost := mkOst "" None false NotParsed false None None None.

Definition with_ver (s : ost) v := mkOst v (o_custom s) (o_init s) (o_dflt s) (o_nobuiltin s) (o_defs s) (o_bytype s) (o_ns s).
Definition with_custom (s : ost) c := mkOst (o_ver s) c (o_init s) (o_dflt s) (o_nobuiltin s) (o_defs s) (o_bytype s) (o_ns s).
Definition with_init (s : ost) b := mkOst (o_ver s) (o_custom s) b (o_dflt s) (o_nobuiltin s) (o_defs s) (o_bytype s) (o_ns s).
Definition with_dflt (s : ost) d := mkOst (o_ver s) (o_custom s) (o_init s) d (o_nobuiltin s) (o_defs s) (o_bytype s) (o_ns s).
Definition with_nobuiltin (s : ost) b := mkOst (o_ver s) (o_custom s) (o_init s) (o_dflt s) b (o_defs s) (o_bytype s) (o_ns s).
Definition with_maps (s : ost) d b n := mkOst (o_ver s) (o_custom s) (o_init s) (o_dflt s) (o_nobuiltin s) d b n.

(* environment: the documents compiled into the binary *)
Record env := mkEnv {
  e_builtin : list (string * schema);   (* per built-in version *)
  e_kust : schema                       (* kustomizationapi/swagger.json *)
}.

Definition default_version : string := gen_default_version.
Definition is_default_ver (v : string) : bool := String.eqb v "" || String.eqb v default_version.

Definition precomputed (t : tm) : option bool :=
  alook tm_eqb t (map (fun r => (fst (fst r), snd (fst r), snd r)) gen_precomputed_ns).

(* ---------- parse = AddDefinitions + findNamespaceability ---------- *)

Definition opt_list {A} (o : option (list A)) : list A := match o with Some l => l | None => [] end.

Definition add_def (acc : list (string * string) * list (tm * (string * bool))) (d : sdef) :=
  (aset String.eqb (d_name d) (d_mark d) (fst acc),
   fold_left (fun bt t => aset tm_eqb t (d_mark d, d_mk d) bt) (d_tms d) (snd acc)).

Definition add_path (ns : list (tm * bool)) (p : tm * bool) : list (tm * bool) :=
  if snd p then aset tm_eqb (fst p) true ns
  else match alook tm_eqb (fst p) ns with
       | Some _ => ns
       | None => aset tm_eqb (fst p) false ns
       end.

(* the document has already been accepted *)
Definition parse_into (s : ost) (d : schema) : ost :=
  let '(defs, bt) := fold_left add_def (s_defs d) (opt_list (o_defs s), opt_list (o_bytype s)) in
  with_maps s (Some defs) (Some bt) (Some (fold_left add_path (s_paths d) (opt_list (o_ns s)))).

(* parseBuiltinSchema: None = panic (nil asset function for an unknown version) *)
Definition parse_builtin (e : env) (s : ost) (v : string) : option ost :=
  if o_nobuiltin s then Some s
  else match alook String.eqb v (e_builtin e) with
       | Some d => Some (parse_into s d)
       | None => None
       end.

(* ---------- the API ---------- *)

Definition is_some {A} (o : option A) : bool := match o with Some _ => true | None => false end.

(* dropParsedSchema: forget everything parsed for the previously selected schema (keeps noUseBuiltInSchema) *)
Definition drop_parsed (s : ost) : ost :=
  mkOst (o_ver s) (o_custom s) false NotParsed (o_nobuiltin s) None None None.

(* two values of kubernetesOpenAPIVersion select the same built-in schema ("" = the default version) *)
Definition same_builtin_version (a b : string) : bool :=
  String.eqb (if String.eqb a "" then default_version else a) (if String.eqb b "" then default_version else b).

(* bytes.Equal on custom schemas: structural equality of the abstracted documents (the generators give distinct
   bytes to distinct documents and vice versa) *)
Fixpoint leqb {A} (eq : A -> A -> bool) (a b : list A) : bool :=
  match a, b with
  | [], [] => true
  | x :: a', y :: b' => eq x y && leqb eq a' b'
  | _, _ => false
  end.
Definition sdef_eqb (a b : sdef) : bool :=
  String.eqb (d_name a) (d_name b) && leqb tm_eqb (d_tms a) (d_tms b) && String.eqb (d_mark a) (d_mark b) && Bool.eqb (d_mk a) (d_mk b).
Definition path_eqb (a b : tm * bool) : bool := tm_eqb (fst a) (fst b) && Bool.eqb (snd a) (snd b).
Definition same_schema (a b : schema) : bool :=
  N.eqb (s_id a) (s_id b) && Bool.eqb (s_valid a) (s_valid b) && leqb sdef_eqb (s_defs a) (s_defs b) && leqb path_eqb (s_paths a) (s_paths b).

(* SetSchema(openAPIField, schema, reset): fver = openAPIField["version"] if present.
   (after the repairs 66a399d / 5e76c27: a selection change away from / between custom schemas drops what was
   parsed; selecting the built-in version already in use keeps it) *)
Definition set_schema (s : ost) (fver : option string) (sch : option schema) (reset : bool) : ost * oclass :=
  let is_set := negb (String.eqb (o_ver s) "") || is_some (o_custom s) in
  if is_set && negb reset then (s, COk)
  else match sch with
       | Some c =>
           match fver with
           | Some _ => (s, CErr)
           | None =>
               let s0 := match o_custom s with
                         | Some c0 => if same_schema c0 c then s else drop_parsed s
                         | None => s
                         end in
               (with_init (with_ver (with_custom s0 (Some c)) "custom") false, COk)
           end
       | None =>
           let v := match fver with Some v => v | None => "" end in
           let prev := o_ver s in
           let s1 := with_ver s v in
           if String.eqb v "" then
             (match o_custom s1 with
              | Some _ => drop_parsed (with_custom s1 None)
              | None => s1
              end, COk)
           else if negb (str_in v gen_builtin_versions) then (s, CErr)   (* rejected before it is selected (/repo 7964400) *)
           else match o_custom s1 with
                | Some _ => (drop_parsed (with_custom s1 None), COk)
                | None => if same_builtin_version prev v then (s1, COk) else (with_init s1 false, COk)
                end
       end.

Definition is_init_needed (s : ost) : ost * bool :=
  if o_init s then (s, false)
  else if is_some (o_custom s) then (s, true)
  else if is_default_ver (o_ver s) then
         (match o_dflt s with NotParsed => with_dflt s Delayed | _ => s end, false)
  else (s, true).

(* initSchema: COk or CPanic; the state is returned in both cases (schemaInit is set before parsing) *)
Definition init_schema (e : env) (s : ost) : ost * oclass :=
  if o_init s then (s, COk)
  else
    let s1 := with_init s true in
    let finish (s2 : ost) : ost * oclass :=
      let r := match o_dflt s2 with
               | Delayed => match parse_builtin e s2 default_version with
                            | Some s3 => Some (with_dflt s3 Parsed)
                            | None => None
                            end
               | _ => Some s2
               end in
      match r with
      | Some s3 => if s_valid (e_kust e) then (parse_into s3 (e_kust e), COk) else (s3, CPanic)
      | None => (s2, CPanic)
      end in
    match o_custom s1 with
    | Some c =>
        (* (after the repair 8b04412) the default built-in schema is always loaded underneath a custom one *)
        match parse_builtin e s1 default_version with
        | Some s2 =>
            let s3 := with_dflt s2 Parsed in
            if s_valid c then finish (parse_into s3 c) else (s3, CPanic)
        | None => (s1, CPanic)
        end
    | None =>
        if is_default_ver (o_ver s1) then
          match parse_builtin e s1 default_version with
          | Some s2 => finish (with_dflt s2 Parsed)
          | None => (s1, CPanic)
          end
        else
          match parse_builtin e s1 (o_ver s1) with
          | Some s2 => finish s2
          | None => (s1, CPanic)
          end
    end.

Definition ns_lookup (s : ost) (t : tm) : bool * bool :=
  match alook tm_eqb t (opt_list (o_ns s)) with
  | Some b => (b, true)
  | None => (false, false)
  end.

(* IsNamespaceScoped: (namespaced, found) *)
Definition is_ns_scoped (e : env) (s : ost) (t : tm) : ost * oclass * (bool * bool) :=
  match precomputed t with
  | Some b => (s, COk, (b, true))
  | None =>
      let '(s1, need) := is_init_needed s in
      if need then
        let '(s2, c) := init_schema e s1 in
        match c with
        | COk => (s2, COk, ns_lookup s2 t)
        | _ => (s2, c, (false, false))
        end
      else (s1, COk, ns_lookup s1 t)
  end.

Definition is_cluster_scoped (e : env) (s : ost) (t : tm) : ost * oclass * bool :=
  let '(s1, c, (nsd, found)) := is_ns_scoped e s t in (s1, c, found && negb nsd).

(* SchemaForResourceType: marker and merge-key flag of the indexed definition *)
Definition schema_for (e : env) (s : ost) (t : tm) : ost * oclass * option (string * bool) :=
  let '(s1, c) := init_schema e s in
  match c with
  | COk => (s1, COk, alook tm_eqb t (opt_list (o_bytype s1)))
  | _ => (s1, c, None)
  end.

Definition custom_version_text : string := "using custom schema from file provided".
Definition get_version (s : ost) : string :=
  if String.eqb (o_ver s) "" && negb (is_some (o_custom s)) then default_version
  else if is_some (o_custom s) then custom_version_text
  else o_ver s.

Definition reset_openapi (s : ost) : ost := ost0.
Definition suppress_builtin (s : ost) : ost := with_nobuiltin s true.
Definition add_schema (s : ost) (d : schema) : ost * oclass :=
  if s_valid d then (parse_into s d, COk) else (s, CErr).

(* ---------- builds (krusty.Run as far as the schema globals are concerned) ---------- *)

Inductive query :=
| QNs (t : tm)               (* resid.NewGvk -> IsCertainlyClusterScoped, when a resource is loaded *)
| QSchema (t : tm)           (* walk.go:125 SchemaForResourceType, when a strategic-merge patch is applied *)
| QSub (fver : option string) (sch : option schema)    (* a sub-kustomization is loaded: SetSchema(..., false) *)
| QFail.                     (* the build fails here for a reason unrelated to the schema (missing resource file, patch
                                without target, ...): Run returns the error, nothing else happens to the globals *)

Inductive answer :=
| ANs (cluster_scoped : bool)
| ASchema (r : option (string * bool))
| ASub.

Record build := mkBuild {
  b_ver : option string;
  b_schema : option schema;
  b_queries : list query
}.

(* answers so far, outcome class, state; a failing step ends the build *)
Fixpoint run_queries (e : env) (s : ost) (qs : list query) : ost * oclass * list answer :=
  match qs with
  | [] => (s, COk, [])
  | q :: t =>
      match q with
      | QNs x =>
          let '(s1, c, b) := is_cluster_scoped e s x in
          match c with
          | COk => let '(s2, c2, l) := run_queries e s1 t in (s2, c2, ANs b :: l)
          | _ => (s1, c, [])
          end
      | QSchema x =>
          let '(s1, c, r) := schema_for e s x in
          match c with
          | COk => let '(s2, c2, l) := run_queries e s1 t in (s2, c2, ASchema r :: l)
          | _ => (s1, c, [])
          end
      | QFail => (s, CErr, [])
      | QSub fv sc =>
          let '(s1, c) := set_schema s fv sc false in
          match c with
          | COk => let '(s2, c2, l) := run_queries e s1 t in (s2, c2, ASub :: l)
          | _ => (s1, c, [])
          end
      end
  end.

Definition run_build (e : env) (s : ost) (b : build) : ost * oclass * list answer :=
  let '(s1, c) := set_schema s (b_ver b) (b_schema b) true in
  match c with
  | COk => run_queries e s1 (b_queries b)
  | _ => (s1, c, [])
  end.

Definition run_history (e : env) (s : ost) (h : list build) : ost :=
  fold_left (fun st b => fst (fst (run_build e st b))) h s.

(* what a build observes *)
Definition observe (e : env) (s : ost) (b : build) : oclass * list answer :=
  let '(_, c, l) := run_build e s b in (c, l).

(* a build that uses the built-in schema: no openapi field, or the default version spelled out,
   and the same for its sub-kustomizations *)
Definition default_field (fv : option string) (sc : option schema) : bool :=
  negb (is_some sc) && match fv with None => true | Some v => is_default_ver v end.
Definition default_query (q : query) : bool :=
  match q with QSub fv sc => default_field fv sc | QFail => false | _ => true end.
Definition default_build (b : build) : bool :=
  default_field (b_ver b) (b_schema b) && forallb default_query (b_queries b).
