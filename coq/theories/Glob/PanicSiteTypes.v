(* C12: vocabulary of the generated panic-site table (Gen/PanicSites.v) and of the hand-maintained
   allow-list (Glob/PanicAllow.v). *)
From KV Require Export Base.Prelude.

(* what kind of abnormal termination the source text can cause at the site *)
Inductive site_kind :=
| SkPanic         (* panic(...), log.Panic* *)
| SkFatal         (* log.Fatal* *)
| SkExit          (* os.Exit *)
| SkAssert        (* single-value type assertion x.(T) *)
| SkMustCompile   (* regexp.MustCompile of a non-constant *)
| SkMustCall      (* call of a kustomize Must* / *OrDie helper, which panics or exits on behalf of the caller *)
| SkOther.        (* recognised as terminating but not classified: can never be allowed *)

(* a site is keyed by package, enclosing top-level declaration, kind and the ordinal of that kind
   inside the declaration (source order) - never by file or line *)
Record site := mkSite {
  s_pkg : string;
  s_fn : string;
  s_kind : site_kind;
  s_ord : nat
}.

Definition site_kind_eqb (a b : site_kind) : bool :=
  match a, b with
  | SkPanic, SkPanic | SkFatal, SkFatal | SkExit, SkExit
  | SkAssert, SkAssert | SkMustCompile, SkMustCompile | SkMustCall, SkMustCall | SkOther, SkOther => true
  | _, _ => false
  end.

Definition site_eqb (a b : site) : bool :=
  String.eqb (s_pkg a) (s_pkg b) && String.eqb (s_fn a) (s_fn b) &&
  site_kind_eqb (s_kind a) (s_kind b) && Nat.eqb (s_ord a) (s_ord b).

(* why a site may stay *)
Inductive just :=
| Unreachable (guard : string)     (* cannot fire on the build path: the text names the preceding check / invariant *)
| InitOnly (why : string)          (* depends only on compiled-in constants (package init / sync.Once on constant data) *)
| KnownFinding (cls : string)      (* fires on malformed input: class id listed in findings.d/C12.txt *)
| OutOfScope (why : string).       (* plugins / helm / exec / git / on-disk fs: not reachable from builds of local in-memory trees with default options *)

Record allow := mkAllow { a_site : site; a_just : just }.

Definition is_other (k : site_kind) : bool :=
  match k with SkOther => true | _ => false end.

Definition just_text_nonempty (j : just) : bool :=
  match j with
  | Unreachable s | InitOnly s | KnownFinding s | OutOfScope s => negb (String.eqb s "")
  end.

(* a site is allowed when it is classified and carries a (non-empty) justification, either its own
   entry or the entry of its whole package *)
Definition site_allowed (pkgs : list (string * just)) (al : list allow) (s : site) : bool :=
  negb (is_other (s_kind s)) &&
  (existsb (fun p => String.eqb (fst p) (s_pkg s) && just_text_nonempty (snd p)) pkgs ||
   existsb (fun a => site_eqb (a_site a) s && just_text_nonempty (a_just a)) al).

Definition known_classes (al : list allow) : list string :=
  flat_map (fun a => match a_just a with KnownFinding c => [c] | _ => [] end) al.

(* allow-list entries that no longer correspond to a site of the source (reported, not fatal) *)
Definition stale_entries (sites : list site) (al : list allow) : list site :=
  map a_site (filter (fun a => negb (existsb (site_eqb (a_site a)) sites)) al).
