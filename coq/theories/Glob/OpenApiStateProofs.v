(* Proofs about the OpenAPI state machine (Glob/OpenApiState.v):
   - history_partial : a build that uses the built-in schema observes the same after any history of such builds
     (the general theorem, for all builds, is in Glob/OpenApiHistoryProofs.v; the two former leaks are kept as
     regression examples below)
   - the lemmas are reused by the interleaving theorem (Glob/OpenApiConcProofs.v, C16_result_independent). *)
From KV Require Import Base.Prelude Gen.OpenApiTables Glob.OpenApiState.

(* ================================================================ association lists *)
Lemma tm_eqb_eq a b : tm_eqb a b = true <-> a = b.
Proof.
  destruct a, b; unfold tm_eqb; simpl. rewrite Bool.andb_true_iff, !String.eqb_eq.
  split; [intros [-> ->]; reflexivity | intros H; inversion H; auto].
Qed.
Lemma tm_eqb_refl a : tm_eqb a a = true.
Proof. apply tm_eqb_eq. reflexivity. Qed.
Lemma tm_eqb_sym a b : tm_eqb a b = tm_eqb b a.
Proof.
  destruct (tm_eqb a b) eqn:E.
  - apply tm_eqb_eq in E. subst. symmetry. apply tm_eqb_refl.
  - destruct (tm_eqb b a) eqn:E2; [|reflexivity]. apply tm_eqb_eq in E2. subst. rewrite tm_eqb_refl in E. discriminate.
Qed.

Section AssocFacts.
  Context {K V : Type} (keq : K -> K -> bool).
  Hypothesis keq_eq : forall a b, keq a b = true <-> a = b.

  Lemma keq_refl a : keq a a = true.
  Proof. apply keq_eq. reflexivity. Qed.

  Lemma alook_aset_same k v (l : list (K * V)) : alook keq k (aset keq k v l) = Some v.
  Proof.
    induction l as [|[k' v'] l IH]; simpl.
    - rewrite keq_refl. reflexivity.
    - destruct (keq k k') eqn:E; simpl.
      + rewrite keq_refl. reflexivity.
      + rewrite E. assumption.
  Qed.

  Lemma alook_aset_other k k' v (l : list (K * V)) :
    keq k k' = false -> alook keq k (aset keq k' v l) = alook keq k l.
  Proof.
    intros Hne. induction l as [|[k2 v2] l IH]; simpl.
    - rewrite Hne. reflexivity.
    - destruct (keq k' k2) eqn:E; simpl.
      + apply keq_eq in E. subst. rewrite Hne. reflexivity.
      + destruct (keq k k2); [reflexivity | assumption].
  Qed.

  Lemma alook_aset k k' v (l : list (K * V)) :
    alook keq k (aset keq k' v l) = if keq k k' then Some v else alook keq k l.
  Proof.
    destruct (keq k k') eqn:E.
    - apply keq_eq in E. subst. apply alook_aset_same.
    - apply alook_aset_other. assumption.
  Qed.
End AssocFacts.

(* ================================================================ what parse() does to lookups *)
Definition val := (string * bool)%type.

(* the value the document's definitions give a type meta (the last claim wins) *)
Fixpoint claim_defs (ds : list sdef) (t : tm) : option val :=
  match ds with
  | [] => None
  | d :: ds' =>
      match claim_defs ds' t with
      | Some v => Some v
      | None => if existsb (tm_eqb t) (d_tms d) then Some (d_mark d, d_mk d) else None
      end
  end.

Lemma alook_fold_tms t v (l : list tm) (bt : list (tm * val)) :
  alook tm_eqb t (fold_left (fun b x => aset tm_eqb x v b) l bt)
  = if existsb (tm_eqb t) l then Some v else alook tm_eqb t bt.
Proof.
  revert bt. induction l as [|x l IH]; intros bt; simpl; [reflexivity|].
  rewrite IH. rewrite (alook_aset tm_eqb tm_eqb_eq).
  destruct (existsb (tm_eqb t) l); [rewrite Bool.orb_true_r; reflexivity|].
  rewrite Bool.orb_false_r. reflexivity.
Qed.

Lemma bytype_fold ds : forall a b t,
  alook tm_eqb t (snd (fold_left add_def ds (a, b)))
  = match claim_defs ds t with Some v => Some v | None => alook tm_eqb t b end.
Proof.
  induction ds as [|d ds IH]; intros a b t; simpl; [reflexivity|].
  unfold add_def at 2. simpl. rewrite IH.
  destruct (claim_defs ds t); [reflexivity|].
  rewrite alook_fold_tms. destruct (existsb (tm_eqb t) (d_tms d)); reflexivity.
Qed.

Lemma bytype_after_parse s d t :
  alook tm_eqb t (opt_list (o_bytype (parse_into s d)))
  = match claim_defs (s_defs d) t with Some v => Some v | None => alook tm_eqb t (opt_list (o_bytype s)) end.
Proof.
  unfold parse_into.
  destruct (fold_left add_def (s_defs d) (opt_list (o_defs s), opt_list (o_bytype s))) as [defs bt] eqn:E.
  simpl. replace bt with (snd (fold_left add_def (s_defs d) (opt_list (o_defs s), opt_list (o_bytype s)))) by (rewrite E; reflexivity).
  apply bytype_fold.
Qed.

Lemma ns_fold_other t ps : forall ns,
  (forall p, In p ps -> tm_eqb t (fst p) = false) ->
  alook tm_eqb t (fold_left add_path ps ns) = alook tm_eqb t ns.
Proof.
  induction ps as [|p ps IH]; intros ns H; simpl; [reflexivity|].
  rewrite IH by (intros q Hq; apply H; right; assumption).
  assert (Hp : tm_eqb t (fst p) = false) by (apply H; left; reflexivity).
  unfold add_path. destruct (snd p).
  - apply (alook_aset_other tm_eqb tm_eqb_eq). assumption.
  - destruct (alook tm_eqb (fst p) ns); [reflexivity|].
    apply (alook_aset_other tm_eqb tm_eqb_eq). assumption.
Qed.

Lemma ns_after_parse s d t :
  (forall p, In p (s_paths d) -> tm_eqb t (fst p) = false) ->
  alook tm_eqb t (opt_list (o_ns (parse_into s d))) = alook tm_eqb t (opt_list (o_ns s)).
Proof.
  intros H. unfold parse_into.
  destruct (fold_left add_def (s_defs d) (opt_list (o_defs s), opt_list (o_bytype s))) as [defs bt].
  simpl. apply ns_fold_other. assumption.
Qed.

Lemma parse_into_scalars s d :
  o_ver (parse_into s d) = o_ver s /\ o_custom (parse_into s d) = o_custom s /\ o_init (parse_into s d) = o_init s /\
  o_dflt (parse_into s d) = o_dflt s /\ o_nobuiltin (parse_into s d) = o_nobuiltin s.
Proof.
  unfold parse_into.
  destruct (fold_left add_def (s_defs d) (opt_list (o_defs s), opt_list (o_bytype s))) as [defs bt].
  simpl. auto.
Qed.

(* ================================================================ environments *)
(* the namespaceability paths of a compiled-in document only mention kinds of the precomputed table
   (for the built-in schema this is what kyaml's TestIsNamespaceScopedPrecompute asserts; the correspondence
   harness re-checks it through the hook on every run: n_ns_extra) *)
Definition paths_precomputed (d : schema) : Prop :=
  forall p, In p (s_paths d) -> precomputed (fst p) <> None.

Record env_ok (e : env) : Prop := mkEnvOk {
  eo_builtin : exists B, alook String.eqb default_version (e_builtin e) = Some B /\ paths_precomputed B;
  eo_kust_valid : s_valid (e_kust e) = true;
  eo_kust_paths : paths_precomputed (e_kust e)
}.

Lemma default_version_builtin : str_in default_version gen_builtin_versions = true.
Proof. vm_compute. reflexivity. Qed.

Lemma default_version_nonempty : String.eqb default_version "" = false.
Proof. vm_compute. reflexivity. Qed.

(* ================================================================ the states default builds reach *)
Definition builtin_of (e : env) : schema :=
  match alook String.eqb default_version (e_builtin e) with Some B => B | None => mkSchema 0 true [] [] end.

(* the by-type index after the built-in schema and the kustomization API have been parsed *)
Definition full_bt (e : env) (t : tm) : option val :=
  match claim_defs (s_defs (e_kust e)) t with
  | Some v => Some v
  | None => claim_defs (s_defs (builtin_of e)) t
  end.

Definition bt_look (s : ost) (t : tm) : option val := alook tm_eqb t (opt_list (o_bytype s)).
Definition ns_look (s : ost) (t : tm) : option bool := alook tm_eqb t (opt_list (o_ns s)).

Definition bt_full (e : env) (s : ost) : Prop := forall t, bt_look s t = full_bt e t.
Definition bt_empty (s : ost) : Prop := forall t, bt_look s t = None.

Record dinv (e : env) (s : ost) : Prop := mkDinv {
  di_custom : o_custom s = None;
  di_ver : is_default_ver (o_ver s) = true;
  di_nobuiltin : o_nobuiltin s = false;
  di_ns : forall t, precomputed t = None -> ns_look s t = None;
  di_bt : bt_full e s \/ bt_empty s;
  di_init : o_init s = true -> bt_full e s
}.

Lemma dinv0 e : dinv e ost0.
Proof. split; simpl; auto; try discriminate. right. intros t. reflexivity. Qed.

(* re-parsing the two compiled-in documents over an empty or an already full index gives the full index *)
Lemma reparse_full e s :
  bt_full e s \/ bt_empty s ->
  bt_full e (parse_into (parse_into s (builtin_of e)) (e_kust e)).
Proof.
  intros H t. unfold bt_look. rewrite !bytype_after_parse. unfold full_bt.
  destruct (claim_defs (s_defs (e_kust e)) t) eqn:EK; [reflexivity|].
  destruct (claim_defs (s_defs (builtin_of e)) t) eqn:EB; [reflexivity|].
  destruct H as [H|H].
  - specialize (H t). unfold bt_look, full_bt in H. rewrite EK, EB in H. assumption.
  - apply H.
Qed.

(* ================================================================ the API on default states *)
Lemma is_default_ver_default : is_default_ver default_version = true.
Proof. unfold is_default_ver. rewrite String.eqb_refl. apply Bool.orb_true_r. Qed.

Lemma default_field_inv fv sc :
  default_field fv sc = true ->
  sc = None /\ (fv = None \/ fv = Some "" \/ fv = Some default_version).
Proof.
  unfold default_field. intros H. apply Bool.andb_true_iff in H. destruct H as [H1 H2].
  destruct sc; [discriminate|]. split; [reflexivity|].
  destruct fv as [v|]; [|left; reflexivity]. right.
  unfold is_default_ver in H2. apply Bool.orb_true_iff in H2.
  destruct H2 as [H2|H2]; apply String.eqb_eq in H2; subst; auto.
Qed.

Lemma set_schema_default e s fv sc reset :
  dinv e s -> default_field fv sc = true ->
  exists s', set_schema s fv sc reset = (s', COk) /\ dinv e s' /\ (bt_full e s -> bt_full e s').
Proof.
  intros [D1 D2 D3 D4 D5 D6] HF. destruct (default_field_inv _ _ HF) as [-> HV].
  unfold set_schema.
  destruct ((negb (String.eqb (o_ver s) "") || is_some (o_custom s)) && negb reset).
  { exists s. repeat split; auto. }
  assert (Hempty : exists s', (match o_custom (with_ver s "") with
                               | Some _ => drop_parsed (with_custom (with_ver s "") None)
                               | None => with_ver s ""
                               end, COk) = (s', COk) /\ dinv e s' /\ (bt_full e s -> bt_full e s')).
  { cbn [o_custom with_ver]. rewrite D1. exists (with_ver s ""). repeat split; auto. }
  destruct HV as [ -> | [ -> | -> ] ].
  - cbv beta iota zeta. rewrite String.eqb_refl. exact Hempty.
  - cbv beta iota zeta. rewrite String.eqb_refl. exact Hempty.
  - cbv beta iota zeta. rewrite default_version_nonempty, default_version_builtin. cbn [negb o_custom with_ver].
    rewrite D1.
    destruct (same_builtin_version (o_ver s) default_version).
    + eexists. split; [reflexivity|]. split; [|auto].
      split; [exact D1 | apply is_default_ver_default | exact D3 | exact D4 | exact D5 | exact D6].
    + eexists. split; [reflexivity|]. split; [|auto].
      split; [exact D1 | apply is_default_ver_default | exact D3 | exact D4 | exact D5 | intro X; discriminate X].
Qed.

Lemma is_init_needed_default e s :
  dinv e s ->
  exists s', is_init_needed s = (s', false) /\ dinv e s' /\ (bt_full e s -> bt_full e s') /\
             (forall t, ns_look s' t = ns_look s t) /\ o_init s' = o_init s.
Proof.
  intros [D1 D2 D3 D4 D5 D6]. unfold is_init_needed.
  destruct (o_init s) eqn:EI.
  { exists s. repeat split; auto. }
  rewrite D1. simpl. rewrite D2.
  destruct (o_dflt s); eexists; (split; [reflexivity|]); repeat split; simpl; auto; rewrite EI; discriminate.
Qed.

Lemma not_precomputed_path (d : schema) t :
  paths_precomputed d -> precomputed t = None ->
  forall p, In p (s_paths d) -> tm_eqb t (fst p) = false.
Proof.
  intros HP Ht p Hp. destruct (tm_eqb t (fst p)) eqn:E; [|reflexivity].
  apply tm_eqb_eq in E. subst. exfalso. apply (HP _ Hp). assumption.
Qed.

Lemma init_schema_default e s :
  env_ok e -> dinv e s ->
  exists s', init_schema e s = (s', COk) /\ dinv e s' /\ bt_full e s' /\ o_init s' = true.
Proof.
  intros [[B [EB PB]] KV KP] [D1 D2 D3 D4 D5 D6]. unfold init_schema.
  destruct (o_init s) eqn:EI.
  { exists s. repeat split; auto. }
  cbn [with_init o_custom]. rewrite D1. cbn [o_ver with_init]. rewrite D2.
  unfold parse_builtin. cbn [o_nobuiltin with_init]. rewrite D3, EB.
  set (s1 := with_init s true).
  set (s2 := with_dflt (parse_into s1 B) Parsed).
  cbn [o_dflt with_dflt]. rewrite KV.
  exists (parse_into s2 (e_kust e)). split; [reflexivity|].
  assert (HB : builtin_of e = B) by (unfold builtin_of; rewrite EB; reflexivity).
  assert (Hfull : bt_full e (parse_into s2 (e_kust e))).
  { intros t. unfold bt_look. rewrite bytype_after_parse. unfold s2. cbn [o_bytype with_dflt].
    rewrite bytype_after_parse. unfold s1. cbn [o_bytype with_init]. unfold full_bt. rewrite HB.
    destruct (claim_defs (s_defs (e_kust e)) t) eqn:EK; [reflexivity|].
    destruct (claim_defs (s_defs B) t) eqn:EC; [reflexivity|].
    destruct D5 as [H|H].
    - specialize (H t). unfold bt_look, full_bt in H. rewrite EK, HB, EC in H. assumption.
    - apply H. }
  destruct (parse_into_scalars s2 (e_kust e)) as [P1 [P2 [P3 [P4 P5]]]].
  destruct (parse_into_scalars s1 B) as [Q1 [Q2 [Q3 [Q4 Q5]]]].
  split; [|split; [assumption|]].
  - split; auto.
    + rewrite P2. unfold s2. cbn [o_custom with_dflt]. rewrite Q2. unfold s1. simpl. assumption.
    + rewrite P1. unfold s2. cbn [o_ver with_dflt]. rewrite Q1. unfold s1. simpl. assumption.
    + rewrite P5. unfold s2. cbn [o_nobuiltin with_dflt]. rewrite Q5. unfold s1. simpl. assumption.
    + intros t Ht. unfold ns_look.
      rewrite ns_after_parse by (apply not_precomputed_path; assumption).
      unfold s2. cbn [o_ns with_dflt].
      rewrite ns_after_parse by (apply not_precomputed_path; assumption).
      unfold s1. cbn [o_ns with_init]. apply D4. assumption.
  - rewrite P3. unfold s2. cbn [o_init with_dflt]. rewrite Q3. reflexivity.
Qed.

(* ================================================================ canonical answers of default builds *)
Definition canon_answer (e : env) (q : query) : answer :=
  match q with
  | QNs t => ANs (match precomputed t with Some b => negb b | None => false end)
  | QSchema t => ASchema (full_bt e t)
  | QSub _ _ => ASub
  | QFail => ASub   (* never used: a default build contains no QFail *)
  end.

Lemma is_cluster_scoped_default e s t :
  env_ok e -> dinv e s ->
  exists s', is_cluster_scoped e s t = (s', COk, match precomputed t with Some b => negb b | None => false end)
             /\ dinv e s' /\ (bt_full e s -> bt_full e s').
Proof.
  intros HE HD. unfold is_cluster_scoped, is_ns_scoped.
  destruct (precomputed t) as [b|] eqn:EP.
  - exists s. split; [reflexivity|]. split; auto.
  - destruct (is_init_needed_default e s HD) as [s1 [E1 [D1 [F1 [N1 I1]]]]]. rewrite E1.
    exists s1. split; [|auto].
    unfold ns_lookup. fold (ns_look s1 t). rewrite N1. rewrite (di_ns _ _ HD t EP). reflexivity.
Qed.

Lemma schema_for_default e s t :
  env_ok e -> dinv e s ->
  exists s', schema_for e s t = (s', COk, full_bt e t) /\ dinv e s' /\ bt_full e s'.
Proof.
  intros HE HD. unfold schema_for.
  destruct (init_schema_default e s HE HD) as [s1 [E1 [D1 [F1 I1]]]]. rewrite E1.
  exists s1. split; [|auto]. fold (bt_look s1 t). rewrite F1. reflexivity.
Qed.

Lemma run_queries_default e qs : forall s,
  env_ok e -> dinv e s -> forallb default_query qs = true ->
  exists s', run_queries e s qs = (s', COk, map (canon_answer e) qs) /\ dinv e s'.
Proof.
  induction qs as [|q qs IH]; intros s HE HD HQ; simpl.
  - exists s. auto.
  - simpl in HQ. apply Bool.andb_true_iff in HQ. destruct HQ as [Hq Hqs]. destruct q as [t|t|fv sc|].
    + destruct (is_cluster_scoped_default e s t HE HD) as [s1 [E1 [D1 _]]]. rewrite E1.
      destruct (IH s1 HE D1 Hqs) as [s2 [E2 D2]]. rewrite E2. exists s2. auto.
    + destruct (schema_for_default e s t HE HD) as [s1 [E1 [D1 _]]]. rewrite E1.
      destruct (IH s1 HE D1 Hqs) as [s2 [E2 D2]]. rewrite E2. exists s2. auto.
    + simpl in Hq. destruct (set_schema_default e s fv sc false HD Hq) as [s1 [E1 [D1 _]]]. rewrite E1.
      destruct (IH s1 HE D1 Hqs) as [s2 [E2 D2]]. rewrite E2. exists s2. auto.
    + discriminate Hq.
Qed.

Lemma run_build_default e s b :
  env_ok e -> dinv e s -> default_build b = true ->
  exists s', run_build e s b = (s', COk, map (canon_answer e) (b_queries b)) /\ dinv e s'.
Proof.
  intros HE HD HB. unfold default_build in HB. apply Bool.andb_true_iff in HB. destruct HB as [HF HQ].
  unfold run_build.
  destruct (set_schema_default e s _ _ true HD HF) as [s1 [E1 [D1 _]]]. rewrite E1.
  apply run_queries_default; assumption.
Qed.

Lemma run_history_default e h : forall s,
  env_ok e -> dinv e s -> forallb default_build h = true -> dinv e (run_history e s h).
Proof.
  unfold run_history. induction h as [|b h IH]; intros s HE HD HH; simpl; [assumption|].
  simpl in HH. apply Bool.andb_true_iff in HH. destruct HH as [Hb Hh].
  destruct (run_build_default e s b HE HD Hb) as [s1 [E1 D1]]. rewrite E1. simpl. apply IH; assumption.
Qed.

(* C01 (state half), what does hold: when every earlier build and the build itself use the built-in schema
   (no openapi field, or the default version spelled out — also in their sub-kustomizations), what the build
   observes of the OpenAPI state does not depend on the history. Unbounded in the length of the history. *)
Theorem history_partial e h b :
  env_ok e -> forallb default_build h = true -> default_build b = true ->
  observe e (run_history e ost0 h) b = observe e ost0 b.
Proof.
  intros HE HH HB. unfold observe.
  destruct (run_build_default e _ b HE (run_history_default e h ost0 HE (dinv0 e) HH) HB) as [s1 [E1 _]].
  destruct (run_build_default e ost0 b HE (dinv0 e) HB) as [s2 [E2 _]].
  rewrite E1, E2. reflexivity.
Qed.

(* ================================================================ the refutations (witnesses by computation) *)
Definition foo : tm := ("example.com/v1", "Foo").
Definition dep : tm := ("apps/v1", "Deployment").

Definition ex_builtin : schema :=
  mkSchema 1000 true [mkDef "io.k8s.api.apps.v1.Deployment" [dep] "builtin Deployment" true] [(dep, true)].
Definition ex_kust : schema := mkSchema 2000 true [] [].
Definition ex_env : env := mkEnv [(default_version, ex_builtin)] ex_kust.
Definition ex_custom : schema :=
  mkSchema 1 true [mkDef "com.example.v1.Foo" [foo] "custom Foo" true] [(foo, false)].

Lemma ex_env_ok : env_ok ex_env.
Proof.
  split.
  - exists ex_builtin. split; [vm_compute; reflexivity|].
    intros p [<-|[]]. vm_compute. discriminate.
  - reflexivity.
  - intros p [].
Qed.

(* Regression examples: the two history leaks that existed before the repairs of SetSchema / initSchema
   (findings C01/history-leak-after-custom-schema and C01/history-leak-builtin-into-custom-schema-build; these were
   the witnesses of the former theorems history_refuted / history_refuted_builtin_leak). *)
Definition ex_H : list build := [mkBuild None (Some ex_custom) [QNs foo; QSchema foo]].
Definition ex_T : build := mkBuild None None [QNs foo; QSchema foo].

Example history_leak_after_custom_schema_fixed :
  default_build ex_T = true /\
  observe ex_env (run_history ex_env ost0 ex_H) ex_T = observe ex_env ost0 ex_T /\
  observe ex_env ost0 ex_T = (COk, [ANs false; ASchema None]).
Proof. repeat split; vm_compute; reflexivity. Qed.

Definition ex_H2 : list build := [mkBuild None None [QSchema dep]].
Definition ex_T2 : build := mkBuild None (Some ex_custom) [QSchema dep; QNs foo].

Example history_leak_builtin_into_custom_fixed :
  observe ex_env (run_history ex_env ost0 ex_H2) ex_T2 = observe ex_env ost0 ex_T2 /\
  observe ex_env ost0 ex_T2 = (COk, [ASchema (Some ("builtin Deployment", true)); ANs true]).
Proof. split; vm_compute; reflexivity. Qed.

(* non-vacuity of history_partial: a default history and build with non-trivial answers *)
Example history_partial_example :
  forallb default_build [ex_T; mkBuild (Some default_version) None [QSchema dep]] = true /\
  observe ex_env ost0 (mkBuild None None [QNs foo; QSchema dep])
  = (COk, [ANs false; ASchema (Some ("builtin Deployment", true))]).
Proof. split; vm_compute; reflexivity. Qed.
