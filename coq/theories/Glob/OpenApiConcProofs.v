(* C16 — proofs about concurrent builds over the OpenAPI state machine (Glob/OpenApiConc.v):
   alone_run_build     : a thread running alone computes exactly run_build (ties the atomic decomposition to
                         the sequential model that the correspondence check validates), for every build;
   result_independent  : for builds that use the built-in schema, under EVERY schedule of the atomic actions
                         every finished build has the outcome and the answers it has when run alone from the
                         initial state. *)
From KV Require Import Base.Prelude Gen.OpenApiTables Glob.OpenApiState Glob.OpenApiStateProofs Glob.OpenApiConc.
From Coq Require Import Lia.
Local Open Scope list_scope.

Lemma steps_trans e s th s1 th1 s2 th2 :
  steps e s th s1 th1 -> steps e s1 th1 s2 th2 -> steps e s th s2 th2.
Proof. induction 1; intros H2; [assumption | eapply steps_step; eauto]. Qed.

Lemma steps_one e s th s1 th1 : tstep e s th = Some (s1, th1) -> steps e s th s1 th1.
Proof. intros H. eapply steps_step; [eassumption | apply steps_refl]. Qed.

Lemma tdone_failed ans c : is_ok c = false -> tdone (mkTs [] [] ans c) = true.
Proof. intros H. unfold tdone. simpl. rewrite H. reflexivity. Qed.

(* ================================================================ a thread alone = the sequential model *)
Lemma alone_queries e qs : forall s acc,
  exists s' th', steps e s (mkTs [] qs acc COk) s' th' /\ tdone th' = true /\
                 (s', ts_class th', ts_ans th') =
                 (let '(s2, c, l) := run_queries e s qs in (s2, c, acc ++ l)).
Proof.
  induction qs as [|q qs IH]; intros s acc.
  - exists s, (mkTs [] [] acc COk). split; [apply steps_refl|]. split; [reflexivity|].
    simpl. rewrite app_nil_r. reflexivity.
  - destruct q as [t|t|fv sc|]; simpl.
    4: { (* the build fails for a reason of its own *)
      exists s, (mkTs [] [] acc CErr). split; [|split; [reflexivity|]].
      - apply steps_one. reflexivity.
      - rewrite app_nil_r. reflexivity. }
    + (* IsCertainlyClusterScoped *)
      unfold is_cluster_scoped, is_ns_scoped.
      destruct (precomputed t) as [b|] eqn:EP.
      * destruct (IH s (acc ++ [ANs (negb b)])) as [s' [th' [HS [HD HR]]]].
        exists s', th'. split; [|split; [assumption|]].
        { eapply steps_step; [|exact HS]. unfold tstep. simpl. rewrite EP. reflexivity. }
        rewrite HR. destruct (run_queries e s qs) as [[s2 c2] l]. simpl. rewrite <- app_assoc. reflexivity.
      * destruct (is_init_needed s) as [s1 need] eqn:EN. destruct need.
        -- destruct (init_schema e s1) as [s2 c] eqn:EI.
           destruct (is_ok c) eqn:EC.
           ++ destruct c; try discriminate.
              destruct (ns_lookup s2 t) as [nsd found] eqn:EL.
              destruct (IH s2 (acc ++ [ANs (found && negb nsd)])) as [s' [th' [HS [HD HR]]]].
              exists s', th'. split; [|split; [assumption|]].
              { eapply steps_step; [unfold tstep; simpl; rewrite EP; reflexivity|].
                eapply steps_step; [unfold tstep; simpl; rewrite EN; reflexivity|]. simpl.
                eapply steps_step; [unfold tstep; simpl; rewrite EI; reflexivity|]. simpl.
                eapply steps_step; [unfold tstep; simpl; rewrite EL; reflexivity|]. exact HS. }
              rewrite HR. destruct (run_queries e s2 qs) as [[s3 c3] l]. simpl. rewrite <- app_assoc. reflexivity.
           ++ exists s2, (mkTs [] [] acc c). split; [|split; [apply tdone_failed; assumption|]].
              { eapply steps_step; [unfold tstep; simpl; rewrite EP; reflexivity|].
                eapply steps_step; [unfold tstep; simpl; rewrite EN; reflexivity|]. simpl.
                eapply steps_step; [unfold tstep; simpl; rewrite EI, EC; reflexivity|]. apply steps_refl. }
              destruct c; try discriminate; simpl; rewrite app_nil_r; reflexivity.
        -- destruct (ns_lookup s1 t) as [nsd found] eqn:EL.
           destruct (IH s1 (acc ++ [ANs (found && negb nsd)])) as [s' [th' [HS [HD HR]]]].
           exists s', th'. split; [|split; [assumption|]].
           { eapply steps_step; [unfold tstep; simpl; rewrite EP; reflexivity|].
             eapply steps_step; [unfold tstep; simpl; rewrite EN; reflexivity|]. simpl.
             eapply steps_step; [unfold tstep; simpl; rewrite EL; reflexivity|]. exact HS. }
           rewrite HR. destruct (run_queries e s1 qs) as [[s3 c3] l]. simpl. rewrite <- app_assoc. reflexivity.
    + (* SchemaForResourceType *)
      unfold schema_for. destruct (init_schema e s) as [s1 c] eqn:EI.
      destruct (is_ok c) eqn:EC.
      * destruct c; try discriminate.
        destruct (IH s1 (acc ++ [ASchema (alook tm_eqb t (opt_list (o_bytype s1)))])) as [s' [th' [HS [HD HR]]]].
        exists s', th'. split; [|split; [assumption|]].
        { eapply steps_step; [unfold tstep; simpl; reflexivity|].
          eapply steps_step; [unfold tstep; simpl; rewrite EI; reflexivity|]. simpl.
          eapply steps_step; [unfold tstep; simpl; reflexivity|]. exact HS. }
        rewrite HR. destruct (run_queries e s1 qs) as [[s3 c3] l]. simpl. rewrite <- app_assoc. reflexivity.
      * exists s1, (mkTs [] [] acc c). split; [|split; [apply tdone_failed; assumption|]].
        { eapply steps_step; [unfold tstep; simpl; reflexivity|].
          eapply steps_step; [unfold tstep; simpl; rewrite EI, EC; reflexivity|]. apply steps_refl. }
        destruct c; try discriminate; simpl; rewrite app_nil_r; reflexivity.
    + (* a sub-kustomization's SetSchema(..., false) *)
      destruct (set_schema s fv sc false) as [s1 c] eqn:ES.
      destruct (is_ok c) eqn:EC.
      * destruct c; try discriminate.
        destruct (IH s1 (acc ++ [ASub])) as [s' [th' [HS [HD HR]]]].
        exists s', th'. split; [|split; [assumption|]].
        { eapply steps_step; [unfold tstep; simpl; reflexivity|].
          eapply steps_step; [unfold tstep; simpl; rewrite ES; reflexivity|]. simpl. exact HS. }
        rewrite HR. destruct (run_queries e s1 qs) as [[s3 c3] l]. simpl. rewrite <- app_assoc. reflexivity.
      * exists s1, (mkTs [] [] acc c). split; [|split; [apply tdone_failed; assumption|]].
        { eapply steps_step; [unfold tstep; simpl; reflexivity|].
          eapply steps_step; [unfold tstep; simpl; rewrite ES, EC; reflexivity|]. apply steps_refl. }
        destruct c; try discriminate; simpl; rewrite app_nil_r; reflexivity.
Qed.

Theorem alone_run_build e s b :
  exists s' th', steps e s (thread_of b) s' th' /\ tdone th' = true /\
                 (s', ts_class th', ts_ans th') = run_build e s b.
Proof.
  unfold run_build, thread_of.
  destruct (set_schema s (b_ver b) (b_schema b) true) as [s1 c] eqn:ES.
  destruct (is_ok c) eqn:EC.
  - destruct c; try discriminate.
    destruct (alone_queries e (b_queries b) s1 []) as [s' [th' [HS [HD HR]]]].
    exists s', th'. split; [|split; [assumption|]].
    + eapply steps_step; [unfold tstep; simpl; rewrite ES; reflexivity|]. simpl. exact HS.
    + rewrite HR. destruct (run_queries e s1 (b_queries b)) as [[s2 c2] l]. reflexivity.
  - exists s1, (mkTs [] [] [] c). split; [|split; [apply tdone_failed; assumption|]].
    + apply steps_one. unfold tstep. simpl. rewrite ES, EC. reflexivity.
    + destruct c; try discriminate; reflexivity.
Qed.

(* ================================================================ interleavings of default builds *)
Inductive shape : list micro -> Prop :=
| sh_nil : shape []
| sh_top : forall fv sc, default_field fv sc = true -> shape [MSet fv sc true]
| sh_sub : forall fv sc, default_field fv sc = true -> shape [MSet fv sc false]
| sh_need : forall t, precomputed t = None -> shape [MNeed t]
| sh_readns : forall t, precomputed t = None -> shape [MReadNs t]
| sh_init : forall t, shape [MInit; MReadBt t]
| sh_readbt : forall t, shape [MReadBt t].

(* the query whose atomic actions are pending *)
Definition inprog (ms : list micro) : list query :=
  match ms with
  | [MNeed t] => [QNs t]
  | [MReadNs t] => [QNs t]
  | [MInit; MReadBt t] => [QSchema t]
  | [MReadBt t] => [QSchema t]
  | [MSet fv sc false] => [QSub fv sc]
  | _ => []
  end.

Record tinv (e : env) (s : ost) (qs : list query) (th : tstate) : Prop := mkTinv {
  ti_class : ts_class th = COk;
  ti_shape : shape (ts_micro th);
  ti_full : forall t, ts_micro th = [MReadBt t] -> bt_full e s;
  ti_rest : forallb default_query (ts_rest th) = true;
  ti_ans : ts_ans th ++ map (canon_answer e) (inprog (ts_micro th) ++ ts_rest th) = map (canon_answer e) qs
}.

Lemma tinv_frame e s s1 qs th :
  tinv e s qs th -> (bt_full e s -> bt_full e s1) -> tinv e s1 qs th.
Proof. intros [A B C D E] H. split; auto. intros t Ht. apply H. eapply C. eassumption. Qed.

Lemma tstep_inv e s qs th s1 th1 :
  env_ok e -> dinv e s -> tinv e s qs th -> tstep e s th = Some (s1, th1) ->
  dinv e s1 /\ tinv e s1 qs th1 /\ (bt_full e s -> bt_full e s1).
Proof.
  intros HE HD [TC TS TF TR TA] HT. destruct th as [ms rest ans c]. simpl in *. subst c.
  unfold tstep in HT. simpl in HT.
  destruct TS as [|fv sc HF|fv sc HF|t HP|t HP|t|t]; simpl in *.
  - (* start the next query *)
    destruct rest as [|q rest]; [discriminate|]. simpl in TR. apply Bool.andb_true_iff in TR. destruct TR as [Hq TR].
    inversion HT; subst s1 th1; clear HT. split; [assumption|]. split; [|auto].
    destruct q as [t|t|fv sc|]; simpl in *; [| | | discriminate Hq].
    + destruct (precomputed t) as [b|] eqn:EP.
      * split; simpl; [reflexivity | apply sh_nil | intros t0 X; discriminate X | assumption |].
        rewrite <- TA. rewrite <- app_assoc. reflexivity.
      * split; simpl; [reflexivity | apply sh_need; assumption | intros t0 X; discriminate X | assumption |].
        rewrite EP. assumption.
    + split; simpl; [reflexivity | apply sh_init | intros t0 X; discriminate X | assumption | assumption].
    + split; simpl; [reflexivity | apply sh_sub; assumption | intros t0 X; discriminate X | assumption | assumption].
  - (* the build's own SetSchema(..., true) *)
    destruct (set_schema_default e s fv sc true HD HF) as [s' [ES [D' F']]]. rewrite ES in HT. simpl in HT.
    inversion HT; subst s1 th1; clear HT. split; [assumption|]. split; [|assumption].
    split; simpl; [reflexivity | apply sh_nil | intros t0 X; discriminate X | assumption | assumption].
  - (* a sub-kustomization's SetSchema(..., false) *)
    destruct (set_schema_default e s fv sc false HD HF) as [s' [ES [D' F']]]. rewrite ES in HT. simpl in HT.
    inversion HT; subst s1 th1; clear HT. split; [assumption|]. split; [|assumption].
    split; simpl; [reflexivity | apply sh_nil | intros t0 X; discriminate X | assumption |].
    rewrite <- TA. rewrite <- app_assoc. reflexivity.
  - (* isInitSchemaNeededForNamespaceScopeCheck *)
    destruct (is_init_needed_default e s HD) as [s' [EN [D' [F' [N' I']]]]]. rewrite EN in HT.
    inversion HT; subst s1 th1; clear HT. split; [assumption|]. split; [|assumption].
    split; simpl; [reflexivity | apply sh_readns; assumption | intros t0 X; discriminate X | assumption | assumption].
  - (* the unlocked read of the namespaceability map *)
    unfold ns_lookup in HT. fold (ns_look s t) in HT. rewrite (di_ns _ _ HD t HP) in HT.
    inversion HT; subst s1 th1; clear HT. split; [assumption|]. split; [|auto].
    split; simpl; [reflexivity | apply sh_nil | intros t0 X; discriminate X | assumption |].
    rewrite <- TA. rewrite <- app_assoc. simpl. rewrite HP. reflexivity.
  - (* initSchema *)
    destruct (init_schema_default e s HE HD) as [s' [EI [D' [F' I']]]]. rewrite EI in HT. simpl in HT.
    inversion HT; subst s1 th1; clear HT. split; [assumption|]. split; [|auto].
    split; simpl; [reflexivity | apply sh_readbt | intros t0 X; assumption | assumption | assumption].
  - (* the unlocked read of the by-type index after initSchema *)
    inversion HT; subst s1 th1; clear HT. split; [assumption|]. split; [|auto].
    split; simpl; [reflexivity | apply sh_nil | intros t0 X; discriminate X | assumption |].
    rewrite <- TA. rewrite <- app_assoc. simpl.
    fold (bt_look s t). rewrite (TF t eq_refl t). reflexivity.
Qed.

Lemma tinv_done e s qs th :
  tinv e s qs th -> tdone th = true -> ts_class th = COk /\ ts_ans th = map (canon_answer e) qs.
Proof.
  intros [TC TS TF TR TA] HD. split; [assumption|].
  unfold tdone in HD. rewrite TC in HD. simpl in HD.
  destruct (ts_micro th) as [|m ms]; [|discriminate]. destruct (ts_rest th); [|discriminate].
  simpl in TA. rewrite app_nil_r in TA. assumption.
Qed.

Definition pinv (e : env) (s : ost) (builds : list build) (pool : list tstate) : Prop :=
  dinv e s /\ List.length pool = List.length builds /\
  forall i th b, nth_error pool i = Some th -> nth_error builds i = Some b -> tinv e s (b_queries b) th.

Lemma nth_replace_same' {A} (l : list A) n x y :
  nth_error l n = Some y -> nth_error (replace_nth n x l) n = Some x.
Proof. revert n. induction l as [|z l IH]; intros [|n] H; simpl in *; try discriminate; auto. Qed.

Lemma nth_replace_other' {A} (l : list A) n m x :
  n <> m -> nth_error (replace_nth n x l) m = nth_error l m.
Proof. revert n m. induction l as [|z l IH]; intros [|n] [|m] H; simpl; auto; try congruence. Qed.

Lemma replace_nth_length {A} (l : list A) n x : List.length (replace_nth n x l) = List.length l.
Proof. revert n. induction l as [|z l IH]; intros [|n]; simpl; auto. Qed.

Lemma run_sched_inv e builds sched : forall s pool,
  env_ok e -> pinv e s builds pool ->
  pinv e (fst (run_sched e s pool sched)) builds (snd (run_sched e s pool sched)).
Proof.
  induction sched as [|i sched IH]; intros s pool HE HP; simpl; [assumption|].
  destruct (nth_error pool i) as [th|] eqn:En; [|apply IH; assumption].
  destruct (tstep e s th) as [[s1 th1]|] eqn:Et; [|apply IH; assumption].
  apply IH; [assumption|]. destruct HP as [HD [HL HT]].
  destruct (nth_error builds i) as [b|] eqn:Eb.
  - destruct (tstep_inv e s (b_queries b) th s1 th1 HE HD (HT _ _ _ En Eb) Et) as [D1 [T1 F1]].
    split; [assumption|]. split; [rewrite replace_nth_length; assumption|].
    intros j thj bj Hj Hbj.
    destruct (Nat.eq_dec i j) as [<-|Hne].
    + rewrite (nth_replace_same' _ _ _ _ En) in Hj. inversion Hj; subst. rewrite Eb in Hbj. inversion Hbj; subst. assumption.
    + rewrite (nth_replace_other' _ _ _ _ Hne) in Hj. eapply tinv_frame; eauto.
  - (* impossible: the pool is as long as the list of builds *)
    exfalso. apply nth_error_None in Eb. assert (i < List.length pool) by (apply nth_error_Some; congruence). lia.
Qed.

Lemma start_pinv e builds :
  forallb default_build builds = true -> pinv e ost0 builds (map thread_of builds).
Proof.
  intros HB. split; [apply dinv0|]. split; [apply map_length|].
  intros i th b Hi Hb. rewrite nth_error_map, Hb in Hi. simpl in Hi. inversion Hi; subst th; clear Hi.
  rewrite forallb_forall in HB. assert (Hd : default_build b = true) by (apply HB; eapply nth_error_In; eauto).
  unfold default_build in Hd. apply Bool.andb_true_iff in Hd. destruct Hd as [Hf Hq].
  split; simpl; auto; [constructor; assumption | discriminate].
Qed.

(* C16_result_independent: builds that use the built-in schema, run concurrently under ANY schedule of their
   atomic schema actions: every build that has finished has exactly the outcome and answers it has when it is
   the only build run from the initial state. Any number of builds, any schedule length. *)
Theorem result_independent e builds sched i th b :
  env_ok e -> forallb default_build builds = true ->
  nth_error (snd (run_sched e ost0 (map thread_of builds) sched)) i = Some th ->
  nth_error builds i = Some b -> tdone th = true ->
  (ts_class th, ts_ans th) = observe e ost0 b.
Proof.
  intros HE HB Hi Hb HD.
  destruct (run_sched_inv e builds sched ost0 _ HE (start_pinv e builds HB)) as [_ [_ HT]].
  destruct (tinv_done _ _ _ _ (HT _ _ _ Hi Hb) HD) as [-> ->].
  rewrite forallb_forall in HB. assert (Hd : default_build b = true) by (apply HB; eapply nth_error_In; eauto).
  unfold observe. destruct (run_build_default e ost0 b HE (dinv0 e) Hd) as [s1 [E1 _]]. rewrite E1. reflexivity.
Qed.

(* every unfinished build can still move (no deadlock in the atomic-action model): progress *)
Lemma tstep_progress e s th : tdone th = false -> exists r, tstep e s th = Some r.
Proof.
  unfold tdone, tstep. intros H. apply Bool.orb_false_iff in H. destruct H as [H1 H2].
  rewrite H1. destruct (ts_micro th) as [|m ms].
  - destruct (ts_rest th) as [|q qs]; [discriminate|]. eexists. reflexivity.
  - destruct m.
    + destruct (set_schema s fv sc reset). eexists. reflexivity.
    + destruct (is_init_needed s). eexists. reflexivity.
    + destruct (init_schema e s). eexists. reflexivity.
    + destruct (ns_lookup s t). eexists. reflexivity.
    + eexists. reflexivity.
Qed.

(* non-vacuity: two default builds, a schedule that interleaves them and finishes both *)
Example result_independent_example :
  let builds := [ex_T; mkBuild (Some default_version) None [QSchema dep; QNs foo]] in
  let sched := [0; 1; 0; 1; 1; 0; 0; 1; 1; 0; 1; 0; 0; 1; 1; 1; 0; 0] in
  (forallb default_build builds = true) /\
  (map tdone (snd (run_sched ex_env ost0 (map thread_of builds) sched)) = [true; true]) /\
  (map ts_ans (snd (run_sched ex_env ost0 (map thread_of builds) sched))
   = [[ANs false; ASchema None]; [ASchema (Some ("builtin Deployment", true)); ANs false]]).
Proof. vm_compute. repeat split. Qed.
