#!/usr/bin/env python3
"""Prints the boilerplate part of coq/theories/Edit/Kust.v (record, setters, get, is_empty).
Run by hand when the record changes:  python3 coq/tools/gen_kust_record.py > /tmp/block.v
and paste between the BEGIN/END GENERATED markers.  (The output is committed; nothing runs this at check time.)"""
# (coq field, Go field name, Coq type, fval constructor, emptiness test on the value v)
F = [
 ("apiVersion", "APIVersion", "string", "VStr", 'String.eqb v ""'),
 ("kind", "Kind", "string", "VStr", 'String.eqb v ""'),
 ("namePrefix", "NamePrefix", "string", "VStr", 'String.eqb v ""'),
 ("nameSuffix", "NameSuffix", "string", "VStr", 'String.eqb v ""'),
 ("namespace", "Namespace", "string", "VStr", 'String.eqb v ""'),
 ("commonLabels", "CommonLabels", "option smap", "VMap", "smapo_empty v"),
 ("labels", "Labels", "list label", "VLabels", "nilb v"),
 ("commonAnnotations", "CommonAnnotations", "option smap", "VMap", "smapo_empty v"),
 ("patchesSM", "PatchesStrategicMerge", "list string", "VStrs", "nilb v"),
 ("patchesJson", "PatchesJson6902", "list patch", "VPatches", "nilb v"),
 ("patches", "Patches", "list patch", "VPatches", "nilb v"),
 ("images", "Images", "list image", "VImages", "nilb v"),
 ("imageTags", "ImageTags", "list image", "VImages", "nilb v"),
 ("replicas", "Replicas", "list replica", "VReplicas", "nilb v"),
 ("resources", "Resources", "list string", "VStrs", "nilb v"),
 ("components", "Components", "list string", "VStrs", "nilb v"),
 ("bases", "Bases", "list string", "VStrs", "nilb v"),
 ("configMapGenerator", "ConfigMapGenerator", "list genargs", "VGens", "nilb v"),
 ("secretGenerator", "SecretGenerator", "list genargs", "VGens", "nilb v"),
 ("generatorOptions", "GeneratorOptions", "option genopts", "VGenOpts", "noneb v"),
 ("generators", "Generators", "list string", "VStrs", "nilb v"),
 ("transformers", "Transformers", "list string", "VStrs", "nilb v"),
 ("buildMetadata", "BuildMetadata", "list string", "VStrs", "nilb v"),
 ("other", None, "list (string * string)", None, None),
]
print("Record kust := mkKust {")
print(";\n".join("  k_%s : %s" % (f[0], f[2]) for f in F))
print("}.\n")
for f in F:
    body = ";\n     ".join("k_%s := %s" % (g[0], "v" if g[0] == f[0] else "k_%s k" % g[0]) for g in F)
    print("Definition set_%s (v : %s) (k : kust) : kust :=\n  {| %s |}.\n" % (f[0], f[2], body))
print("(* the Go field names the record models explicitly *)")
print("Definition explicit_fields : list string :=\n  [" + "; ".join('"%s"' % f[1] for f in F if f[1]) + "].\n")
print("(* reflect.Value.FieldByName(n) as a value of the universal type *)")
print("Definition get (n : string) (k : kust) : fval :=")
for f in F:
    if f[1]:
        print('  if String.eqb n "%s" then %s (k_%s k) else' % (f[1], f[3], f[0]))
print("  VOpaque (assoc_get n (k_other k)).\n")
print("(* isEmpty of kustomizationfile.go: nil pointer, or Len() = 0 *)")
print("Definition is_empty (n : string) (k : kust) : bool :=")
for f in F:
    if f[1]:
        print('  if String.eqb n "%s" then (let v := k_%s k in %s) else' % (f[1], f[0], f[4]))
print("  noneb (assoc_get n (k_other k)).")
