#!/bin/sh
# background loop: confirm every finished mutation deliverable under /tmp/mut-out once
while true; do
  for d in /tmp/mut-out/C??-[a-h]; do
    [ -f "$d/patch.diff" ] && [ -f "$d/meta.json" ] && [ -f "$d/demo/run.sh" ] && [ ! -f "$d/confirm.json" ] && python3 /verif/tools/confirm_mut.py "$d" >> /tmp/mut-out/confirm.log 2>&1
  done
  [ -f /tmp/mut-out/STOP ] && exit 0
  sleep 60
done
