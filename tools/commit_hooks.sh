#!/bin/sh
# Commit every untracked add-only verif hook file of /repo (zz_verif_*.go, build tag verif) as its own small commit
# and record it in MANIFEST.hooks.
cd /repo || exit 1
git ls-files -o --exclude-standard | grep 'zz_verif_.*\.go$' | while read f; do
  head -5 "$f" | grep -q 'go:build verif' || { echo "SKIP (no verif build tag): $f"; continue; }
  git add "$f" && git commit -q -m "verif hook: $f (add-only, //go:build verif)" && \
  echo "$(git rev-parse --short HEAD) $f add-only hook guarded by build tag verif" >> /verif/MANIFEST.hooks && echo "committed $f"
done
