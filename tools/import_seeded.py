#!/usr/bin/env python3
"""Copy confirmed seeded defects from /tmp/mut-out into /verif/seeded/<id>/ (patch.diff, demo/, meta.json)."""
import os, json, shutil, glob
ROOT = os.path.dirname(os.path.dirname(os.path.abspath(__file__)))
for d in sorted(glob.glob("/tmp/mut-out/C??-[a-h]")):
    cf = os.path.join(d, "confirm.json")
    if not os.path.exists(cf):
        continue
    c = json.load(open(cf))
    name = os.path.basename(d)
    dst = os.path.join(ROOT, "seeded", name)
    if not c.get("ok"):
        print(name, "not confirmed: skipped")
        continue
    os.makedirs(dst, exist_ok=True)
    rebased = False
    try:
        rebased = bool(json.load(open(os.path.join(dst, "meta.json"))).get("rebased"))
    except Exception:
        pass
    if not rebased:
        shutil.copy(os.path.join(d, "patch.diff"), os.path.join(dst, "patch.diff"))
    if os.path.isdir(os.path.join(dst, "demo")):
        shutil.rmtree(os.path.join(dst, "demo"))
    os.makedirs(os.path.join(dst, "demo"))
    for f in os.listdir(os.path.join(d, "demo")):
        p = os.path.join(d, "demo", f)
        if os.path.isfile(p) and os.path.getsize(p) < 200000 and (f.endswith(".go") or f.endswith(".sh") or f.endswith(".yaml")):
            shutil.copy(p, os.path.join(dst, "demo", f))
    try:
        m = json.load(open(os.path.join(d, "meta.json")))
    except Exception as e:
        m = {"property": name[:3], "summary": "meta.json of the sub-agent was not valid JSON: %s" % e}
    old = {}
    mp = os.path.join(dst, "meta.json")
    if os.path.exists(mp):
        old = json.load(open(mp))
    meta = dict(
        property=m.get("property", name[:3]),
        breaks=m.get("summary", ""),
        needs_to_manifest=m.get("needs_to_manifest", ""),
        files_changed=c.get("files_changed", []),
        origin="independent sub-agent given only the property text and a scratch worktree of /repo",
        confirmed_by_coordinator=dict(
            how="tools/confirm_mut.py: patch applied to a pristine scratch worktree; go build ./... in the affected modules; "
                "go test -json -vet=off -count=1 ./... in the affected modules compared with the pinned suite (BASELINE.json stable_pass): no pinned test fails; "
                "demo/run.sh passes without the change and fails with it",
            build_ok=c.get("build_ok"), pinned_suite_failures=c.get("pinned_suite_failures"),
            demo_without_change_rc=c["steps"]["demo_without_change"]["rc"], demo_with_change_rc=c["steps"]["demo_with_change"]["rc"]),
        detection=old.get("detection", {}),
    )
    if old.get("rebased"):
        meta["rebased"] = old["rebased"]
    json.dump(meta, open(mp, "w"), indent=1)
    print(name, "imported")
