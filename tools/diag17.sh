#!/bin/sh
# usage: tools/diag17.sh <run-dir> <shard-number> <index-in-shard> [C17|C19]
# prints the model's diagnosis (step, observable) for one correspondence case and its description
d=$1; s=$(printf "%03d" $2); i=$3; p=${4:-17}
cd "$d" || exit 1
[ -f cases_$s.vo ] || coqc -Q "$(dirname $(dirname $(dirname $d)))/coq/theories" KV cases_$s.v >/dev/null 2>&1
cat > diag_tmp.v <<EOT
Require Import cases_$s.
From KV Require Import Corr.C$p.
Definition the_case := nth $i cases (hd_error_default cases).
EOT
cat > diag_tmp.v <<EOT
Load cases_$s.
Eval vm_compute in (match nth_error cases $i with Some c => diag$p c | None => [] end).
EOT
coqc -Q "$VERIF_ROOT/coq/theories" KV diag_tmp.v 2>&1 | grep -v "^M =" | tail -20
