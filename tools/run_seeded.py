#!/usr/bin/env python3
"""tools/run_seeded.py [--prop Cnn] [ids…] — run the registered quick check of the property a seeded defect breaks
against a scratch worktree with the defect applied (never /repo), and record the verdict in seeded/<id>/meta.json."""
import os, sys, json, subprocess, glob, re
ROOT = os.path.dirname(os.path.dirname(os.path.abspath(__file__)))
args = sys.argv[1:]
prop_override = None
if args and args[0] == "--prop":
    prop_override = args[1]; args = args[2:]
ids = args or [os.path.basename(d) for d in sorted(glob.glob(os.path.join(ROOT, "seeded", "C*")))]
claimed = {c["property_id"] for c in json.load(open(os.path.join(ROOT, "MANIFEST.json")))["checks"]}
for i in ids:
    d = os.path.join(ROOT, "seeded", i)
    meta = json.load(open(os.path.join(d, "meta.json")))
    prop = prop_override or meta["property"]
    if prop not in claimed:
        print(i, prop, "check not built yet")
        continue
    p = subprocess.run([os.path.join(ROOT, "tools", "mutest.sh"), os.path.join(d, "patch.diff"), prop],
                       stdout=subprocess.PIPE, stderr=subprocess.STDOUT, text=True)
    out = p.stdout
    viol = [l for l in out.splitlines() if l.startswith("VIOLATION")]
    summ = [l for l in out.splitlines() if re.match(r"C\d\d tier=", l)]
    broken = [l[:160] for l in out.splitlines() if l.startswith("BROKEN")]
    verdict = "caught" if viol else "missed"
    if viol and all("no-failing-input-found" in v for v in viol):
        verdict = "caught (obligation broken, no failing input found)"
    meta.setdefault("detection", {})[prop] = dict(verdict=verdict, violation_lines=[re.sub(r"replay=\S+", "replay=<file>", v) for v in viol][:3],
                                                  broken=broken[:3], summary=summ[-1] if summ else "")
    json.dump(meta, open(os.path.join(d, "meta.json"), "w"), indent=1)
    print(i, prop, verdict, "|", summ[-1] if summ else out[-200:])
