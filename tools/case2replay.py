#!/usr/bin/env python3
# usage: tools/case2replay.py <run-dir> <global-case-index> > replay.json
import json, sys
m = json.load(open(sys.argv[1] + "/meta.json"))
print(json.dumps({"case": m["case_descs"][int(sys.argv[2])]}))
