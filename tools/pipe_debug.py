#!/usr/bin/env python3
"""Debug aid for the PIPE correspondence: print, for the given case indices of a harness output directory,
where the model's documents differ from the implementation's (Corr/PIPE.case_diff)."""
import sys, re, subprocess, os
outdir = sys.argv[1]
idx = [int(x) for x in sys.argv[2:]]
TH = os.path.join(os.path.dirname(os.path.dirname(os.path.abspath(__file__))), "coq", "theories")
cases = []
hdr = None
for f in sorted(os.listdir(outdir)):
    if re.match(r"cases_\d+\.v$", f):
        txt = open(os.path.join(outdir, f)).read()
        h, body = txt.split("Definition cases", 1)
        hdr = h
        for line in body.splitlines():
            if line.startswith("  ("):
                cases.append(line.strip().rstrip(";"))
for i in idx:
    src = hdr + "\nDefinition c : casePIPE := %s.\nDefinition D := Eval vm_compute in case_diff c.\nPrint D.\n" % cases[i]
    p = os.path.join(outdir, "dbg_%d.v" % i)
    open(p, "w").write(src)
    r = subprocess.run(["coqc", "-Q", TH, "KV", p], capture_output=True, text=True, cwd=outdir)
    print("==== case", i)
    print((r.stdout + r.stderr)[-3000:])
