#!/usr/bin/env python3
"""tools/fold_seeded_log.py <log>… — fold the verdict lines printed by tools/run_seeded.py in another copy of /verif
(e.g. a `vp run` snapshot) into seeded/<id>/meta.json of this tree (same fields as run_seeded.py writes, minus the
BROKEN / VIOLATION lines, which the one-line summary does not carry)."""
import sys, re, json, os
ROOT = os.path.dirname(os.path.dirname(os.path.abspath(__file__)))
n = 0
for log in sys.argv[1:]:
    for line in open(log, errors="replace"):
        m = re.match(r"(C\d\d-[a-z]) (C\d\d) (caught(?: \(obligation broken, no failing input found\))?|missed) \| (.*)$", line.strip())
        if not m:
            continue
        i, prop, verdict, summ = m.groups()
        p = os.path.join(ROOT, "seeded", i, "meta.json")
        meta = json.load(open(p))
        det = meta.setdefault("detection", {})
        old = det.get(prop, {})
        det[prop] = dict(verdict=verdict, violation_lines=old.get("violation_lines", []) if verdict.startswith("caught") else [],
                         broken=old.get("broken", []) if verdict.startswith("caught") else [], summary=summ, source="final re-run (snapshot)")
        json.dump(meta, open(p, "w"), indent=1)
        n += 1
print("folded", n)
