#!/bin/sh
# tools/mutest.sh <patch.diff> <Cnn> [tier]
# Coordinator helper: apply a seeded defect to the scratch worktree /tmp/mt-repo (never /repo), run the check against
# it (VERIF_REPO), print the verdict, undo the patch and restore the evidence file written by the experiment.
set -u
PATCH="$1"; PROP="$2"; TIER="${3:-quick}"
ROOT="$(cd "$(dirname "$0")/.." && pwd)"
MT="${MT_REPO:-/tmp/mt-repo}"
[ -d "$MT" ] || git -C /repo worktree add --detach "$MT" HEAD -q
git -C "$MT" checkout -q -- . && git -C "$MT" clean -fdq
git -C "$MT" checkout -q --detach "$(git -C /repo rev-parse HEAD)"
# hook files of /repo (untracked or committed) are needed by the harness
(cd /repo && git ls-files -o --exclude-standard | grep 'zz_verif_' | while read f; do mkdir -p "$MT/$(dirname $f)"; cp "$f" "$MT/$f"; done)
git -C "$MT" apply "$PATCH" || { echo "patch does not apply"; exit 2; }
cd "$ROOT"
VERIF_REPO="$MT" ./check "$PROP" --tier "$TIER" > "/tmp/mutest-$PROP.log" 2>&1
RC=$?
grep -E "^(VIOLATION|KNOWN-FINDING|BROKEN|C[0-9]+ tier)" "/tmp/mutest-$PROP.log" | cut -c1-400
echo "exit=$RC"
git -C "$MT" checkout -q -- . && git -C "$MT" clean -fdq
git -C "$ROOT" checkout -q -- "evidence/$PROP.json" 2>/dev/null
exit 0
