#!/usr/bin/env python3
"""Regenerate the machine-made tables of DESIGN.md (between <!-- BEGIN:x --> / <!-- END:x --> markers):
 status  : one row per property from MANIFEST.json, evidence/*.json, findings files
 seeded  : one row per seeded defect from seeded/*/meta.json (which check catches it, how)."""
import json, os, glob, re
ROOT = os.path.dirname(os.path.dirname(os.path.abspath(__file__)))
man = json.load(open(os.path.join(ROOT, "MANIFEST.json")))
claimed = {c["property_id"] for c in man["checks"]}
props = [json.loads(l) for l in open(os.path.join(ROOT, "properties.jsonl"))]
find = {}
for p in [os.path.join(ROOT, "known-findings.txt")] + sorted(glob.glob(os.path.join(ROOT, "findings.d", "*.txt"))):
    for line in open(p):
        m = re.match(r"finding:\s+property=(\S+)\s+class=(\S+)", line.strip())
        if m:
            find.setdefault(m.group(1), []).append(m.group(2))
rows = ["| id | theorems (refuted / partial) | model cases (quick) | evaluations | known findings | notes |", "|---|---|---|---|---|---|"]
for p in props:
    i = p["id"]
    if i not in claimed:
        rows.append("| %s | — | — | — | — | not claimed |" % i)
        continue
    try:
        ev = json.load(open(os.path.join(ROOT, "evidence", i + ".json")))["coverage"]
    except Exception:
        ev = {}
    rows.append("| %s | %s (%d / %d) | %s | %s | %d | design.d/%s.md |" % (
        i, ev.get("obligations", "?"), len(ev.get("refuted", [])), len(ev.get("partial", [])),
        ev.get("model_cases", "?"), ev.get("evaluations", "?"), len(find.get(i, [])), i))
status = "\n".join(rows)
rows = ["| seeded defect | breaks | what it needs to manifest | verdict of `./check` (quick) | how |", "|---|---|---|---|---|"]
for d in sorted(glob.glob(os.path.join(ROOT, "seeded", "C*"))):
    try:
        m = json.load(open(os.path.join(d, "meta.json")))
    except Exception:
        continue
    name = os.path.basename(d)
    det = m.get("detection", {})
    verdicts, hows = [], []
    for prop, v in sorted(det.items()):
        verdicts.append("%s: %s" % (prop, v.get("verdict")))
        s = v.get("summary", "")
        mm = re.search(r"mismatches=(\d+) oracle_violations=(\d+)", s)
        how = []
        if v.get("broken"):
            how.append("; ".join(b.split(":")[0].replace("BROKEN ", "") for b in v["broken"]))
        if mm:
            if int(mm.group(1)):
                how.append("%s model/impl disagreements" % mm.group(1))
            if int(mm.group(2)):
                how.append("%s oracle violations" % mm.group(2))
        hows.append(", ".join(how))
    def clip(s, n=160):
        s = " ".join(str(s).split())
        return (s[:n] + "…") if len(s) > n else s
    rows.append("| %s | %s | %s | %s | %s |" % (name, clip(m.get("breaks", ""), 140).replace("|", "\\|"), clip(m.get("needs_to_manifest", ""), 140).replace("|", "\\|"),
                                            "; ".join(verdicts) or "not run", "; ".join(h for h in hows if h)))
seeded = "\n".join(rows)
p = os.path.join(ROOT, "DESIGN.md")
s = open(p).read()
for key, val in (("status", status), ("seeded", seeded)):
    b, e = "<!-- BEGIN:%s -->" % key, "<!-- END:%s -->" % key
    if b in s and e in s:
        s = s[:s.index(b) + len(b)] + "\n" + val + "\n" + s[s.index(e):]
open(p, "w").write(s)
print("tables regenerated")
