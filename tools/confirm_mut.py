#!/usr/bin/env python3
"""tools/confirm_mut.py <mutation dir>  — coordinator's independent confirmation of a seeded defect:
patch applies to a pristine scratch worktree, affected modules build, every test of the pinned suite
(BASELINE.json stable_pass) in the affected modules still passes, the demonstration passes without the
change and fails with it. Writes <dir>/confirm.json."""
import sys, os, json, subprocess, re, time
d = os.path.abspath(sys.argv[1])
W = "/tmp/cf-repo"
env = dict(os.environ, GOFLAGS="-mod=mod", GOWORK="off", GOPROXY="off", GOSUMDB="off", GOTOOLCHAIN="local")
def sh(cmd, cwd=None, timeout=3600):
    p = subprocess.run(cmd, cwd=cwd, env=env, shell=isinstance(cmd, str), stdout=subprocess.PIPE, stderr=subprocess.STDOUT, text=True, errors="replace", timeout=timeout)
    return p.returncode, p.stdout
def reset():
    if not os.path.isdir(W):
        sh("git -C /repo worktree add --detach %s HEAD -q" % W)
    sh("git -C %s checkout -q -- . && git -C %s clean -fdq" % (W, W))
    sh("git -C %s checkout -q --detach $(git -C /repo rev-parse HEAD)" % W)
res = dict(dir=d, ok=False, steps={})
t0 = time.time()
reset()
rc, out = sh(["sh", os.path.join(d, "demo", "run.sh"), W], timeout=1800)
res["steps"]["demo_without_change"] = dict(rc=rc, tail=out[-800:])
reset()
rc, out = sh("git -C %s apply %s" % (W, os.path.join(d, "patch.diff")))
res["steps"]["apply"] = dict(rc=rc, tail=out[-500:])
if rc == 0:
    rc, changed = sh("git -C %s diff --name-only" % W)
    files = changed.split()
    res["files_changed"] = files
    res["touches_tests"] = [f for f in files if f.endswith("_test.go")]
    mods = set()
    for f in files:
        if f.startswith("kyaml/"): mods.update(["kyaml", "api", "kustomize", "cmd/config"])
        elif f.startswith("api/"): mods.update(["api", "kustomize"])
        elif f.startswith("kustomize/"): mods.update(["kustomize"])
        elif f.startswith("cmd/config/"): mods.update(["cmd/config", "kustomize"])
    base = json.load(open("/root/.vp/BASELINE.json"))
    stable = set(base["stable_pass"])
    build_ok = True
    failed_tests = []
    for m in sorted(mods):
        rc, out = sh("go build ./...", cwd=os.path.join(W, m), timeout=1800)
        if rc != 0:
            build_ok = False
            res["steps"]["build_" + m] = dict(rc=rc, tail=out[-1500:])
    res["build_ok"] = build_ok
    if build_ok:
        for m in sorted(mods):
            rc, out = sh("go test -json -vet=off -count=1 -timeout 25m ./...", cwd=os.path.join(W, m), timeout=2400)
            status = {}
            for line in out.splitlines():
                try:
                    e = json.loads(line)
                except Exception:
                    continue
                if e.get("Test") and e.get("Action") in ("pass", "fail", "skip"):
                    status[e["Package"] + "::" + e["Test"]] = e["Action"]
            for k, v in status.items():
                if k in stable and v != "pass":
                    failed_tests.append(k)
            # stable tests of this module that did not run at all (package failed to build / panicked)
            ran_pk = {k.split("::")[0] for k in status}
            for k in stable:
                pk = k.split("::")[0]
                if pk.startswith("sigs.k8s.io/kustomize/" + ("kustomize/v5" if m == "kustomize" else m) + "/") or pk == "sigs.k8s.io/kustomize/" + m:
                    if k not in status and pk in ran_pk:
                        failed_tests.append(k + " (not run)")
    res["pinned_suite_failures"] = failed_tests[:50]
    rc, out = sh(["sh", os.path.join(d, "demo", "run.sh"), W], timeout=1800)
    res["steps"]["demo_with_change"] = dict(rc=rc, tail=out[-1200:])
    res["ok"] = (res["steps"]["demo_without_change"]["rc"] == 0 and rc != 0 and build_ok and not failed_tests and not res["touches_tests"])
reset()
res["wall_s"] = round(time.time() - t0)
json.dump(res, open(os.path.join(d, "confirm.json"), "w"), indent=1)
print(d, "CONFIRMED" if res["ok"] else "NOT CONFIRMED", res.get("pinned_suite_failures"), res["steps"].get("demo_without_change", {}).get("rc"), res["steps"].get("demo_with_change", {}).get("rc"))
