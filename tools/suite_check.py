#!/usr/bin/env python3
"""tools/suite_check.py <checkout> [modules…] — run the pinned test suite (BASELINE.json stable_pass) of the given modules
in a kustomize checkout (guard OFF: no -tags verif) and report every pinned test that does not pass."""
import sys, os, json, subprocess
W = sys.argv[1]
mods = sys.argv[2:]
if not mods:
    try:
        mods = [l.strip().lstrip("./") for l in open("/w/out/gomods.txt") if l.strip()]
    except Exception:
        mods = ["kyaml", "api", "kustomize", "cmd/config"]
env = dict(os.environ, GOFLAGS="-mod=mod", GOWORK="off", GOPROXY="off", GOSUMDB="off", GOTOOLCHAIN="local")
stable = set(json.load(open("/root/.vp/BASELINE.json"))["stable_pass"])
bad, ran = [], 0
for m in mods:
    p = subprocess.run("go test -json -vet=off -count=1 -timeout 25m ./...", cwd=os.path.join(W, m), env=env, shell=True,
                       stdout=subprocess.PIPE, stderr=subprocess.STDOUT, text=True, errors="replace")
    status = {}
    for line in p.stdout.splitlines():
        try:
            e = json.loads(line)
        except Exception:
            continue
        if e.get("Test") and e.get("Action") in ("pass", "fail", "skip"):
            status[e["Package"] + "::" + e["Test"]] = e["Action"]
    modpath = "sigs.k8s.io/kustomize/" + ("kustomize/v5" if m == "kustomize" else m)
    try:
        modpath = [l.split()[1] for l in open(os.path.join(W, m, "go.mod")) if l.startswith("module ")][0]
    except Exception:
        pass
    for k in stable:
        pk = k.split("::")[0]
        if pk == modpath or pk.startswith(modpath + "/"):
            ran += 1
            if status.get(k) != "pass":
                bad.append((k, status.get(k, "not run")))
print("pinned tests checked:", ran, "not passing:", len(bad))
for k, v in bad[:40]:
    print("  ", v, k)
sys.exit(1 if bad else 0)
