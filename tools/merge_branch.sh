#!/bin/sh
# tools/merge_branch.sh <branch> : merge a worker branch into main, resolving the routine conflicts
# (go.mod / MANIFEST* / known-findings.txt: ours; evidence/*.json: theirs — evidence is rewritten by every run anyway)
b="$1"
cd "$(dirname "$0")/.."
git merge "$b" -m "Merge branch $b" >/tmp/merge.log 2>&1
for f in $(git diff --name-only --diff-filter=U); do
  case "$f" in
    evidence/*) git checkout --theirs "$f"; git add "$f";;
    harness/go.mod|translate/go.mod|MANIFEST.json|MANIFEST.hooks|known-findings.txt) git checkout --ours "$f"; git add "$f";;
    *) echo "UNRESOLVED: $f";;
  esac
done
if git diff --name-only --diff-filter=U | grep -q .; then echo "merge of $b needs manual resolution"; exit 1; fi
git commit -qm "Merge branch $b" 2>/dev/null
git log --oneline -1 | cut -c1-80
