#!/usr/bin/env python3
"""Mutation check for C14: copy kyaml+api, apply one textual mutation, build the harness against the copy,
run the quick tier, evaluate the model on the emitted cases, report what noticed."""
import os, sys, shutil, subprocess, json, re
sys.path.insert(0, "/work/c14/lib")
import vlib
MUT = "/tmp/c14mut"
ENV = dict(os.environ, GOFLAGS="-mod=mod", GOPROXY="off", GOSUMDB="off", GOTOOLCHAIN="local", GOWORK="off", VERIF_ROOT="/work/c14", CGO_ENABLED="0")

MUTANTS = [
 ("M01 getPathPartKind: index next part creates a map instead of a list", "kyaml/yaml/fns.go",
  "\tif IsIdxNumber(nextPart) {\n\t\treturn yaml.SequenceNode\n\t}", "\tif IsIdxNumber(nextPart) {\n\t\treturn yaml.MappingNode\n\t}"),
 ("M02 FieldClearer: off-by-one when removing from the middle", "kyaml/yaml/fns.go",
  "rn.Content()[keyIndex+2:l]...)", "rn.Content()[keyIndex+3:l]...)"),
 ("M03 ElementIndexer: >= becomes >", "kyaml/yaml/fns.go",
  "if i.Index >= len(elems) {", "if i.Index > len(elems) {"),
 ("M04 ElementMatcher: primitive match compares with the key instead of the value", "kyaml/yaml/fns.go",
  "if rn.Content()[i].Value == e.Values[0] {", "if rn.Content()[i].Value == e.Keys[0] {"),
 ("M05 FieldSetter: existing field is appended again instead of replaced", "kyaml/yaml/fns.go",
  "\tif field != nil {\n\t\t// only apply the style", "\tif field != nil && false {\n\t\t// only apply the style"),
 ("M06 visitMappingNodeFields: last duplicate wins instead of first", "kyaml/yaml/rnode.go",
  "\t\t\tif fieldNames[0] == key.Value {\n\t\t\t\tfn(key, value)\n\t\t\t\treturn false\n\t\t\t}", "\t\t\tif fieldNames[0] == key.Value {\n\t\t\t\tfn(key, value)\n\t\t\t}"),
 ("M07 cleanPath: parts are no longer trimmed", "kyaml/yaml/match.go",
  "\t\telem = strings.TrimSpace(elem)\n\t\tif len(elem) == 0 {", "\t\tif len(elem) == 0 {"),
 ("M08 fieldspec handleMap: '[]' hint ignored", "api/filters/fieldspec/fieldspec.go",
  "\t\t\tkind = yaml.SequenceNode\n\t\t}\n\tcase len(fltr.path) <= 1:", "\t\t}\n\tcase len(fltr.path) <= 1:"),
 ("M09 fieldspec filter: null check dropped", "api/filters/fieldspec/fieldspec.go",
  "\tif obj.IsTaggedNull() || obj.IsNil() {\n\t\treturn nil\n\t}", "\tif obj.IsNil() {\n\t\treturn nil\n\t}"),
 ("M10 fieldspec handleMap: intermediate fields created as the leaf kind", "api/filters/fieldspec/fieldspec.go",
  "\t\toperation = yaml.LookupCreate(yaml.MappingNode, fieldName)\n\t\tkind = yaml.MappingNode", "\t\toperation = yaml.LookupCreate(fltr.CreateKind, fieldName)\n\t\tkind = yaml.MappingNode"),
 ("M11 PathSplitter: escaped delimiter no longer joined", "kyaml/utils/pathsplitter.go",
  "if strings.HasSuffix(res[last], `\\`) {", "if false && strings.HasSuffix(res[last], `\\`) {"),
 ("M12 isMatchGVK: version test dropped", "api/filters/fieldspec/fieldspec.go",
  "\tif fs.Version != \"\" && fs.Version != version {", "\tif false && fs.Version != version {"),
 ("M13 ElementMatcher: create appends even when an element matched later... (first non-matching map stops the scan)", "kyaml/yaml/fns.go",
  "\t\tif err = ErrorIfInvalid(elem, yaml.MappingNode); err != nil {\n\t\t\tcontinue\n\t\t}", "\t\tif err = ErrorIfInvalid(elem, yaml.MappingNode); err != nil {\n\t\t\tbreak\n\t\t}"),
 ("M14 FieldSetter(name==\"\"): keeps the old tag/value when the old node is quoted (style test inverted)", "kyaml/yaml/fns.go",
  "\t\trn.SetYNode(s.Value.YNode())\n\t\treturn rn, nil\n\t}\n\n\t// Clearing nil fields:", "\t\tif rn.YNode().Style == 0 {\n\t\t\trn.SetYNode(s.Value.YNode())\n\t\t}\n\t\treturn rn, nil\n\t}\n\n\t// Clearing nil fields:"),
 ("M16 ElementSetter: appends the element even when one was replaced", "kyaml/yaml/fns.go",
  "\tif !matchingElementFound {\n\t\trn.YNode().Content = append(rn.YNode().Content, e.Element)\n\t}", "\tif !matchingElementFound || true {\n\t\trn.YNode().Content = append(rn.YNode().Content, e.Element)\n\t}"),
 ("M17 ElementSetter: keeps empty-mapping elements", "kyaml/yaml/fns.go",
  "\t\tif IsMissingOrNull(newNode) || IsEmptyMap(newNode) {\n\t\t\tcontinue\n\t\t}", "\t\tif IsMissingOrNull(newNode) {\n\t\t\tcontinue\n\t\t}"),
 ("M18 FieldClearer IfEmpty: clears non-empty values too", "kyaml/yaml/fns.go",
  "\t\t\tif len(value.Content) > 0 {\n\t\t\t\treturn true\n\t\t\t}", "\t\t\tif len(value.Content) > 1 {\n\t\t\t\treturn true\n\t\t\t}"),
 ("M19 ElementAppender: never returns the appended element", "kyaml/yaml/fns.go",
  "\tif len(a.Elements) == 1 {\n\t\treturn NewRNode(a.Elements[0]), nil\n\t}", "\tif len(a.Elements) == 2 {\n\t\treturn NewRNode(a.Elements[0]), nil\n\t}"),
 ("M20 convertSliceIndex: name[i] loses the name", "kyaml/yaml/rnode.go",
  "\t\tif groups[1] != \"\" {\n\t\t\tres = append(res, groups[1])\n\t\t}", "\t\tif groups[1] == \"\" {\n\t\t\tres = append(res, groups[1])\n\t\t}"),
 ("M21 ElementMatcher: MatchAnyValue tests the value anyway", "kyaml/yaml/fns.go",
  "\t\t\tif e.MatchAnyValue {\n\t\t\t\tfield, err = elem.Pipe(Get(e.Keys[i]))", "\t\t\tif e.MatchAnyValue && len(e.Values) > 5 {\n\t\t\t\tfield, err = elem.Pipe(Get(e.Keys[i]))"),
 ("M22 VisitFields: visits in reverse order", "kyaml/yaml/rnode.go",
  "\tfor _, fieldName := range srcFieldNames {\n\t\tif err := fn(rn.Field(fieldName)); err != nil {", "\tfor i := len(srcFieldNames) - 1; i >= 0; i-- {\n\t\tfieldName := srcFieldNames[i]\n\t\tif err := fn(rn.Field(fieldName)); err != nil {"),
 ("M23 LabelSetter: value no longer quoted", "kyaml/yaml/kfns.go",
  "func (s LabelSetter) Filter(rn *RNode) (*RNode, error) {\n\tv := NewStringRNode(s.Value)\n\t// some tools get confused about the type if labels are not quoted\n\tv.YNode().Style = yaml.SingleQuotedStyle", "func (s LabelSetter) Filter(rn *RNode) (*RNode, error) {\n\tv := NewStringRNode(s.Value)"),
 ("M24 seeded C14-e PathSplitter: glue uses the previous raw piece", "kyaml/utils/pathsplitter.go",
  "\t\tlast := len(res) - 1\n\t\tif strings.HasSuffix(res[last], `\\`) {\n\t\t\tres[last] = strings.TrimSuffix(res[last], `\\`) + delimiter + ps[i]",
  "\t\tif prev := ps[i-1]; strings.HasSuffix(prev, `\\`) {\n\t\t\tres[len(res)-1] = strings.TrimSuffix(prev, `\\`) + delimiter + ps[i]"),
 ("M25 seeded C14-f ElementSetter: drops empty sequences too", "kyaml/yaml/fns.go",
  "\t\tif IsMissingOrNull(newNode) || IsEmptyMap(newNode) {\n\t\t\tcontinue\n\t\t}", "\t\tif newNode.IsNilOrEmpty() {\n\t\t\tcontinue\n\t\t}"),
 ("M26 seeded C14-g FieldSetter: returns the caller's value node instead of the field in the document", "kyaml/yaml/fns.go",
  "\t\tfield.SetYNode(s.Value.YNode())\n\t\treturn field, nil", "\t\tfield.SetYNode(s.Value.YNode())\n\t\treturn s.Value, nil"),
 ("M15 getFilter: '-' treated as index 0", "kyaml/yaml/fns.go",
  "\t\treturn GetElementByIndex(-1), nil", "\t\treturn GetElementByIndex(0), nil"),
]

def sh(cmd, cwd=None, timeout=1800):
    p = subprocess.run(cmd, cwd=cwd, env=ENV, stdout=subprocess.PIPE, stderr=subprocess.STDOUT, text=True, timeout=timeout)
    return p.returncode, p.stdout

def prepare():
    for m in ("kyaml", "api"):
        dst = os.path.join(MUT, m)
        if not os.path.exists(dst):
            shutil.copytree(os.path.join("/repo", m), dst, symlinks=True)
    h = os.path.join(MUT, "harness")
    shutil.rmtree(h, ignore_errors=True)
    shutil.copytree("/work/c14/harness", h)
    gm = open(os.path.join(h, "go.mod")).read()
    gm = gm.replace("=> /repo/api", "=> /tmp/c14mut/api").replace("=> /repo/kyaml", "=> /tmp/c14mut/kyaml")
    open(os.path.join(h, "go.mod"), "w").write(gm)
    # api's own go.mod replaces kyaml with ../kyaml: fine (relative)

def run_one(name, rel, old, new):
    path = os.path.join(MUT, rel)
    orig = open(os.path.join("/repo", rel)).read()
    if old not in orig:
        return name, "PATTERN NOT FOUND"
    open(path, "w").write(orig.replace(old, new, 1))
    try:
        rc, out = sh(["go", "build", "-tags", "verif", "-o", os.path.join(MUT, "hbin"), "."], cwd=os.path.join(MUT, "harness"))
        if rc != 0:
            return name, "BUILD FAILED " + out[-400:]
        outdir = os.path.join(MUT, "out")
        shutil.rmtree(outdir, ignore_errors=True); os.makedirs(outdir)
        rc, out = sh([os.path.join(MUT, "hbin"), "-tier", "quick", "-seed", "1", "-out", outdir, "C14"], cwd="/work/c14")
        if rc != 0:
            return name, "HARNESS rc=%s %s" % (rc, out[-300:])
        meta = json.load(open(os.path.join(outdir, "meta.json")))
        ok, mism, log = vlib.eval_cases(outdir, meta)
        classes = {}
        for v in meta["violations"]:
            classes[v["class"]] = classes.get(v["class"], 0) + 1
        new_classes = {k: v for k, v in classes.items() if k != "C14/none"}
        caught = bool(mism) or bool(new_classes) or not ok
        return name, "%s  mismatches=%d/%d  oracle=%s" % ("CAUGHT" if caught else "MISSED", len(mism), meta["model_cases"], new_classes)
    finally:
        open(path, "w").write(orig)

if __name__ == "__main__":
    prepare()
    sel = sys.argv[1:]
    for m in MUTANTS:
        if sel and not any(m[0].startswith(s) for s in sel):
            continue
        name, res = run_one(*m)
        print(name, "=>", res, flush=True)
