#!/bin/sh
# Run once after a fresh restore, offline: build the framework from files on disk only.
set -e
cd "$(dirname "$0")"
export GOFLAGS=-mod=mod GOPROXY=off GOSUMDB=off GOTOOLCHAIN=local GOWORK=off
mkdir -p .build evidence
python3 - <<'PY'
import sys, os
sys.path.insert(0, os.path.join(os.getcwd(), "lib"))
import vlib
ok, log = vlib.run_translators()
print("translators:", ok, log[-500:])
okb, blog, missing = vlib.coq_build()
print("coq build:", okb, "missing:", missing)
if not okb:
    print(blog[-4000:])
hok, hlog = vlib.build_harness()
print("harness:", hok, hlog[-2000:])
sys.exit(0 if (ok and okb and hok) else 1)
PY
