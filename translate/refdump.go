package main

import (
	"encoding/json"
	"fmt"
	"os"
	"path/filepath"

	"sigs.k8s.io/yaml"
)

// dumpRefTables writes the default transformer configuration of the CURRENT source as JSON.
// It is used once, by hand, to produce the committed reference copy corpus/fieldspecs.ref.json
// ("the directives' documented field sets" at the pinned commit) that oracles compare against.
func dumpRefTables(repo, out string) error {
	dir := filepath.Join(repo, "api/internal/konfig/builtinpluginconsts")
	consts, err := constStrings(dir)
	if err != nil {
		return err
	}
	res := map[string]interface{}{}
	for _, c := range []string{"namePrefixFieldSpecs", "nameSuffixFieldSpecs", "commonLabelFieldSpecs",
		"templateLabelFieldSpecs", "commonAnnotationFieldSpecs", "namespaceFieldSpecs", "imagesFieldSpecs",
		"replicasFieldSpecs", "varReferenceFieldSpecs", "nameReferenceFieldSpecs"} {
		txt, ok := consts[c]
		if !ok {
			return fmt.Errorf("constant %s not found", c)
		}
		var m map[string]interface{}
		if err := yaml.Unmarshal([]byte(txt), &m); err != nil {
			return fmt.Errorf("%s: %v", c, err)
		}
		for k, v := range m {
			res[k] = v
		}
	}
	data, err := json.MarshalIndent(res, "", " ")
	if err != nil {
		return err
	}
	return os.WriteFile(out, data, 0o644)
}
