package main

import (
	"bytes"
	"fmt"
	"go/ast"
	"go/constant"
	"go/printer"
	"go/token"
	"path/filepath"
	"strings"
)

// LegacyOrder.v (property C11): the tables and string constants the legacy sort order and the
// name prefix/suffix transformers depend on.
//
//   gen_order_first / gen_order_last   defaultOrderFirst / defaultOrderLast (SortOrderTransformer.go)
//   gen_namespace_kind                 types.NamespaceKind
//   gen_ns_reversal_guarded            shape of the Namespace-kind test in gvkLessThan (with / without rank guard)
//   gen_legacy_gvk_strings             the local string constants of legacyGVKSortString
//   gen_legacy_resid_strings           the local string constants of legacyResIDSortString
//   gen_gvk_string_consts              noGroup/noVersion/noKind/fieldSep of kyaml/resid/gvk.go
//   gen_prefix_skip / gen_suffix_skip  prefixFieldSpecsToSkip / suffixFieldSpecsToSkip
//
// Anything that is not a plain literal of the expected shape makes the generation fail (the file
// then does not compile and every obligation depending on it fails).

func litString(e ast.Expr) (string, bool) {
	bl, ok := e.(*ast.BasicLit)
	if !ok || bl.Kind != token.STRING {
		return "", false
	}
	return constant.StringVal(constant.MakeFromLiteral(bl.Value, token.STRING, 0)), true
}

// packageVar finds the initialiser of a package-level var/const.
func packageVar(files []*ast.File, name string) ast.Expr {
	for _, f := range files {
		for _, d := range f.Decls {
			gd, ok := d.(*ast.GenDecl)
			if !ok || (gd.Tok != token.VAR && gd.Tok != token.CONST) {
				continue
			}
			for _, s := range gd.Specs {
				vs := s.(*ast.ValueSpec)
				for i, n := range vs.Names {
					if n.Name == name && i < len(vs.Values) {
						return vs.Values[i]
					}
				}
			}
		}
	}
	return nil
}

func stringSliceVar(files []*ast.File, name string) ([]string, error) {
	e := packageVar(files, name)
	if e == nil {
		return nil, fmt.Errorf("variable %s not found", name)
	}
	cl, ok := e.(*ast.CompositeLit)
	if !ok {
		return nil, fmt.Errorf("%s: not a composite literal", name)
	}
	at, ok := cl.Type.(*ast.ArrayType)
	if !ok || at.Len != nil {
		return nil, fmt.Errorf("%s: not a slice literal", name)
	}
	if id, ok := at.Elt.(*ast.Ident); !ok || id.Name != "string" {
		return nil, fmt.Errorf("%s: not a []string", name)
	}
	out := []string{}
	for _, el := range cl.Elts {
		s, ok := litString(el)
		if !ok {
			return nil, fmt.Errorf("%s: element is not a string literal", name)
		}
		out = append(out, s)
	}
	return out, nil
}

// localStringConsts returns, in source order, the `name := "literal"` assignments of a function body.
func localStringConsts(files []*ast.File, fn string) ([][2]string, error) {
	for _, f := range files {
		for _, d := range f.Decls {
			fd, ok := d.(*ast.FuncDecl)
			if !ok || fd.Name.Name != fn || fd.Body == nil {
				continue
			}
			out := [][2]string{}
			for _, st := range fd.Body.List {
				as, ok := st.(*ast.AssignStmt)
				if !ok || as.Tok != token.DEFINE || len(as.Lhs) != 1 || len(as.Rhs) != 1 {
					continue
				}
				id, ok := as.Lhs[0].(*ast.Ident)
				if !ok {
					continue
				}
				if s, ok := litString(as.Rhs[0]); ok {
					out = append(out, [2]string{id.Name, s})
				}
			}
			return out, nil
		}
	}
	return nil, fmt.Errorf("function %s not found", fn)
}

// fsSkipVar reads `var x = types.FsSlice{{Gvk: resid.Gvk{Kind: "..", Group: ".."}}, ...}`.
func fsSkipVar(files []*ast.File, name string) ([]fieldSpec, error) {
	e := packageVar(files, name)
	if e == nil {
		return nil, fmt.Errorf("variable %s not found", name)
	}
	cl, ok := e.(*ast.CompositeLit)
	if !ok {
		return nil, fmt.Errorf("%s: not a composite literal", name)
	}
	out := []fieldSpec{}
	for _, el := range cl.Elts {
		ecl, ok := el.(*ast.CompositeLit)
		if !ok {
			return nil, fmt.Errorf("%s: element is not a composite literal", name)
		}
		fs := fieldSpec{}
		for _, kv := range ecl.Elts {
			kve, ok := kv.(*ast.KeyValueExpr)
			if !ok {
				return nil, fmt.Errorf("%s: positional field", name)
			}
			key, _ := kve.Key.(*ast.Ident)
			if key == nil {
				return nil, fmt.Errorf("%s: odd key", name)
			}
			switch key.Name {
			case "Gvk":
				gcl, ok := kve.Value.(*ast.CompositeLit)
				if !ok {
					return nil, fmt.Errorf("%s: Gvk is not a literal", name)
				}
				for _, gkv := range gcl.Elts {
					gkve, ok := gkv.(*ast.KeyValueExpr)
					if !ok {
						return nil, fmt.Errorf("%s: positional Gvk field", name)
					}
					gk, _ := gkve.Key.(*ast.Ident)
					s, ok := litString(gkve.Value)
					if gk == nil || !ok {
						return nil, fmt.Errorf("%s: Gvk field is not a string literal", name)
					}
					switch gk.Name {
					case "Group":
						fs.Group = s
					case "Version":
						fs.Version = s
					case "Kind":
						fs.Kind = s
					default:
						return nil, fmt.Errorf("%s: unknown Gvk field %s", name, gk.Name)
					}
				}
			case "Path":
				s, ok := litString(kve.Value)
				if !ok {
					return nil, fmt.Errorf("%s: Path is not a literal", name)
				}
				fs.Path = s
			default:
				return nil, fmt.Errorf("%s: unknown field %s", name, key.Name)
			}
		}
		out = append(out, fs)
	}
	return out, nil
}

// namespaceReversalGuard classifies the condition of the Namespace-kind reversal in gvkLessThan:
// false = the condition as it stood (no rank guard), true = the repaired form `index1 != 0 && ...`.
// Any other shape is an error: the model would not know what it describes.
func namespaceReversalGuard(fset *token.FileSet, files []*ast.File) (bool, error) {
	const unguarded = `(gvk1.Kind == types.NamespaceKind && gvk2.Kind == types.NamespaceKind) && (gvk1.Group == "" || gvk2.Group == "")`
	for _, f := range files {
		for _, d := range f.Decls {
			fd, ok := d.(*ast.FuncDecl)
			if !ok || fd.Name.Name != "gvkLessThan" || fd.Body == nil {
				continue
			}
			var conds []string
			for _, st := range fd.Body.List {
				is, ok := st.(*ast.IfStmt)
				if !ok {
					continue
				}
				var b bytes.Buffer
				if err := printer.Fprint(&b, fset, is.Cond); err != nil {
					return false, err
				}
				c := strings.Join(strings.Fields(b.String()), " ")
				if strings.Contains(c, "NamespaceKind") {
					conds = append(conds, c)
				}
			}
			if len(conds) != 1 {
				return false, fmt.Errorf("gvkLessThan: expected exactly one Namespace-kind test, found %d", len(conds))
			}
			switch conds[0] {
			case unguarded:
				return false, nil
			case "index1 != 0 && " + unguarded:
				return true, nil
			}
			return false, fmt.Errorf("gvkLessThan: unrecognised Namespace-kind condition %q", conds[0])
		}
	}
	return false, fmt.Errorf("function gvkLessThan not found")
}

func coqStrListT(l []string) string {
	parts := make([]string, len(l))
	for i, s := range l {
		parts[i] = coqStr(s)
	}
	return "[" + strings.Join(parts, "; ") + "]"
}

func coqPairList(l [][2]string) string {
	parts := make([]string, len(l))
	for i, p := range l {
		parts[i] = "(" + coqStr(p[0]) + ", " + coqStr(p[1]) + ")"
	}
	return "[" + strings.Join(parts, "; ") + "]"
}

func init() {
	registerGen("LegacyOrder.v", func(repo string) (string, error) {
		bfset, bfiles, err := parseDir(filepath.Join(repo, "api/internal/builtins"))
		if err != nil {
			return "", err
		}
		guarded, err := namespaceReversalGuard(bfset, bfiles)
		if err != nil {
			return "", err
		}
		first, err := stringSliceVar(bfiles, "defaultOrderFirst")
		if err != nil {
			return "", err
		}
		last, err := stringSliceVar(bfiles, "defaultOrderLast")
		if err != nil {
			return "", err
		}
		gvkS, err := localStringConsts(bfiles, "legacyGVKSortString")
		if err != nil {
			return "", err
		}
		ridS, err := localStringConsts(bfiles, "legacyResIDSortString")
		if err != nil {
			return "", err
		}
		pskip, err := fsSkipVar(bfiles, "prefixFieldSpecsToSkip")
		if err != nil {
			return "", err
		}
		sskip, err := fsSkipVar(bfiles, "suffixFieldSpecsToSkip")
		if err != nil {
			return "", err
		}
		tconsts, err := constStrings(filepath.Join(repo, "api/types"))
		if err != nil {
			return "", err
		}
		nsKind, ok := tconsts["NamespaceKind"]
		if !ok {
			return "", fmt.Errorf("types.NamespaceKind not found")
		}
		rconsts, err := constStrings(filepath.Join(repo, "kyaml/resid"))
		if err != nil {
			return "", err
		}
		gvkConsts := [][2]string{}
		for _, n := range []string{"noGroup", "noVersion", "noKind", "fieldSep"} {
			v, ok := rconsts[n]
			if !ok {
				return "", fmt.Errorf("resid.%s not found", n)
			}
			gvkConsts = append(gvkConsts, [2]string{n, v})
		}
		var b strings.Builder
		b.WriteString("From KV Require Import Yaml.FieldSpecTypes.\nOpen Scope string_scope.\n\n")
		fmt.Fprintf(&b, "Definition gen_order_first : list string := %s.\n\n", coqStrListT(first))
		fmt.Fprintf(&b, "Definition gen_order_last : list string := %s.\n\n", coqStrListT(last))
		fmt.Fprintf(&b, "Definition gen_namespace_kind : string := %s.\n\n", coqStr(nsKind))
		fmt.Fprintf(&b, "(* does the Namespace-kind reversal of gvkLessThan carry the rank guard `index1 != 0 &&`? *)\n")
		fmt.Fprintf(&b, "Definition gen_ns_reversal_guarded : bool := %s.\n\n", coqBool(guarded))
		fmt.Fprintf(&b, "Definition gen_legacy_gvk_strings : list (string * string) := %s.\n\n", coqPairList(gvkS))
		fmt.Fprintf(&b, "Definition gen_legacy_resid_strings : list (string * string) := %s.\n\n", coqPairList(ridS))
		fmt.Fprintf(&b, "Definition gen_gvk_string_consts : list (string * string) := %s.\n\n", coqPairList(gvkConsts))
		for _, t := range []struct {
			name string
			l    []fieldSpec
		}{{"gen_prefix_skip", pskip}, {"gen_suffix_skip", sskip}} {
			fmt.Fprintf(&b, "Definition %s : list fieldspec := [\n", t.name)
			for i, f := range t.l {
				sep := ";"
				if i == len(t.l)-1 {
					sep = ""
				}
				fmt.Fprintf(&b, "  %s%s\n", fsTerm(f), sep)
			}
			b.WriteString("].\n\n")
		}
		return b.String(), nil
	})
}
