package main

import (
	"fmt"
	"go/ast"
	"go/constant"
	"go/token"
	"path/filepath"
	"reflect"
	"strings"
)

// KustFields.v (property C17/C19):
//   * the field serialisation order of kustomize/commands/internal/kustfile/kustomizationfile.go
//     (`determineFieldOrder`: the literal prefix appended first, the `ordered` slice literal and the
//     `deprecated` map literal; the resulting order is recomputed the way the function does), and
//   * the field table of api/types.Kustomization (Go name, JSON name, omitempty flag, kind of the
//     Go type as far as `isEmpty` of kustomizationfile.go cares: pointer / string / slice / map /
//     anything else), embedded structs flattened the way reflect.Value.FieldByName sees them.
//
// Anything the translator cannot classify makes the generation fail (the obligations then do not
// compile) or is printed as GOther (which fails `Gen_ordered_fields_len_safe`).

type kfField struct {
	goName, jsonName string
	omitEmpty       bool
	kind            string
	embeddedIn      string
}

func init() {
	registerGen("KustFields.v", genKustFields)
}

func genKustFields(repo string) (string, error) {
	prefix, ordered, deprecated, err := kustFieldOrder(filepath.Join(repo, "kustomize/commands/internal/kustfile"))
	if err != nil {
		return "", err
	}
	fields, err := kustStructFields(filepath.Join(repo, "api/types"), "Kustomization")
	if err != nil {
		return "", err
	}
	// recompute determineFieldOrder's result
	dep := map[string]bool{}
	for _, d := range deprecated {
		dep[d] = true
	}
	result := append([]string{}, prefix...)
	for _, n := range ordered {
		if !dep[n] {
			result = append(result, n)
		}
	}
	var b strings.Builder
	b.WriteString("From Coq Require Import List String.\nImport ListNotations.\nOpen Scope string_scope.\n\n")
	b.WriteString("(* how kustomizationfile.go's isEmpty sees the Go type of a field *)\n")
	b.WriteString("Inductive gkind := GString | GSlice | GMap | GPtr | GOther.\n\n")
	wl := func(name string, l []string, doc string) {
		fmt.Fprintf(&b, "(* %s *)\nDefinition %s : list string := [", doc, name)
		for i, s := range l {
			if i > 0 {
				b.WriteString("; ")
			}
			if i%6 == 0 {
				b.WriteString("\n  ")
			}
			b.WriteString(coqStr(s))
		}
		b.WriteString("].\n\n")
	}
	wl("gen_order_prefix", prefix, "names appended first by determineFieldOrder (the inlined TypeMeta)")
	wl("gen_ordered_literal", ordered, "the `ordered` slice literal of determineFieldOrder")
	wl("gen_deprecated", deprecated, "keys of the `deprecated` map literal of determineFieldOrder")
	wl("gen_field_order", result, "fieldMarshallingOrder = prefix ++ (ordered minus deprecated)")
	b.WriteString("(* fields of api/types.Kustomization as reflect sees them: (Go name, JSON name, omitempty, kind) *)\n")
	b.WriteString("Definition gen_struct_fields : list (string * string * bool * gkind) := [\n")
	for i, f := range fields {
		sep := ";"
		if i == len(fields)-1 {
			sep = ""
		}
		fmt.Fprintf(&b, "  (%s, %s, %s, %s)%s\n", coqStr(f.goName), coqStr(f.jsonName), coqBool(f.omitEmpty), f.kind, sep)
	}
	b.WriteString("].\n")
	return b.String(), nil
}

// kustFieldOrder extracts the three literals of determineFieldOrder.
func kustFieldOrder(dir string) (prefix, ordered, deprecated []string, err error) {
	_, files, err := parseDir(dir)
	if err != nil {
		return nil, nil, nil, err
	}
	var fn *ast.FuncDecl
	usesIt := false
	for _, f := range files {
		for _, d := range f.Decls {
			switch x := d.(type) {
			case *ast.FuncDecl:
				if x.Name.Name == "determineFieldOrder" && x.Recv == nil {
					fn = x
				}
			case *ast.GenDecl:
				for _, s := range x.Specs {
					vs, ok := s.(*ast.ValueSpec)
					if !ok {
						continue
					}
					for i, n := range vs.Names {
						if n.Name == "fieldMarshallingOrder" && i < len(vs.Values) {
							if c, ok := vs.Values[i].(*ast.CallExpr); ok {
								if id, ok := c.Fun.(*ast.Ident); ok && id.Name == "determineFieldOrder" && len(c.Args) == 0 {
									usesIt = true
								}
							}
						}
					}
				}
			}
		}
	}
	if fn == nil {
		return nil, nil, nil, fmt.Errorf("determineFieldOrder not found in %s", dir)
	}
	if !usesIt {
		return nil, nil, nil, fmt.Errorf("fieldMarshallingOrder is no longer initialised by determineFieldOrder()")
	}
	strLit := func(e ast.Expr) (string, bool) {
		bl, ok := e.(*ast.BasicLit)
		if !ok || bl.Kind != token.STRING {
			return "", false
		}
		return constant.StringVal(constant.MakeFromLiteral(bl.Value, token.STRING, 0)), true
	}
	nOrdered, nDeprecated, nPrefix, nAppendResult := 0, 0, 0, 0
	var walkErr error
	ast.Inspect(fn.Body, func(n ast.Node) bool {
		switch x := n.(type) {
		case *ast.AssignStmt:
			if len(x.Lhs) != 1 || len(x.Rhs) != 1 {
				return true
			}
			id, ok := x.Lhs[0].(*ast.Ident)
			if !ok {
				return true
			}
			switch id.Name {
			case "ordered":
				cl, ok := x.Rhs[0].(*ast.CompositeLit)
				if !ok {
					walkErr = fmt.Errorf("`ordered` is not a composite literal")
					return false
				}
				nOrdered++
				for _, e := range cl.Elts {
					s, ok := strLit(e)
					if !ok {
						walkErr = fmt.Errorf("`ordered` has a non-literal element")
						return false
					}
					ordered = append(ordered, s)
				}
			case "deprecated":
				cl, ok := x.Rhs[0].(*ast.CompositeLit)
				if !ok {
					walkErr = fmt.Errorf("`deprecated` is not a composite literal")
					return false
				}
				nDeprecated++
				for _, e := range cl.Elts {
					kv, ok := e.(*ast.KeyValueExpr)
					if !ok {
						walkErr = fmt.Errorf("`deprecated` has a non key/value element")
						return false
					}
					s, ok := strLit(kv.Key)
					if !ok {
						walkErr = fmt.Errorf("`deprecated` has a non-literal key")
						return false
					}
					// membership is what the function tests (`_, f := deprecated[n]`), the value is irrelevant
					deprecated = append(deprecated, s)
				}
			case "result":
				call, ok := x.Rhs[0].(*ast.CallExpr)
				if !ok {
					return true
				}
				if f, ok := call.Fun.(*ast.Ident); !ok || f.Name != "append" || len(call.Args) < 2 {
					return true
				}
				if a0, ok := call.Args[0].(*ast.Ident); !ok || a0.Name != "result" {
					return true
				}
				nAppendResult++
				allLit := true
				var lits []string
				for _, a := range call.Args[1:] {
					s, ok := strLit(a)
					if !ok {
						allLit = false
						break
					}
					lits = append(lits, s)
				}
				if allLit {
					nPrefix++
					prefix = append(prefix, lits...)
				}
			}
		}
		return true
	})
	if walkErr != nil {
		return nil, nil, nil, walkErr
	}
	// shape of the function as modelled: one ordered literal, one deprecated literal, one literal
	// append (the TypeMeta prefix) and one append inside the loop
	if nOrdered != 1 || nDeprecated != 1 || nPrefix != 1 || nAppendResult != 2 {
		return nil, nil, nil, fmt.Errorf("determineFieldOrder has an unexpected shape (ordered=%d deprecated=%d literal-appends=%d appends=%d)",
			nOrdered, nDeprecated, nPrefix, nAppendResult)
	}
	return prefix, ordered, deprecated, nil
}

// kustStructFields lists the fields of a struct type of a package directory, flattening embedded
// structs of the same package (reflect's FieldByName promotes their fields).
func kustStructFields(dir, typeName string) ([]kfField, error) {
	_, files, err := parseDir(dir)
	if err != nil {
		return nil, err
	}
	decls := map[string]ast.Expr{}
	for _, f := range files {
		for _, d := range f.Decls {
			gd, ok := d.(*ast.GenDecl)
			if !ok || gd.Tok != token.TYPE {
				continue
			}
			for _, s := range gd.Specs {
				ts := s.(*ast.TypeSpec)
				decls[ts.Name.Name] = ts.Type
			}
		}
	}
	var kindOf func(e ast.Expr, depth int) string
	kindOf = func(e ast.Expr, depth int) string {
		if depth > 10 {
			return "GOther"
		}
		switch x := e.(type) {
		case *ast.StarExpr:
			return "GPtr"
		case *ast.ArrayType:
			if x.Len == nil {
				return "GSlice"
			}
			return "GOther" // arrays have Len() too, but are not expected here
		case *ast.MapType:
			return "GMap"
		case *ast.Ident:
			if x.Name == "string" {
				return "GString"
			}
			if t, ok := decls[x.Name]; ok {
				return kindOf(t, depth+1)
			}
			return "GOther"
		case *ast.ParenExpr:
			return kindOf(x.X, depth+1)
		}
		return "GOther"
	}
	var out []kfField
	var flatten func(name string, depth int) error
	flatten = func(name string, depth int) error {
		t, ok := decls[name]
		if !ok {
			return fmt.Errorf("type %s not found in %s", name, dir)
		}
		st, ok := t.(*ast.StructType)
		if !ok {
			return fmt.Errorf("type %s is not a struct", name)
		}
		for _, f := range st.Fields.List {
			tag := ""
			if f.Tag != nil {
				tag = constant.StringVal(constant.MakeFromLiteral(f.Tag.Value, token.STRING, 0))
			}
			jsonTag := reflect.StructTag(tag).Get("json")
			parts := strings.Split(jsonTag, ",")
			omit, inline := false, false
			for _, p := range parts[1:] {
				if p == "omitempty" {
					omit = true
				}
				if p == "inline" {
					inline = true
				}
			}
			if len(f.Names) == 0 {
				// embedded
				id, ok := f.Type.(*ast.Ident)
				if !ok || depth > 3 {
					return fmt.Errorf("type %s: embedded field of unsupported form", name)
				}
				if !inline && parts[0] != "" {
					return fmt.Errorf("type %s: embedded %s is not inlined in JSON", name, id.Name)
				}
				if err := flatten(id.Name, depth+1); err != nil {
					return err
				}
				continue
			}
			for _, n := range f.Names {
				if !n.IsExported() {
					continue
				}
				jn := parts[0]
				if jn == "" {
					jn = n.Name
				}
				if jn == "-" {
					continue
				}
				out = append(out, kfField{goName: n.Name, jsonName: jn, omitEmpty: omit, kind: kindOf(f.Type, 0)})
			}
		}
		return nil
	}
	if err := flatten(typeName, 0); err != nil {
		return nil, err
	}
	if len(out) == 0 {
		return nil, fmt.Errorf("no fields found for %s", typeName)
	}
	return out, nil
}
