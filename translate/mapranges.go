package main

import (
	"fmt"
	"go/ast"
	"go/token"
	"go/types"
	"os"
	"sort"
	"strings"

	"golang.org/x/tools/go/packages"
)

// MapRanges.v: every `for … range m` over a map-typed operand in the kustomize packages that
// krusty (the build entry point) imports, with a syntactic classification of what the loop body does:
//   KeysThenSorted : the body only appends to one slice, and that slice is sorted later in the function
//   IntoMapOrSet   : the body only writes map entries / deletes / calls a set's insert method
//   Commutative    : the body only ORs/ANDs booleans, counts, or returns constants
//   Other          : anything else (order may leak into the result)
// Sites are keyed by (package, function, ordinal of the map-range inside the function), never by line.

type mrSite struct {
	pkg, fn string
	ord     int
	class   string
	note    string
}

func loadKustomizePackages(repo string, patterns ...string) ([]*packages.Package, error) {
	cfg := &packages.Config{
		Mode: packages.NeedName | packages.NeedFiles | packages.NeedSyntax | packages.NeedTypes |
			packages.NeedTypesInfo | packages.NeedImports | packages.NeedDeps,
		Dir: repo + "/api",
		Env: append(os.Environ(), "GOWORK=off", "GOFLAGS=-mod=mod", "GOPROXY=off", "GOSUMDB=off", "GOTOOLCHAIN=local"),
	}
	roots, err := packages.Load(cfg, patterns...)
	if err != nil {
		return nil, err
	}
	seen := map[string]*packages.Package{}
	var visit func(p *packages.Package)
	visit = func(p *packages.Package) {
		if seen[p.PkgPath] != nil {
			return
		}
		seen[p.PkgPath] = p
		for _, q := range p.Imports {
			visit(q)
		}
	}
	for _, p := range roots {
		if len(p.Errors) > 0 {
			return nil, fmt.Errorf("package %s: %v", p.PkgPath, p.Errors[0])
		}
		visit(p)
	}
	var out []*packages.Package
	for path, p := range seen {
		if strings.HasPrefix(path, "sigs.k8s.io/kustomize/") {
			out = append(out, p)
		}
	}
	sort.Slice(out, func(i, j int) bool { return out[i].PkgPath < out[j].PkgPath })
	return out, nil
}

func funcName(fd *ast.FuncDecl) string {
	if fd.Recv != nil && len(fd.Recv.List) > 0 {
		t := fd.Recv.List[0].Type
		if s, ok := t.(*ast.StarExpr); ok {
			t = s.X
		}
		if ix, ok := t.(*ast.IndexExpr); ok {
			t = ix.X
		}
		if id, ok := t.(*ast.Ident); ok {
			return id.Name + "." + fd.Name.Name
		}
	}
	return fd.Name.Name
}

// classifyBody inspects the statements of a map-range body.
func classifyBody(info *types.Info, body *ast.BlockStmt, fn *ast.FuncDecl, rng *ast.RangeStmt) (string, string) {
	appendTargets := map[string]bool{}
	onlyAppend, onlyMapWrites, onlyComm := true, true, true
	n := 0
	var walkStmts func(list []ast.Stmt)
	isMapIndex := func(e ast.Expr) bool {
		ix, ok := e.(*ast.IndexExpr)
		if !ok {
			return false
		}
		if tv, ok := info.Types[ix.X]; ok {
			_, isMap := tv.Type.Underlying().(*types.Map)
			return isMap
		}
		return false
	}
	walkStmts = func(list []ast.Stmt) {
		for _, s := range list {
			n++
			switch st := s.(type) {
			case *ast.AssignStmt:
				// x = append(x, …)
				if len(st.Lhs) == 1 && len(st.Rhs) == 1 {
					if call, ok := st.Rhs[0].(*ast.CallExpr); ok {
						if id, ok := call.Fun.(*ast.Ident); ok && id.Name == "append" && len(call.Args) >= 1 {
							appendTargets[exprString(st.Lhs[0])] = true
							onlyMapWrites, onlyComm = false, false
							continue
						}
					}
				}
				if len(st.Lhs) == 1 {
					if ix, ok := st.Lhs[0].(*ast.IndexExpr); ok && !isMapIndex(st.Lhs[0]) {
						// s[i] = …  : collecting into slice s
						appendTargets[exprString(ix.X)] = true
						onlyMapWrites, onlyComm = false, false
						continue
					}
				}
				allMap := true
				for _, l := range st.Lhs {
					if !isMapIndex(l) {
						allMap = false
					}
				}
				if allMap {
					onlyAppend, onlyComm = false, false
					continue
				}
				// boolean / counter accumulation
				if len(st.Lhs) == 1 && (st.Tok == token.ADD_ASSIGN || st.Tok == token.OR_ASSIGN || st.Tok == token.AND_ASSIGN) {
					onlyAppend, onlyMapWrites = false, false
					continue
				}
				if len(st.Lhs) == 1 && len(st.Rhs) == 1 {
					if id, ok := st.Rhs[0].(*ast.Ident); ok && (id.Name == "true" || id.Name == "false") {
						onlyAppend, onlyMapWrites = false, false
						continue
					}
				}
				onlyAppend, onlyMapWrites, onlyComm = false, false, false
			case *ast.IncDecStmt:
				// counters / slice cursors: neutral
			case *ast.ExprStmt:
				if call, ok := st.X.(*ast.CallExpr); ok {
					if id, ok := call.Fun.(*ast.Ident); ok && id.Name == "delete" {
						onlyAppend, onlyComm = false, false
						continue
					}
					if sel, ok := call.Fun.(*ast.SelectorExpr); ok {
						switch sel.Sel.Name {
						case "Insert", "Delete", "insert":
							// set insertion / deletion
							onlyAppend, onlyComm = false, false
							continue
						}
					}
				}
				onlyAppend, onlyMapWrites, onlyComm = false, false, false
			case *ast.IfStmt:
				if st.Init != nil {
					onlyAppend, onlyMapWrites, onlyComm = false, false, false
				}
				walkStmts(st.Body.List)
				if st.Else != nil {
					if b, ok := st.Else.(*ast.BlockStmt); ok {
						walkStmts(b.List)
					} else {
						onlyAppend, onlyMapWrites, onlyComm = false, false, false
					}
				}
				n--
			case *ast.ReturnStmt:
				constRet := true
				for _, r := range st.Results {
					switch x := r.(type) {
					case *ast.Ident:
						if x.Name != "true" && x.Name != "false" && x.Name != "nil" {
							constRet = false
						}
					case *ast.BasicLit:
					default:
						constRet = false
					}
				}
				onlyAppend, onlyMapWrites = false, false
				if !constRet {
					onlyComm = false
				}
			case *ast.BranchStmt:
				// continue / break
			default:
				onlyAppend, onlyMapWrites, onlyComm = false, false, false
			}
		}
	}
	walkStmts(body.List)
	if n == 0 {
		return "Commutative", "empty body"
	}
	if onlyAppend && len(appendTargets) == 1 {
		var target string
		for t := range appendTargets {
			target = t
		}
		if sortedAfter(fn, rng, target) {
			return "KeysThenSorted", target
		}
		return "Other", "appends to " + target + " without a later sort"
	}
	if onlyMapWrites {
		return "IntoMapOrSet", ""
	}
	if onlyComm {
		return "Commutative", ""
	}
	return "Other", ""
}

func exprString(e ast.Expr) string {
	switch x := e.(type) {
	case *ast.Ident:
		return x.Name
	case *ast.SelectorExpr:
		return exprString(x.X) + "." + x.Sel.Name
	case *ast.StarExpr:
		return "*" + exprString(x.X)
	case *ast.IndexExpr:
		return exprString(x.X) + "[]"
	}
	return "?"
}

// sortedAfter: some call sort.X(target…) / slices.Sort(target) / sort.Sort(wrapper(target)) occurs after the range statement.
func sortedAfter(fn *ast.FuncDecl, rng *ast.RangeStmt, target string) bool {
	found := false
	ast.Inspect(fn.Body, func(n ast.Node) bool {
		call, ok := n.(*ast.CallExpr)
		if !ok || call.Pos() < rng.End() {
			return true
		}
		sel, ok := call.Fun.(*ast.SelectorExpr)
		if !ok {
			return true
		}
		pk, ok := sel.X.(*ast.Ident)
		if !ok || (pk.Name != "sort" && pk.Name != "slices") {
			return true
		}
		for _, a := range call.Args {
			mentions := false
			ast.Inspect(a, func(m ast.Node) bool {
				if e, ok := m.(ast.Expr); ok && exprString(e) == target {
					mentions = true
				}
				return true
			})
			if mentions {
				found = true
			}
		}
		return true
	})
	return found
}

func init() {
	registerGen("MapRanges.v", func(repo string) (string, error) {
		pkgs, err := loadKustomizePackages(repo, "sigs.k8s.io/kustomize/api/krusty")
		if err != nil {
			return "", err
		}
		var sites []mrSite
		for _, p := range pkgs {
			for _, f := range p.Syntax {
				fname := p.Fset.Position(f.Pos()).Filename
				if strings.HasSuffix(fname, "_test.go") {
					continue
				}
				for _, d := range f.Decls {
					fd, ok := d.(*ast.FuncDecl)
					if !ok || fd.Body == nil {
						continue
					}
					ord := 0
					ast.Inspect(fd.Body, func(n ast.Node) bool {
						rs, ok := n.(*ast.RangeStmt)
						if !ok {
							return true
						}
						tv, ok := p.TypesInfo.Types[rs.X]
						if !ok {
							return true
						}
						if _, isMap := tv.Type.Underlying().(*types.Map); !isMap {
							return true
						}
						cls, note := classifyBody(p.TypesInfo, rs.Body, fd, rs)
						sites = append(sites, mrSite{pkg: strings.TrimPrefix(p.PkgPath, "sigs.k8s.io/kustomize/"), fn: funcName(fd), ord: ord, class: cls, note: note})
						ord++
						return true
					})
				}
			}
		}
		sort.SliceStable(sites, func(i, j int) bool {
			if sites[i].pkg != sites[j].pkg {
				return sites[i].pkg < sites[j].pkg
			}
			if sites[i].fn != sites[j].fn {
				return sites[i].fn < sites[j].fn
			}
			return sites[i].ord < sites[j].ord
		})
		var b strings.Builder
		b.WriteString("From KV Require Import Res.MapSiteTypes.\nOpen Scope string_scope.\n\n")
		b.WriteString("Definition gen_map_ranges : list map_site := [\n")
		for i, s := range sites {
			sep := ";"
			if i == len(sites)-1 {
				sep = ""
			}
			fmt.Fprintf(&b, "  mkSite %s %s %d MR%s%s\n", coqStr(s.pkg), coqStr(s.fn), s.ord, s.class, sep)
		}
		b.WriteString("].\n")
		return b.String(), nil
	})
}
