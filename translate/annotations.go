package main

// Annotations.v (property C07): everything the hygiene / identity model of C07 takes from the source:
//
//   * K_<pkg>_<Const>            every package-level string constant of api/internal/utils/annotations.go,
//                                api/konfig/general.go, kyaml/kio/kioutil/kioutil.go (named definitions the model refers to)
//   * gen_utils_consts / gen_konfig_consts / gen_kioutil_consts   the same as (name, value) tables
//   * gen_build_annotations      the elements of resource.BuildAnnotations (api/resource/resource.go), in source order,
//                                as (source expression, value); an element that cannot be resolved gets the value "<unresolved>"
//   * gen_run_strips             the Remove*Annotations calls in krusty.Run (api/krusty/kustomizer.go) in source order with
//                                the guard under which each is executed (GAlways / GUnlessRequested option / GUnknown)
//   * gen_strip_method_keys      for each resWrangler method called there, the annotation keys it deletes (followed through
//                                api/resmap/reswrangler.go into api/resource/resource.go); a delete the translator cannot
//                                classify is NOT counted (so the obligations that need it fail)
//   * gen_annotation_like        every string constant / literal in non-test Go files under api/ and kyaml/ whose value looks
//                                like an annotation key of the config.kubernetes.io / config.k8s.io families
//   * gen_prefix_skip / gen_suffix_skip   prefixFieldSpecsToSkip / suffixFieldSpecsToSkip of the name transformers
//   * gen_order_first / gen_order_last    defaultOrderFirst / defaultOrderLast of SortOrderTransformer.go
//   * gen_buildmeta_options      types.BuildMetadataOptions
//
// Only go/parser + go/ast are used; constants are folded by a small evaluator that follows selector
// expressions into the imported kustomize packages.

import (
	"fmt"
	"go/ast"
	"go/constant"
	"go/token"
	"os"
	"path/filepath"
	"regexp"
	"sort"
	"strconv"
	"strings"
)

// ---------- cross-package constant folding ----------

type c07pkg struct {
	dir    string
	exprs  map[string]ast.Expr  // name -> initialiser
	fileOf map[string]*ast.File // name -> declaring file (for its imports)
	files  []*ast.File
	fset   *token.FileSet
	vars   map[string]ast.Expr // package-level var initialisers (slices)
}

type c07world struct {
	repo string
	pkgs map[string]*c07pkg
}

func (w *c07world) importDir(path string) (string, bool) {
	const pa = "sigs.k8s.io/kustomize/api"
	const pk = "sigs.k8s.io/kustomize/kyaml"
	switch {
	case path == pa || strings.HasPrefix(path, pa+"/"):
		return filepath.Join(w.repo, "api", strings.TrimPrefix(path, pa)), true
	case path == pk || strings.HasPrefix(path, pk+"/"):
		return filepath.Join(w.repo, "kyaml", strings.TrimPrefix(path, pk)), true
	}
	return "", false
}

func (w *c07world) load(dir string) (*c07pkg, error) {
	dir = filepath.Clean(dir)
	if p, ok := w.pkgs[dir]; ok {
		return p, nil
	}
	fset, files, err := parseDir(dir)
	if err != nil {
		return nil, err
	}
	p := &c07pkg{dir: dir, exprs: map[string]ast.Expr{}, fileOf: map[string]*ast.File{}, files: files, fset: fset, vars: map[string]ast.Expr{}}
	for _, f := range files {
		for _, d := range f.Decls {
			gd, ok := d.(*ast.GenDecl)
			if !ok || (gd.Tok != token.CONST && gd.Tok != token.VAR) {
				continue
			}
			for _, s := range gd.Specs {
				vs := s.(*ast.ValueSpec)
				for i, n := range vs.Names {
					if i < len(vs.Values) {
						if gd.Tok == token.CONST {
							p.exprs[n.Name] = vs.Values[i]
						} else {
							p.vars[n.Name] = vs.Values[i]
						}
						p.fileOf[n.Name] = f
					}
				}
			}
		}
	}
	w.pkgs[dir] = p
	return p, nil
}

func c07ImportsOf(f *ast.File) map[string]string {
	m := map[string]string{}
	for _, im := range f.Imports {
		path, err := strconv.Unquote(im.Path.Value)
		if err != nil {
			continue
		}
		name := filepath.Base(path)
		if im.Name != nil {
			name = im.Name.Name
		}
		m[name] = path
	}
	return m
}

// eval folds a string-valued constant expression that occurs in file f of package p.
func (w *c07world) eval(p *c07pkg, f *ast.File, e ast.Expr, depth int) (string, bool) {
	if depth > 30 {
		return "", false
	}
	switch x := e.(type) {
	case *ast.BasicLit:
		if x.Kind != token.STRING {
			return "", false
		}
		return constant.StringVal(constant.MakeFromLiteral(x.Value, token.STRING, 0)), true
	case *ast.BinaryExpr:
		if x.Op != token.ADD {
			return "", false
		}
		a, ok1 := w.eval(p, f, x.X, depth+1)
		b, ok2 := w.eval(p, f, x.Y, depth+1)
		return a + b, ok1 && ok2
	case *ast.ParenExpr:
		return w.eval(p, f, x.X, depth+1)
	case *ast.Ident:
		if ex, ok := p.exprs[x.Name]; ok {
			return w.eval(p, p.fileOf[x.Name], ex, depth+1)
		}
	case *ast.SelectorExpr:
		id, ok := x.X.(*ast.Ident)
		if !ok || f == nil {
			return "", false
		}
		path, ok := c07ImportsOf(f)[id.Name]
		if !ok {
			return "", false
		}
		dir, ok := w.importDir(path)
		if !ok {
			return "", false
		}
		q, err := w.load(dir)
		if err != nil {
			return "", false
		}
		if ex, ok := q.exprs[x.Sel.Name]; ok {
			return w.eval(q, q.fileOf[x.Sel.Name], ex, depth+1)
		}
	}
	return "", false
}

func c07ExprText(e ast.Expr) string {
	switch x := e.(type) {
	case *ast.Ident:
		return x.Name
	case *ast.SelectorExpr:
		return c07ExprText(x.X) + "." + x.Sel.Name
	case *ast.BasicLit:
		return x.Value
	case *ast.StarExpr:
		return "*" + c07ExprText(x.X)
	case *ast.CallExpr:
		return c07ExprText(x.Fun) + "(...)"
	}
	return fmt.Sprintf("<%T>", e)
}

// constsOfFile lists the package-level string constants declared in one file, in source order.
func (w *c07world) constsOfFile(dir, file string) ([][2]string, error) {
	p, err := w.load(dir)
	if err != nil {
		return nil, err
	}
	var out [][2]string
	for _, f := range p.files {
		if filepath.Base(p.fset.Position(f.Pos()).Filename) != file {
			continue
		}
		for _, d := range f.Decls {
			gd, ok := d.(*ast.GenDecl)
			if !ok || gd.Tok != token.CONST {
				continue
			}
			for _, s := range gd.Specs {
				vs := s.(*ast.ValueSpec)
				for i, n := range vs.Names {
					if i >= len(vs.Values) {
						continue
					}
					if v, ok := w.eval(p, f, vs.Values[i], 0); ok {
						out = append(out, [2]string{n.Name, v})
					}
				}
			}
		}
		return out, nil
	}
	return nil, fmt.Errorf("file %s not found in %s", file, dir)
}

func c07FindFunc(p *c07pkg, recv, name string) (*ast.FuncDecl, *ast.File) {
	for _, f := range p.files {
		for _, d := range f.Decls {
			fd, ok := d.(*ast.FuncDecl)
			if !ok || fd.Name.Name != name {
				continue
			}
			if recv == "" {
				if fd.Recv == nil {
					return fd, f
				}
				continue
			}
			if fd.Recv == nil || len(fd.Recv.List) != 1 {
				continue
			}
			t := fd.Recv.List[0].Type
			if st, ok := t.(*ast.StarExpr); ok {
				t = st.X
			}
			if id, ok := t.(*ast.Ident); ok && id.Name == recv {
				return fd, f
			}
		}
	}
	return nil, nil
}

// ---------- delete-site analysis of a *resource.Resource method ----------

// deletesOf returns the annotation keys that method `name` of Resource deletes from the map it later
// stores back with SetAnnotations, when called with the given arguments (only `nil` matters).
func (w *c07world) deletesOf(resPkg *c07pkg, name string, args []ast.Expr, buildAnn []string) (keys []string, notes []string) {
	fd, f := c07FindFunc(resPkg, "Resource", name)
	if fd == nil || fd.Body == nil {
		return nil, []string{"method Resource." + name + " not found"}
	}
	// parameters passed as nil
	nilParams := map[string]bool{}
	idx := 0
	for _, fl := range fd.Type.Params.List {
		for _, n := range fl.Names {
			if idx < len(args) {
				if id, ok := args[idx].(*ast.Ident); ok && id.Name == "nil" {
					nilParams[n.Name] = true
				}
			}
			idx++
		}
	}
	// the map variable: `annotations := r.GetAnnotations()`
	mapVar := ""
	stored := false
	ast.Inspect(fd.Body, func(n ast.Node) bool {
		switch x := n.(type) {
		case *ast.AssignStmt:
			if len(x.Lhs) == 1 && len(x.Rhs) == 1 {
				if c, ok := x.Rhs[0].(*ast.CallExpr); ok && strings.HasSuffix(c07ExprText(c.Fun), ".GetAnnotations") && len(c.Args) == 0 {
					if id, ok := x.Lhs[0].(*ast.Ident); ok {
						mapVar = id.Name
					}
				}
			}
		case *ast.CallExpr:
			if strings.HasSuffix(c07ExprText(x.Fun), ".SetAnnotations") && len(x.Args) == 1 {
				if id, ok := x.Args[0].(*ast.Ident); ok && id.Name == mapVar && mapVar != "" {
					stored = true
				}
			}
		}
		return true
	})
	if mapVar == "" || !stored {
		return nil, []string{"Resource." + name + ": annotations map is not read with GetAnnotations and stored back with SetAnnotations"}
	}
	isDelete := func(s ast.Stmt) (ast.Expr, bool) {
		es, ok := s.(*ast.ExprStmt)
		if !ok {
			return nil, false
		}
		c, ok := es.X.(*ast.CallExpr)
		if !ok || c07ExprText(c.Fun) != "delete" || len(c.Args) != 2 {
			return nil, false
		}
		if id, ok := c.Args[0].(*ast.Ident); !ok || id.Name != mapVar {
			return nil, false
		}
		return c.Args[1], true
	}
	containsDelete := func(n ast.Node) bool {
		found := false
		ast.Inspect(n, func(m ast.Node) bool {
			if c, ok := m.(*ast.CallExpr); ok && c07ExprText(c.Fun) == "delete" {
				found = true
			}
			return true
		})
		return found
	}
	var walk func(stmts []ast.Stmt)
	walk = func(stmts []ast.Stmt) {
		for _, s := range stmts {
			if k, ok := isDelete(s); ok {
				if v, ok := w.eval(resPkg, f, k, 0); ok {
					keys = append(keys, v)
				} else {
					notes = append(notes, "Resource."+name+": delete with a non-constant key "+c07ExprText(k))
				}
				continue
			}
			switch x := s.(type) {
			case *ast.RangeStmt:
				// for _, a := range BuildAnnotations { delete(annotations, a) }
				if id, ok := x.X.(*ast.Ident); ok && id.Name == "BuildAnnotations" && x.Value != nil && len(x.Body.List) == 1 {
					if k, ok := isDelete(x.Body.List[0]); ok {
						if kid, ok := k.(*ast.Ident); ok && kid.Name == c07ExprText(x.Value) {
							keys = append(keys, buildAnn...)
							continue
						}
					}
				}
				if containsDelete(x) {
					notes = append(notes, "Resource."+name+": delete inside an unrecognised loop")
				}
			case *ast.IfStmt:
				// if <param> == nil { ... } [else { ... }] with nil passed at the call site
				if be, ok := x.Cond.(*ast.BinaryExpr); ok && be.Op == token.EQL {
					if id, ok := be.X.(*ast.Ident); ok && c07ExprText(be.Y) == "nil" && nilParams[id.Name] && x.Init == nil {
						walk(x.Body.List)
						continue
					}
				}
				if containsDelete(x) {
					notes = append(notes, "Resource."+name+": delete under an unrecognised condition")
				}
			default:
				if containsDelete(s) {
					notes = append(notes, "Resource."+name+": delete in an unrecognised statement")
				}
			}
		}
	}
	walk(fd.Body.List)
	return keys, notes
}

// ---------- string slices and skip tables ----------

func (w *c07world) stringSliceVar(dir, name string) ([]string, error) {
	p, err := w.load(dir)
	if err != nil {
		return nil, err
	}
	e, ok := p.vars[name]
	if !ok {
		return nil, fmt.Errorf("var %s not found in %s", name, dir)
	}
	cl, ok := e.(*ast.CompositeLit)
	if !ok {
		return nil, fmt.Errorf("var %s in %s is not a composite literal", name, dir)
	}
	var out []string
	for _, el := range cl.Elts {
		v, ok := w.eval(p, p.fileOf[name], el, 0)
		if !ok {
			return nil, fmt.Errorf("var %s: element %s is not a constant string", name, c07ExprText(el))
		}
		out = append(out, v)
	}
	return out, nil
}

func (w *c07world) skipTable(dir, name string) ([][3]string, error) {
	p, err := w.load(dir)
	if err != nil {
		return nil, err
	}
	e, ok := p.vars[name]
	if !ok {
		return nil, fmt.Errorf("var %s not found in %s", name, dir)
	}
	cl, ok := e.(*ast.CompositeLit)
	if !ok {
		return nil, fmt.Errorf("%s is not a composite literal", name)
	}
	var out [][3]string
	for _, el := range cl.Elts {
		fs, ok := el.(*ast.CompositeLit)
		if !ok {
			return nil, fmt.Errorf("%s: unexpected element", name)
		}
		var g, v, k string
		for _, fe := range fs.Elts {
			kv, ok := fe.(*ast.KeyValueExpr)
			if !ok || c07ExprText(kv.Key) != "Gvk" {
				return nil, fmt.Errorf("%s: a skip entry has a field other than Gvk (%s)", name, c07ExprText(fe))
			}
			gl, ok := kv.Value.(*ast.CompositeLit)
			if !ok {
				return nil, fmt.Errorf("%s: Gvk is not a literal", name)
			}
			for _, ge := range gl.Elts {
				gkv, ok := ge.(*ast.KeyValueExpr)
				if !ok {
					return nil, fmt.Errorf("%s: positional Gvk literal", name)
				}
				s, ok := w.eval(p, p.fileOf[name], gkv.Value, 0)
				if !ok {
					return nil, fmt.Errorf("%s: non-constant Gvk field", name)
				}
				switch c07ExprText(gkv.Key) {
				case "Group":
					g = s
				case "Version":
					v = s
				case "Kind":
					k = s
				default:
					return nil, fmt.Errorf("%s: unknown Gvk field %s", name, c07ExprText(gkv.Key))
				}
			}
		}
		out = append(out, [3]string{g, v, k})
	}
	return out, nil
}

// ---------- scan for annotation-like strings ----------

var c07AnnLikeRe = regexp.MustCompile(`^([a-z0-9-]+\.)*config\.(kubernetes|k8s)\.io/[A-Za-z0-9._-]+$`)

type c07AnnLike struct{ file, name, value string }

func (w *c07world) scanAnnotationLike() ([]c07AnnLike, error) {
	var out []c07AnnLike
	seen := map[string]bool{}
	add := func(file, name, value string) {
		if !c07AnnLikeRe.MatchString(value) {
			return
		}
		rel, _ := filepath.Rel(w.repo, file)
		k := rel + "\x00" + name + "\x00" + value
		if !seen[k] {
			seen[k] = true
			out = append(out, c07AnnLike{rel, name, value})
		}
	}
	for _, root := range []string{"api", "kyaml"} {
		var dirs []string
		err := filepath.Walk(filepath.Join(w.repo, root), func(path string, info os.FileInfo, err error) error {
			if err != nil {
				return err
			}
			if info.IsDir() {
				b := info.Name()
				if b == "testdata" || b == "vendor" || strings.HasPrefix(b, ".") || b == "e2e" {
					return filepath.SkipDir
				}
				dirs = append(dirs, path)
			}
			return nil
		})
		if err != nil {
			return nil, err
		}
		for _, d := range dirs {
			p, err := w.load(d)
			if err != nil {
				// a directory with unparsable Go: report, do not silently skip
				return nil, fmt.Errorf("scan %s: %v", d, err)
			}
			for _, f := range p.files {
				fname := p.fset.Position(f.Pos()).Filename
				if strings.HasPrefix(filepath.Base(fname), "zz_verif_") {
					continue // verification hooks (build tag verif) are not product code
				}
				// named constants (folded)
				named := map[ast.Expr]bool{}
				for _, dcl := range f.Decls {
					gd, ok := dcl.(*ast.GenDecl)
					if !ok || (gd.Tok != token.CONST && gd.Tok != token.VAR) {
						continue
					}
					for _, s := range gd.Specs {
						vs := s.(*ast.ValueSpec)
						for i, n := range vs.Names {
							if i >= len(vs.Values) {
								continue
							}
							if v, ok := w.eval(p, f, vs.Values[i], 0); ok {
								add(fname, n.Name, v)
								named[vs.Values[i]] = true
							}
						}
					}
				}
				// raw literals and locally folded concatenations anywhere else
				ast.Inspect(f, func(n ast.Node) bool {
					e, ok := n.(ast.Expr)
					if !ok || named[e] {
						return true
					}
					switch x := e.(type) {
					case *ast.BasicLit:
						if x.Kind == token.STRING {
							if v, ok := w.eval(p, f, x, 0); ok {
								add(fname, "", v)
							}
						}
					case *ast.BinaryExpr:
						if v, ok := w.eval(p, f, x, 0); ok {
							add(fname, "", v)
						}
					}
					return true
				})
			}
		}
	}
	sort.Slice(out, func(i, j int) bool {
		a, b := out[i], out[j]
		if a.value != b.value {
			return a.value < b.value
		}
		if a.file != b.file {
			return a.file < b.file
		}
		return a.name < b.name
	})
	return out, nil
}

// ---------- krusty.Run strip calls ----------

type c07StripCall struct {
	method string
	guard  string // Coq term of type strip_guard
}

func (w *c07world) runStrips() ([]c07StripCall, error) {
	dir := filepath.Join(w.repo, "api/krusty")
	p, err := w.load(dir)
	if err != nil {
		return nil, err
	}
	fd, f := c07FindFunc(p, "Kustomizer", "Run")
	if fd == nil {
		return nil, fmt.Errorf("Kustomizer.Run not found")
	}
	isStrip := func(c *ast.CallExpr) (string, bool) {
		se, ok := c.Fun.(*ast.SelectorExpr)
		if !ok {
			return "", false
		}
		n := se.Sel.Name
		if strings.HasPrefix(n, "Remove") && strings.HasSuffix(n, "Annotations") {
			return n, true
		}
		return "", false
	}
	var out []c07StripCall
	// the name of the variable holding the result map: whatever Run returns at the end
	var visit func(stmts []ast.Stmt, guard string)
	callsIn := func(n ast.Node) []string {
		var ms []string
		ast.Inspect(n, func(m ast.Node) bool {
			if c, ok := m.(*ast.CallExpr); ok {
				if name, ok := isStrip(c); ok {
					ms = append(ms, name)
				}
			}
			return true
		})
		return ms
	}
	visit = func(stmts []ast.Stmt, guard string) {
		for _, s := range stmts {
			switch x := s.(type) {
			case *ast.IfStmt:
				ms := callsIn(x.Body)
				if len(ms) == 0 && (x.Else == nil || len(callsIn(x.Else)) == 0) {
					// `if err != nil {return}` and the like; also an Init that strips
					if x.Init != nil {
						for _, m := range callsIn(x.Init) {
							out = append(out, c07StripCall{m, guard})
						}
					}
					continue
				}
				g := "GUnknown"
				// if !utils.StringSliceContains(kt.Kustomization().BuildMetadata, types.X) { ... }
				if ue, ok := x.Cond.(*ast.UnaryExpr); ok && ue.Op == token.NOT && x.Init == nil && x.Else == nil && guard == "GAlways" {
					if c, ok := ue.X.(*ast.CallExpr); ok && strings.HasSuffix(c07ExprText(c.Fun), "StringSliceContains") && len(c.Args) == 2 &&
						strings.HasSuffix(c07ExprText(c.Args[0]), ".BuildMetadata") {
						if v, ok := w.eval(p, f, c.Args[1], 0); ok {
							g = "(GUnlessRequested " + coqStr(v) + ")"
						}
					}
				}
				visit(x.Body.List, g)
				if x.Else != nil {
					for _, m := range callsIn(x.Else) {
						out = append(out, c07StripCall{m, "GUnknown"})
					}
				}
			case *ast.BlockStmt:
				visit(x.List, guard)
			default:
				ms := callsIn(s)
				if len(ms) == 0 {
					continue
				}
				switch s.(type) {
				case *ast.ExprStmt, *ast.AssignStmt:
					for _, m := range ms {
						out = append(out, c07StripCall{m, guard})
					}
				default:
					for _, m := range ms {
						out = append(out, c07StripCall{m, "GUnknown"})
					}
				}
			}
		}
	}
	visit(fd.Body.List, "GAlways")
	return out, nil
}

// stripMethodKeys follows resWrangler.<method> -> Resource.<callee> -> delete(annotations, K).
func (w *c07world) stripMethodKeys(method string, buildAnn []string) ([]string, []string) {
	rm, err := w.load(filepath.Join(w.repo, "api/resmap"))
	if err != nil {
		return nil, []string{err.Error()}
	}
	rs, err := w.load(filepath.Join(w.repo, "api/resource"))
	if err != nil {
		return nil, []string{err.Error()}
	}
	fd, _ := c07FindFunc(rm, "resWrangler", method)
	if fd == nil || fd.Body == nil {
		return nil, []string{"resWrangler." + method + " not found"}
	}
	// expected shape: for _, r := range m.rList { [if err :=] r.X(args) ... }
	var keys, notes []string
	okShape := false
	for _, s := range fd.Body.List {
		rg, ok := s.(*ast.RangeStmt)
		if !ok {
			continue
		}
		if c07ExprText(rg.X) != c07ExprText(fd.Recv.List[0].Names[0])+".rList" || rg.Value == nil {
			continue
		}
		rv := c07ExprText(rg.Value)
		ast.Inspect(rg.Body, func(n ast.Node) bool {
			c, ok := n.(*ast.CallExpr)
			if !ok {
				return true
			}
			se, ok := c.Fun.(*ast.SelectorExpr)
			if !ok || c07ExprText(se.X) != rv {
				return true
			}
			okShape = true
			k, nt := w.deletesOf(rs, se.Sel.Name, c.Args, buildAnn)
			keys = append(keys, k...)
			notes = append(notes, nt...)
			return true
		})
	}
	if !okShape {
		notes = append(notes, "resWrangler."+method+": no `for _, r := range m.rList { r.X(...) }` loop found")
	}
	return keys, notes
}

// c07CallNames lists the names of all calls in a function body in source order (method or function name only).
func c07CallNames(fd *ast.FuncDecl) []string {
	var out []string
	if fd == nil || fd.Body == nil {
		return out
	}
	ast.Inspect(fd.Body, func(n ast.Node) bool {
		c, ok := n.(*ast.CallExpr)
		if !ok {
			return true
		}
		switch f := c.Fun.(type) {
		case *ast.SelectorExpr:
			out = append(out, f.Sel.Name)
		case *ast.Ident:
			out = append(out, f.Name)
		}
		return true
	})
	return out
}

// ---------- qualified strings of every family, and annotation write sites ----------

// a "<dns-domain>/<name>" string: annotation keys, label keys, apiVersions, secret types ... of ANY family
var c07QualifiedRe = regexp.MustCompile(`^[a-z0-9]([a-z0-9-]*[a-z0-9])?(\.[a-z0-9]([a-z0-9-]*[a-z0-9])?)+/[A-Za-z0-9][A-Za-z0-9._-]*$`)

// import-path-like strings are not keys
func c07LooksLikeImportPath(v string) bool {
	for _, p := range []string{"sigs.k8s.io/", "k8s.io/", "github.com/", "gopkg.in/", "golang.org/", "go.starlark.net/", "google.golang.org/", "gcr.io/", "docker.io/", "registry.k8s.io/", "quay.io/", "example.com/", "example.io/"} {
		if strings.HasPrefix(v, p) {
			return true
		}
	}
	return false
}

type c07Write struct{ file, fn, kind, text string }

// c07ScanAll walks every non-test, non-hook Go file under api/ and kyaml/ once and returns
//   - every qualified string constant / literal (file, name, value),
//   - every place where an annotation key is written (see the patterns below),
//   - every string concatenation that could not be folded although one operand is a known annotation domain / prefix.
func (w *c07world) c07ScanAll() (quals []c07AnnLike, writes []c07Write, dyn []string, err error) {
	type fnInfo struct {
		pkg  *c07pkg
		file *ast.File
		decl *ast.FuncDecl
	}
	var funcs []fnInfo
	seenQ := map[string]bool{}
	addQ := func(file, name, value string) {
		if !c07QualifiedRe.MatchString(value) || c07LooksLikeImportPath(value) {
			return
		}
		rel, _ := filepath.Rel(w.repo, file)
		k := rel + "\x00" + name + "\x00" + value
		if !seenQ[k] {
			seenQ[k] = true
			quals = append(quals, c07AnnLike{rel, name, value})
		}
	}
	isDomain := func(v string) bool {
		return strings.HasSuffix(v, "config.kubernetes.io") || strings.HasSuffix(v, "config.kubernetes.io/") ||
			strings.HasSuffix(v, "config.k8s.io") || strings.HasSuffix(v, "config.k8s.io/")
	}
	for _, root := range []string{"api", "kyaml"} {
		var dirs []string
		werr := filepath.Walk(filepath.Join(w.repo, root), func(path string, info os.FileInfo, e error) error {
			if e != nil {
				return e
			}
			if info.IsDir() {
				b := info.Name()
				if b == "testdata" || b == "vendor" || strings.HasPrefix(b, ".") || b == "e2e" {
					return filepath.SkipDir
				}
				dirs = append(dirs, path)
			}
			return nil
		})
		if werr != nil {
			return nil, nil, nil, werr
		}
		for _, d := range dirs {
			p, lerr := w.load(d)
			if lerr != nil {
				return nil, nil, nil, fmt.Errorf("scan %s: %v", d, lerr)
			}
			for _, f := range p.files {
				fname := p.fset.Position(f.Pos()).Filename
				if strings.HasPrefix(filepath.Base(fname), "zz_verif_") {
					continue
				}
				named := map[ast.Expr]bool{}
				for _, dcl := range f.Decls {
					switch x := dcl.(type) {
					case *ast.GenDecl:
						if x.Tok != token.CONST && x.Tok != token.VAR {
							continue
						}
						for _, sp := range x.Specs {
							vs := sp.(*ast.ValueSpec)
							for i, n := range vs.Names {
								if i >= len(vs.Values) {
									continue
								}
								if v, ok := w.eval(p, f, vs.Values[i], 0); ok {
									addQ(fname, n.Name, v)
									named[vs.Values[i]] = true
								}
							}
						}
					case *ast.FuncDecl:
						if x.Body != nil {
							funcs = append(funcs, fnInfo{p, f, x})
						}
					}
				}
				ast.Inspect(f, func(n ast.Node) bool {
					e, ok := n.(ast.Expr)
					if !ok || named[e] {
						return true
					}
					switch x := e.(type) {
					case *ast.BasicLit:
						if x.Kind == token.STRING {
							if v, ok := w.eval(p, f, x, 0); ok {
								addQ(fname, "", v)
							}
						}
					case *ast.BinaryExpr:
						if x.Op != token.ADD {
							return true
						}
						if v, ok := w.eval(p, f, x, 0); ok {
							addQ(fname, "", v)
							return true
						}
						// not foldable: is one side a known annotation domain / prefix?
						for _, side := range []ast.Expr{x.X, x.Y} {
							if v, ok := w.eval(p, f, side, 0); ok && isDomain(v) {
								rel, _ := filepath.Rel(w.repo, fname)
								dyn = append(dyn, fmt.Sprintf("%s:%d: %s + %s", rel, p.fset.Position(x.Pos()).Line, c07ExprText(x.X), c07ExprText(x.Y)))
							}
						}
					}
					return true
				})
			}
		}
	}
	// ---- write sites. A key expression is const (folds), param (a parameter of the enclosing function) or dynamic.
	paramIndex := func(fd *ast.FuncDecl, name string) int {
		idx := 0
		for _, fl := range fd.Type.Params.List {
			if len(fl.Names) == 0 {
				idx++
				continue
			}
			for _, n := range fl.Names {
				if n.Name == name {
					return idx
				}
				idx++
			}
		}
		return -1
	}
	annoName := regexp.MustCompile(`(?i)annotations?$`)
	// helpers: function name -> parameter positions that end up as an annotation key
	helpers := map[string]map[int]bool{"SetAnnotation": {0: true}, "AnnotateAll": {0: true}}
	type keySite struct {
		fi   fnInfo
		expr ast.Expr
	}
	collect := func(fi fnInfo) (keys []keySite, maps []keySite) {
		ast.Inspect(fi.decl.Body, func(n ast.Node) bool {
			switch x := n.(type) {
			case *ast.CallExpr:
				name := ""
				switch fn := x.Fun.(type) {
				case *ast.SelectorExpr:
					name = fn.Sel.Name
				case *ast.Ident:
					name = fn.Name
				}
				if hp, ok := helpers[name]; ok {
					for i := range hp {
						if i < len(x.Args) {
							keys = append(keys, keySite{fi, x.Args[i]})
						}
					}
				}
				if name == "SetAnnotations" && len(x.Args) == 1 {
					maps = append(maps, keySite{fi, x.Args[0]})
				}
			case *ast.AssignStmt:
				for _, l := range x.Lhs {
					if ie, ok := l.(*ast.IndexExpr); ok && annoName.MatchString(c07ExprText(ie.X)) {
						keys = append(keys, keySite{fi, ie.Index})
					}
				}
			case *ast.KeyValueExpr:
				if id, ok := x.Key.(*ast.Ident); ok && (id.Name == "Annotations" || id.Name == "SetAnnotations") {
					if cl, ok := x.Value.(*ast.CompositeLit); ok {
						for _, el := range cl.Elts {
							if kv, ok := el.(*ast.KeyValueExpr); ok {
								keys = append(keys, keySite{fi, kv.Key})
							}
						}
					} else {
						maps = append(maps, keySite{fi, x.Value})
					}
				}
			}
			return true
		})
		return keys, maps
	}
	// fixpoint over helpers
	for changed := true; changed; {
		changed = false
		for _, fi := range funcs {
			keys, _ := collect(fi)
			for _, ks := range keys {
				if id, ok := ks.expr.(*ast.Ident); ok {
					if pi := paramIndex(fi.decl, id.Name); pi >= 0 {
						hn := fi.decl.Name.Name
						if helpers[hn] == nil {
							helpers[hn] = map[int]bool{}
						}
						if !helpers[hn][pi] {
							helpers[hn][pi] = true
							changed = true
						}
					}
				}
			}
		}
	}
	seenW := map[string]bool{}
	addW := func(fi fnInfo, kind, text string) {
		rel, _ := filepath.Rel(w.repo, fi.pkg.fset.Position(fi.file.Pos()).Filename)
		k := rel + "\x00" + fi.decl.Name.Name + "\x00" + kind + "\x00" + text
		if !seenW[k] {
			seenW[k] = true
			writes = append(writes, c07Write{rel, fi.decl.Name.Name, kind, text})
		}
	}
	for _, fi := range funcs {
		keys, maps := collect(fi)
		// variables of this function that hold the resource's own annotation map (x := r.GetAnnotations())
		own := map[string]bool{}
		ast.Inspect(fi.decl.Body, func(n ast.Node) bool {
			if as, ok := n.(*ast.AssignStmt); ok && len(as.Lhs) == 1 && len(as.Rhs) == 1 {
				if c, ok := as.Rhs[0].(*ast.CallExpr); ok && strings.HasSuffix(c07ExprText(c.Fun), "GetAnnotations") {
					if id, ok := as.Lhs[0].(*ast.Ident); ok {
						own[id.Name] = true
					}
				}
			}
			return true
		})
		for _, ks := range keys {
			if v, ok := w.eval(fi.pkg, fi.file, ks.expr, 0); ok {
				addW(fi, "const", v)
				continue
			}
			if id, ok := ks.expr.(*ast.Ident); ok && paramIndex(fi.decl, id.Name) >= 0 {
				continue // forwarded: the callers are the sites
			}
			addW(fi, "dynamic", c07ExprText(ks.expr))
		}
		for _, ms := range maps {
			if id, ok := ms.expr.(*ast.Ident); ok && own[id.Name] {
				continue // the resource's own map written back: its new keys are the index assignments above
			}
			addW(fi, "map", c07ExprText(ms.expr))
		}
	}
	less := func(a, b c07Write) bool {
		if a.file != b.file {
			return a.file < b.file
		}
		if a.fn != b.fn {
			return a.fn < b.fn
		}
		if a.kind != b.kind {
			return a.kind < b.kind
		}
		return a.text < b.text
	}
	sort.Slice(writes, func(i, j int) bool { return less(writes[i], writes[j]) })
	sort.Slice(quals, func(i, j int) bool {
		a, b := quals[i], quals[j]
		if a.value != b.value {
			return a.value < b.value
		}
		if a.file != b.file {
			return a.file < b.file
		}
		return a.name < b.name
	})
	sort.Strings(dyn)
	return quals, writes, dyn, nil
}

// ---------- plugin protocol keys: is every writer matched by a remover on every path? ----------

// c07TopLevel returns the expressions evaluated unconditionally by a statement list: expression statements, right-hand
// sides, returned values, and the init statement / condition of an `if` (not its branches), in order.
func c07TopLevel(stmts []ast.Stmt) []ast.Node {
	var out []ast.Node
	var stmt func(s ast.Stmt)
	stmt = func(s ast.Stmt) {
		switch x := s.(type) {
		case *ast.ExprStmt:
			out = append(out, x.X)
		case *ast.AssignStmt:
			for _, e := range x.Rhs {
				out = append(out, e)
			}
		case *ast.ReturnStmt:
			for _, e := range x.Results {
				out = append(out, e)
			}
		case *ast.IfStmt:
			if x.Init != nil {
				stmt(x.Init)
			}
			out = append(out, x.Cond)
		case *ast.DeclStmt:
			out = append(out, x)
		}
	}
	for _, s := range stmts {
		stmt(s)
	}
	return out
}

func c07HasCall(nodes []ast.Node, pred func(c *ast.CallExpr) bool) bool {
	found := false
	for _, n := range nodes {
		ast.Inspect(n, func(m ast.Node) bool {
			if c, ok := m.(*ast.CallExpr); ok && pred(c) {
				found = true
			}
			return true
		})
	}
	return found
}

// c07LoopStatus looks at every `for ... range` loop of function fn (and at the function body itself when inLoop is
// false): "unconditional" when pred holds for a call evaluated unconditionally by the loop body, "conditional" when
// such a call only occurs deeper (inside a branch), "missing" otherwise.
func c07LoopStatus(p *c07pkg, fn string, inLoop bool, pred func(c *ast.CallExpr) bool) string {
	fd, _ := c07FindFunc(p, "", fn)
	if fd == nil || fd.Body == nil {
		return "missing"
	}
	status := "missing"
	consider := func(body []ast.Stmt, whole ast.Node) {
		if c07HasCall(c07TopLevel(body), pred) {
			status = "unconditional"
		} else if status != "unconditional" && c07HasCall([]ast.Node{whole}, pred) {
			status = "conditional"
		}
	}
	if !inLoop {
		consider(fd.Body.List, fd.Body)
		return status
	}
	ast.Inspect(fd.Body, func(n ast.Node) bool {
		if rg, ok := n.(*ast.RangeStmt); ok {
			consider(rg.Body.List, rg.Body)
		}
		return true
	})
	return status
}

func c07Worst(a ...string) string {
	rank := map[string]int{"unconditional": 0, "conditional": 1, "missing": 2}
	w := "unconditional"
	for _, x := range a {
		if rank[x] > rank[w] {
			w = x
		}
	}
	return w
}

// protocolRemovals: the exec / KRM-function plugin protocol (api/internal/plugins/utils). idAnnotation is written on
// the copy handed to a plugin transformer and must be removed from EVERY resource read back (UpdateResMapValues ->
// removeIDAnnotation); HashAnnotation / BehaviorAnnotation are written by plugins and consumed by UpdateResourceOptions.
func (w *c07world) protocolRemovals() ([][3]string, error) {
	dir := filepath.Join(w.repo, "api/internal/plugins/utils")
	p, err := w.load(dir)
	if err != nil {
		return nil, err
	}
	val := func(name string) (string, error) {
		e, ok := p.exprs[name]
		if !ok {
			return "", fmt.Errorf("constant %s not found in %s", name, dir)
		}
		v, ok := w.eval(p, p.fileOf[name], e, 0)
		if !ok {
			return "", fmt.Errorf("constant %s of %s is not a string", name, dir)
		}
		return v, nil
	}
	isCallNamed := func(name string) func(c *ast.CallExpr) bool {
		return func(c *ast.CallExpr) bool {
			switch f := c.Fun.(type) {
			case *ast.Ident:
				return f.Name == name
			case *ast.SelectorExpr:
				return f.Sel.Name == name
			}
			return false
		}
	}
	deletes := func(constName string) func(c *ast.CallExpr) bool {
		return func(c *ast.CallExpr) bool {
			if c07ExprText(c.Fun) != "delete" || len(c.Args) != 2 {
				return false
			}
			return c07ExprText(c.Args[1]) == constName
		}
	}
	var out [][3]string
	idv, err := val("idAnnotation")
	if err != nil {
		return nil, err
	}
	st := c07Worst(
		c07LoopStatus(p, "UpdateResMapValues", true, isCallNamed("removeIDAnnotation")),
		c07LoopStatus(p, "removeIDAnnotation", false, deletes("idAnnotation")),
		c07LoopStatus(p, "removeIDAnnotation", false, isCallNamed("SetAnnotations")))
	out = append(out, [3]string{idv, "UpdateResMapValues: removeIDAnnotation on every resource read back", st})
	for _, cn := range []string{"HashAnnotation", "BehaviorAnnotation"} {
		v, err := val(cn)
		if err != nil {
			return nil, err
		}
		st := c07Worst(
			c07LoopStatus(p, "UpdateResourceOptions", true, deletes(cn)),
			c07LoopStatus(p, "UpdateResourceOptions", true, isCallNamed("SetAnnotations")))
		out = append(out, [3]string{v, "UpdateResourceOptions: deleted from every generated resource", st})
	}
	return out, nil
}

// ---------- printing ----------

func c07CoqStrList(l []string) string {
	parts := make([]string, len(l))
	for i, s := range l {
		parts[i] = coqStr(s)
	}
	return "[" + strings.Join(parts, "; ") + "]"
}

func init() {
	registerGen("Annotations.v", func(repo string) (string, error) {
		w := &c07world{repo: repo, pkgs: map[string]*c07pkg{}}
		var b strings.Builder
		b.WriteString("From KV Require Import Base.Prelude Res.HygieneTypes.\nOpen Scope string_scope.\n\n")

		type src struct{ pkg, dir, file, table string }
		srcs := []src{
			{"utils", "api/internal/utils", "annotations.go", "gen_utils_consts"},
			{"konfig", "api/konfig", "general.go", "gen_konfig_consts"},
			{"kioutil", "kyaml/kio/kioutil", "kioutil.go", "gen_kioutil_consts"},
		}
		for _, s := range srcs {
			cs, err := w.constsOfFile(filepath.Join(repo, s.dir), s.file)
			if err != nil {
				return "", err
			}
			if len(cs) == 0 {
				return "", fmt.Errorf("no string constants found in %s/%s", s.dir, s.file)
			}
			fmt.Fprintf(&b, "(* %s/%s *)\n", s.dir, s.file)
			for _, c := range cs {
				fmt.Fprintf(&b, "Definition K_%s_%s : string := %s.\n", s.pkg, c[0], coqStr(c[1]))
			}
			fmt.Fprintf(&b, "Definition %s : list (string * string) := [\n", s.table)
			for i, c := range cs {
				sep := ";"
				if i == len(cs)-1 {
					sep = ""
				}
				fmt.Fprintf(&b, "  (%s, %s)%s\n", coqStr(c[0]), coqStr(c[1]), sep)
			}
			b.WriteString("].\n\n")
		}

		// resource.BuildAnnotations
		rs, err := w.load(filepath.Join(repo, "api/resource"))
		if err != nil {
			return "", err
		}
		be, ok := rs.vars["BuildAnnotations"]
		if !ok {
			return "", fmt.Errorf("resource.BuildAnnotations not found")
		}
		bcl, ok := be.(*ast.CompositeLit)
		if !ok {
			return "", fmt.Errorf("resource.BuildAnnotations is not a composite literal")
		}
		var buildVals []string
		b.WriteString("(* api/resource/resource.go: var BuildAnnotations *)\nDefinition gen_build_annotations : list (string * string) := [\n")
		for i, el := range bcl.Elts {
			v, ok := w.eval(rs, rs.fileOf["BuildAnnotations"], el, 0)
			if !ok {
				v = "<unresolved>"
			}
			buildVals = append(buildVals, v)
			sep := ";"
			if i == len(bcl.Elts)-1 {
				sep = ""
			}
			fmt.Fprintf(&b, "  (%s, %s)%s\n", coqStr(c07ExprText(el)), coqStr(v), sep)
		}
		b.WriteString("].\n\n")

		// krusty.Run
		strips, err := w.runStrips()
		if err != nil {
			return "", err
		}
		b.WriteString("(* api/krusty/kustomizer.go: Remove*Annotations calls of Run, in order, with their guards *)\n")
		b.WriteString("Definition gen_run_strips : list (string * strip_guard) := [\n")
		for i, s := range strips {
			sep := ";"
			if i == len(strips)-1 {
				sep = ""
			}
			fmt.Fprintf(&b, "  (%s, %s)%s\n", coqStr(s.method), s.guard, sep)
		}
		b.WriteString("].\n\n")
		methods := []string{}
		seenM := map[string]bool{}
		for _, s := range strips {
			if !seenM[s.method] {
				seenM[s.method] = true
				methods = append(methods, s.method)
			}
		}
		b.WriteString("(* api/resmap/reswrangler.go -> api/resource/resource.go: keys deleted by each method *)\n")
		b.WriteString("Definition gen_strip_method_keys : list (string * list string) := [\n")
		var allNotes []string
		for i, m := range methods {
			keys, notes := w.stripMethodKeys(m, buildVals)
			allNotes = append(allNotes, notes...)
			sep := ";"
			if i == len(methods)-1 {
				sep = ""
			}
			fmt.Fprintf(&b, "  (%s, %s)%s\n", coqStr(m), c07CoqStrList(keys), sep)
		}
		b.WriteString("].\n")
		b.WriteString("(* delete sites the translator could not classify (not counted above) *)\n")
		fmt.Fprintf(&b, "Definition gen_strip_unclassified : list string := %s.\n\n", c07CoqStrList(allNotes))

		// scan
		al, err := w.scanAnnotationLike()
		if err != nil {
			return "", err
		}
		b.WriteString("(* every string constant / literal of non-test Go files under api/ and kyaml/ that looks like an annotation key\n   of the config.kubernetes.io / config.k8s.io families: (file, constant name or \"\", value) *)\n")
		b.WriteString("Definition gen_annotation_like : list (string * string * string) := [\n")
		for i, a := range al {
			sep := ";"
			if i == len(al)-1 {
				sep = ""
			}
			fmt.Fprintf(&b, "  (%s, %s, %s)%s\n", coqStr(a.file), coqStr(a.name), coqStr(a.value), sep)
		}
		b.WriteString("].\n\n")

		// every qualified string of any family, the annotation write sites, unfoldable key concatenations
		quals, writes, dynsites, err := w.c07ScanAll()
		if err != nil {
			return "", err
		}
		b.WriteString("(* every \"<dns-domain>/<name>\" string constant / literal of non-test Go files under api/ and kyaml/, whatever its family:\n   (file, constant name or \"\", value) *)\n")
		b.WriteString("Definition gen_qualified_strings : list (string * string * string) := [\n")
		for i, a := range quals {
			sep := ";"
			if i == len(quals)-1 {
				sep = ""
			}
			fmt.Fprintf(&b, "  (%s, %s, %s)%s\n", coqStr(a.file), coqStr(a.name), coqStr(a.value), sep)
		}
		b.WriteString("].\n\n")
		b.WriteString("(* places where an annotation key is written: yaml.SetAnnotation(k, _), X[k] = _ on a map named *annotations,\n   map literals given as Annotations / SetAnnotations, and calls of functions that forward a parameter to one of these\n   (found by a fixpoint over the call graph by name). (file, function, kind, text): kind const = the folded key;\n   dynamic = a key computed at run time (its expression); map = a whole map, other than the resource's own\n   annotation map, handed to SetAnnotations / an Annotations field (its expression) *)\n")
		b.WriteString("Definition gen_annotation_writes : list (string * string * string * string) := [\n")
		for i, x := range writes {
			sep := ";"
			if i == len(writes)-1 {
				sep = ""
			}
			fmt.Fprintf(&b, "  (%s, %s, %s, %s)%s\n", coqStr(x.file), coqStr(x.fn), coqStr(x.kind), coqStr(x.text), sep)
		}
		b.WriteString("].\n\n")
		b.WriteString("(* string concatenations that do not fold to a constant although one operand is an annotation domain / prefix *)\n")
		fmt.Fprintf(&b, "Definition gen_dynamic_key_concats : list string := %s.\n\n", c07CoqStrList(dynsites))

		prs, err := w.protocolRemovals()
		if err != nil {
			return "", err
		}
		b.WriteString("(* exec / KRM-function plugin protocol keys (api/internal/plugins/utils): (key, where it is removed, status);\n   unconditional = the removal is evaluated unconditionally for every resource of the loop, conditional = only\n   inside a branch, missing = not found *)\n")
		b.WriteString("Definition gen_plugin_protocol_removals : list (string * string * string) := [\n")
		for i, x := range prs {
			sep := ";"
			if i == len(prs)-1 {
				sep = ""
			}
			fmt.Fprintf(&b, "  (%s, %s, %s)%s\n", coqStr(x[0]), coqStr(x[1]), coqStr(x[2]), sep)
		}
		b.WriteString("].\n\n")

		// skip tables
		for _, t := range []struct{ v, coq string }{{"prefixFieldSpecsToSkip", "gen_prefix_skip"}, {"suffixFieldSpecsToSkip", "gen_suffix_skip"}} {
			tab, err := w.skipTable(filepath.Join(repo, "api/internal/builtins"), t.v)
			if err != nil {
				return "", err
			}
			fmt.Fprintf(&b, "(* api/internal/builtins: %s (group, version, kind) *)\nDefinition %s : list (string * string * string) := [", t.v, t.coq)
			for i, e := range tab {
				if i > 0 {
					b.WriteString("; ")
				}
				fmt.Fprintf(&b, "(%s, %s, %s)", coqStr(e[0]), coqStr(e[1]), coqStr(e[2]))
			}
			b.WriteString("].\n\n")
		}
		for _, t := range []struct{ v, coq string }{{"defaultOrderFirst", "gen_order_first"}, {"defaultOrderLast", "gen_order_last"}} {
			l, err := w.stringSliceVar(filepath.Join(repo, "api/internal/builtins"), t.v)
			if err != nil {
				return "", err
			}
			fmt.Fprintf(&b, "(* api/internal/builtins/SortOrderTransformer.go: %s *)\nDefinition %s : list string := %s.\n\n", t.v, t.coq, c07CoqStrList(l))
		}
		// order of the build tail
		kp, err := w.load(filepath.Join(repo, "api/krusty"))
		if err != nil {
			return "", err
		}
		runFd, _ := c07FindFunc(kp, "Kustomizer", "Run")
		tp, err := w.load(filepath.Join(repo, "api/internal/target"))
		if err != nil {
			return "", err
		}
		mkFd, _ := c07FindFunc(tp, "KustTarget", "makeCustomizedResMap")
		ilFd, _ := c07FindFunc(tp, "KustTarget", "IgnoreLocal")
		if runFd == nil || mkFd == nil || ilFd == nil {
			return "", fmt.Errorf("Kustomizer.Run / KustTarget.makeCustomizedResMap / KustTarget.IgnoreLocal not found")
		}
		fmt.Fprintf(&b, "(* calls, in source order, of Kustomizer.Run, KustTarget.makeCustomizedResMap and KustTarget.IgnoreLocal *)\n")
		fmt.Fprintf(&b, "Definition gen_run_calls : list string := %s.\n", c07CoqStrList(c07CallNames(runFd)))
		fmt.Fprintf(&b, "Definition gen_make_customized_calls : list string := %s.\n", c07CoqStrList(c07CallNames(mkFd)))
		fmt.Fprintf(&b, "Definition gen_ignore_local_calls : list string := %s.\n\n", c07CoqStrList(c07CallNames(ilFd)))
		bm, err := w.stringSliceVar(filepath.Join(repo, "api/types"), "BuildMetadataOptions")
		if err != nil {
			return "", err
		}
		fmt.Fprintf(&b, "(* api/types/kustomization.go: BuildMetadataOptions *)\nDefinition gen_buildmeta_options : list string := %s.\n", c07CoqStrList(bm))
		return b.String(), nil
	})
}
