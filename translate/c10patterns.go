package main

import (
	"fmt"
	"go/ast"
	"go/constant"
	"go/parser"
	"go/token"
	"path/filepath"
	"strings"
)

// C10Patterns.v: the pieces of source text the C10 matcher models are built from:
//   - the regular expression IsImageMatched compiles (api/internal/image/image.go),
//   - the expression anchorRegex returns and its empty-pattern guard (api/types/selector.go),
//   - the field names the legacy image filter looks for and the kind on its deny list
//     (api/filters/imagetag/legacy.go, imagetag.go),
//   - types.DefaultReplacementFieldPath (api/types/replacement.go),
//   - how PathMatcher.doSeq / visitElem / visitPrimitiveElem obtain their regular expression
//     (kyaml/yaml/match.go) and whether doSeq re-runs itself after creating an element.
// A shape the translator does not recognise is emitted as POther / false, which makes the
// Gen_* obligations fail (never pass).

func c10ParseFile(path string) (*token.FileSet, *ast.File, error) {
	fset := token.NewFileSet()
	f, err := parser.ParseFile(fset, path, nil, 0)
	return fset, f, err
}

func c10FindFunc(f *ast.File, name, recv string) *ast.FuncDecl {
	for _, d := range f.Decls {
		fd, ok := d.(*ast.FuncDecl)
		if !ok || fd.Name.Name != name {
			continue
		}
		if recv == "" && fd.Recv == nil {
			return fd
		}
		if recv != "" && fd.Recv != nil && len(fd.Recv.List) == 1 {
			t := fd.Recv.List[0].Type
			if st, ok := t.(*ast.StarExpr); ok {
				t = st.X
			}
			if id, ok := t.(*ast.Ident); ok && id.Name == recv {
				return fd
			}
		}
	}
	return nil
}

func c10Lit(e ast.Expr) (string, bool) {
	bl, ok := e.(*ast.BasicLit)
	if !ok || bl.Kind != token.STRING {
		return "", false
	}
	return constant.StringVal(constant.MakeFromLiteral(bl.Value, token.STRING, 0)), true
}

// c10Pieces flattens a string concatenation into pattern pieces.
func c10Pieces(e ast.Expr) []string {
	switch x := e.(type) {
	case *ast.ParenExpr:
		return c10Pieces(x.X)
	case *ast.BinaryExpr:
		if x.Op == token.ADD {
			return append(c10Pieces(x.X), c10Pieces(x.Y)...)
		}
	case *ast.BasicLit:
		if s, ok := c10Lit(x); ok {
			return []string{"PLit " + coqStr(s)}
		}
	case *ast.Ident:
		return []string{"PVar " + coqStr(x.Name)}
	case *ast.SelectorExpr:
		if id, ok := x.X.(*ast.Ident); ok {
			return []string{"PVar " + coqStr(id.Name+"."+x.Sel.Name)}
		}
	case *ast.CallExpr:
		if sel, ok := x.Fun.(*ast.SelectorExpr); ok && len(x.Args) == 1 {
			if pk, ok := sel.X.(*ast.Ident); ok && pk.Name == "regexp" && sel.Sel.Name == "QuoteMeta" {
				if id, ok := x.Args[0].(*ast.Ident); ok {
					return []string{"PQuote " + coqStr(id.Name)}
				}
			}
		}
	}
	return []string{"POther " + coqStr(fmt.Sprintf("%T", e))}
}

func c10PieceList(ps []string) string {
	for i := range ps {
		ps[i] = "(" + ps[i] + ")"
	}
	return "[" + strings.Join(ps, "; ") + "]"
}

// c10CompileArgs returns the arguments of every regexp.Compile / regexp.MustCompile call in a function body.
func c10CompileArgs(fd *ast.FuncDecl) []ast.Expr {
	var out []ast.Expr
	ast.Inspect(fd.Body, func(n ast.Node) bool {
		ce, ok := n.(*ast.CallExpr)
		if !ok {
			return true
		}
		sel, ok := ce.Fun.(*ast.SelectorExpr)
		if !ok {
			return true
		}
		if pk, ok := sel.X.(*ast.Ident); ok && pk.Name == "regexp" &&
			(sel.Sel.Name == "Compile" || sel.Sel.Name == "MustCompile") && len(ce.Args) == 1 {
			out = append(out, ce.Args[0])
		}
		return true
	})
	return out
}

func init() {
	registerGen("C10Patterns.v", func(repo string) (string, error) {
		var b strings.Builder
		b.WriteString("From KV Require Import Base.Regex.\nOpen Scope string_scope.\n\n")

		// ---- image.IsImageMatched
		_, f, err := c10ParseFile(filepath.Join(repo, "api/internal/image/image.go"))
		if err != nil {
			return "", err
		}
		fd := c10FindFunc(f, "IsImageMatched", "")
		if fd == nil {
			return "", fmt.Errorf("IsImageMatched not found")
		}
		args := c10CompileArgs(fd)
		if len(args) != 1 {
			return "", fmt.Errorf("IsImageMatched: expected one regexp.Compile call, found %d", len(args))
		}
		fmt.Fprintf(&b, "(* api/internal/image/image.go IsImageMatched(s, t): the expression passed to regexp.Compile *)\n")
		fmt.Fprintf(&b, "Definition gen_image_match_pattern : list piece := %s.\n", c10PieceList(c10Pieces(args[0])))
		// is the compile error checked? (the second result assigned to something other than _)
		errIgnored := false
		ast.Inspect(fd.Body, func(n ast.Node) bool {
			as, ok := n.(*ast.AssignStmt)
			if !ok || len(as.Lhs) != 2 || len(as.Rhs) != 1 {
				return true
			}
			if ce, ok := as.Rhs[0].(*ast.CallExpr); ok {
				if sel, ok := ce.Fun.(*ast.SelectorExpr); ok && sel.Sel.Name == "Compile" {
					if id, ok := as.Lhs[1].(*ast.Ident); ok && id.Name == "_" {
						errIgnored = true
					}
				}
			}
			return true
		})
		fmt.Fprintf(&b, "(* true when the error result of regexp.Compile is assigned to _ (nil *Regexp is then dereferenced) *)\n")
		fmt.Fprintf(&b, "Definition gen_image_compile_error_ignored : bool := %s.\n", coqBool(errIgnored))
		// `if err != nil { return false }` directly after the Compile call
		returnsFalse := false
		for _, st := range fd.Body.List {
			is, ok := st.(*ast.IfStmt)
			if !ok || is.Init != nil || is.Else != nil || len(is.Body.List) != 1 {
				continue
			}
			be, ok := is.Cond.(*ast.BinaryExpr)
			if !ok || be.Op != token.NEQ {
				continue
			}
			x, okx := be.X.(*ast.Ident)
			y, oky := be.Y.(*ast.Ident)
			rs, okr := is.Body.List[0].(*ast.ReturnStmt)
			if okx && oky && okr && x.Name == "err" && y.Name == "nil" && len(rs.Results) == 1 {
				if id, ok := rs.Results[0].(*ast.Ident); ok && id.Name == "false" {
					returnsFalse = true
				}
			}
		}
		fmt.Fprintf(&b, "(* true when a compile error makes IsImageMatched return false (`if err != nil { return false }`) *)\n")
		fmt.Fprintf(&b, "Definition gen_image_compile_error_returns_false : bool := %s.\n\n", coqBool(returnsFalse))

		// ---- types.anchorRegex
		_, f, err = c10ParseFile(filepath.Join(repo, "api/types/selector.go"))
		if err != nil {
			return "", err
		}
		fd = c10FindFunc(f, "anchorRegex", "")
		if fd == nil {
			return "", fmt.Errorf("anchorRegex not found")
		}
		guard := false
		var ret ast.Expr
		if len(fd.Body.List) == 2 {
			if is, ok := fd.Body.List[0].(*ast.IfStmt); ok && is.Init == nil && is.Else == nil {
				if be, ok := is.Cond.(*ast.BinaryExpr); ok && be.Op == token.EQL {
					x, okx := be.X.(*ast.Ident)
					y, oky := c10Lit(be.Y)
					if okx && oky && y == "" && len(is.Body.List) == 1 {
						if rs, ok := is.Body.List[0].(*ast.ReturnStmt); ok && len(rs.Results) == 1 {
							if id, ok := rs.Results[0].(*ast.Ident); ok && id.Name == x.Name {
								guard = true
							}
						}
					}
				}
			}
			if rs, ok := fd.Body.List[1].(*ast.ReturnStmt); ok && len(rs.Results) == 1 {
				ret = rs.Results[0]
			}
		}
		pieces := []string{"POther \"unrecognised body\""}
		if ret != nil {
			pieces = c10Pieces(ret)
		}
		fmt.Fprintf(&b, "(* api/types/selector.go anchorRegex(pattern): `if pattern == \"\" { return pattern }` guard present, and the returned expression *)\n")
		fmt.Fprintf(&b, "Definition gen_anchor_empty_guard : bool := %s.\n", coqBool(guard))
		fmt.Fprintf(&b, "Definition gen_anchor_pattern : list piece := %s.\n\n", c10PieceList(pieces))

		// ---- legacy image filter: field names and the deny-listed kind
		_, f, err = c10ParseFile(filepath.Join(repo, "api/filters/imagetag/legacy.go"))
		if err != nil {
			return "", err
		}
		var fields []string
		fieldsOK := false
		denyKinds := []string{}
		ast.Inspect(f, func(n ast.Node) bool {
			switch x := n.(type) {
			case *ast.KeyValueExpr:
				if id, ok := x.Key.(*ast.Ident); ok && id.Name == "fields" {
					if cl, ok := x.Value.(*ast.CompositeLit); ok {
						fieldsOK = true
						for _, e := range cl.Elts {
							s, ok := c10Lit(e)
							if !ok {
								fieldsOK = false
							}
							fields = append(fields, s)
						}
					}
				}
			case *ast.BinaryExpr:
				if x.Op == token.EQL {
					if sel, ok := x.X.(*ast.SelectorExpr); ok && sel.Sel.Name == "Kind" {
						if s, ok := c10Lit(x.Y); ok {
							denyKinds = append(denyKinds, s)
						}
					}
				}
			}
			return true
		})
		if !fieldsOK {
			fields = []string{"<unrecognised>"}
		}
		_, f2, err := c10ParseFile(filepath.Join(repo, "api/filters/imagetag/imagetag.go"))
		if err != nil {
			return "", err
		}
		denyKinds2 := []string{}
		ast.Inspect(f2, func(n ast.Node) bool {
			if x, ok := n.(*ast.BinaryExpr); ok && x.Op == token.EQL {
				if sel, ok := x.X.(*ast.SelectorExpr); ok && sel.Sel.Name == "Kind" {
					if s, ok := c10Lit(x.Y); ok {
						denyKinds2 = append(denyKinds2, s)
					}
				}
			}
			return true
		})
		strs := func(l []string) string {
			ps := make([]string, len(l))
			for i, s := range l {
				ps[i] = coqStr(s)
			}
			return "[" + strings.Join(ps, "; ") + "]"
		}
		fmt.Fprintf(&b, "(* api/filters/imagetag/legacy.go: findFieldsFilter.fields; kinds compared with meta.Kind (skipped) in legacy.go and imagetag.go *)\n")
		fmt.Fprintf(&b, "Definition gen_legacy_image_fields : list string := %s.\n", strs(fields))
		fmt.Fprintf(&b, "Definition gen_legacy_skip_kinds : list string := %s.\n", strs(denyKinds))
		fmt.Fprintf(&b, "Definition gen_fsfilter_skip_kinds : list string := %s.\n\n", strs(denyKinds2))

		// ---- types.DefaultReplacementFieldPath
		consts, err := constStrings(filepath.Join(repo, "api/types"))
		if err != nil {
			return "", err
		}
		dfp, ok := consts["DefaultReplacementFieldPath"]
		if !ok {
			return "", fmt.Errorf("DefaultReplacementFieldPath not found")
		}
		fmt.Fprintf(&b, "Definition gen_default_replacement_field_path : string := %s.\n\n", coqStr(dfp))

		// ---- kyaml/yaml/match.go: regular expressions of the element visitors; doSeq's retry
		_, f, err = c10ParseFile(filepath.Join(repo, "kyaml/yaml/match.go"))
		if err != nil {
			return "", err
		}
		for _, fn := range []string{"visitElem", "visitPrimitiveElem"} {
			fd = c10FindFunc(f, fn, "PathMatcher")
			if fd == nil {
				return "", fmt.Errorf("PathMatcher.%s not found", fn)
			}
			args = c10CompileArgs(fd)
			ps := []string{"POther \"no single regexp.Compile call\""}
			if len(args) == 1 {
				ps = c10Pieces(args[0])
			}
			fmt.Fprintf(&b, "Definition gen_match_%s_pattern : list piece := %s.\n", fn, c10PieceList(ps))
		}
		fd = c10FindFunc(f, "doSeq", "PathMatcher")
		if fd == nil {
			return "", fmt.Errorf("PathMatcher.doSeq not found")
		}
		retries := false
		if n := len(fd.Body.List); n > 0 {
			if rs, ok := fd.Body.List[n-1].(*ast.ReturnStmt); ok && len(rs.Results) == 1 {
				if ce, ok := rs.Results[0].(*ast.CallExpr); ok {
					if sel, ok := ce.Fun.(*ast.SelectorExpr); ok && sel.Sel.Name == "doSeq" {
						retries = true
					}
				}
			}
		}
		fmt.Fprintf(&b, "(* doSeq ends with `return p.doSeq(rn)` after appending the created element *)\n")
		fmt.Fprintf(&b, "Definition gen_match_doseq_retries : bool := %s.\n", coqBool(retries))
		// the retry is guarded: `if p.appended { return nil, <error> }` followed by `p.appended = true`
		guarded := false
		for i, st := range fd.Body.List {
			is, ok := st.(*ast.IfStmt)
			if !ok || is.Init != nil || is.Else != nil {
				continue
			}
			sel, ok := is.Cond.(*ast.SelectorExpr)
			if !ok || sel.Sel.Name != "appended" || len(is.Body.List) == 0 {
				continue
			}
			rs, ok := is.Body.List[len(is.Body.List)-1].(*ast.ReturnStmt)
			if !ok || len(rs.Results) != 2 {
				continue
			}
			if id, ok := rs.Results[0].(*ast.Ident); !ok || id.Name != "nil" {
				continue
			}
			if i+1 < len(fd.Body.List) {
				if as, ok := fd.Body.List[i+1].(*ast.AssignStmt); ok && len(as.Lhs) == 1 && len(as.Rhs) == 1 {
					l, okl := as.Lhs[0].(*ast.SelectorExpr)
					r, okr := as.Rhs[0].(*ast.Ident)
					if okl && okr && l.Sel.Name == "appended" && r.Name == "true" {
						guarded = true
					}
				}
			}
		}
		fmt.Fprintf(&b, "(* the retry happens at most once: a second search that finds nothing is an error (`if p.appended { return nil, err }; p.appended = true`) *)\n")
		fmt.Fprintf(&b, "Definition gen_match_doseq_guarded : bool := %s.\n\n", coqBool(guarded))

		// ---- replacement.getRefinedValue: is the source node copied when no delimiter is given?
		_, f, err = c10ParseFile(filepath.Join(repo, "api/filters/replacement/replacement.go"))
		if err != nil {
			return "", err
		}
		fd = c10FindFunc(f, "getRefinedValue", "")
		if fd == nil {
			return "", fmt.Errorf("getRefinedValue not found")
		}
		copied, recognised := false, false
		if len(fd.Body.List) > 0 {
			if is, ok := fd.Body.List[0].(*ast.IfStmt); ok && len(is.Body.List) > 0 {
				if rs, ok := is.Body.List[len(is.Body.List)-1].(*ast.ReturnStmt); ok && len(rs.Results) == 2 {
					switch x := rs.Results[0].(type) {
					case *ast.Ident:
						recognised = x.Name == "rn"
					case *ast.CallExpr:
						if sel, ok := x.Fun.(*ast.SelectorExpr); ok && sel.Sel.Name == "Copy" {
							if id, ok := sel.X.(*ast.Ident); ok && id.Name == "rn" {
								copied, recognised = true, true
							}
						}
					}
				}
			}
		}
		fmt.Fprintf(&b, "(* getRefinedValue without a delimiter returns rn.Copy() (true) or the live node rn (false) *)\n")
		fmt.Fprintf(&b, "Definition gen_replacement_source_copied : bool := %s.\n", coqBool(copied))
		fmt.Fprintf(&b, "Definition gen_replacement_source_return_recognised : bool := %s.\n\n", coqBool(recognised))

		// ---- replacement.setFieldValue: after the text is copied into a scalar target, is the target probed with
		// Decode and made a string when the text cannot be decoded under the tag it kept?
		//   if err := targetField.YNode().Decode(&probe); err != nil { targetField.YNode().Tag = yaml.NodeTagString }
		fd = c10FindFunc(f, "setFieldValue", "")
		if fd == nil {
			return "", fmt.Errorf("setFieldValue not found")
		}
		retags := false
		ast.Inspect(fd.Body, func(n ast.Node) bool {
			is, ok := n.(*ast.IfStmt)
			if !ok || is.Init == nil || is.Else != nil || len(is.Body.List) != 1 {
				return true
			}
			init, ok := is.Init.(*ast.AssignStmt)
			if !ok || len(init.Rhs) != 1 {
				return true
			}
			ce, ok := init.Rhs[0].(*ast.CallExpr)
			if !ok {
				return true
			}
			if sel, ok := ce.Fun.(*ast.SelectorExpr); !ok || sel.Sel.Name != "Decode" {
				return true
			}
			cond, ok := is.Cond.(*ast.BinaryExpr)
			if !ok || cond.Op.String() != "!=" {
				return true
			}
			as, ok := is.Body.List[0].(*ast.AssignStmt)
			if !ok || len(as.Lhs) != 1 || len(as.Rhs) != 1 {
				return true
			}
			l, okl := as.Lhs[0].(*ast.SelectorExpr)
			r, okr := as.Rhs[0].(*ast.SelectorExpr)
			if okl && okr && l.Sel.Name == "Tag" && r.Sel.Name == "NodeTagString" {
				retags = true
			}
			return true
		})
		fmt.Fprintf(&b, "(* setFieldValue: a scalar target whose kept tag cannot decode the written text becomes a string *)\n")
		fmt.Fprintf(&b, "Definition gen_replacement_retags_undecodable : bool := %s.\n\n", coqBool(retags))

		// ---- ImageTagTransformer.Transform: do the legacy filter and the field-spec filter share a Visited set?
		_, f, err = c10ParseFile(filepath.Join(repo, "api/internal/builtins/ImageTagTransformer.go"))
		if err != nil {
			return "", err
		}
		fd = c10FindFunc(f, "Transform", "ImageTagTransformerPlugin")
		if fd == nil {
			return "", fmt.Errorf("ImageTagTransformerPlugin.Transform not found")
		}
		nVisited, nApply := 0, 0
		ast.Inspect(fd.Body, func(n ast.Node) bool {
			switch x := n.(type) {
			case *ast.KeyValueExpr:
				if id, ok := x.Key.(*ast.Ident); ok && id.Name == "Visited" {
					if v, ok := x.Value.(*ast.Ident); ok && v.Name == "visited" {
						nVisited++
					}
				}
			case *ast.CallExpr:
				if sel, ok := x.Fun.(*ast.SelectorExpr); ok && sel.Sel.Name == "ApplyFilter" {
					nApply++
				}
			}
			return true
		})
		fmt.Fprintf(&b, "(* ImageTagTransformerPlugin.Transform: number of ApplyFilter calls, and whether both filters get the same `Visited: visited` *)\n")
		fmt.Fprintf(&b, "Definition gen_image_transform_filters : nat := %d.\n", nApply)
		fmt.Fprintf(&b, "Definition gen_image_transform_shares_visited : bool := %s.\n", coqBool(nVisited == 2 && nApply == 2))
		return b.String(), nil
	})
}
