package main

import (
	"bytes"
	"fmt"
	"go/ast"
	"go/parser"
	"go/printer"
	"go/token"
	"path/filepath"
	"strings"
)

// LocalizeTables.v (property C18): the tables and site lists of the localizer that the Coq model
// Fs/Localize.v depends on.
//
//   gen_kust_file_names    api/konfig/general.go  RecognizedKustomizationFileNames()
//   gen_dst_prefix         api/internal/localizer/util.go  const DstPrefix
//   gen_native_map_fields  localizer.go localizeNativeFields: the map literal that is ranged over
//                          (key, kustomization field, localizing method)
//   gen_native_calls       localizer.go localizeNativeFields: every call lc.<method>(<arg>) in source order
//   gen_plugin_calls       localizer.go localizeBuiltinPlugins: the ranged map (key, field)
//   gen_plugin_specs       builtinplugins.go: every types.FieldSpec literal of the filter
//                          (group index of the enclosing filter, kind, path) in source order,
//                          and the locPathFn each group installs
//   gen_fatal_sites        every log.Fatalf / log.Panicf call of the package (file-independent:
//                          enclosing function, kind) — the model's Fatal/Panic outcomes
//
// A construct that cannot be classified makes the generation fail (the obligations then fail).

func c18ExprString(fset *token.FileSet, e ast.Expr) string {
	var b bytes.Buffer
	_ = printer.Fprint(&b, fset, e)
	return b.String()
}

func findFunc(files []*ast.File, name string) *ast.FuncDecl {
	for _, f := range files {
		for _, d := range f.Decls {
			if fd, ok := d.(*ast.FuncDecl); ok && fd.Name.Name == name {
				return fd
			}
		}
	}
	return nil
}

func c18CoqPairList(l [][]string) string {
	parts := make([]string, len(l))
	for i, t := range l {
		fs := make([]string, len(t))
		for j, x := range t {
			fs[j] = coqStr(x)
		}
		parts[i] = "(" + strings.Join(fs, ", ") + ")"
	}
	return "[" + strings.Join(parts, ";\n   ") + "]"
}

func init() {
	registerGen("LocalizeTables.v", func(repo string) (string, error) {
		var b strings.Builder
		b.WriteString("From Coq Require Import List String.\nImport ListNotations.\nOpen Scope string_scope.\n\n")

		// ---- kustomization file names
		fset := token.NewFileSet()
		gf, err := parser.ParseFile(fset, filepath.Join(repo, "api/konfig/general.go"), nil, 0)
		if err != nil {
			return "", err
		}
		fd := findFunc([]*ast.File{gf}, "RecognizedKustomizationFileNames")
		if fd == nil || len(fd.Body.List) != 1 {
			return "", fmt.Errorf("RecognizedKustomizationFileNames: unexpected shape")
		}
		ret, ok := fd.Body.List[0].(*ast.ReturnStmt)
		if !ok || len(ret.Results) != 1 {
			return "", fmt.Errorf("RecognizedKustomizationFileNames: not a single return")
		}
		cl, ok := ret.Results[0].(*ast.CompositeLit)
		if !ok {
			return "", fmt.Errorf("RecognizedKustomizationFileNames: not a composite literal")
		}
		var names []string
		for _, e := range cl.Elts {
			bl, ok := e.(*ast.BasicLit)
			if !ok || bl.Kind != token.STRING {
				return "", fmt.Errorf("RecognizedKustomizationFileNames: non-literal element")
			}
			names = append(names, strings.Trim(bl.Value, "\""))
		}
		fmt.Fprintf(&b, "Definition gen_kust_file_names : list string := %s.\n\n", func() string {
			p := make([]string, len(names))
			for i, n := range names {
				p[i] = coqStr(n)
			}
			return "[" + strings.Join(p, "; ") + "]"
		}())

		// ---- localizer package
		ldir := filepath.Join(repo, "api/internal/localizer")
		consts, err := constStrings(ldir)
		if err != nil {
			return "", err
		}
		dp, ok := consts["DstPrefix"]
		if !ok {
			return "", fmt.Errorf("DstPrefix not found")
		}
		fmt.Fprintf(&b, "Definition gen_dst_prefix : string := %s.\n\n", coqStr(dp))

		lfset, lfiles, err := parseDir(ldir)
		if err != nil {
			return "", err
		}
		// the map literal ranged over in a function: key -> struct/slice literal elements
		rangedMap := func(fn string) ([][]string, error) {
			fd := findFunc(lfiles, fn)
			if fd == nil {
				return nil, fmt.Errorf("%s not found", fn)
			}
			var out [][]string
			found := 0
			var ferr error
			ast.Inspect(fd.Body, func(n ast.Node) bool {
				rs, ok := n.(*ast.RangeStmt)
				if !ok {
					return true
				}
				cl, ok := rs.X.(*ast.CompositeLit)
				if !ok {
					return true
				}
				if _, isMap := cl.Type.(*ast.MapType); !isMap {
					return true
				}
				found++
				for _, e := range cl.Elts {
					kv, ok := e.(*ast.KeyValueExpr)
					if !ok {
						ferr = fmt.Errorf("%s: map element without key", fn)
						return false
					}
					key, ok := kv.Key.(*ast.BasicLit)
					if !ok {
						ferr = fmt.Errorf("%s: non-literal map key", fn)
						return false
					}
					row := []string{strings.Trim(key.Value, "\"")}
					switch v := kv.Value.(type) {
					case *ast.CompositeLit:
						for _, x := range v.Elts {
							row = append(row, c18ExprString(lfset, x))
						}
					default:
						row = append(row, c18ExprString(lfset, v))
					}
					out = append(out, row)
				}
				return true
			})
			if ferr != nil {
				return nil, ferr
			}
			if found != 1 {
				return nil, fmt.Errorf("%s: expected exactly one ranged map literal, found %d", fn, found)
			}
			return out, nil
		}
		nm, err := rangedMap("localizeNativeFields")
		if err != nil {
			return "", err
		}
		for _, row := range nm {
			if len(row) != 3 {
				return "", fmt.Errorf("localizeNativeFields: map entry %v is not {paths, locFn}", row)
			}
		}
		fmt.Fprintf(&b, "Definition gen_native_map_fields : list (string * string * string) :=\n  %s.\n\n", c18CoqPairList(nm))
		pm, err := rangedMap("localizeBuiltinPlugins")
		if err != nil {
			return "", err
		}
		for _, row := range pm {
			if len(row) != 2 {
				return "", fmt.Errorf("localizeBuiltinPlugins: map entry %v is not a field", row)
			}
		}
		fmt.Fprintf(&b, "Definition gen_plugin_map_fields : list (string * string) :=\n  %s.\n\n", c18CoqPairList(pm))

		// every call lc.<method>(args) in localizeNativeFields, in source order
		nf := findFunc(lfiles, "localizeNativeFields")
		var calls [][]string
		ast.Inspect(nf.Body, func(n ast.Node) bool {
			ce, ok := n.(*ast.CallExpr)
			if !ok {
				return true
			}
			se, ok := ce.Fun.(*ast.SelectorExpr)
			if !ok {
				return true
			}
			if id, ok := se.X.(*ast.Ident); ok && id.Name == "lc" {
				arg := ""
				if len(ce.Args) > 0 {
					arg = c18ExprString(lfset, ce.Args[0])
				}
				calls = append(calls, []string{se.Sel.Name, arg})
			}
			return true
		})
		fmt.Fprintf(&b, "Definition gen_native_calls : list (string * string) :=\n  %s.\n\n", c18CoqPairList(calls))

		// builtinplugins.go: FieldSpec literals grouped by the enclosing filter literal
		var specs [][]string
		var fns [][]string
		bf := findFunc(lfiles, "Filter")
		if bf == nil {
			return "", fmt.Errorf("localizeBuiltinPlugins.Filter not found")
		}
		group := -1
		var serr error
		ast.Inspect(bf.Body, func(n ast.Node) bool {
			cl, ok := n.(*ast.CompositeLit)
			if !ok {
				return true
			}
			ts := c18ExprString(lfset, cl.Type)
			switch ts {
			case "fsslice.Filter", "fieldspec.Filter":
				group++
				// the locPathFn installed by this filter's SetValue
				fn := ""
				ast.Inspect(cl, func(m ast.Node) bool {
					as, ok := m.(*ast.AssignStmt)
					if ok && len(as.Lhs) == 1 && c18ExprString(lfset, as.Lhs[0]) == "lbp.locPathFn" {
						fn = c18ExprString(lfset, as.Rhs[0])
					}
					return true
				})
				if fn == "" {
					serr = fmt.Errorf("filter group %d installs no locPathFn", group)
				}
				fns = append(fns, []string{fmt.Sprint(group), fn})
			case "types.FieldSpec":
				kind, path := "", ""
				for _, e := range cl.Elts {
					kv, ok := e.(*ast.KeyValueExpr)
					if !ok {
						continue
					}
					switch c18ExprString(lfset, kv.Key) {
					case "Gvk":
						g := c18ExprString(lfset, kv.Value)
						// resid.Gvk{Version: konfig.BuiltinPluginApiVersion, Kind: builtinhelpers.X.String()}
						if !strings.Contains(g, "Version: konfig.BuiltinPluginApiVersion") {
							serr = fmt.Errorf("field spec with unexpected Gvk %s", g)
						}
						i := strings.Index(g, "builtinhelpers.")
						j := strings.Index(g, ".String()")
						if i < 0 || j < i {
							serr = fmt.Errorf("field spec with unexpected kind in %s", g)
						} else {
							kind = g[i+len("builtinhelpers.") : j]
						}
					case "Path":
						if bl, ok := kv.Value.(*ast.BasicLit); ok {
							path = strings.Trim(bl.Value, "\"")
						} else {
							serr = fmt.Errorf("field spec with non-literal path")
						}
					}
				}
				specs = append(specs, []string{fmt.Sprint(group), kind, path})
			}
			return true
		})
		if serr != nil {
			return "", serr
		}
		fmt.Fprintf(&b, "Definition gen_plugin_specs : list (string * string * string) :=\n  %s.\n\n", c18CoqPairList(specs))
		fmt.Fprintf(&b, "Definition gen_plugin_spec_fns : list (string * string) :=\n  %s.\n\n", c18CoqPairList(fns))

		// log.Fatalf / log.Panicf sites of the package
		var fatals [][]string
		for _, f := range lfiles {
			for _, d := range f.Decls {
				fd, ok := d.(*ast.FuncDecl)
				if !ok || fd.Body == nil {
					continue
				}
				ast.Inspect(fd.Body, func(n ast.Node) bool {
					ce, ok := n.(*ast.CallExpr)
					if !ok {
						return true
					}
					s := c18ExprString(lfset, ce.Fun)
					if strings.HasPrefix(s, "log.Fatal") || strings.HasPrefix(s, "log.Panic") {
						first := ""
						if len(ce.Args) > 0 {
							first = c18ExprString(lfset, ce.Args[0])
						}
						fatals = append(fatals, []string{fd.Name.Name, s, strings.Trim(first, "\"")})
					}
					return true
				})
			}
		}
		fmt.Fprintf(&b, "Definition gen_fatal_sites : list (string * string * string) :=\n  %s.\n\n", c18CoqPairList(fatals))

		// every call of a filesys.FileSystem method on an fSys receiver made by the localizer and by the
		// loader code it runs through (the fault points of the model): (file, function, method), source order
		fsMethods := map[string]bool{"Create": true, "Mkdir": true, "MkdirAll": true, "RemoveAll": true, "Open": true,
			"IsDir": true, "ReadDir": true, "CleanedAbs": true, "Exists": true, "Glob": true, "ReadFile": true,
			"WriteFile": true, "Walk": true}
		var sites [][]string
		scan := func(path string, onlyFunc string) error {
			sfset := token.NewFileSet()
			f, err := parser.ParseFile(sfset, filepath.Join(repo, path), nil, 0)
			if err != nil {
				return err
			}
			for _, d := range f.Decls {
				fd, ok := d.(*ast.FuncDecl)
				if !ok || fd.Body == nil || (onlyFunc != "" && fd.Name.Name != onlyFunc) {
					continue
				}
				ast.Inspect(fd.Body, func(n ast.Node) bool {
					ce, ok := n.(*ast.CallExpr)
					if !ok {
						return true
					}
					se, ok := ce.Fun.(*ast.SelectorExpr)
					if !ok || !fsMethods[se.Sel.Name] {
						return true
					}
					recv := c18ExprString(sfset, se.X)
					if recv == "fSys" || strings.HasSuffix(recv, ".fSys") {
						sites = append(sites, []string{filepath.Base(path), fd.Name.Name, se.Sel.Name})
					}
					return true
				})
			}
			return nil
		}
		for _, fl := range []struct{ path, fn string }{
			{"api/internal/localizer/locloader.go", ""}, {"api/internal/localizer/util.go", ""},
			{"api/internal/localizer/localizer.go", ""}, {"api/internal/localizer/builtinplugins.go", ""},
			{"api/internal/loader/loader.go", ""}, {"api/internal/loader/fileloader.go", ""},
			{"api/internal/loader/loadrestrictions.go", ""}, {"kyaml/filesys/filesystem.go", "ConfirmDir"},
		} {
			if err := scan(fl.path, fl.fn); err != nil {
				return "", err
			}
		}
		fmt.Fprintf(&b, "Definition gen_fs_call_sites : list (string * string * string) :=\n  %s.\n", c18CoqPairList(sites))
		return b.String(), nil
	})
}
