package main

import (
	"fmt"
	"go/ast"
	"go/constant"
	"go/token"
	"path/filepath"
	"sort"
	"strconv"
	"strings"

	"sigs.k8s.io/kustomize/kyaml/openapi"
	kyaml "sigs.k8s.io/kustomize/kyaml/yaml"
)

// WalkTables.v: the tables the walker properties (C04, C15) depend on.
//
//   - yaml.AssociativeSequenceKeys, the "$patch" key, the directive spellings (iota order, from the
//     stringer linecomments cross-checked with smpdirective_string.go) and the Sources indexes are
//     extracted from the SOURCE with go/parser;
//   - the builtin OpenAPI schema is a protobuf asset compiled into kyaml: it is read through the imported
//     package (module replace => /repo/kyaml, so it is the working tree's asset) and projected to the
//     schema nodes that carry an x-kubernetes-patch-strategy.

func c04StringSliceVar(dir, file, name string) ([]string, error) {
	_, files, err := parseDir(dir)
	if err != nil {
		return nil, err
	}
	for _, f := range files {
		for _, d := range f.Decls {
			gd, ok := d.(*ast.GenDecl)
			if !ok || gd.Tok != token.VAR {
				continue
			}
			for _, s := range gd.Specs {
				vs := s.(*ast.ValueSpec)
				for i, n := range vs.Names {
					if n.Name != name || i >= len(vs.Values) {
						continue
					}
					cl, ok := vs.Values[i].(*ast.CompositeLit)
					if !ok {
						return nil, fmt.Errorf("%s is not a composite literal", name)
					}
					out := []string{}
					for _, e := range cl.Elts {
						bl, ok := e.(*ast.BasicLit)
						if !ok || bl.Kind != token.STRING {
							return nil, fmt.Errorf("%s: non-literal element", name)
						}
						out = append(out, constant.StringVal(constant.MakeFromLiteral(bl.Value, token.STRING, 0)))
					}
					return out, nil
				}
			}
		}
	}
	return nil, fmt.Errorf("var %s not found in %s", name, dir)
}

// iotaBlock returns the names (and line comments) of the const block that declares `first` with iota.
func iotaBlock(dir, first string) (names []string, comments []string, err error) {
	_, files, err := parseDir(dir)
	if err != nil {
		return nil, nil, err
	}
	for _, f := range files {
		for _, d := range f.Decls {
			gd, ok := d.(*ast.GenDecl)
			if !ok || gd.Tok != token.CONST || len(gd.Specs) == 0 {
				continue
			}
			vs0 := gd.Specs[0].(*ast.ValueSpec)
			if len(vs0.Names) != 1 || vs0.Names[0].Name != first {
				continue
			}
			usesIota := false
			for _, v := range vs0.Values {
				ast.Inspect(v, func(n ast.Node) bool {
					if id, ok := n.(*ast.Ident); ok && id.Name == "iota" {
						usesIota = true
					}
					return true
				})
			}
			if !usesIota {
				return nil, nil, fmt.Errorf("%s does not start an iota block", first)
			}
			for i, s := range gd.Specs {
				vs := s.(*ast.ValueSpec)
				if len(vs.Names) != 1 || (i > 0 && len(vs.Values) != 0) {
					return nil, nil, fmt.Errorf("const block of %s is not a plain iota enumeration", first)
				}
				names = append(names, vs.Names[0].Name)
				c := ""
				if vs.Comment != nil {
					c = strings.TrimSpace(vs.Comment.Text())
				}
				comments = append(comments, c)
			}
			return names, comments, nil
		}
	}
	return nil, nil, fmt.Errorf("const block starting with %s not found in %s", first, dir)
}

func coqStrs(l []string) string {
	parts := make([]string, len(l))
	for i, s := range l {
		parts[i] = coqStr(s)
	}
	return "[" + strings.Join(parts, "; ") + "]"
}

type mergeRow struct {
	kind, av string
	path     []string
	strategy string
	keys     []string
}

func collectMergeLists(kind, av string) ([]mergeRow, error) {
	rs := openapi.SchemaForResourceType(kyaml.TypeMeta{Kind: kind, APIVersion: av})
	if rs == nil {
		return nil, fmt.Errorf("no builtin schema for %s %s", kind, av)
	}
	var rows []mergeRow
	var rec func(s *openapi.ResourceSchema, path []string, refs map[string]bool, depth int)
	rec = func(s *openapi.ResourceSchema, path []string, refs map[string]bool, depth int) {
		if s == nil || s.Schema == nil || depth > 14 {
			return
		}
		strategy, keys := s.PatchStrategyAndKeyList()
		if strategy != "" {
			rows = append(rows, mergeRow{kind, av, append([]string{}, path...), strategy, append([]string{}, keys...)})
		}
		// cycle guard: the set of property names seen at this type (ID is empty for resolved refs, so use
		// a structural fingerprint of the property list)
		names := make([]string, 0, len(s.Schema.Properties))
		for n := range s.Schema.Properties {
			names = append(names, n)
		}
		sort.Strings(names)
		fp := strings.Join(names, ",") + "|" + s.Schema.Description
		if len(names) > 0 {
			if refs[fp] {
				return
			}
			refs = copyAdd(refs, fp)
		}
		for _, n := range names {
			rec(s.Field(n), append(path, n), refs, depth+1)
		}
		if len(s.Schema.Type) == 1 && s.Schema.Type[0] == "array" && s.Schema.Items != nil && s.Schema.Items.Schema != nil {
			rec(s.Elements(), append(path, "[]"), refs, depth+1)
		}
	}
	rec(rs, nil, map[string]bool{}, 0)
	sort.SliceStable(rows, func(i, j int) bool {
		return strings.Join(rows[i].path, ".") < strings.Join(rows[j].path, ".")
	})
	return rows, nil
}

func copyAdd(m map[string]bool, k string) map[string]bool {
	o := make(map[string]bool, len(m)+1)
	for x := range m {
		o[x] = true
	}
	o[k] = true
	return o
}

func init() {
	registerGen("WalkTables.v", func(repo string) (string, error) {
		var b strings.Builder
		b.WriteString("From Coq Require Import List String.\nImport ListNotations.\nOpen Scope string_scope.\n\n")

		keys, err := c04StringSliceVar(filepath.Join(repo, "kyaml/yaml"), "rnode.go", "AssociativeSequenceKeys")
		if err != nil {
			return "", err
		}
		fmt.Fprintf(&b, "(* kyaml/yaml/rnode.go: var AssociativeSequenceKeys *)\nDefinition gen_assoc_keys : list string := %s.\n\n", coqStrs(keys))

		m2dir := filepath.Join(repo, "kyaml/yaml/merge2")
		consts, err := constStrings(m2dir)
		if err != nil {
			return "", err
		}
		smpKey, ok := consts["strategicMergePatchDirectiveKey"]
		if !ok {
			return "", fmt.Errorf("const strategicMergePatchDirectiveKey not found")
		}
		fmt.Fprintf(&b, "(* kyaml/yaml/merge2/smpdirective.go: const strategicMergePatchDirectiveKey *)\nDefinition gen_smp_key : string := %s.\n\n", coqStr(smpKey))

		names, comments, err := iotaBlock(m2dir, "smpUnknown")
		if err != nil {
			return "", err
		}
		// cross-check with the generated stringer table
		all, ok := consts["_smpDirective_name"]
		if !ok {
			return "", fmt.Errorf("_smpDirective_name not found (smpdirective_string.go)")
		}
		if strings.Join(comments, "") != all {
			return "", fmt.Errorf("smpDirective linecomments %v disagree with _smpDirective_name %q", comments, all)
		}
		fmt.Fprintf(&b, "(* kyaml/yaml/merge2/smpdirective.go + smpdirective_string.go: String() of %s (iota order) *)\n", strings.Join(names, ", "))
		fmt.Fprintf(&b, "Definition gen_smp_directives : list string := %s.\n\n", coqStrs(comments))

		wnames, _, err := iotaBlock(filepath.Join(repo, "kyaml/yaml/walk"), "DestIndex")
		if err != nil {
			return "", err
		}
		parts := []string{}
		for i, n := range wnames {
			parts = append(parts, "("+coqStr(n)+", "+strconv.Itoa(i)+")")
		}
		fmt.Fprintf(&b, "(* kyaml/yaml/walk/walk.go: indexes of the walker's Sources *)\nDefinition gen_source_indexes : list (string * nat) := [%s].\n\n", strings.Join(parts, "; "))

		// api/internal/utils/annotations.go: the build annotations ApplySmPatch reads on the patch
		utilsDir := filepath.Join(repo, "api/internal/utils")
		konfigConsts, err := constStrings(filepath.Join(repo, "api/konfig"))
		if err != nil {
			return "", err
		}
		utilsConsts, err := constStrings(utilsDir)
		if err != nil {
			return "", err
		}
		for _, kv := range [][2]string{{"BuildAnnotationAllowNameChange", "gen_allow_name_key"}, {"BuildAnnotationAllowKindChange", "gen_allow_kind_key"}} {
			v, err := selectorConcat(utilsDir, kv[0], "konfig", konfigConsts)
			if err != nil {
				return "", err
			}
			fmt.Fprintf(&b, "(* api/internal/utils/annotations.go: %s *)\nDefinition %s : string := %s.\n\n", kv[0], kv[1], coqStr(v))
		}
		enabled, ok := utilsConsts["Enabled"]
		if !ok {
			return "", fmt.Errorf("const Enabled not found in %s", utilsDir)
		}
		fmt.Fprintf(&b, "(* api/internal/utils/annotations.go: Enabled *)\nDefinition gen_enabled : string := %s.\n\n", coqStr(enabled))

		kinds := []struct{ kind, av string }{
			{"Deployment", "apps/v1"}, {"StatefulSet", "apps/v1"}, {"DaemonSet", "apps/v1"}, {"ReplicaSet", "apps/v1"},
			{"Job", "batch/v1"}, {"CronJob", "batch/v1"},
			{"Pod", "v1"}, {"Service", "v1"}, {"ConfigMap", "v1"}, {"Secret", "v1"}, {"ServiceAccount", "v1"},
			{"PersistentVolumeClaim", "v1"}, {"Namespace", "v1"}, {"Endpoints", "v1"},
			{"Ingress", "networking.k8s.io/v1"}, {"NetworkPolicy", "networking.k8s.io/v1"},
			{"Role", "rbac.authorization.k8s.io/v1"}, {"ClusterRole", "rbac.authorization.k8s.io/v1"},
			{"RoleBinding", "rbac.authorization.k8s.io/v1"}, {"ClusterRoleBinding", "rbac.authorization.k8s.io/v1"},
		}
		b.WriteString("(* builtin OpenAPI schema as loaded by kyaml/openapi: every schema node with an x-kubernetes-patch-strategy,\n" +
			"   (kind, apiVersion, path with \"[]\" for \"elements of\", strategy, keys = PatchStrategyAndKeyList) *)\n")
		b.WriteString("Definition gen_merge_lists : list (string * string * list string * string * list string) := [\n")
		first := true
		total := 0
		for _, k := range kinds {
			rows, err := collectMergeLists(k.kind, k.av)
			if err != nil {
				return "", err
			}
			for _, r := range rows {
				if !first {
					b.WriteString(";\n")
				}
				first = false
				fmt.Fprintf(&b, "  (%s, %s, %s, %s, %s)", coqStr(r.kind), coqStr(r.av), coqStrs(r.path), coqStr(r.strategy), coqStrs(r.keys))
				total++
			}
		}
		b.WriteString("\n].\n")
		if total == 0 {
			return "", fmt.Errorf("no merge lists found in the builtin schema")
		}
		return b.String(), nil
	})
}

// selectorConcat evaluates a constant of the form  pkg.Name + "literal" (+ ...)  where pkg.Name is looked up
// in the constants of the imported package.
func selectorConcat(dir, name, pkg string, pkgConsts map[string]string) (string, error) {
	_, files, err := parseDir(dir)
	if err != nil {
		return "", err
	}
	var eval func(e ast.Expr) (string, bool)
	eval = func(e ast.Expr) (string, bool) {
		switch x := e.(type) {
		case *ast.BasicLit:
			if x.Kind != token.STRING {
				return "", false
			}
			return constant.StringVal(constant.MakeFromLiteral(x.Value, token.STRING, 0)), true
		case *ast.BinaryExpr:
			if x.Op != token.ADD {
				return "", false
			}
			a, ok1 := eval(x.X)
			b, ok2 := eval(x.Y)
			return a + b, ok1 && ok2
		case *ast.ParenExpr:
			return eval(x.X)
		case *ast.SelectorExpr:
			if id, ok := x.X.(*ast.Ident); ok && id.Name == pkg {
				v, ok := pkgConsts[x.Sel.Name]
				return v, ok
			}
		}
		return "", false
	}
	for _, f := range files {
		for _, d := range f.Decls {
			gd, ok := d.(*ast.GenDecl)
			if !ok || gd.Tok != token.CONST {
				continue
			}
			for _, sp := range gd.Specs {
				vs := sp.(*ast.ValueSpec)
				for i, n := range vs.Names {
					if n.Name == name && i < len(vs.Values) {
						if v, ok := eval(vs.Values[i]); ok {
							return v, nil
						}
						return "", fmt.Errorf("cannot evaluate const %s", name)
					}
				}
			}
		}
	}
	return "", fmt.Errorf("const %s not found in %s", name, dir)
}
