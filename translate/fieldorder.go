package main

// C20 translators.
//   Gen/FieldOrder.v   : kyaml/yaml/order.go  fieldSortOrder (source order, duplicates kept) — the
//                        FieldOrder map is NOT evaluated here: the model rebuilds it from the list with
//                        the "later index wins" rule, and this translator fails unless the initialiser of
//                        FieldOrder still has exactly the shape that rule was read from.
//   Gen/FmtWhitelist.v : WhitelistedListSortKinds / Apis / Fields, plus the constants of fmtr.go
//                        (annotation key, strategies) and compatibility.go (typeToTag) the model uses.
// Anything that is not a plain string literal (or a known string constant) makes generation fail, so
// the obligations depending on the file fail rather than pass.

import (
	"bytes"
	"fmt"
	"go/ast"
	"go/constant"
	"go/printer"
	"go/token"
	"path/filepath"
	"strings"
)

func c20FindVar(files []*ast.File, name string) ast.Expr {
	for _, f := range files {
		for _, d := range f.Decls {
			gd, ok := d.(*ast.GenDecl)
			if !ok || gd.Tok != token.VAR {
				continue
			}
			for _, s := range gd.Specs {
				vs := s.(*ast.ValueSpec)
				for i, n := range vs.Names {
					if n.Name == name && i < len(vs.Values) {
						return vs.Values[i]
					}
				}
			}
		}
	}
	return nil
}

func c20FindFunc(files []*ast.File, recv, name string) *ast.FuncDecl {
	for _, f := range files {
		for _, d := range f.Decls {
			fd, ok := d.(*ast.FuncDecl)
			if !ok || fd.Name.Name != name {
				continue
			}
			r := ""
			if fd.Recv != nil && len(fd.Recv.List) == 1 {
				switch t := fd.Recv.List[0].Type.(type) {
				case *ast.Ident:
					r = t.Name
				case *ast.StarExpr:
					if id, ok := t.X.(*ast.Ident); ok {
						r = "*" + id.Name
					}
				}
			}
			if r == recv {
				return fd
			}
		}
	}
	return nil
}

// c20Src prints a node without comments and with all white space collapsed.
func c20Src(fset *token.FileSet, n ast.Node) string {
	var b bytes.Buffer
	_ = printer.Fprint(&b, fset, n)
	out := []string{}
	for _, line := range strings.Split(b.String(), "\n") {
		if i := strings.Index(line, "//"); i >= 0 {
			line = line[:i]
		}
		out = append(out, strings.Fields(line)...)
	}
	return strings.Join(out, " ")
}

func c20StrLit(e ast.Expr, consts map[string]string) (string, error) {
	switch x := e.(type) {
	case *ast.BasicLit:
		if x.Kind != token.STRING {
			return "", fmt.Errorf("not a string literal: %s", x.Value)
		}
		return constant.StringVal(constant.MakeFromLiteral(x.Value, token.STRING, 0)), nil
	case *ast.Ident:
		if s, ok := consts[x.Name]; ok {
			return s, nil
		}
		return "", fmt.Errorf("identifier %s is not a known string constant", x.Name)
	}
	return "", fmt.Errorf("unsupported expression %T", e)
}

func c20StrSlice(e ast.Expr, wantType string, fset *token.FileSet) ([]string, error) {
	cl, ok := e.(*ast.CompositeLit)
	if !ok {
		return nil, fmt.Errorf("not a composite literal")
	}
	if got := c20Src(fset, cl.Type); got != wantType {
		return nil, fmt.Errorf("type %s, want %s", got, wantType)
	}
	out := []string{}
	for _, el := range cl.Elts {
		s, err := c20StrLit(el, nil)
		if err != nil {
			return nil, err
		}
		out = append(out, s)
	}
	return out, nil
}

func c20SetCall(e ast.Expr) ([]string, error) {
	ce, ok := e.(*ast.CallExpr)
	if !ok {
		return nil, fmt.Errorf("not a call")
	}
	id, ok := ce.Fun.(*ast.Ident)
	if !ok || id.Name != "newSet" || ce.Ellipsis != token.NoPos {
		return nil, fmt.Errorf("not a plain newSet(...) call")
	}
	out := []string{}
	for _, a := range ce.Args {
		s, err := c20StrLit(a, nil)
		if err != nil {
			return nil, err
		}
		out = append(out, s)
	}
	return out, nil
}

func c20List(name string, l []string) string {
	var b strings.Builder
	fmt.Fprintf(&b, "Definition %s : list string := [\n", name)
	for i, s := range l {
		sep := ";"
		if i == len(l)-1 {
			sep = ""
		}
		fmt.Fprintf(&b, "  %s%s\n", coqStr(s), sep)
	}
	b.WriteString("].\n\n")
	return b.String()
}

func c20Pairs(name string, l [][2]string) string {
	var b strings.Builder
	fmt.Fprintf(&b, "Definition %s : list (string * string) := [\n", name)
	for i, s := range l {
		sep := ";"
		if i == len(l)-1 {
			sep = ""
		}
		fmt.Fprintf(&b, "  (%s, %s)%s\n", coqStr(s[0]), coqStr(s[1]), sep)
	}
	b.WriteString("].\n\n")
	return b.String()
}

// shapes the hand-written model was read from (white space and comments ignored)
const (
	c20FieldOrderShape = `func() map[string]int { fo := map[string]int{} for i, f := range fieldSortOrder { fo[f] = i + 1 } return fo }()`
	c20NewSetShape     = `func newSet(values ...string) set { m := map[string]interface{}{} for _, value := range values { m[value] = nil } return m }`
	c20HasShape        = `func (s set) Has(key string) bool { _, found := s[key] return found }`
)

func init() {
	registerGen("FieldOrder.v", func(repo string) (string, error) {
		dir := filepath.Join(repo, "kyaml/yaml")
		fset, files, err := parseDir(dir)
		if err != nil {
			return "", err
		}
		fso := c20FindVar(files, "fieldSortOrder")
		if fso == nil {
			return "", fmt.Errorf("fieldSortOrder not found")
		}
		lst, err := c20StrSlice(fso, "[]string", fset)
		if err != nil {
			return "", fmt.Errorf("fieldSortOrder: %v", err)
		}
		fo := c20FindVar(files, "FieldOrder")
		if fo == nil {
			return "", fmt.Errorf("FieldOrder not found")
		}
		if got := c20Src(fset, fo); got != c20FieldOrderShape {
			return "", fmt.Errorf("FieldOrder initialiser changed shape: %s", got)
		}
		var b strings.Builder
		b.WriteString("From KV Require Import Base.Prelude.\nOpen Scope string_scope.\n\n")
		b.WriteString("(* kyaml/yaml/order.go: fieldSortOrder, in source order, duplicates kept.\n")
		b.WriteString("   FieldOrder[f] = (last index of f) + 1  — the initialiser's shape is checked by the translator. *)\n")
		b.WriteString(c20List("field_sort_order", lst))
		return b.String(), nil
	})

	registerGen("FmtWhitelist.v", func(repo string) (string, error) {
		dir := filepath.Join(repo, "kyaml/yaml")
		fset, files, err := parseDir(dir)
		if err != nil {
			return "", err
		}
		ns := c20FindFunc(files, "", "newSet")
		has := c20FindFunc(files, "set", "Has")
		if ns == nil || has == nil {
			return "", fmt.Errorf("newSet / set.Has not found")
		}
		if got := c20Src(fset, ns); got != c20NewSetShape {
			return "", fmt.Errorf("newSet changed shape: %s", got)
		}
		if got := c20Src(fset, has); got != c20HasShape {
			return "", fmt.Errorf("set.Has changed shape: %s", got)
		}
		var b strings.Builder
		b.WriteString("From KV Require Import Base.Prelude.\nOpen Scope string_scope.\n\n")
		for _, t := range []struct{ goName, coqName string }{
			{"WhitelistedListSortKinds", "wl_kinds"},
			{"WhitelistedListSortApis", "wl_apis"},
		} {
			e := c20FindVar(files, t.goName)
			if e == nil {
				return "", fmt.Errorf("%s not found", t.goName)
			}
			l, err := c20SetCall(e)
			if err != nil {
				return "", fmt.Errorf("%s: %v", t.goName, err)
			}
			b.WriteString(c20List(t.coqName, l))
		}
		// WhitelistedListSortFields: map[string]string literal
		e := c20FindVar(files, "WhitelistedListSortFields")
		if e == nil {
			return "", fmt.Errorf("WhitelistedListSortFields not found")
		}
		cl, ok := e.(*ast.CompositeLit)
		if !ok || c20Src(fset, cl.Type) != "map[string]string" {
			return "", fmt.Errorf("WhitelistedListSortFields is not a map[string]string literal")
		}
		pairs := [][2]string{}
		for _, el := range cl.Elts {
			kv, ok := el.(*ast.KeyValueExpr)
			if !ok {
				return "", fmt.Errorf("WhitelistedListSortFields: element is not key: value")
			}
			k, err := c20StrLit(kv.Key, nil)
			if err != nil {
				return "", fmt.Errorf("WhitelistedListSortFields: %v", err)
			}
			v, err := c20StrLit(kv.Value, nil)
			if err != nil {
				return "", fmt.Errorf("WhitelistedListSortFields: %v", err)
			}
			pairs = append(pairs, [2]string{k, v})
		}
		b.WriteString("(* path of the list -> field its elements are sorted by (\"\" = primitive elements) *)\n")
		b.WriteString(c20Pairs("wl_fields", pairs))

		// compatibility.go: typeToTag (OpenAPI type -> YAML tag); values are NodeTag* constants
		consts, err := constStrings(dir)
		if err != nil {
			return "", err
		}
		tt := c20FindVar(files, "typeToTag")
		if tt == nil {
			return "", fmt.Errorf("typeToTag not found")
		}
		tcl, ok := tt.(*ast.CompositeLit)
		if !ok || c20Src(fset, tcl.Type) != "map[string]string" {
			return "", fmt.Errorf("typeToTag is not a map[string]string literal")
		}
		tpairs := [][2]string{}
		for _, el := range tcl.Elts {
			kv, ok := el.(*ast.KeyValueExpr)
			if !ok {
				return "", fmt.Errorf("typeToTag: element is not key: value")
			}
			k, err := c20StrLit(kv.Key, consts)
			if err != nil {
				return "", fmt.Errorf("typeToTag: %v", err)
			}
			v, err := c20StrLit(kv.Value, consts)
			if err != nil {
				return "", fmt.Errorf("typeToTag: %v", err)
			}
			tpairs = append(tpairs, [2]string{k, v})
		}
		b.WriteString("(* kyaml/yaml/compatibility.go: typeToTag *)\n")
		b.WriteString(c20Pairs("type_to_tag", tpairs))
		nullTag, ok := consts["NodeTagNull"]
		if !ok {
			return "", fmt.Errorf("NodeTagNull not found")
		}
		fmt.Fprintf(&b, "Definition node_tag_null : string := %s.\n\n", coqStr(nullTag))

		// fmtr.go constants
		fconsts, err := constStrings(filepath.Join(repo, "kyaml/kio/filters"))
		if err != nil {
			return "", err
		}
		for _, t := range []struct{ goName, coqName string }{
			{"FmtAnnotation", "fmt_annotation"},
			{"FmtStrategyStandard", "fmt_strategy_standard"},
			{"FmtStrategyNone", "fmt_strategy_none"},
		} {
			s, ok := fconsts[t.goName]
			if !ok {
				return "", fmt.Errorf("constant %s not found in kio/filters", t.goName)
			}
			fmt.Fprintf(&b, "Definition %s : string := %s.\n", t.coqName, coqStr(s))
		}
		// kioutil reader annotations cleared by ByteWriter
		kconsts, err := constStrings(filepath.Join(repo, "kyaml/kio/kioutil"))
		if err != nil {
			return "", err
		}
		ra := []string{}
		for _, n := range []string{"IndexAnnotation", "LegacyIndexAnnotation", "SeqIndentAnnotation"} {
			s, ok := kconsts[n]
			if !ok {
				return "", fmt.Errorf("constant %s not found in kio/kioutil", n)
			}
			ra = append(ra, s)
		}
		b.WriteString("\n(* annotations ByteWriter.Write clears, in the order it clears them *)\n")
		b.WriteString(c20List("reader_annotations", ra))
		return b.String(), nil
	})
}
