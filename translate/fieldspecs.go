package main

import (
	"fmt"
	"path/filepath"
	"strings"

	"sigs.k8s.io/yaml"
)

// FieldSpecs.v: the default transformer configuration tables of
// api/internal/konfig/builtinpluginconsts (field specs per directive).

type fieldSpec struct {
	Group   string `json:"group"`
	Version string `json:"version"`
	Kind    string `json:"kind"`
	Path    string `json:"path"`
	Create  bool   `json:"create"`
}

func fsTerm(f fieldSpec) string {
	return fmt.Sprintf("mkFs %s %s %s %s %s", coqStr(f.Group), coqStr(f.Version), coqStr(f.Kind), coqStr(f.Path), coqBool(f.Create))
}

func init() {
	registerGen("FieldSpecs.v", func(repo string) (string, error) {
		dir := filepath.Join(repo, "api/internal/konfig/builtinpluginconsts")
		consts, err := constStrings(dir)
		if err != nil {
			return "", err
		}
		tables := []struct{ constName, yamlKey, coqName string }{
			{"namePrefixFieldSpecs", "namePrefix", "gen_name_prefix_fs"},
			{"nameSuffixFieldSpecs", "nameSuffix", "gen_name_suffix_fs"},
			{"commonLabelFieldSpecs", "commonLabels", "gen_common_labels_fs"},
			{"templateLabelFieldSpecs", "templateLabels", "gen_template_labels_fs"},
			{"commonAnnotationFieldSpecs", "commonAnnotations", "gen_common_annotations_fs"},
			{"namespaceFieldSpecs", "namespace", "gen_namespace_fs"},
			{"imagesFieldSpecs", "images", "gen_images_fs"},
			{"replicasFieldSpecs", "replicas", "gen_replicas_fs"},
			{"varReferenceFieldSpecs", "varReference", "gen_var_reference_fs"},
		}
		var b strings.Builder
		b.WriteString("From KV Require Import Yaml.FieldSpecTypes.\nOpen Scope string_scope.\n\n")
		for _, t := range tables {
			txt, ok := consts[t.constName]
			if !ok {
				return "", fmt.Errorf("constant %s not found in %s", t.constName, dir)
			}
			m := map[string][]fieldSpec{}
			if err := yaml.Unmarshal([]byte(txt), &m); err != nil {
				return "", fmt.Errorf("%s: %v", t.constName, err)
			}
			lst, ok := m[t.yamlKey]
			if !ok {
				return "", fmt.Errorf("%s: key %s missing", t.constName, t.yamlKey)
			}
			fmt.Fprintf(&b, "Definition %s : list fieldspec := [\n", t.coqName)
			for i, f := range lst {
				sep := ";"
				if i == len(lst)-1 {
					sep = ""
				}
				fmt.Fprintf(&b, "  %s%s\n", fsTerm(f), sep)
			}
			b.WriteString("].\n\n")
		}
		return b.String(), nil
	})
}
