package main

import (
	"fmt"
	"go/ast"
	"go/token"
	"go/types"
	"os"
	"path/filepath"
	"sort"
	"strings"

	"golang.org/x/tools/go/packages"
)

// PanicSites.v (property C12): every place in the kustomize packages reachable (import closure)
// from api/krusty, plus the YAML reader packages the property names, where the Go code can
// terminate abnormally by its own doing:
//
//	SkPanic        call of the builtin panic, log.Panic*, (*log.Logger).Panic*
//	SkFatal        log.Fatal*, (*log.Logger).Fatal*
//	SkExit         os.Exit
//	SkAssert       single-value type assertion x.(T)  (panics when the dynamic type differs)
//	SkMustCompile  regexp.MustCompile / MustCompilePOSIX of a non-constant expression
//	SkMustCall     call of a kustomize function or method named Must* / *OrDie (MustYaml, MustString,
//	               MustParse, MustAsset, NewLoaderOrDie ...): the helper panics or exits on behalf of
//	               its caller, so every call is a site of the caller
//	SkOther        a call the translator recognises as terminating but cannot classify
//	               (runtime.Goexit, syscall.Exit, klog.Fatal* ...): never allow-listed, so it
//	               fails the obligation.
//
// A site is keyed by (package, function, kind, ordinal of that kind within the function in source
// order) — not by file or line — so moving code around does not change the table. "function" is the
// enclosing top-level declaration: `F`, `(*T).M`, `T.M`, `init#k` (k-th init of the package, files in
// name order), or `var X` for a package-level initialiser; function literals belong to their
// enclosing declaration.
//
// Over-approximation: the closure is taken at package level (every function of a reachable package
// is listed whether or not Run can call it). The obligation Gen_panic_sites_ok
// (Glob/PanicAllowProofs.v) demands a hand-written justification for every site.

const kustomizePrefix = "sigs.k8s.io/kustomize/"

type panicSite struct {
	pkg, fn, kind string
	ord           int
	pos           string // file:line (comment only)
	text          string // source snippet (comment only)
}

// extra roots besides api/krusty: the byte-stream readers named by the property
var panicSiteRoots = []string{
	"./krusty",
	"sigs.k8s.io/kustomize/kyaml/kio",
	"./resource",
	"./resmap",
}

func loadPanicSitePackages(repo string) ([]*packages.Package, error) {
	env := append(os.Environ(), "GOWORK=off", "GOFLAGS=-mod=mod", "GOPROXY=off", "GOSUMDB=off", "GOTOOLCHAIN=local")
	dir := filepath.Join(repo, "api")
	// phase 1: import closure (names only)
	cfg1 := &packages.Config{Mode: packages.NeedName | packages.NeedImports | packages.NeedDeps, Dir: dir, Env: env}
	roots, err := packages.Load(cfg1, panicSiteRoots...)
	if err != nil {
		return nil, err
	}
	seen := map[string]bool{}
	var paths []string
	var visit func(p *packages.Package)
	visit = func(p *packages.Package) {
		if seen[p.PkgPath] {
			return
		}
		seen[p.PkgPath] = true
		if strings.HasPrefix(p.PkgPath, kustomizePrefix) {
			paths = append(paths, p.PkgPath)
		}
		for _, q := range p.Imports {
			visit(q)
		}
	}
	for _, p := range roots {
		if len(p.Errors) > 0 {
			return nil, fmt.Errorf("loading %s: %v", p.PkgPath, p.Errors[0])
		}
		visit(p)
	}
	sort.Strings(paths)
	if len(paths) < 20 {
		return nil, fmt.Errorf("import closure of api/krusty suspiciously small: %d kustomize packages", len(paths))
	}
	// phase 2: syntax + types of exactly those packages (dependencies come from export data)
	cfg2 := &packages.Config{Mode: packages.NeedName | packages.NeedFiles | packages.NeedCompiledGoFiles | packages.NeedSyntax |
		packages.NeedTypes | packages.NeedTypesInfo | packages.NeedImports, Dir: dir, Env: env}
	pkgs, err := packages.Load(cfg2, paths...)
	if err != nil {
		return nil, err
	}
	for _, p := range pkgs {
		if len(p.Errors) > 0 {
			return nil, fmt.Errorf("type-checking %s: %v", p.PkgPath, p.Errors[0])
		}
		if p.TypesInfo == nil || len(p.Syntax) == 0 {
			return nil, fmt.Errorf("no syntax/types for %s", p.PkgPath)
		}
	}
	sort.Slice(pkgs, func(i, j int) bool { return pkgs[i].PkgPath < pkgs[j].PkgPath })
	return pkgs, nil
}

func recvName(fd *ast.FuncDecl) string {
	if fd.Recv == nil || len(fd.Recv.List) == 0 {
		return ""
	}
	var tname func(e ast.Expr) string
	tname = func(e ast.Expr) string {
		switch x := e.(type) {
		case *ast.StarExpr:
			return "*" + tname(x.X)
		case *ast.Ident:
			return x.Name
		case *ast.IndexExpr:
			return tname(x.X)
		case *ast.IndexListExpr:
			return tname(x.X)
		case *ast.ParenExpr:
			return tname(x.X)
		}
		return "?"
	}
	t := tname(fd.Recv.List[0].Type)
	if strings.HasPrefix(t, "*") {
		return "(" + t + ")."
	}
	return t + "."
}

// calleeOf resolves the called function/builtin of a call expression.
func calleeOf(info *types.Info, call *ast.CallExpr) types.Object {
	fun := call.Fun
	for {
		if p, ok := fun.(*ast.ParenExpr); ok {
			fun = p.X
			continue
		}
		break
	}
	switch f := fun.(type) {
	case *ast.Ident:
		return info.Uses[f]
	case *ast.SelectorExpr:
		if sel, ok := info.Selections[f]; ok {
			return sel.Obj()
		}
		return info.Uses[f.Sel]
	}
	return nil
}

func snippet(fset *token.FileSet, src map[string][]byte, n ast.Node) string {
	p, e := fset.Position(n.Pos()), fset.Position(n.End())
	b := src[p.Filename]
	if b == nil || p.Offset < 0 || e.Offset > len(b) || p.Offset > e.Offset {
		return ""
	}
	s := string(b[p.Offset:e.Offset])
	s = strings.Join(strings.Fields(s), " ")
	if len(s) > 70 {
		s = s[:70] + "..."
	}
	s = strings.ReplaceAll(s, "\"", "'") // a double quote opens a string even inside a Coq comment
	return strings.ReplaceAll(strings.ReplaceAll(s, "*)", "* )"), "(*", "( *")
}

func scanPanicSites(repo string) ([]panicSite, []string, error) {
	pkgs, err := loadPanicSitePackages(repo)
	if err != nil {
		return nil, nil, err
	}
	var sites []panicSite
	var pkgNames []string
	for _, p := range pkgs {
		short := strings.TrimPrefix(p.PkgPath, kustomizePrefix)
		pkgNames = append(pkgNames, short)
		info := p.TypesInfo
		src := map[string][]byte{}
		// files in name order so that init#k is stable
		files := append([]*ast.File{}, p.Syntax...)
		sort.Slice(files, func(i, j int) bool {
			return p.Fset.Position(files[i].Pos()).Filename < p.Fset.Position(files[j].Pos()).Filename
		})
		for _, f := range files {
			fn := p.Fset.Position(f.Pos()).Filename
			if b, err := os.ReadFile(fn); err == nil {
				src[fn] = b
			}
		}
		initCount := 0
		for _, f := range files {
			fname := p.Fset.Position(f.Pos()).Filename
			if strings.HasSuffix(fname, "_test.go") {
				continue
			}
			for _, d := range f.Decls {
				var owner string
				var body ast.Node
				switch x := d.(type) {
				case *ast.FuncDecl:
					if x.Body == nil {
						continue
					}
					owner = recvName(x) + x.Name.Name
					if x.Recv == nil && x.Name.Name == "init" {
						owner = fmt.Sprintf("init#%d", initCount)
						initCount++
					}
					body = x.Body
					sites = append(sites, scanBody(p, info, src, short, owner, body)...)
				case *ast.GenDecl:
					if x.Tok != token.VAR {
						continue
					}
					for _, s := range x.Specs {
						vs := s.(*ast.ValueSpec)
						if len(vs.Values) == 0 {
							continue
						}
						owner = "var " + vs.Names[0].Name
						sites = append(sites, scanBody(p, info, src, short, owner, vs)...)
					}
				}
			}
		}
	}
	return sites, pkgNames, nil
}

func scanBody(p *packages.Package, info *types.Info, src map[string][]byte, pkg, owner string, body ast.Node) []panicSite {
	var out []panicSite
	ord := map[string]int{}
	add := func(kind string, n ast.Node) {
		pos := p.Fset.Position(n.Pos())
		rel := pos.Filename
		if i := strings.Index(rel, "/repo/"); i >= 0 {
			rel = rel[i+6:]
		}
		out = append(out, panicSite{pkg: pkg, fn: owner, kind: kind, ord: ord[kind],
			pos: fmt.Sprintf("%s:%d", rel, pos.Line), text: snippet(p.Fset, src, n)})
		ord[kind]++
	}
	// comma-ok assertions: the TypeAssertExpr nodes that are the sole RHS of a two-valued assignment / var spec
	commaOK := map[*ast.TypeAssertExpr]bool{}
	unparen := func(e ast.Expr) ast.Expr {
		for {
			if pe, ok := e.(*ast.ParenExpr); ok {
				e = pe.X
			} else {
				return e
			}
		}
	}
	ast.Inspect(body, func(n ast.Node) bool {
		switch x := n.(type) {
		case *ast.AssignStmt:
			if len(x.Lhs) == 2 && len(x.Rhs) == 1 {
				if ta, ok := unparen(x.Rhs[0]).(*ast.TypeAssertExpr); ok {
					commaOK[ta] = true
				}
			}
		case *ast.ValueSpec:
			if len(x.Names) == 2 && len(x.Values) == 1 {
				if ta, ok := unparen(x.Values[0]).(*ast.TypeAssertExpr); ok {
					commaOK[ta] = true
				}
			}
		}
		return true
	})
	ast.Inspect(body, func(n ast.Node) bool {
		switch x := n.(type) {
		case *ast.TypeAssertExpr:
			if x.Type == nil { // x.(type) of a type switch
				return true
			}
			if !commaOK[x] {
				add("SkAssert", x)
			}
		case *ast.CallExpr:
			obj := calleeOf(info, x)
			if obj == nil {
				return true
			}
			if b, ok := obj.(*types.Builtin); ok {
				if b.Name() == "panic" {
					add("SkPanic", x)
				}
				return true
			}
			fn, ok := obj.(*types.Func)
			if !ok || fn.Pkg() == nil {
				return true
			}
			pp, name := fn.Pkg().Path(), fn.Name()
			if strings.HasPrefix(pp, kustomizePrefix) && (strings.HasPrefix(name, "Must") || strings.HasSuffix(name, "OrDie")) {
				add("SkMustCall", x)
				return true
			}
			switch {
			case pp == "log" && strings.HasPrefix(name, "Fatal"):
				add("SkFatal", x)
			case pp == "log" && strings.HasPrefix(name, "Panic"):
				add("SkPanic", x)
			case pp == "os" && name == "Exit":
				add("SkExit", x)
			case pp == "regexp" && (name == "MustCompile" || name == "MustCompilePOSIX"):
				if len(x.Args) == 1 {
					if tv, ok := info.Types[x.Args[0]]; ok && tv.Value != nil {
						return true // constant pattern: fails at init or never
					}
				}
				add("SkMustCompile", x)
			case pp == "runtime" && name == "Goexit",
				pp == "syscall" && name == "Exit",
				(strings.HasSuffix(pp, "/klog") || strings.HasSuffix(pp, "/klog/v2") || strings.HasSuffix(pp, "/glog")) &&
					(strings.HasPrefix(name, "Fatal") || strings.HasPrefix(name, "Exit")),
				pp == "text/template" && name == "Must", pp == "html/template" && name == "Must":
				add("SkOther", x)
			}
		}
		return true
	})
	return out
}

func init() {
	registerGen("PanicSites.v", func(repo string) (string, error) {
		sites, pkgs, err := scanPanicSites(repo)
		if err != nil {
			return "", err
		}
		var b strings.Builder
		b.WriteString("From KV Require Import Glob.PanicSiteTypes.\nOpen Scope string_scope.\n\n")
		b.WriteString("(* kustomize packages in the import closure of api/krusty (+ kyaml/kio, api/resource, api/resmap) *)\n")
		b.WriteString("Definition gen_panic_pkgs : list string := [\n")
		for i, p := range pkgs {
			sep := ";"
			if i == len(pkgs)-1 {
				sep = ""
			}
			fmt.Fprintf(&b, "  %s%s\n", coqStr(p), sep)
		}
		b.WriteString("].\n\n")
		b.WriteString("Definition gen_panic_sites : list site := [\n")
		for i, s := range sites {
			sep := ";"
			if i == len(sites)-1 {
				sep = ""
			}
			fmt.Fprintf(&b, "  mkSite %s %s %s %d%s  (* %s: %s *)\n", coqStr(s.pkg), coqStr(s.fn), s.kind, s.ord, sep, s.pos, s.text)
		}
		b.WriteString("].\n")
		return b.String(), nil
	})
}
