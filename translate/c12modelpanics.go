package main

import (
	"fmt"
	"os"
	"path/filepath"
	"regexp"
	"sort"
	"strings"
)

// C12ModelPanics.v: every place where a MODEL file of the framework (coq/theories, definitions only)
// produces the outcome constructor [Panic]. Not a /repo table: it ties the Panic constructors of the
// Gallina models to documented findings (obligation Gen_model_panics_accounted, Glob/ModelPanicMap.v).
// Keyed by (file relative to coq/theories, enclosing Definition/Fixpoint, ordinal in it).
// Not counted: patterns (`| Panic => ...`), pure re-wrapping arms (`| Panic => Panic`), comments,
// other constructors whose name merely contains the word (CPanic, XPanic, SkPanic).
func init() {
	registerGen("C12ModelPanics.v", func(repo string) (string, error) {
		root := os.Getenv("VERIF_ROOT")
		if root == "" {
			wd, err := os.Getwd()
			if err != nil {
				return "", err
			}
			root = filepath.Dir(wd)
		}
		th := filepath.Join(root, "coq", "theories")
		skipName := regexp.MustCompile(`(Proofs|Facts|Examples|Totality|Invariance|Frame|Chain|Gen)\w*\.v$|^Panic`)
		declRe := regexp.MustCompile(`^\s*(?:Definition|Fixpoint|Function|Let|Local Definition)\s+([A-Za-z0-9_']+)`)
		rewrap := regexp.MustCompile(`\|\s*Panic\s*=>\s*Panic\b`)
		tok := regexp.MustCompile(`\bPanic\b`)
		type site struct {
			file, def string
			ord       int
			text      string
		}
		var sites []site
		var files []string
		err := filepath.Walk(th, func(p string, info os.FileInfo, err error) error {
			if err != nil || info.IsDir() || !strings.HasSuffix(p, ".v") {
				return err
			}
			rel, _ := filepath.Rel(th, p)
			dir := strings.Split(rel, string(filepath.Separator))[0]
			if dir == "Gen" || dir == "Props" || dir == "Corr" || rel == "Base/Prelude.v" || skipName.MatchString(filepath.Base(p)) {
				return nil
			}
			files = append(files, p)
			return nil
		})
		if err != nil {
			return "", err
		}
		sort.Strings(files)
		for _, p := range files {
			data, err := os.ReadFile(p)
			if err != nil {
				return "", err
			}
			rel, _ := filepath.Rel(th, p)
			src := stripCoqComments(string(data))
			// files with proofs are not model files
			if regexp.MustCompile(`(?m)^\s*(Lemma|Theorem|Corollary)\b`).MatchString(src) {
				continue
			}
			def := ""
			ord := map[string]int{}
			for _, line := range strings.Split(src, "\n") {
				if m := declRe.FindStringSubmatch(line); m != nil {
					def = m[1]
				}
				l := rewrap.ReplaceAllString(line, "")
				for _, loc := range tok.FindAllStringIndex(l, -1) {
					rest := strings.TrimLeft(l[loc[1]:], " \t")
					if strings.HasPrefix(rest, "=>") {
						continue // a pattern
					}
					if strings.Contains(l, "Inductive") || strings.Contains(l, "Arguments") {
						continue // the declaration of the constructor itself
					}
					sites = append(sites, site{rel, def, ord[def], strings.Join(strings.Fields(line), " ")})
					ord[def]++
				}
			}
		}
		var b strings.Builder
		b.WriteString("From KV Require Import Base.Prelude.\nOpen Scope string_scope.\n\n")
		b.WriteString("(* (model file, enclosing definition, ordinal) of every producer of the outcome Panic *)\n")
		b.WriteString("Definition gen_model_panics : list (string * string * nat) := [\n")
		for i, s := range sites {
			sep := ";"
			if i == len(sites)-1 {
				sep = ""
			}
			t := strings.ReplaceAll(strings.ReplaceAll(strings.ReplaceAll(s.text, "\"", "'"), "(*", "( *"), "*)", "* )")
			if len(t) > 90 {
				t = t[:90] + "..."
			}
			fmt.Fprintf(&b, "  (%s, %s, %d)%s  (* %s *)\n", coqStr(filepath.ToSlash(s.file)), coqStr(s.def), s.ord, sep, t)
		}
		b.WriteString("].\n")
		return b.String(), nil
	})
}

// stripCoqComments blanks (nested) comments, keeping line structure; string literals are respected.
func stripCoqComments(s string) string {
	var out strings.Builder
	depth := 0
	inStr := false
	for i := 0; i < len(s); i++ {
		c := s[i]
		if depth == 0 && c == '"' {
			inStr = !inStr
			out.WriteByte(c)
			continue
		}
		if !inStr && c == '(' && i+1 < len(s) && s[i+1] == '*' {
			depth++
			i++
			out.WriteString("  ")
			continue
		}
		if !inStr && depth > 0 && c == '*' && i+1 < len(s) && s[i+1] == ')' {
			depth--
			i++
			out.WriteString("  ")
			continue
		}
		if depth > 0 {
			if c == '\n' {
				out.WriteByte('\n')
			} else {
				out.WriteByte(' ')
			}
			continue
		}
		out.WriteByte(c)
	}
	return out.String()
}
