package main

import (
	"fmt"
	"go/ast"
	"go/parser"
	"go/token"
	"path/filepath"
	"strings"
)

// TransformerOrder.v (integrated pipeline model, check id PIPE): the order in which
// KustTarget.configureBuiltinTransformers configures (and runTransformers therefore runs) the builtin
// transformers of one kustomization, and the order of the builtin generators.
//
//   gen_transformer_order   the elements of the []builtinhelpers.BuiltinPluginType slice literal ranged over in
//                           configureBuiltinTransformers (api/internal/target/kusttarget_configplugin.go), in order
//   gen_generator_order     the same for configureBuiltinGenerators
//
// The literal must be the operand of the function's first `range` statement and consist of
// `builtinhelpers.<Name>` selectors only; anything else makes the generation fail.
func init() {
	registerGen("TransformerOrder.v", genPipeOrder)
}

func pipeOrderOf(f *ast.File, fn string) ([]string, error) {
	for _, d := range f.Decls {
		fd, ok := d.(*ast.FuncDecl)
		if !ok || fd.Name.Name != fn || fd.Body == nil {
			continue
		}
		var found []string
		var ferr error
		done := false
		ast.Inspect(fd.Body, func(n ast.Node) bool {
			if done {
				return false
			}
			rs, ok := n.(*ast.RangeStmt)
			if !ok {
				return true
			}
			done = true
			cl, ok := rs.X.(*ast.CompositeLit)
			if !ok {
				ferr = fmt.Errorf("%s: first range operand is not a composite literal", fn)
				return false
			}
			at, ok := cl.Type.(*ast.ArrayType)
			if !ok || at.Len != nil {
				ferr = fmt.Errorf("%s: range operand is not a slice literal", fn)
				return false
			}
			if se, ok := at.Elt.(*ast.SelectorExpr); !ok || se.Sel.Name != "BuiltinPluginType" {
				ferr = fmt.Errorf("%s: slice literal is not []builtinhelpers.BuiltinPluginType", fn)
				return false
			}
			for _, el := range cl.Elts {
				se, ok := el.(*ast.SelectorExpr)
				if !ok {
					ferr = fmt.Errorf("%s: element is not a builtinhelpers.<Name> selector", fn)
					return false
				}
				if x, ok := se.X.(*ast.Ident); !ok || x.Name != "builtinhelpers" {
					ferr = fmt.Errorf("%s: element is not a builtinhelpers.<Name> selector", fn)
					return false
				}
				found = append(found, se.Sel.Name)
			}
			return false
		})
		if ferr != nil {
			return nil, ferr
		}
		if !done {
			return nil, fmt.Errorf("%s: no range statement", fn)
		}
		return found, nil
	}
	return nil, fmt.Errorf("function %s not found", fn)
}

func genPipeOrder(repo string) (string, error) {
	path := filepath.Join(repo, "api/internal/target/kusttarget_configplugin.go")
	fset := token.NewFileSet()
	f, err := parser.ParseFile(fset, path, nil, 0)
	if err != nil {
		return "", err
	}
	tr, err := pipeOrderOf(f, "configureBuiltinTransformers")
	if err != nil {
		return "", err
	}
	ge, err := pipeOrderOf(f, "configureBuiltinGenerators")
	if err != nil {
		return "", err
	}
	var b strings.Builder
	b.WriteString("From KV Require Import Base.Prelude.\n\n")
	b.WriteString("(* configureBuiltinTransformers: builtin transformer kinds in configuration (= execution) order *)\n")
	b.WriteString("Definition gen_transformer_order : list string := " + coqStrListT(tr) + ".\n\n")
	b.WriteString("(* configureBuiltinGenerators: builtin generator kinds in configuration (= execution) order *)\n")
	b.WriteString("Definition gen_generator_order : list string := " + coqStrListT(ge) + ".\n")
	return b.String(), nil
}
