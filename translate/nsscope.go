package main

import (
	"fmt"
	"go/ast"
	"go/constant"
	"go/token"
	"path/filepath"
	"sort"
	"strings"
)

// NsScope.v: the precomputedIsNamespaceScoped composite literal of kyaml/openapi/openapi.go
// (map[yaml.TypeMeta]bool): for every (apiVersion, kind) whether the type is namespace-scoped.
// Every element must be of the shape {APIVersion: "<lit>", Kind: "<lit>"}: true|false; anything the
// translator cannot read makes the generation fail (the obligations depending on the table then fail).

type nsEntry struct {
	apiVersion, kind string
	namespaced       bool
}

func strLit(e ast.Expr) (string, bool) {
	bl, ok := e.(*ast.BasicLit)
	if !ok || bl.Kind != token.STRING {
		return "", false
	}
	return constant.StringVal(constant.MakeFromLiteral(bl.Value, token.STRING, 0)), true
}

func init() {
	registerGen("NsScope.v", func(repo string) (string, error) {
		dir := filepath.Join(repo, "kyaml/openapi")
		_, files, err := parseDir(dir)
		if err != nil {
			return "", err
		}
		var lit *ast.CompositeLit
		for _, f := range files {
			for _, d := range f.Decls {
				gd, ok := d.(*ast.GenDecl)
				if !ok || gd.Tok != token.VAR {
					continue
				}
				for _, s := range gd.Specs {
					vs := s.(*ast.ValueSpec)
					for i, n := range vs.Names {
						if n.Name == "precomputedIsNamespaceScoped" && i < len(vs.Values) {
							if cl, ok := vs.Values[i].(*ast.CompositeLit); ok {
								lit = cl
							}
						}
					}
				}
			}
		}
		if lit == nil {
			return "", fmt.Errorf("var precomputedIsNamespaceScoped (composite literal) not found in %s", dir)
		}
		var entries []nsEntry
		seen := map[string]bool{}
		for _, el := range lit.Elts {
			kv, ok := el.(*ast.KeyValueExpr)
			if !ok {
				return "", fmt.Errorf("precomputedIsNamespaceScoped: element is not key: value")
			}
			key, ok := kv.Key.(*ast.CompositeLit)
			if !ok {
				return "", fmt.Errorf("precomputedIsNamespaceScoped: key is not a composite literal")
			}
			e := nsEntry{}
			gotAV, gotK := false, false
			for _, fe := range key.Elts {
				fkv, ok := fe.(*ast.KeyValueExpr)
				if !ok {
					return "", fmt.Errorf("precomputedIsNamespaceScoped: positional key fields are not supported")
				}
				id, ok := fkv.Key.(*ast.Ident)
				if !ok {
					return "", fmt.Errorf("precomputedIsNamespaceScoped: odd key field")
				}
				s, ok := strLit(fkv.Value)
				if !ok {
					return "", fmt.Errorf("precomputedIsNamespaceScoped: field %s is not a string literal", id.Name)
				}
				switch id.Name {
				case "APIVersion":
					e.apiVersion, gotAV = s, true
				case "Kind":
					e.kind, gotK = s, true
				default:
					return "", fmt.Errorf("precomputedIsNamespaceScoped: unknown key field %s", id.Name)
				}
			}
			if !gotAV || !gotK {
				return "", fmt.Errorf("precomputedIsNamespaceScoped: key without APIVersion or Kind")
			}
			val, ok := kv.Value.(*ast.Ident)
			if !ok || (val.Name != "true" && val.Name != "false") {
				return "", fmt.Errorf("precomputedIsNamespaceScoped: value of %s/%s is not a boolean literal", e.apiVersion, e.kind)
			}
			e.namespaced = val.Name == "true"
			k := e.apiVersion + "|" + e.kind
			if seen[k] {
				return "", fmt.Errorf("precomputedIsNamespaceScoped: duplicate key %s", k)
			}
			seen[k] = true
			entries = append(entries, e)
		}
		// a Go map has no order: sort for a deterministic file
		sort.Slice(entries, func(i, j int) bool {
			if entries[i].apiVersion != entries[j].apiVersion {
				return entries[i].apiVersion < entries[j].apiVersion
			}
			return entries[i].kind < entries[j].kind
		})
		var b strings.Builder
		b.WriteString("From KV Require Import Base.Prelude.\nOpen Scope string_scope.\n\n")
		b.WriteString("(* (apiVersion, kind, namespace-scoped?) of kyaml/openapi precomputedIsNamespaceScoped *)\n")
		b.WriteString("Definition gen_ns_scope : list (string * string * bool) := [\n")
		for i, e := range entries {
			sep := ";"
			if i == len(entries)-1 {
				sep = ""
			}
			fmt.Fprintf(&b, "  (%s, %s, %s)%s\n", coqStr(e.apiVersion), coqStr(e.kind), coqBool(e.namespaced), sep)
		}
		b.WriteString("].\n")
		return b.String(), nil
	})
}
