package main

import (
	"fmt"
	"go/ast"
	"go/types"
	"os"
	"path/filepath"
	"sort"
	"strings"

	"golang.org/x/tools/go/packages"
)

// RawReads.v: every call, in any kustomize package reachable (by imports) from api/krusty, that reads
// the file system without going through ifc.Loader:
//   - os.ReadFile / os.Open / os.OpenFile / os.ReadDir / io/ioutil.ReadFile / ioutil.ReadDir /
//     path/filepath.Walk / WalkDir / Glob
//   - os/exec.Command(Context), plugin.Open, template.ParseFiles/ParseGlob/ParseFS
//   - the methods ReadFile / Open / ReadDir / Glob / Walk of kyaml/filesys (the FileSystem interface and
//     its implementations)
// listed as (package, enclosing function, callee, number of such calls in that function).
// Reachability by imports over-approximates the call graph from krusty.Run; a call through a function
// value or an interface other than filesys.FileSystem that ends in one of the callees above is found at
// the callee's own call site, which is inside the scanned packages or the standard library.

const c05KustomizePrefix = "sigs.k8s.io/kustomize/"

var rawPkgFuncs = map[string]map[string]bool{
	"os":            {"ReadFile": true, "Open": true, "OpenFile": true, "ReadDir": true},
	"io/ioutil":     {"ReadFile": true, "ReadDir": true},
	"path/filepath": {"Walk": true, "WalkDir": true, "Glob": true},
	"io/fs":         {"ReadFile": true, "ReadDir": true, "WalkDir": true, "Glob": true},
	// other ways to get at files: running a program, loading a Go plugin, template files
	"os/exec":       {"Command": true, "CommandContext": true},
	"plugin":        {"Open": true},
	"text/template": {"ParseFiles": true, "ParseGlob": true, "ParseFS": true},
	"html/template": {"ParseFiles": true, "ParseGlob": true, "ParseFS": true},
}

var rawFsMethods = map[string]bool{"ReadFile": true, "Open": true, "ReadDir": true, "Glob": true, "Walk": true}

const filesysPkg = "sigs.k8s.io/kustomize/kyaml/filesys"

type rawSite struct {
	pkg, fn, callee string
	n               int
}

func c05FuncName(d *ast.FuncDecl) string {
	if d.Recv != nil && len(d.Recv.List) > 0 {
		t := d.Recv.List[0].Type
		for {
			switch x := t.(type) {
			case *ast.StarExpr:
				t = x.X
				continue
			case *ast.IndexExpr:
				t = x.X
				continue
			case *ast.IndexListExpr:
				t = x.X
				continue
			}
			break
		}
		if id, ok := t.(*ast.Ident); ok {
			return id.Name + "." + d.Name.Name
		}
	}
	return d.Name.Name
}

func init() {
	registerGen("RawReads.v", func(repo string) (string, error) {
		cfg := &packages.Config{
			Mode: packages.NeedName | packages.NeedFiles | packages.NeedSyntax | packages.NeedTypes |
				packages.NeedTypesInfo | packages.NeedImports | packages.NeedDeps | packages.NeedModule,
			Dir:   filepath.Join(repo, "api"),
			Env:   append(os.Environ(), "GOWORK=off", "GOFLAGS=-mod=mod", "GOPROXY=off", "GOSUMDB=off", "GOTOOLCHAIN=local", "CGO_ENABLED=0"),
			Tests: false,
		}
		pkgs, err := packages.Load(cfg, "sigs.k8s.io/kustomize/api/krusty")
		if err != nil {
			return "", err
		}
		if len(pkgs) != 1 {
			return "", fmt.Errorf("expected one root package, got %d", len(pkgs))
		}
		// reachable kustomize packages
		seen := map[string]*packages.Package{}
		var visit func(p *packages.Package)
		visit = func(p *packages.Package) {
			if _, ok := seen[p.PkgPath]; ok {
				return
			}
			seen[p.PkgPath] = p
			for _, q := range p.Imports {
				visit(q)
			}
		}
		visit(pkgs[0])
		var paths []string
		for path, p := range seen {
			if strings.HasPrefix(path, c05KustomizePrefix) {
				if len(p.Errors) > 0 {
					return "", fmt.Errorf("package %s: %v", path, p.Errors[0])
				}
				if p.TypesInfo == nil || len(p.Syntax) == 0 {
					return "", fmt.Errorf("package %s: no syntax/type information", path)
				}
				paths = append(paths, path)
			}
		}
		sort.Strings(paths)
		counts := map[[3]string]int{}
		// wrappers: functions (outside kyaml/filesys and FileLoader.Load) that contain a site; references to
		// them are sites as well, transitively.
		wrappers := map[*types.Func]bool{}
		ifaceMethods := map[string]bool{} // names of methods of interfaces declared in the scanned packages
		for _, path := range paths {
			sc := seen[path].Types.Scope()
			for _, name := range sc.Names() {
				if tn, ok := sc.Lookup(name).(*types.TypeName); ok {
					if it, ok := tn.Type().Underlying().(*types.Interface); ok {
						for i := 0; i < it.NumMethods(); i++ {
							ifaceMethods[it.Method(i).Name()] = true
						}
					}
				}
			}
		}
		for _, n := range []string{"Read", "Write", "Close", "String", "Error", "ReadFrom", "WriteTo"} {
			ifaceMethods[n] = true
		}
		sanctioned := func(pkgPath, fn string) bool {
			return pkgPath == filesysPkg || (pkgPath == c05KustomizePrefix+"api/internal/loader" && fn == "FileLoader.Load")
		}
		taintedTypes := map[*types.TypeName]bool{}
		var derived map[[3]string]int
		for round := 0; round < 30; round++ {
			changed := false
			derived = map[[3]string]int{} // "via"/"type" sites are recomputed in every round
			for _, path := range paths {
				p := seen[path]
				for _, file := range p.Syntax {
					for _, decl := range file.Decls {
						var declObj *types.Func
						where := "<package-level>"
						var body ast.Node = decl
						if d, ok := decl.(*ast.FuncDecl); ok {
							if d.Body == nil {
								continue
							}
							where = c05FuncName(d)
							body = d.Body
							declObj, _ = p.TypesInfo.Defs[d.Name].(*types.Func)
						}
						hit := func(callee string) {
							k := [3]string{path, where, callee}
							if round == 0 {
								counts[k]++
							} else {
								derived[k]++
							}
							if declObj != nil && !sanctioned(path, where) && !strings.HasPrefix(callee, "type ") && !noPropagate(callee) && !wrappers[declObj] {
								wrappers[declObj] = true
								changed = true
								// a tainted method that an interface can dispatch to: uses of its receiver type are sites
								if sig, ok := declObj.Type().(*types.Signature); ok && sig.Recv() != nil && ifaceMethods[declObj.Name()] {
									t := sig.Recv().Type()
									if pt, ok := t.(*types.Pointer); ok {
										t = pt.Elem()
									}
									if nt, ok := t.(*types.Named); ok {
										taintedTypes[nt.Obj()] = true
									}
								}
							}
						}
						var scan func(node ast.Node)
						scan = func(node ast.Node) {
							ast.Inspect(node, func(n ast.Node) bool {
								switch x := n.(type) {
								case *ast.SelectorExpr:
									if round == 0 {
										if callee := rawSelector(p.TypesInfo, x); callee != "" {
											hit(callee)
										}
									} else {
										var f *types.Func
										if s, ok := p.TypesInfo.Selections[x]; ok {
											f, _ = s.Obj().(*types.Func)
										} else {
											f, _ = p.TypesInfo.Uses[x.Sel].(*types.Func)
										}
										if f != nil && wrappers[f] && f != declObj {
											hit("via " + objName(f))
										}
										if tn, ok := p.TypesInfo.Uses[x.Sel].(*types.TypeName); ok && taintedTypes[tn] {
											hit("type " + strings.TrimPrefix(tn.Pkg().Path(), c05KustomizePrefix) + "." + tn.Name())
										}
									}
									scan(x.X)
									return false
								case *ast.Ident:
									if round == 0 {
										if callee := rawIdent(p.TypesInfo, x); callee != "" {
											hit(callee)
										}
									} else {
										if f, ok := p.TypesInfo.Uses[x].(*types.Func); ok && wrappers[f] && f != declObj {
											hit("via " + objName(f))
										}
										if tn, ok := p.TypesInfo.Uses[x].(*types.TypeName); ok && taintedTypes[tn] {
											hit("type " + strings.TrimPrefix(tn.Pkg().Path(), c05KustomizePrefix) + "." + tn.Name())
										}
									}
								}
								return true
							})
						}
						if d, ok := decl.(*ast.FuncDecl); ok && round > 0 && d.Recv != nil {
							// the receiver declaration itself is not a use of the type
							scan(d.Type)
						}
						scan(body)
					}
				}
			}
			if round > 0 && !changed {
				break
			}
			if round == 29 {
				return "", fmt.Errorf("wrapper closure did not converge")
			}
		}
		for k, n := range derived {
			counts[k] = n
		}
		var sites []rawSite
		for k, n := range counts {
			sites = append(sites, rawSite{k[0], k[1], k[2], n})
		}
		sort.Slice(sites, func(i, j int) bool {
			a, b := sites[i], sites[j]
			if a.pkg != b.pkg {
				return a.pkg < b.pkg
			}
			if a.fn != b.fn {
				return a.fn < b.fn
			}
			return a.callee < b.callee
		})
		var b strings.Builder
		b.WriteString("From KV Require Import Base.Prelude.\nOpen Scope string_scope.\n\n")
		fmt.Fprintf(&b, "(* %d kustomize packages reachable from api/krusty were scanned *)\n", len(paths))
		b.WriteString("Definition raw_read_packages : list string := [\n")
		for i, p := range paths {
			sepa := ";"
			if i == len(paths)-1 {
				sepa = ""
			}
			fmt.Fprintf(&b, "  %s%s\n", coqStr(strings.TrimPrefix(p, c05KustomizePrefix)), sepa)
		}
		b.WriteString("].\n\n")
		b.WriteString("(* (package, enclosing function, callee, number of calls) *)\n")
		b.WriteString("Definition raw_read_sites : list (string * string * string * N) := [\n")
		for i, s := range sites {
			sepa := ";"
			if i == len(sites)-1 {
				sepa = ""
			}
			fmt.Fprintf(&b, "  (%s, %s, %s, %d%%N)%s\n", coqStr(strings.TrimPrefix(s.pkg, c05KustomizePrefix)), coqStr(s.fn), coqStr(s.callee), s.n, sepa)
		}
		b.WriteString("].\n")
		return b.String(), nil
	})
}

// noPropagate: program execution / plugin loading sites are listed where they occur but their callers
// are not followed (all of them sit behind options that are off by default; following them would make
// the table mirror the call structure of the whole build).
func noPropagate(callee string) bool {
	return strings.HasPrefix(callee, "os/exec.") || strings.HasPrefix(callee, "plugin.") ||
		strings.HasPrefix(callee, "text/template.") || strings.HasPrefix(callee, "html/template.")
}

func objName(f *types.Func) string {
	name := f.Name()
	if sig, ok := f.Type().(*types.Signature); ok && sig.Recv() != nil {
		t := sig.Recv().Type()
		if p, ok := t.(*types.Pointer); ok {
			t = p.Elem()
		}
		if n, ok := t.(*types.Named); ok {
			name = n.Obj().Name() + "." + name
		}
	}
	pkg := ""
	if f.Pkg() != nil {
		pkg = strings.TrimPrefix(f.Pkg().Path(), c05KustomizePrefix)
	}
	return pkg + "." + name
}

// rawIdent classifies a bare identifier (dot-imported function); "" when it is not a raw read.
func rawIdent(info *types.Info, id *ast.Ident) string {
	if f, ok := info.Uses[id].(*types.Func); ok && f.Pkg() != nil {
		if sig, ok := f.Type().(*types.Signature); ok && sig.Recv() == nil {
			if m, ok := rawPkgFuncs[f.Pkg().Path()]; ok && m[f.Name()] {
				return f.Pkg().Path() + "." + f.Name()
			}
		}
	}
	return ""
}

// rawSelector classifies x.Sel; "" when it is not a raw file-system read.
func rawSelector(info *types.Info, sel *ast.SelectorExpr) string {
	// method (value, call or expression), possibly through embedding, of a kyaml/filesys type
	if s, ok := info.Selections[sel]; ok {
		f, ok := s.Obj().(*types.Func)
		if !ok || f.Pkg() == nil {
			return ""
		}
		if f.Pkg().Path() == filesysPkg && rawFsMethods[f.Name()] {
			recv := "FileSystem"
			if sig, ok := f.Type().(*types.Signature); ok && sig.Recv() != nil {
				t := sig.Recv().Type()
				if p, ok := t.(*types.Pointer); ok {
					t = p.Elem()
				}
				if n, ok := t.(*types.Named); ok {
					recv = n.Obj().Name()
				}
			}
			return "filesys." + recv + "." + f.Name()
		}
		return ""
	}
	// qualified identifier pkg.Func
	if f, ok := info.Uses[sel.Sel].(*types.Func); ok && f.Pkg() != nil {
		if m, ok := rawPkgFuncs[f.Pkg().Path()]; ok && m[f.Name()] {
			return f.Pkg().Path() + "." + f.Name()
		}
	}
	return ""
}
