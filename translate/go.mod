module veriftranslate

go 1.22.7

require (
	golang.org/x/tools v0.29.0
	sigs.k8s.io/yaml v1.4.0
)

require (
	golang.org/x/mod v0.22.0 // indirect
	golang.org/x/sync v0.10.0 // indirect
)
