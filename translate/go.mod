module veriftranslate

go 1.22.7

require (
	golang.org/x/tools v0.29.0
	sigs.k8s.io/yaml v1.4.0
)

require (
	github.com/davecgh/go-spew v1.1.1 // indirect
	github.com/go-errors/errors v1.4.2 // indirect
	github.com/go-openapi/jsonpointer v0.21.0 // indirect
	github.com/go-openapi/jsonreference v0.20.2 // indirect
	github.com/go-openapi/swag v0.23.0 // indirect
	github.com/google/gnostic-models v0.6.9 // indirect
	github.com/josharian/intern v1.0.0 // indirect
	github.com/mailru/easyjson v0.7.7 // indirect
	golang.org/x/mod v0.22.0 // indirect
	golang.org/x/sync v0.10.0 // indirect
	google.golang.org/protobuf v1.36.1 // indirect
	gopkg.in/yaml.v3 v3.0.1 // indirect
	k8s.io/kube-openapi v0.0.0-20241212222426-2c72e554b1e7 // indirect
)

// WalkTables.v reads the builtin OpenAPI schema (a protobuf asset) through kyaml's own loader
require sigs.k8s.io/kustomize/kyaml v0.19.0

replace sigs.k8s.io/kustomize/kyaml => /repo/kyaml
