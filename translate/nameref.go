package main

import (
	"fmt"
	"go/ast"
	"go/constant"
	"go/token"
	"path/filepath"
	"strings"

	"sigs.k8s.io/yaml"
)

// NameRefRules.v: everything table-like the name reference property (C03) depends on:
//   gen_nameref_raw        api/internal/konfig/builtinpluginconsts/namereference.go (source order)
//   gen_gvk_order_first/last   kyaml/resid/gvk.go (orderFirst / orderLast: the order of the merged rule table)
//   gen_prefix_skip / gen_suffix_skip   api/internal/builtins/{Prefix,Suffix}Transformer.go (kinds never renamed)

type nrRow struct {
	Group      string      `json:"group"`
	Version    string      `json:"version"`
	Kind       string      `json:"kind"`
	FieldSpecs []fieldSpec `json:"fieldSpecs"`
}

// nrPkgVarExpr finds the initialiser of a package-level var/const.
func nrPkgVarExpr(files []*ast.File, name string) ast.Expr {
	for _, f := range files {
		for _, d := range f.Decls {
			gd, ok := d.(*ast.GenDecl)
			if !ok || (gd.Tok != token.VAR && gd.Tok != token.CONST) {
				continue
			}
			for _, s := range gd.Specs {
				vs := s.(*ast.ValueSpec)
				for i, n := range vs.Names {
					if n.Name == name && i < len(vs.Values) {
						return vs.Values[i]
					}
				}
			}
		}
	}
	return nil
}

func nrLitString(e ast.Expr) (string, bool) {
	bl, ok := e.(*ast.BasicLit)
	if !ok || bl.Kind != token.STRING {
		return "", false
	}
	return constant.StringVal(constant.MakeFromLiteral(bl.Value, token.STRING, 0)), true
}

// nrStringSliceLit evaluates []string{"a", "b", ...}.
func nrStringSliceLit(e ast.Expr) ([]string, error) {
	cl, ok := e.(*ast.CompositeLit)
	if !ok {
		return nil, fmt.Errorf("not a composite literal")
	}
	out := []string{}
	for _, el := range cl.Elts {
		s, ok := nrLitString(el)
		if !ok {
			return nil, fmt.Errorf("element is not a string literal")
		}
		out = append(out, s)
	}
	return out, nil
}

type nrGvkLit struct{ Group, Version, Kind string }

// nrGvkFields evaluates resid.Gvk{Group: "..", Version: "..", Kind: ".."}.
func nrGvkFields(e ast.Expr) (nrGvkLit, error) {
	var g nrGvkLit
	cl, ok := e.(*ast.CompositeLit)
	if !ok {
		return g, fmt.Errorf("Gvk value is not a composite literal")
	}
	for _, el := range cl.Elts {
		kv, ok := el.(*ast.KeyValueExpr)
		if !ok {
			return g, fmt.Errorf("positional Gvk literal")
		}
		k, ok := kv.Key.(*ast.Ident)
		if !ok {
			return g, fmt.Errorf("bad Gvk key")
		}
		v, ok := nrLitString(kv.Value)
		if !ok {
			return g, fmt.Errorf("Gvk field %s is not a string literal", k.Name)
		}
		switch k.Name {
		case "Group":
			g.Group = v
		case "Version":
			g.Version = v
		case "Kind":
			g.Kind = v
		default:
			return g, fmt.Errorf("unexpected Gvk field %s", k.Name)
		}
	}
	return g, nil
}

// nrSkipListLit evaluates types.FsSlice{{Gvk: resid.Gvk{...}}, ...}; any other field makes it fail.
func nrSkipListLit(e ast.Expr) ([]nrGvkLit, error) {
	cl, ok := e.(*ast.CompositeLit)
	if !ok {
		return nil, fmt.Errorf("not a composite literal")
	}
	out := []nrGvkLit{}
	for _, el := range cl.Elts {
		ecl, ok := el.(*ast.CompositeLit)
		if !ok {
			return nil, fmt.Errorf("skip list element is not a literal")
		}
		if len(ecl.Elts) != 1 {
			return nil, fmt.Errorf("skip list element has %d fields, expected only Gvk", len(ecl.Elts))
		}
		kv, ok := ecl.Elts[0].(*ast.KeyValueExpr)
		if !ok {
			return nil, fmt.Errorf("positional skip list element")
		}
		if k, ok := kv.Key.(*ast.Ident); !ok || k.Name != "Gvk" {
			return nil, fmt.Errorf("skip list element sets a field other than Gvk")
		}
		g, err := nrGvkFields(kv.Value)
		if err != nil {
			return nil, err
		}
		out = append(out, g)
	}
	return out, nil
}

func nrCoqStrs(l []string) string {
	p := make([]string, len(l))
	for i, s := range l {
		p[i] = coqStr(s)
	}
	return "[" + strings.Join(p, "; ") + "]"
}

func init() {
	registerGen("NameRefRules.v", func(repo string) (string, error) {
		var b strings.Builder
		b.WriteString("From KV Require Import Res.NameRefTypes.\nOpen Scope string_scope.\n\n")

		// ---- the rule table
		dir := filepath.Join(repo, "api/internal/konfig/builtinpluginconsts")
		consts, err := constStrings(dir)
		if err != nil {
			return "", err
		}
		txt, ok := consts["nameReferenceFieldSpecs"]
		if !ok {
			return "", fmt.Errorf("constant nameReferenceFieldSpecs not found in %s", dir)
		}
		var m map[string][]nrRow
		if err := yaml.UnmarshalStrict([]byte(txt), &m); err != nil {
			return "", fmt.Errorf("nameReferenceFieldSpecs: %v", err)
		}
		rows, ok := m["nameReference"]
		if !ok || len(m) != 1 {
			return "", fmt.Errorf("nameReferenceFieldSpecs: expected the single key nameReference")
		}
		b.WriteString("Definition gen_nameref_raw : list nbr := [\n")
		for i, r := range rows {
			fmt.Fprintf(&b, "  mkNbr %s %s %s [\n", coqStr(r.Group), coqStr(r.Version), coqStr(r.Kind))
			for j, f := range r.FieldSpecs {
				sep := ";"
				if j == len(r.FieldSpecs)-1 {
					sep = ""
				}
				fmt.Fprintf(&b, "    %s%s\n", fsTerm(f), sep)
			}
			sep := ";"
			if i == len(rows)-1 {
				sep = ""
			}
			fmt.Fprintf(&b, "  ]%s\n", sep)
		}
		b.WriteString("].\n\n")

		// ---- Gvk order (gvk.go)
		_, files, err := parseDir(filepath.Join(repo, "kyaml/resid"))
		if err != nil {
			return "", err
		}
		for _, t := range []struct{ goName, coqName string }{
			{"orderFirst", "gen_gvk_order_first"}, {"orderLast", "gen_gvk_order_last"}} {
			e := nrPkgVarExpr(files, t.goName)
			if e == nil {
				return "", fmt.Errorf("kyaml/resid: var %s not found", t.goName)
			}
			l, err := nrStringSliceLit(e)
			if err != nil {
				return "", fmt.Errorf("kyaml/resid %s: %v", t.goName, err)
			}
			fmt.Fprintf(&b, "Definition %s : list string := %s.\n\n", t.coqName, nrCoqStrs(l))
		}

		// ---- kinds the prefix / suffix transformers never rename
		_, bfiles, err := parseDir(filepath.Join(repo, "api/internal/builtins"))
		if err != nil {
			return "", err
		}
		for _, t := range []struct{ goName, coqName string }{
			{"prefixFieldSpecsToSkip", "gen_prefix_skip"}, {"suffixFieldSpecsToSkip", "gen_suffix_skip"}} {
			e := nrPkgVarExpr(bfiles, t.goName)
			if e == nil {
				return "", fmt.Errorf("api/internal/builtins: var %s not found", t.goName)
			}
			l, err := nrSkipListLit(e)
			if err != nil {
				return "", fmt.Errorf("api/internal/builtins %s: %v", t.goName, err)
			}
			fmt.Fprintf(&b, "Definition %s : list gvk := [", t.coqName)
			for i, g := range l {
				if i > 0 {
					b.WriteString("; ")
				}
				fmt.Fprintf(&b, "mkGvk %s %s %s false", coqStr(g.Group), coqStr(g.Version), coqStr(g.Kind))
			}
			b.WriteString("].\n\n")
		}
		return b.String(), nil
	})
}
