package main

// Globals.v: every access to a package-level *mutable* variable of the kustomize packages that
// krusty.Run links in, with the synchronisation context that is guaranteed to hold at the access
// (C16, and the state half of C01).
//
// Method (static, over-approximating; a site that cannot be classified is emitted as AEscape,
// which the Coq obligation rejects unless it is allow-listed by hand):
//   * go/packages + go/ssa (x/tools v0.29.0) over sigs.k8s.io/kustomize/api/krusty and everything it imports;
//   * a global is "mutable" when some function other than a package initialiser stores to it,
//     updates a map / field / element reached through it, or lets its address escape;
//   * RTA call graph from (*krusty.Kustomizer).Run, MakeKustomizer, MakeDefaultOptions decides `reach`;
//   * a forward must-dataflow computes, for every instruction, the set of context tokens
//        W:<lock>  write lock held      R:<lock>  read lock held        (sync.Mutex / sync.RWMutex globals;
//                                                                        `defer X.Unlock()` keeps the lock to the end)
//        O:<once>  inside the body passed to <once>.Do                   A:<once>  after <once>.Do(...) returned
//     an "init-like" function (configured below: openapi.initSchema — lock; if !flag { flag = true; parse... })
//     is treated like a once object named after the function: O:<func> from the point where it takes a global
//     lock (and in what it calls from there on),
//     A:<func> after a call to it returned. That the flag is never cleared is a separate side condition:
//     the value stored is recorded for constant stores so that the Coq obligation can list the "reset sites";
//     joins are intersections; the entry context of a function is the intersection of the contexts of
//     all its call sites in functions reachable from the roots (callers outside the kustomize module
//     contribute the empty context);
//   * rows are keyed by (package, function, variable path, kind, ordinal among equal keys) — never by line.

import (
	"fmt"
	"go/token"
	"go/types"
	"os"
	"path/filepath"
	"sort"
	"strings"

	"golang.org/x/tools/go/callgraph"
	"golang.org/x/tools/go/callgraph/rta"
	"golang.org/x/tools/go/packages"
	"golang.org/x/tools/go/ssa"
	"golang.org/x/tools/go/ssa/ssautil"
)

const kustModPrefix = "sigs.k8s.io/kustomize/"

// functions whose return establishes "the schema globals are initialised" (token I:<func>).
var initLikeFuncs = []string{"sigs.k8s.io/kustomize/kyaml/openapi.initSchema"}

type gAccess struct {
	pkg, fn, v string
	kind       string // ARead | AWrite | AMapRead | AMapRange | AMapWrite | ARefUse | AEscape | AUnbalanced
	ctx        []string
	reach      bool
	ord        int
	val        string // constant stored (AWrite of a constant), "" otherwise
	pos        token.Pos
}

type tokset map[string]bool

func (t tokset) clone() tokset {
	o := tokset{}
	for k := range t {
		o[k] = true
	}
	return o
}
func (t tokset) sorted() []string {
	o := make([]string, 0, len(t))
	for k := range t {
		o = append(o, k)
	}
	sort.Strings(o)
	return o
}
func intersect(a, b tokset) tokset {
	o := tokset{}
	for k := range a {
		if b[k] {
			o[k] = true
		}
	}
	return o
}
func sameSet(a, b tokset) bool {
	if len(a) != len(b) {
		return false
	}
	for k := range a {
		if !b[k] {
			return false
		}
	}
	return true
}

func shortPkg(p string) string { return strings.TrimPrefix(p, kustModPrefix) }

// globalPath resolves an address value to "<pkg>.<global>[.field]*" when it is a global or a field/element
// address derived from one without loading.
func globalPath(v ssa.Value) (g *ssa.Global, path string, ok bool) {
	switch x := v.(type) {
	case *ssa.Global:
		if x.Pkg == nil {
			return nil, "", false
		}
		return x, x.Name(), true
	case *ssa.FieldAddr:
		g, p, ok := globalPath(x.X)
		if !ok {
			return nil, "", false
		}
		st, _ := x.X.Type().Underlying().(*types.Pointer)
		if st == nil {
			return nil, "", false
		}
		s, _ := st.Elem().Underlying().(*types.Struct)
		if s == nil {
			return nil, "", false
		}
		return g, p + "." + s.Field(x.Field).Name(), true
	case *ssa.IndexAddr:
		g, p, ok := globalPath(x.X)
		if !ok {
			return nil, "", false
		}
		return g, p + "[]", true
	}
	return nil, "", false
}

func isSyncType(t types.Type, names ...string) bool {
	if p, ok := t.(*types.Pointer); ok {
		t = p.Elem()
	}
	n, ok := t.(*types.Named)
	if !ok || n.Obj().Pkg() == nil || n.Obj().Pkg().Path() != "sync" {
		return false
	}
	for _, x := range names {
		if n.Obj().Name() == x {
			return true
		}
	}
	return false
}

// syncCall recognises X.Lock/Unlock/RLock/RUnlock/Do on a global (or a field of a global) of a sync type.
func syncCall(c *ssa.CallCommon) (method string, obj string, ok bool) {
	callee := c.StaticCallee()
	if callee == nil || callee.Pkg == nil || callee.Pkg.Pkg.Path() != "sync" || c.IsInvoke() || len(c.Args) == 0 {
		return "", "", false
	}
	recv := callee.Signature.Recv()
	if recv == nil || !isSyncType(recv.Type(), "Mutex", "RWMutex", "Once") {
		return "", "", false
	}
	g, p, ok2 := globalPath(c.Args[0])
	if !ok2 {
		return "", "", false
	}
	return callee.Name(), shortPkg(g.Pkg.Pkg.Path()) + "." + p, true
}

type globalsAnalysis struct {
	prog      *ssa.Program
	funcs     []*ssa.Function // kustomize functions, deterministic order
	reach     map[*ssa.Function]bool
	entry     map[*ssa.Function]tokset
	onceBody  map[*ssa.Function]string // closure -> once id
	callers   map[*ssa.Function][]callSite
	foreignIn map[*ssa.Function]bool // has a reachable caller outside the kustomize module / is a root
	initLike  map[*ssa.Function]string
	before    map[ssa.Instruction]tokset // context before each instruction of interest
}

type callSite struct {
	caller *ssa.Function
	instr  ssa.Instruction
}

func isKust(f *ssa.Function) bool {
	p := f.Pkg
	if p == nil && f.Parent() != nil {
		return isKust(f.Parent())
	}
	if p == nil {
		// instantiated generic / wrapper: attribute to its origin when it has one
		if o := f.Origin(); o != nil && o != f {
			return isKust(o)
		}
		return false
	}
	return strings.HasPrefix(p.Pkg.Path(), kustModPrefix)
}

func fnPkgPath(f *ssa.Function) string {
	for f.Pkg == nil && f.Parent() != nil {
		f = f.Parent()
	}
	if f.Pkg == nil {
		if o := f.Origin(); o != nil && o != f {
			return fnPkgPath(o)
		}
		return ""
	}
	return f.Pkg.Pkg.Path()
}

// fnName: receiver-qualified name; anonymous functions are "<parent>$<n>".
func fnName(f *ssa.Function) string {
	if f.Parent() != nil {
		return fnName(f.Parent()) + "$" + strings.TrimPrefix(f.Name(), f.Parent().Name()+"$")
	}
	if recv := f.Signature.Recv(); recv != nil {
		t := recv.Type()
		ptr := ""
		if p, ok := t.(*types.Pointer); ok {
			t = p.Elem()
			ptr = "*"
		}
		if n, ok := t.(*types.Named); ok {
			return "(" + ptr + n.Obj().Name() + ")." + f.Name()
		}
	}
	return f.Name()
}

func isPkgInit(f *ssa.Function) bool {
	for f.Parent() != nil {
		f = f.Parent()
	}
	return f.Signature.Recv() == nil && (f.Name() == "init" || strings.HasPrefix(f.Name(), "init#"))
}

// transfer applies one instruction to the context.
func (ga *globalsAnalysis) transfer(ctx tokset, ins ssa.Instruction) {
	call, ok := ins.(*ssa.Call)
	if !ok {
		return
	}
	if m, obj, ok := syncCall(&call.Call); ok {
		switch m {
		case "Lock":
			ctx["W:"+obj] = true
			// inside an init-like function the once-like body starts where the lock is taken: an access before
			// that point (e.g. an unlocked fast-path check of the flag) gets no O: token
			if id, ok := ga.initLike[ins.Parent()]; ok {
				ctx["O:"+id] = true
			}
		case "RLock":
			ctx["R:"+obj] = true
		case "Unlock":
			delete(ctx, "W:"+obj)
		case "RUnlock":
			delete(ctx, "R:"+obj)
		case "Do":
			ctx["A:"+obj] = true
		}
		return
	}
	if callee := call.Call.StaticCallee(); callee != nil {
		if id, ok := ga.initLike[callee]; ok {
			ctx["A:"+id] = true
		}
	}
}

// flow runs the must-dataflow over one function from the given entry context and calls visit
// with the context holding *before* each instruction. It returns the contexts at the returns
// (after the deferred unlocks ran).
func (ga *globalsAnalysis) flow(f *ssa.Function, entry tokset, visit func(ins ssa.Instruction, ctx tokset)) []tokset {
	if len(f.Blocks) == 0 {
		return nil
	}
	in := make([]tokset, len(f.Blocks))
	in[0] = entry.clone()
	work := []int{0}
	inWork := map[int]bool{0: true}
	out := make([]tokset, len(f.Blocks))
	for len(work) > 0 {
		bi := work[0]
		work = work[1:]
		inWork[bi] = false
		b := f.Blocks[bi]
		ctx := in[bi].clone()
		for _, ins := range b.Instrs {
			ga.transfer(ctx, ins)
		}
		out[bi] = ctx
		for _, s := range b.Succs {
			var n tokset
			if in[s.Index] == nil {
				n = ctx.clone()
			} else {
				n = intersect(in[s.Index], ctx)
			}
			if in[s.Index] == nil || !sameSet(n, in[s.Index]) {
				in[s.Index] = n
				if !inWork[s.Index] {
					work = append(work, s.Index)
					inWork[s.Index] = true
				}
			}
		}
	}
	// deferred unlocks of the function
	var deferred []string
	for _, b := range f.Blocks {
		for _, ins := range b.Instrs {
			if d, ok := ins.(*ssa.Defer); ok {
				if m, obj, ok := syncCall(&d.Call); ok {
					switch m {
					case "Unlock":
						deferred = append(deferred, "W:"+obj)
					case "RUnlock":
						deferred = append(deferred, "R:"+obj)
					}
				}
			}
		}
	}
	var rets []tokset
	for bi, b := range f.Blocks {
		if in[bi] == nil {
			continue // unreachable block
		}
		ctx := in[bi].clone()
		for _, ins := range b.Instrs {
			if visit != nil {
				visit(ins, ctx)
			}
			ga.transfer(ctx, ins)
			if _, ok := ins.(*ssa.Return); ok {
				r := ctx.clone()
				for _, d := range deferred {
					delete(r, d)
				}
				rets = append(rets, r)
			}
		}
	}
	return rets
}

func loadKrustyProgram(repo string) (*ssa.Program, []*packages.Package, error) {
	cfg := &packages.Config{
		Mode: packages.NeedName | packages.NeedFiles | packages.NeedCompiledGoFiles | packages.NeedImports |
			packages.NeedDeps | packages.NeedTypes | packages.NeedTypesSizes | packages.NeedSyntax | packages.NeedTypesInfo | packages.NeedModule,
		Dir: filepath.Join(repo, "api"),
		Env: append(os.Environ(), "GOWORK=off", "GOFLAGS=-mod=mod", "GOPROXY=off", "GOSUMDB=off", "GOTOOLCHAIN=local", "CGO_ENABLED=0"),
	}
	pkgs, err := packages.Load(cfg, "sigs.k8s.io/kustomize/api/krusty")
	if err != nil {
		return nil, nil, err
	}
	if packages.PrintErrors(pkgs) > 0 {
		return nil, nil, fmt.Errorf("packages.Load reported errors")
	}
	prog, _ := ssautil.AllPackages(pkgs, ssa.InstantiateGenerics)
	prog.Build()
	return prog, pkgs, nil
}

func init() {
	registerGen("Globals.v", genGlobals)
}

func genGlobals(repo string) (string, error) {
	prog, _, err := loadKrustyProgram(repo)
	if err != nil {
		return "", err
	}
	ga := &globalsAnalysis{prog: prog, reach: map[*ssa.Function]bool{}, entry: map[*ssa.Function]tokset{},
		onceBody: map[*ssa.Function]string{}, callers: map[*ssa.Function][]callSite{}, foreignIn: map[*ssa.Function]bool{},
		initLike: map[*ssa.Function]string{}}

	// ---- roots
	var krusty *ssa.Package
	for _, p := range prog.AllPackages() {
		if p.Pkg.Path() == "sigs.k8s.io/kustomize/api/krusty" {
			krusty = p
		}
	}
	if krusty == nil {
		return "", fmt.Errorf("package api/krusty not in the program")
	}
	var roots []*ssa.Function
	for _, n := range []string{"MakeKustomizer", "MakeDefaultOptions"} {
		f := krusty.Func(n)
		if f == nil {
			return "", fmt.Errorf("krusty.%s not found", n)
		}
		roots = append(roots, f)
	}
	kt := krusty.Type("Kustomizer")
	if kt == nil {
		return "", fmt.Errorf("krusty.Kustomizer not found")
	}
	run := prog.LookupMethod(types.NewPointer(kt.Type()), krusty.Pkg, "Run")
	if run == nil {
		return "", fmt.Errorf("(*krusty.Kustomizer).Run not found")
	}
	roots = append(roots, run)

	res := rta.Analyze(roots, true)
	for f := range res.Reachable {
		ga.reach[f] = true
	}

	// ---- all kustomize functions, deterministic order
	all := ssautil.AllFunctions(prog)
	for f := range all {
		if isKust(f) && len(f.Blocks) > 0 && f.Synthetic == "" {
			ga.funcs = append(ga.funcs, f)
		}
	}
	key := func(f *ssa.Function) string { return fnPkgPath(f) + "\x00" + fnName(f) }
	sort.Slice(ga.funcs, func(i, j int) bool { return key(ga.funcs[i]) < key(ga.funcs[j]) })

	// init-like functions
	for _, id := range initLikeFuncs {
		i := strings.LastIndex(id, ".")
		var found *ssa.Function
		for _, p := range prog.AllPackages() {
			if p.Pkg.Path() == id[:i] {
				found = p.Func(id[i+1:])
			}
		}
		if found == nil {
			return "", fmt.Errorf("init-like function %s not found", id)
		}
		ga.initLike[found] = shortPkg(id)
	}

	// ---- once bodies: closures passed directly to <global once>.Do
	for _, f := range ga.funcs {
		for _, b := range f.Blocks {
			for _, ins := range b.Instrs {
				c, ok := ins.(*ssa.Call)
				if !ok {
					continue
				}
				if m, obj, ok := syncCall(&c.Call); ok && m == "Do" && len(c.Call.Args) == 2 {
					var body *ssa.Function
					switch a := c.Call.Args[1].(type) {
					case *ssa.MakeClosure:
						body, _ = a.Fn.(*ssa.Function)
						if body != nil && len(*a.Referrers()) != 1 {
							body = nil
						}
					case *ssa.Function:
						if a.Parent() != nil { // anonymous function without captures: used only here
							body = a
						}
					}
					if body != nil {
						ga.onceBody[body] = obj
						ga.callers[body] = append(ga.callers[body], callSite{f, ins})
					}
				}
			}
		}
	}

	// ---- call sites from the RTA call graph (reachable callers only)
	isRoot := map[*ssa.Function]bool{}
	for _, r := range roots {
		isRoot[r] = true
		ga.foreignIn[r] = true
	}
	if res.CallGraph != nil {
		for fn, node := range res.CallGraph.Nodes {
			if fn == nil || !isKust(fn) {
				continue
			}
			if _, once := ga.onceBody[fn]; once {
				continue
			}
			for _, e := range node.In {
				cf := e.Caller.Func
				if cf == nil || !ga.reach[cf] {
					continue
				}
				if !isKust(cf) || e.Site == nil {
					ga.foreignIn[fn] = true
					continue
				}
				ga.callers[fn] = append(ga.callers[fn], callSite{cf, e.Site.(ssa.Instruction)})
			}
		}
	}
	_ = callgraph.CalleesOf

	// ---- interprocedural fixpoint on entry contexts (decreasing from "unknown" = nil)
	top := tokset(nil)
	for _, f := range ga.funcs {
		if ga.foreignIn[f] || !ga.reach[f] || len(ga.callers[f]) == 0 {
			ga.entry[f] = tokset{}
		} else {
			ga.entry[f] = top
		}
	}
	for iter := 0; iter < 50; iter++ {
		changed := false
		// contexts at call sites under the current entries
		site := map[ssa.Instruction]tokset{}
		for _, f := range ga.funcs {
			if ga.entry[f] == nil {
				continue
			}
			ga.flow(f, ga.entry[f], func(ins ssa.Instruction, ctx tokset) {
				switch ins.(type) {
				case *ssa.Call, *ssa.Defer, *ssa.Go:
					site[ins] = ctx.clone()
				}
			})
		}
		for _, f := range ga.funcs {
			if ga.foreignIn[f] || !ga.reach[f] || len(ga.callers[f]) == 0 {
				continue
			}
			var acc tokset
			for _, cs := range ga.callers[f] {
				c, ok := site[cs.instr]
				if !ok {
					continue // caller context still unknown
				}
				if _, isGo := cs.instr.(*ssa.Go); isGo {
					c = tokset{} // a new goroutine holds nothing
				}
				if _, isDefer := cs.instr.(*ssa.Defer); isDefer {
					c = tokset{} // runs at function exit: locks may have been released
				}
				if once, ok := ga.onceBody[f]; ok {
					c = c.clone()
					c["O:"+once] = true
				}
				if acc == nil {
					acc = c.clone()
				} else {
					acc = intersect(acc, c)
				}
			}
			if acc == nil {
				continue
			}
			if ga.entry[f] == nil || !sameSet(acc, ga.entry[f]) {
				ga.entry[f] = acc
				changed = true
			}
		}
		if !changed {
			break
		}
	}
	for _, f := range ga.funcs {
		if ga.entry[f] == nil {
			ga.entry[f] = tokset{}
		}
	}
	// ---- which globals are mutable
	type gkey struct{ pkg, name string }
	mutable := map[gkey]bool{}
	syncGlobals := map[gkey]string{}
	allGlobals := map[gkey]*ssa.Global{}
	for _, p := range prog.AllPackages() {
		if !strings.HasPrefix(p.Pkg.Path(), kustModPrefix) {
			continue
		}
		for _, m := range p.Members {
			if g, ok := m.(*ssa.Global); ok {
				k := gkey{p.Pkg.Path(), g.Name()}
				allGlobals[k] = g
				if isSyncType(g.Type(), "Mutex", "RWMutex", "Once", "WaitGroup") {
					n := g.Type().(*types.Pointer).Elem().(*types.Named).Obj().Name()
					syncGlobals[k] = n
				}
			}
		}
	}

	var rows []gAccess
	collect := func(f *ssa.Function) {
		emit := func(ins ssa.Instruction, ctx tokset, g *ssa.Global, path, kind string) {
			rows = append(rows, gAccess{pkg: fnPkgPath(f), fn: fnName(f), v: shortPkg(g.Pkg.Pkg.Path()) + "." + path,
				kind: kind, ctx: ctx.sorted(), reach: ga.reach[f], pos: ins.Pos()})
			_ = ins
		}
		rets := ga.flow(f, ga.entry[f], func(ins ssa.Instruction, ctx tokset) {
			// every operand that is (derived from) a global address
			switch x := ins.(type) {
			case *ssa.UnOp:
				if x.Op != token.MUL {
					return
				}
				g, p, ok := globalPath(x.X)
				if !ok || !strings.HasPrefix(g.Pkg.Pkg.Path(), kustModPrefix) {
					return
				}
				if _, isSync := syncGlobals[gkey{g.Pkg.Pkg.Path(), g.Name()}]; isSync {
					emit(ins, ctx, g, p, "AEscape") // copying a lock
					return
				}
				emit(ins, ctx, g, p, "ARead")
			case *ssa.Store:
				if g, p, ok := globalPath(x.Addr); ok && strings.HasPrefix(g.Pkg.Pkg.Path(), kustModPrefix) {
					emit(ins, ctx, g, p, "AWrite")
					if c, ok := x.Val.(*ssa.Const); ok {
						v := "nil"
						if c.Value != nil {
							v = c.Value.ExactString()
						} else if _, isStruct := c.Type().Underlying().(*types.Struct); isStruct {
							v = "zero"
						}
						rows[len(rows)-1].val = v
					}
				}
				if g, p, ok := globalPath(x.Val); ok && strings.HasPrefix(g.Pkg.Pkg.Path(), kustModPrefix) {
					emit(ins, ctx, g, p, "AEscape")
				}
			case *ssa.FieldAddr, *ssa.IndexAddr:
				// handled at the use of the derived address
			default:
				// calls, returns, phis, conversions ...: a global address used as a plain operand escapes
				var ops []*ssa.Value
				ops = ins.Operands(ops)
				isSyncCall := false
				var skipVal ssa.Value
				var cc0 *ssa.CallCommon
				switch c := ins.(type) {
				case *ssa.Call:
					_, _, isSyncCall = syncCall(&c.Call)
					cc0 = &c.Call
				case *ssa.Defer:
					_, _, isSyncCall = syncCall(&c.Call)
					cc0 = &c.Call
				case *ssa.Go:
					cc0 = &c.Call
				}
				// sync.Map / atomic values held in a global: the container synchronises itself (no data race), but a
				// Store / LoadOrStore / Delete / Swap / Add ... is a WRITE of process-wide state all the same
				if cc0 != nil && !cc0.IsInvoke() && len(cc0.Args) > 0 {
					if callee := cc0.StaticCallee(); callee != nil && callee.Pkg != nil && callee.Signature.Recv() != nil &&
						(callee.Pkg.Pkg.Path() == "sync" && isSyncType(callee.Signature.Recv().Type(), "Map") || callee.Pkg.Pkg.Path() == "sync/atomic") {
						if g, p, ok := globalPath(cc0.Args[0]); ok && strings.HasPrefix(g.Pkg.Pkg.Path(), kustModPrefix) {
							kind := "AMapWrite"
							switch callee.Name() {
							case "Load", "Range":
								kind = "AMapRead"
							}
							emit(ins, ctx, g, p+"[]", kind)
							skipVal = cc0.Args[0] // the receiver is accounted for; other operands are checked below
						}
					}
				}
				for i, op := range ops {
					if op == nil || *op == nil {
						continue
					}
					g, p, ok := globalPath(*op)
					if !ok || !strings.HasPrefix(g.Pkg.Pkg.Path(), kustModPrefix) {
						continue
					}
					if isSyncCall || (skipVal != nil && *op == skipVal) {
						continue
					}
					_ = i
					emit(ins, ctx, g, p, "AEscape")
				}
			}
		})
		// accesses *through* a loaded reference (map / slice / pointer held in a global)
		ga.flow(f, ga.entry[f], func(ins ssa.Instruction, ctx tokset) {
			through := func(v ssa.Value) (*ssa.Global, string, bool) {
				u, ok := v.(*ssa.UnOp)
				if !ok || u.Op != token.MUL {
					return nil, "", false
				}
				g, p, ok := globalPath(u.X)
				if !ok || !strings.HasPrefix(g.Pkg.Pkg.Path(), kustModPrefix) {
					return nil, "", false
				}
				return g, p, true
			}
			switch x := ins.(type) {
			case *ssa.Lookup:
				if g, p, ok := through(x.X); ok {
					emit(ins, ctx, g, p+"[]", "AMapRead")
				}
			case *ssa.Range:
				if g, p, ok := through(x.X); ok {
					// iteration over a map held in a global: the ORDER is randomised per run (a separate kind, so that an
					// obligation can forbid it where the result must not depend on it)
					emit(ins, ctx, g, p+"[]", "AMapRange")
				}
			case *ssa.MapUpdate:
				if g, p, ok := through(x.Map); ok {
					emit(ins, ctx, g, p+"[]", "AMapWrite")
				}
				if g, p, ok := through(x.Value); ok && isRefType(x.Value.Type()) {
					emit(ins, ctx, g, p, "ARefUse")
				}
			case *ssa.IndexAddr:
				if g, p, ok := through(x.X); ok { // element address of a slice held in a global
					kind := "AMapRead"
					for _, r := range *x.Referrers() {
						if st, ok := r.(*ssa.Store); ok && st.Addr == ssa.Value(x) {
							kind = "AMapWrite"
						}
					}
					emit(ins, ctx, g, p+"[]", kind)
				}
			case *ssa.FieldAddr:
				if g, p, ok := through(x.X); ok { // field of the object a global pointer refers to
					kind := "ARefUse"
					for _, r := range *x.Referrers() {
						if st, ok := r.(*ssa.Store); ok && st.Addr == ssa.Value(x) {
							kind = "AMapWrite"
						}
					}
					emit(ins, ctx, g, p+"->", kind)
				}
			case *ssa.Call, *ssa.Go, *ssa.Defer:
				var cc *ssa.CallCommon
				switch c := x.(type) {
				case *ssa.Call:
					cc = &c.Call
				case *ssa.Go:
					cc = &c.Call
				case *ssa.Defer:
					cc = &c.Call
				}
				isLen := false
				if b, ok := cc.Value.(*ssa.Builtin); ok && (b.Name() == "len" || b.Name() == "cap") {
					isLen = true
				}
				if cc.IsInvoke() {
					// a method called on an interface value held in a global (e.g. a package-level hash.Hash)
					if g, p, ok := through(cc.Value); ok {
						emit(ins, ctx, g, p, "ARefUse")
					}
				}
				for _, a := range cc.Args {
					if g, p, ok := through(a); ok && isRefType(a.Type()) {
						if isLen {
							emit(ins, ctx, g, p+"[]", "AMapRead")
						} else {
							emit(ins, ctx, g, p, "ARefUse")
						}
					}
				}
			case *ssa.Return:
				for _, a := range x.Results {
					if g, p, ok := through(a); ok && isRefType(a.Type()) {
						emit(ins, ctx, g, p, "ARefUse")
					}
				}
			case *ssa.Store:
				if g, p, ok := through(x.Val); ok && isRefType(x.Val.Type()) {
					if g2, _, ok2 := globalPath(x.Addr); !(ok2 && g2 == g) {
						emit(ins, ctx, g, p, "ARefUse")
					}
				}
			}
		})
		// lock balance
		for _, r := range rets {
			e := ga.entry[f]
			for k := range r {
				if (strings.HasPrefix(k, "W:") || strings.HasPrefix(k, "R:")) && !e[k] {
					rows = append(rows, gAccess{pkg: fnPkgPath(f), fn: fnName(f), v: strings.TrimPrefix(strings.TrimPrefix(k, "W:"), "R:"),
						kind: "AUnbalanced", ctx: r.sorted(), reach: ga.reach[f]})
				}
			}
			for k := range e {
				if (strings.HasPrefix(k, "W:") || strings.HasPrefix(k, "R:")) && !r[k] {
					rows = append(rows, gAccess{pkg: fnPkgPath(f), fn: fnName(f), v: strings.TrimPrefix(strings.TrimPrefix(k, "W:"), "R:"),
						kind: "AUnbalanced", ctx: r.sorted(), reach: ga.reach[f]})
				}
			}
		}
	}
	for _, f := range ga.funcs {
		collect(f)
	}

	// mutable := written / map-written / escaped outside package initialisers
	rowFn := map[string]bool{}
	_ = rowFn
	for _, f := range ga.funcs {
		_ = f
	}
	isInitRow := map[int]bool{}
	{
		// recompute which rows come from package initialisers
		idx := 0
		for _, f := range ga.funcs {
			n := 0
			for _, r := range rows[idx:] {
				if r.pkg == fnPkgPath(f) && r.fn == fnName(f) {
					n++
				} else {
					break
				}
			}
			if isPkgInit(f) {
				for i := idx; i < idx+n; i++ {
					isInitRow[i] = true
				}
			}
			idx += n
		}
	}
	gOf := func(v string) gkey {
		// v = "<short pkg>.<name>[.field...]"; the package part may contain dots? (no: import paths here have none after the prefix)
		i := strings.Index(v, ".")
		rest := v[i+1:]
		name := rest
		for j, c := range rest {
			if c == '.' || c == '[' || c == '-' {
				name = rest[:j]
				break
			}
		}
		return gkey{kustModPrefix + v[:i], name}
	}
	for i, r := range rows {
		if isInitRow[i] {
			continue
		}
		switch r.kind {
		case "AWrite", "AMapWrite", "AEscape":
			mutable[gOf(r.v)] = true
		}
	}

	// a global that is only initialised once but whose reference (pointer / interface / map / slice / func) is handed
	// to calls or method calls outside initialisers may be mutated behind the analysis' back: GRefUsed
	refUsed := map[gkey]bool{}
	refReach := map[gkey]bool{}
	for i, r := range rows {
		if isInitRow[i] || r.kind != "ARefUse" {
			continue
		}
		k := gOf(r.v)
		if _, isSync := syncGlobals[k]; isSync || mutable[k] {
			continue
		}
		refUsed[k] = true
		if r.reach {
			refReach[k] = true
		}
	}

	// ---- output
	var out []gAccess
	ordCount := map[string]int{}
	for i, r := range rows {
		if isInitRow[i] {
			continue
		}
		if r.kind != "AUnbalanced" {
			k := gOf(r.v)
			if !mutable[k] {
				continue
			}
			if _, isSync := syncGlobals[k]; isSync && r.kind != "AEscape" {
				continue
			}
		}
		ok := r.pkg + "\x00" + r.fn + "\x00" + r.v + "\x00" + r.kind
		r.ord = ordCount[ok]
		ordCount[ok]++
		out = append(out, r)
	}

	var b strings.Builder
	b.WriteString("From KV Require Import Glob.GlobalsTypes.\nOpen Scope string_scope.\n\n")
	b.WriteString("(* package-level variables of the kustomize packages linked into krusty.Run:\n" +
		"   GMutable = stored to / updated through / address-taken outside package initialisers;\n" +
		"   GSync = sync.Mutex / RWMutex / Once / WaitGroup;\n" +
		"   GRefUsed reach = written by initialisers only, but the reference it holds (pointer / interface / map / slice /\n" +
		"     func) is passed to calls or has methods called on it outside initialisers (reach: in a function reachable from Run);\n" +
		"   the rest (counted) is written by initialisers only and only read / indexed / ranged. Third field: the Go type. *)\n")
	var gkeys []gkey
	for k := range allGlobals {
		gkeys = append(gkeys, k)
	}
	sort.Slice(gkeys, func(i, j int) bool {
		if gkeys[i].pkg != gkeys[j].pkg {
			return gkeys[i].pkg < gkeys[j].pkg
		}
		return gkeys[i].name < gkeys[j].name
	})
	b.WriteString("Definition gen_global_vars : list gvar := [\n")
	first := true
	nRO := 0
	for _, k := range gkeys {
		kind := ""
		if s, ok := syncGlobals[k]; ok {
			kind = "(GSync " + coqStr(s) + ")"
		} else if mutable[k] {
			kind = "GMutable"
		} else if refUsed[k] {
			kind = "(GRefUsed " + coqBool(refReach[k]) + ")"
		} else {
			nRO++
			continue // read-only after initialisation: counted, not listed
		}
		if !first {
			b.WriteString(";\n")
		}
		first = false
		ty := "?"
		if g := allGlobals[k]; g != nil {
			if pt, ok := g.Type().(*types.Pointer); ok {
				ty = types.TypeString(pt.Elem(), func(p *types.Package) string { return shortPkg(p.Path()) })
			}
		}
		fmt.Fprintf(&b, "  mkGvar %s %s %s", coqStr(shortPkg(k.pkg)+"."+k.name), kind, coqStr(ty))
	}
	b.WriteString("\n].\n\n")
	fmt.Fprintf(&b, "Definition gen_readonly_global_count : N := %d%%N.\n\n", nRO)
	b.WriteString("Definition gen_accesses : list gaccess := [\n")
	for i, r := range out {
		sep := ";"
		if i == len(out)-1 {
			sep = ""
		}
		ctx := make([]string, len(r.ctx))
		for j, c := range r.ctx {
			ctx[j] = coqStr(c)
		}
		fmt.Fprintf(&b, "  mkAcc %s %s %s %s %d%%N [%s] %s %s%s\n", coqStr(shortPkg(r.pkg)), coqStr(r.fn), coqStr(r.v), r.kind, r.ord,
			strings.Join(ctx, "; "), coqBool(r.reach), coqStr(r.val), sep)
	}
	b.WriteString("].\n")
	if os.Getenv("VERIF_GLOBALS_DEBUG") != "" {
		for _, r := range out {
			fmt.Fprintf(os.Stderr, "%-40s %-45s %-55s %-10s #%d %v reach=%v val=%q %s\n", shortPkg(r.pkg), r.fn, r.v, r.kind, r.ord, r.ctx, r.reach, r.val, prog.Fset.Position(r.pos))
		}
	}
	return b.String(), nil
}

func isRefType(t types.Type) bool {
	switch t.Underlying().(type) {
	case *types.Map, *types.Slice, *types.Pointer, *types.Chan, *types.Signature, *types.Interface:
		return true
	}
	return false
}
