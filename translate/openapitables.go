package main

// OpenApiTables.v: the tables of kyaml/openapi the OpenAPI state-machine model depends on:
//   gen_precomputed_ns   : precomputedIsNamespaceScoped (composite literal in openapi.go), source order
//   gen_default_version  : kubernetesapi.DefaultOpenAPI
//   gen_builtin_versions : keys of kubernetesapi.OpenAPIMustAsset, sorted

import (
	"fmt"
	"go/ast"
	"go/token"
	"path/filepath"
	"sort"
	"strings"
)

func init() {
	registerGen("OpenApiTables.v", func(repo string) (string, error) {
		_, files, err := parseDir(filepath.Join(repo, "kyaml/openapi"))
		if err != nil {
			return "", err
		}
		type row struct {
			av, kind string
			ns       bool
		}
		var rows []row
		found := false
		for _, f := range files {
			for _, d := range f.Decls {
				gd, ok := d.(*ast.GenDecl)
				if !ok || gd.Tok != token.VAR {
					continue
				}
				for _, s := range gd.Specs {
					vs := s.(*ast.ValueSpec)
					for i, n := range vs.Names {
						if n.Name != "precomputedIsNamespaceScoped" || i >= len(vs.Values) {
							continue
						}
						cl, ok := vs.Values[i].(*ast.CompositeLit)
						if !ok {
							return "", fmt.Errorf("precomputedIsNamespaceScoped is not a composite literal")
						}
						found = true
						for _, el := range cl.Elts {
							kv, ok := el.(*ast.KeyValueExpr)
							if !ok {
								return "", fmt.Errorf("precomputedIsNamespaceScoped: unexpected element")
							}
							kl, ok := kv.Key.(*ast.CompositeLit)
							if !ok {
								return "", fmt.Errorf("precomputedIsNamespaceScoped: unexpected key")
							}
							var r row
							seen := 0
							for _, ke := range kl.Elts {
								kkv, ok := ke.(*ast.KeyValueExpr)
								if !ok {
									return "", fmt.Errorf("precomputedIsNamespaceScoped: positional key fields")
								}
								id, _ := kkv.Key.(*ast.Ident)
								sv, ok := litString(kkv.Value)
								if id == nil || !ok {
									return "", fmt.Errorf("precomputedIsNamespaceScoped: non-literal key field")
								}
								switch id.Name {
								case "APIVersion":
									r.av = sv
									seen++
								case "Kind":
									r.kind = sv
									seen++
								default:
									return "", fmt.Errorf("precomputedIsNamespaceScoped: unknown key field %s", id.Name)
								}
							}
							if seen != 2 {
								return "", fmt.Errorf("precomputedIsNamespaceScoped: incomplete key")
							}
							vid, ok := kv.Value.(*ast.Ident)
							if !ok || (vid.Name != "true" && vid.Name != "false") {
								return "", fmt.Errorf("precomputedIsNamespaceScoped: non-literal value")
							}
							r.ns = vid.Name == "true"
							rows = append(rows, r)
						}
					}
				}
			}
		}
		if !found {
			return "", fmt.Errorf("precomputedIsNamespaceScoped not found")
		}
		// default version + builtin version list
		_, kfiles, err := parseDir(filepath.Join(repo, "kyaml/openapi/kubernetesapi"))
		if err != nil {
			return "", err
		}
		dflt, haveD := "", false
		var versions []string
		haveV := false
		for _, f := range kfiles {
			for _, d := range f.Decls {
				gd, ok := d.(*ast.GenDecl)
				if !ok {
					continue
				}
				for _, s := range gd.Specs {
					vs, ok := s.(*ast.ValueSpec)
					if !ok {
						continue
					}
					for i, n := range vs.Names {
						if i >= len(vs.Values) {
							continue
						}
						if n.Name == "DefaultOpenAPI" {
							if sv, ok := litString(vs.Values[i]); ok {
								dflt, haveD = sv, true
							}
						}
						if n.Name == "OpenAPIMustAsset" {
							cl, ok := vs.Values[i].(*ast.CompositeLit)
							if !ok {
								return "", fmt.Errorf("OpenAPIMustAsset is not a composite literal")
							}
							haveV = true
							for _, el := range cl.Elts {
								kv, ok := el.(*ast.KeyValueExpr)
								if !ok {
									return "", fmt.Errorf("OpenAPIMustAsset: unexpected element")
								}
								sv, ok := litString(kv.Key)
								if !ok {
									return "", fmt.Errorf("OpenAPIMustAsset: non-literal key")
								}
								versions = append(versions, sv)
							}
						}
					}
				}
			}
		}
		if !haveD || !haveV {
			return "", fmt.Errorf("kubernetesapi.DefaultOpenAPI / OpenAPIMustAsset not found")
		}
		// kubernetesOpenAPIDefaultVersion must still be bound to kubernetesapi.DefaultOpenAPI
		bound := false
		for _, f := range files {
			ast.Inspect(f, func(n ast.Node) bool {
				vs, ok := n.(*ast.ValueSpec)
				if !ok {
					return true
				}
				for i, nm := range vs.Names {
					if nm.Name == "kubernetesOpenAPIDefaultVersion" && i < len(vs.Values) {
						if se, ok := vs.Values[i].(*ast.SelectorExpr); ok && se.Sel.Name == "DefaultOpenAPI" {
							bound = true
						}
					}
				}
				return true
			})
		}
		if !bound {
			return "", fmt.Errorf("kubernetesOpenAPIDefaultVersion is no longer kubernetesapi.DefaultOpenAPI")
		}
		sort.Strings(versions)
		var b strings.Builder
		b.WriteString("From Coq Require Import List String.\nImport ListNotations.\nOpen Scope string_scope.\n\n")
		b.WriteString("(* (apiVersion, kind, namespaced) — kyaml/openapi precomputedIsNamespaceScoped, source order *)\n")
		b.WriteString("Definition gen_precomputed_ns : list (string * string * bool) := [\n")
		for i, r := range rows {
			sep := ";"
			if i == len(rows)-1 {
				sep = ""
			}
			fmt.Fprintf(&b, "  (%s, %s, %s)%s\n", coqStr(r.av), coqStr(r.kind), coqBool(r.ns), sep)
		}
		b.WriteString("].\n\n")
		fmt.Fprintf(&b, "Definition gen_default_version : string := %s.\n\n", coqStr(dflt))
		vs := make([]string, len(versions))
		for i, v := range versions {
			vs[i] = coqStr(v)
		}
		fmt.Fprintf(&b, "Definition gen_builtin_versions : list string := [%s].\n", strings.Join(vs, "; "))
		return b.String(), nil
	})
}
