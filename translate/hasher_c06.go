package main

import (
	"fmt"
	"go/ast"
	"go/constant"
	"go/parser"
	"go/token"
	"path/filepath"
	"strconv"
	"strings"
)

// HasherTables.v (property C06): the tables/site shapes of the generator-hash code path.
//   api/hasher/hasher.go        encode: minimum length, prefix length, substitution switch
//                               encodeConfigMap/encodeSecret: looked-up paths, members of the encoded map,
//                               the optional member; getNodeValues: lookup with ONE path element per entry
//   api/types/generationbehavior.go   NewGenerationBehavior: string -> behaviour
//   api/resource/resource.go    BuildAnnotations: annotations CopyMergeMetaDataFieldsFrom takes from the OLD object
//   api/resmap/reswrangler.go   appendReplaceOrMerge: which behaviours are accepted for 0 / 1 matches
// Anything the translator cannot classify makes generation fail (the obligations then fail).

func c06ParseFile(path string) (*token.FileSet, *ast.File, error) {
	fset := token.NewFileSet()
	f, err := parser.ParseFile(fset, path, nil, 0)
	return fset, f, err
}

func c06FindFunc(f *ast.File, name string) *ast.FuncDecl {
	for _, d := range f.Decls {
		if fd, ok := d.(*ast.FuncDecl); ok && fd.Name.Name == name {
			return fd
		}
	}
	return nil
}

func c06CharLit(e ast.Expr) (byte, bool) {
	bl, ok := e.(*ast.BasicLit)
	if !ok || bl.Kind != token.CHAR {
		return 0, false
	}
	v := constant.MakeFromLiteral(bl.Value, token.CHAR, 0)
	n, ok := constant.Int64Val(v)
	if !ok || n < 0 || n > 127 {
		return 0, false
	}
	return byte(n), true
}

func c06StrLit(e ast.Expr) (string, bool) {
	bl, ok := e.(*ast.BasicLit)
	if !ok || bl.Kind != token.STRING {
		return "", false
	}
	s, err := strconv.Unquote(bl.Value)
	return s, err == nil
}

func c06IntLit(e ast.Expr) (int, bool) {
	bl, ok := e.(*ast.BasicLit)
	if !ok || bl.Kind != token.INT {
		return 0, false
	}
	n, err := strconv.Atoi(bl.Value)
	return n, err == nil
}

func c06ExprString(e ast.Expr) string {
	switch x := e.(type) {
	case *ast.Ident:
		return x.Name
	case *ast.SelectorExpr:
		return c06ExprString(x.X) + "." + x.Sel.Name
	}
	return "?"
}

// encode(): `if len(hex) < N { error }`, `enc := []rune(hex[:M])`, switch enc[i] { case 'a': enc[i] = 'b' ... }
func c06Encode(f *ast.File) (minLen, prefLen int, rows [][2]byte, err error) {
	fd := c06FindFunc(f, "encode")
	if fd == nil {
		return 0, 0, nil, fmt.Errorf("hasher.encode not found")
	}
	minLen, prefLen = -1, -1
	nSwitch := 0
	var walkErr error
	ast.Inspect(fd.Body, func(n ast.Node) bool {
		switch x := n.(type) {
		case *ast.IfStmt:
			if be, ok := x.Cond.(*ast.BinaryExpr); ok && be.Op == token.LSS {
				if ce, ok := be.X.(*ast.CallExpr); ok && c06ExprString(ce.Fun) == "len" {
					if v, ok := c06IntLit(be.Y); ok {
						minLen = v
					}
				}
			}
		case *ast.SliceExpr:
			if x.Low == nil && x.High != nil {
				if v, ok := c06IntLit(x.High); ok {
					prefLen = v
				}
			}
		case *ast.SwitchStmt:
			nSwitch++
			for _, st := range x.Body.List {
				cc := st.(*ast.CaseClause)
				if cc.List == nil {
					walkErr = fmt.Errorf("encode: default clause in the substitution switch")
					return false
				}
				if len(cc.List) != 1 || len(cc.Body) != 1 {
					walkErr = fmt.Errorf("encode: unexpected case clause shape")
					return false
				}
				from, ok1 := c06CharLit(cc.List[0])
				as, ok2 := cc.Body[0].(*ast.AssignStmt)
				if !ok1 || !ok2 || len(as.Rhs) != 1 || as.Tok != token.ASSIGN {
					walkErr = fmt.Errorf("encode: unexpected case clause")
					return false
				}
				to, ok3 := c06CharLit(as.Rhs[0])
				if !ok3 {
					walkErr = fmt.Errorf("encode: non-literal substitution")
					return false
				}
				rows = append(rows, [2]byte{from, to})
			}
			return false
		}
		return true
	})
	if walkErr != nil {
		return 0, 0, nil, walkErr
	}
	if minLen < 0 || prefLen < 0 || nSwitch != 1 {
		return 0, 0, nil, fmt.Errorf("encode: shape not recognised (min=%d prefix=%d switches=%d)", minLen, prefLen, nSwitch)
	}
	return minLen, prefLen, rows, nil
}

// member of the encoded map: constant string or values[<path>]
func c06Member(e ast.Expr) (string, error) {
	if s, ok := c06StrLit(e); ok {
		return "MConst " + coqStr(s), nil
	}
	if ix, ok := e.(*ast.IndexExpr); ok && c06ExprString(ix.X) == "values" {
		if s, ok := c06StrLit(ix.Index); ok {
			return "MPath " + coqStr(s), nil
		}
	}
	return "", fmt.Errorf("unclassified member expression")
}

// encodeConfigMap / encodeSecret
func c06EncodeKind(f *ast.File, name string) (paths []string, members []string, optional []string, err error) {
	fd := c06FindFunc(f, name)
	if fd == nil {
		return nil, nil, nil, fmt.Errorf("%s not found", name)
	}
	var werr error
	ast.Inspect(fd.Body, func(n ast.Node) bool {
		switch x := n.(type) {
		case *ast.AssignStmt:
			if len(x.Lhs) == 1 && len(x.Rhs) == 1 {
				lhs := c06ExprString(x.Lhs[0])
				if cl, ok := x.Rhs[0].(*ast.CompositeLit); ok {
					if lhs == "paths" {
						for _, el := range cl.Elts {
							s, ok := c06StrLit(el)
							if !ok {
								werr = fmt.Errorf("%s: non-literal path", name)
								return false
							}
							paths = append(paths, s)
						}
					} else if lhs == "m" {
						for _, el := range cl.Elts {
							kv, ok := el.(*ast.KeyValueExpr)
							if !ok {
								werr = fmt.Errorf("%s: map literal element", name)
								return false
							}
							k, ok := c06StrLit(kv.Key)
							if !ok {
								werr = fmt.Errorf("%s: non-literal map key", name)
								return false
							}
							mem, e := c06Member(kv.Value)
							if e != nil {
								werr = fmt.Errorf("%s: member %s: %v", name, k, e)
								return false
							}
							members = append(members, fmt.Sprintf("(%s, %s)", coqStr(k), mem))
						}
					}
				}
				// m["x"] = values["x"]  (inside the `if _, ok := values["x"].(map[string]interface{}); ok` guard)
				if ix, ok := x.Lhs[0].(*ast.IndexExpr); ok && c06ExprString(ix.X) == "m" {
					k, ok1 := c06StrLit(ix.Index)
					mem, e := c06Member(x.Rhs[0])
					if !ok1 || e != nil {
						werr = fmt.Errorf("%s: optional member not classified", name)
						return false
					}
					optional = append(optional, fmt.Sprintf("(%s, %s)", coqStr(k), mem))
				}
			}
		}
		return true
	})
	if werr != nil {
		return nil, nil, nil, werr
	}
	if len(paths) == 0 || len(members) == 0 {
		return nil, nil, nil, fmt.Errorf("%s: paths/members not found", name)
	}
	return paths, members, optional, nil
}

// getNodeValues: `vn, err := node.Pipe(yaml.Lookup(p))` with the range variable as the only argument;
// absent -> values[p] = "" ; scalar -> Value ; otherwise MarshalJSON
func c06LookupShape(f *ast.File) (single bool, absentEmpty bool, err error) {
	fd := c06FindFunc(f, "getNodeValues")
	if fd == nil {
		return false, false, fmt.Errorf("getNodeValues not found")
	}
	nLookup := 0
	ast.Inspect(fd.Body, func(n ast.Node) bool {
		switch x := n.(type) {
		case *ast.CallExpr:
			if c06ExprString(x.Fun) == "yaml.Lookup" {
				nLookup++
				if len(x.Args) == 1 && x.Ellipsis == token.NoPos {
					if id, ok := x.Args[0].(*ast.Ident); ok && id.Name == "p" {
						single = true
					}
				}
			}
		case *ast.AssignStmt:
			if len(x.Lhs) == 1 && len(x.Rhs) == 1 {
				if ix, ok := x.Lhs[0].(*ast.IndexExpr); ok && c06ExprString(ix.X) == "values" {
					if s, ok := c06StrLit(x.Rhs[0]); ok && s == "" {
						absentEmpty = true
					}
				}
			}
		}
		return true
	})
	if nLookup != 1 {
		return false, false, fmt.Errorf("getNodeValues: %d yaml.Lookup calls", nLookup)
	}
	return single, absentEmpty, nil
}

// NewGenerationBehavior: switch s { case "x": return BehaviorX ... default: return BehaviorUnspecified }
func c06Behaviors(repo string) (rows []string, def string, err error) {
	_, f, err := c06ParseFile(filepath.Join(repo, "api/types/generationbehavior.go"))
	if err != nil {
		return nil, "", err
	}
	fd := c06FindFunc(f, "NewGenerationBehavior")
	if fd == nil {
		return nil, "", fmt.Errorf("NewGenerationBehavior not found")
	}
	var werr error
	ast.Inspect(fd.Body, func(n ast.Node) bool {
		sw, ok := n.(*ast.SwitchStmt)
		if !ok {
			return true
		}
		for _, st := range sw.Body.List {
			cc := st.(*ast.CaseClause)
			if len(cc.Body) != 1 {
				werr = fmt.Errorf("behavior switch: clause body")
				return false
			}
			rs, ok := cc.Body[0].(*ast.ReturnStmt)
			if !ok || len(rs.Results) != 1 {
				werr = fmt.Errorf("behavior switch: not a return")
				return false
			}
			target := c06ExprString(rs.Results[0])
			if cc.List == nil {
				def = target
				continue
			}
			for _, e := range cc.List {
				s, ok := c06StrLit(e)
				if !ok {
					werr = fmt.Errorf("behavior switch: non-literal case")
					return false
				}
				rows = append(rows, fmt.Sprintf("(%s, %s)", coqStr(s), coqStr(target)))
			}
		}
		return false
	})
	if werr != nil {
		return nil, "", werr
	}
	if len(rows) == 0 || def == "" {
		return nil, "", fmt.Errorf("behavior switch not recognised")
	}
	return rows, def, nil
}

// resource.BuildAnnotations (identifiers as written)
func c06BuildAnnotations(repo string) ([]string, error) {
	_, f, err := c06ParseFile(filepath.Join(repo, "api/resource/resource.go"))
	if err != nil {
		return nil, err
	}
	for _, d := range f.Decls {
		gd, ok := d.(*ast.GenDecl)
		if !ok || gd.Tok != token.VAR {
			continue
		}
		for _, s := range gd.Specs {
			vs := s.(*ast.ValueSpec)
			for i, n := range vs.Names {
				if n.Name != "BuildAnnotations" || i >= len(vs.Values) {
					continue
				}
				cl, ok := vs.Values[i].(*ast.CompositeLit)
				if !ok {
					return nil, fmt.Errorf("BuildAnnotations is not a composite literal")
				}
				var out []string
				for _, e := range cl.Elts {
					s := c06ExprString(e)
					if strings.Contains(s, "?") {
						return nil, fmt.Errorf("BuildAnnotations: unclassified element")
					}
					out = append(out, s)
				}
				return out, nil
			}
		}
	}
	return nil, fmt.Errorf("BuildAnnotations not found")
}

// appendReplaceOrMerge: outer switch on len(matches) with cases 0, 1, default; inner switches on res.Behavior().
// Emits for every (match-count class, behaviour identifier) what the clause does: "error" when its body is a
// single `return fmt.Errorf(...)`, "append" when it returns m.Append(res), "replace"/"merge" when it calls
// CopyMergeMetaDataFieldsFrom without/with MergeDataMapFrom.
func c06AbsorbTable(repo string) ([]string, error) {
	_, f, err := c06ParseFile(filepath.Join(repo, "api/resmap/reswrangler.go"))
	if err != nil {
		return nil, err
	}
	fd := c06FindFunc(f, "appendReplaceOrMerge")
	if fd == nil {
		return nil, fmt.Errorf("appendReplaceOrMerge not found")
	}
	classify := func(body []ast.Stmt) string {
		calls := map[string]bool{}
		for _, st := range body {
			ast.Inspect(st, func(n ast.Node) bool {
				if ce, ok := n.(*ast.CallExpr); ok {
					calls[c06ExprString(ce.Fun)] = true
				}
				return true
			})
		}
		switch {
		case calls["res.MergeDataMapFrom"] && calls["res.MergeBinaryDataMapFrom"] && calls["res.CopyMergeMetaDataFieldsFrom"]:
			return "merge"
		case calls["res.CopyMergeMetaDataFieldsFrom"] && !calls["res.MergeDataMapFrom"] && !calls["res.MergeBinaryDataMapFrom"]:
			return "replace"
		case calls["m.Append"] && len(body) == 1:
			return "append"
		case calls["fmt.Errorf"] && len(body) == 1:
			if _, ok := body[0].(*ast.ReturnStmt); ok {
				return "error"
			}
		}
		return "unclassified"
	}
	var outer *ast.SwitchStmt
	for _, st := range fd.Body.List {
		if sw, ok := st.(*ast.SwitchStmt); ok {
			outer = sw
		}
	}
	if outer == nil {
		return nil, fmt.Errorf("appendReplaceOrMerge: outer switch not found")
	}
	if ce, ok := outer.Tag.(*ast.CallExpr); !ok || c06ExprString(ce.Fun) != "len" || len(ce.Args) != 1 || c06ExprString(ce.Args[0]) != "matches" {
		return nil, fmt.Errorf("appendReplaceOrMerge: outer switch is not on len(matches)")
	}
	var rows []string
	for _, st := range outer.Body.List {
		cc := st.(*ast.CaseClause)
		class := "many"
		if cc.List != nil {
			if len(cc.List) != 1 {
				return nil, fmt.Errorf("appendReplaceOrMerge: case list")
			}
			n, ok := c06IntLit(cc.List[0])
			if !ok || n < 0 || n > 1 {
				return nil, fmt.Errorf("appendReplaceOrMerge: unexpected match count case")
			}
			class = strconv.Itoa(n)
		}
		var inner *ast.SwitchStmt
		for _, s2 := range cc.Body {
			if sw, ok := s2.(*ast.SwitchStmt); ok {
				if ce, ok := sw.Tag.(*ast.CallExpr); ok && c06ExprString(ce.Fun) == "res.Behavior" {
					inner = sw
				}
			}
		}
		if inner == nil {
			rows = append(rows, fmt.Sprintf("(%s, %s, %s)", coqStr(class), coqStr("*"), coqStr(classify(cc.Body))))
			continue
		}
		for _, s3 := range inner.Body.List {
			ic := s3.(*ast.CaseClause)
			what := classify(ic.Body)
			if ic.List == nil {
				rows = append(rows, fmt.Sprintf("(%s, %s, %s)", coqStr(class), coqStr("default"), coqStr(what)))
				continue
			}
			for _, e := range ic.List {
				rows = append(rows, fmt.Sprintf("(%s, %s, %s)", coqStr(class), coqStr(c06ExprString(e)), coqStr(what)))
			}
		}
	}
	return rows, nil
}

func init() {
	registerGen("HasherTables.v", func(repo string) (string, error) {
		_, f, err := c06ParseFile(filepath.Join(repo, "api/hasher/hasher.go"))
		if err != nil {
			return "", err
		}
		minLen, prefLen, rows, err := c06Encode(f)
		if err != nil {
			return "", err
		}
		var b strings.Builder
		b.WriteString("From Coq Require Import List String NArith.\nImport ListNotations.\nOpen Scope string_scope.\n\n")
		b.WriteString("Inductive hmember := MConst (s : string) | MPath (p : string).\n\n")
		fmt.Fprintf(&b, "(* hasher.encode *)\nDefinition hash_min_len : N := %d%%N.\nDefinition hash_prefix_len : N := %d%%N.\n", minLen, prefLen)
		b.WriteString("Definition hash_subst_table : list (N * N) := [")
		for i, r := range rows {
			if i > 0 {
				b.WriteString("; ")
			}
			fmt.Fprintf(&b, "(%d, %d)", r[0], r[1])
		}
		b.WriteString("]%N.\n\n")
		for _, k := range []struct{ fn, coq string }{{"encodeConfigMap", "cm"}, {"encodeSecret", "secret"}} {
			paths, members, optional, err := c06EncodeKind(f, k.fn)
			if err != nil {
				return "", err
			}
			ps := make([]string, len(paths))
			for i, p := range paths {
				ps[i] = coqStr(p)
			}
			fmt.Fprintf(&b, "(* hasher.%s *)\nDefinition hash_%s_paths : list string := [%s].\n", k.fn, k.coq, strings.Join(ps, "; "))
			fmt.Fprintf(&b, "Definition hash_%s_members : list (string * hmember) := [%s].\n", k.coq, strings.Join(members, "; "))
			fmt.Fprintf(&b, "Definition hash_%s_optional : list (string * hmember) := [%s].\n\n", k.coq, strings.Join(optional, "; "))
		}
		single, absentEmpty, err := c06LookupShape(f)
		if err != nil {
			return "", err
		}
		fmt.Fprintf(&b, "(* hasher.getNodeValues: every path is passed to yaml.Lookup as ONE field name; an absent field reads as \"\" *)\n")
		fmt.Fprintf(&b, "Definition hash_lookup_single_field : bool := %s.\nDefinition hash_absent_is_empty_string : bool := %s.\n\n", coqBool(single), coqBool(absentEmpty))
		brows, bdef, err := c06Behaviors(repo)
		if err != nil {
			return "", err
		}
		fmt.Fprintf(&b, "(* types.NewGenerationBehavior *)\nDefinition behavior_table : list (string * string) := [%s].\nDefinition behavior_default : string := %s.\n\n",
			strings.Join(brows, "; "), coqStr(bdef))
		annos, err := c06BuildAnnotations(repo)
		if err != nil {
			return "", err
		}
		as := make([]string, len(annos))
		for i, a := range annos {
			as[i] = coqStr(a)
		}
		fmt.Fprintf(&b, "(* resource.BuildAnnotations *)\nDefinition build_annotation_idents : list string := [%s].\n\n", strings.Join(as, "; "))
		arows, err := c06AbsorbTable(repo)
		if err != nil {
			return "", err
		}
		fmt.Fprintf(&b, "(* resWrangler.appendReplaceOrMerge: (number of matches, behaviour, action) *)\nDefinition absorb_table : list (string * string * string) := [%s].\n",
			strings.Join(arows, "; "))
		return b.String(), nil
	})
}
