package main

// DeepCopy.v (C16): the default transformer configuration is a process-global parsed once
// (builtinconfig.MakeDefaultConfig, behind a sync.Once) and handed to every build as a copy made by
// (*TransformerConfig).DeepCopy. The globals translator does not track mutation through references obtained
// from a global, so the copy discipline is checked syntactically here:
//   gen_tc_fields     : every field of TransformerConfig — its type, whether the type is a reference type
//                       (slice / map / pointer / unknown), and how DeepCopy fills it in its result literal
//                       (DCDeep = t.<Field>.DeepCopy(), DCShared = t.<Field>, DCMissing, DCOther);
//   gen_tc_copy_types : for every field type, whether its DeepCopy method allocates (make) and copies (copy / range).
// A field that is no longer deep-copied (append into the shared backing array from concurrent builds) turns its row
// into DCShared and fails Gen_deepcopy_ok.

import (
	"fmt"
	"go/ast"
	"go/token"
	"path/filepath"
	"sort"
	"strings"
)

func typeExprString(e ast.Expr) string {
	switch x := e.(type) {
	case *ast.Ident:
		return x.Name
	case *ast.SelectorExpr:
		return typeExprString(x.X) + "." + x.Sel.Name
	case *ast.StarExpr:
		return "*" + typeExprString(x.X)
	case *ast.ArrayType:
		return "[]" + typeExprString(x.Elt)
	case *ast.MapType:
		return "map[" + typeExprString(x.Key) + "]" + typeExprString(x.Value)
	}
	return "?"
}

func init() {
	registerGen("DeepCopy.v", func(repo string) (string, error) {
		dirs := map[string]string{
			"":      filepath.Join(repo, "api/internal/plugins/builtinconfig"),
			"types": filepath.Join(repo, "api/types"),
		}
		typeDecl := map[string]ast.Expr{}    // (qualified) type name -> underlying type expression
		copyFn := map[string]*ast.FuncDecl{} // (qualified) receiver type -> its DeepCopy method
		var tcStruct *ast.StructType
		var tcDeepCopy *ast.FuncDecl
		for qual, dir := range dirs {
			_, files, err := parseDir(dir)
			if err != nil {
				return "", err
			}
			q := func(n string) string {
				if qual == "" {
					return n
				}
				return qual + "." + n
			}
			for _, f := range files {
				for _, d := range f.Decls {
					switch x := d.(type) {
					case *ast.GenDecl:
						if x.Tok != token.TYPE {
							continue
						}
						for _, s := range x.Specs {
							ts := s.(*ast.TypeSpec)
							typeDecl[q(ts.Name.Name)] = ts.Type
							if st, ok := ts.Type.(*ast.StructType); ok && qual == "" && ts.Name.Name == "TransformerConfig" {
								tcStruct = st
							}
						}
					case *ast.FuncDecl:
						if x.Recv == nil || len(x.Recv.List) != 1 || x.Name.Name != "DeepCopy" {
							continue
						}
						rt := strings.TrimPrefix(typeExprString(x.Recv.List[0].Type), "*")
						copyFn[q(rt)] = x
						if qual == "" && rt == "TransformerConfig" {
							tcDeepCopy = x
						}
					}
				}
			}
		}
		if tcStruct == nil || tcDeepCopy == nil || tcDeepCopy.Body == nil {
			return "", fmt.Errorf("TransformerConfig or its DeepCopy method not found")
		}
		recv := ""
		if len(tcDeepCopy.Recv.List[0].Names) == 1 {
			recv = tcDeepCopy.Recv.List[0].Names[0].Name
		}
		// the composite literal DeepCopy returns
		var lit *ast.CompositeLit
		ast.Inspect(tcDeepCopy.Body, func(n ast.Node) bool {
			if cl, ok := n.(*ast.CompositeLit); ok && lit == nil {
				if id, ok := cl.Type.(*ast.Ident); ok && id.Name == "TransformerConfig" {
					lit = cl
				}
			}
			return true
		})
		if lit == nil {
			return "", fmt.Errorf("(*TransformerConfig).DeepCopy: no TransformerConfig literal found")
		}
		how := map[string]string{}
		for _, el := range lit.Elts {
			kv, ok := el.(*ast.KeyValueExpr)
			if !ok {
				return "", fmt.Errorf("(*TransformerConfig).DeepCopy: positional literal")
			}
			key, _ := kv.Key.(*ast.Ident)
			if key == nil {
				continue
			}
			kind := "DCOther"
			isRecvField := func(e ast.Expr) bool {
				se, ok := e.(*ast.SelectorExpr)
				if !ok || se.Sel.Name != key.Name {
					return false
				}
				id, ok := se.X.(*ast.Ident)
				return ok && id.Name == recv
			}
			switch v := kv.Value.(type) {
			case *ast.CallExpr:
				if se, ok := v.Fun.(*ast.SelectorExpr); ok && se.Sel.Name == "DeepCopy" && len(v.Args) == 0 && isRecvField(se.X) {
					kind = "DCDeep"
				}
			case *ast.SelectorExpr:
				if isRecvField(v) {
					kind = "DCShared"
				}
			}
			how[key.Name] = kind
		}
		isRef := func(t string) bool {
			t0 := t
			for i := 0; i < 5; i++ {
				if strings.HasPrefix(t, "[]") || strings.HasPrefix(t, "map[") || strings.HasPrefix(t, "*") {
					return true
				}
				switch t {
				case "string", "bool", "int", "int32", "int64", "uint", "uint32", "uint64", "float64":
					return false
				}
				d, ok := typeDecl[t]
				if !ok {
					return true // unknown: conservatively a reference type
				}
				if _, isStruct := d.(*ast.StructType); isStruct {
					return true // a struct may contain references: conservatively needs a deep copy
				}
				t = typeExprString(d)
			}
			_ = t0
			return true
		}
		var b strings.Builder
		b.WriteString("From KV Require Import Glob.GlobalsTypes.\nOpen Scope string_scope.\n\n")
		b.WriteString("(* field of builtinconfig.TransformerConfig, its type, reference type?, how TransformerConfig.DeepCopy fills it *)\n")
		b.WriteString("Definition gen_tc_fields : list (string * string * bool * dckind) := [\n")
		rows := []string{}
		usedTypes := map[string]bool{}
		for _, f := range tcStruct.Fields.List {
			ty := typeExprString(f.Type)
			for _, n := range f.Names {
				k, ok := how[n.Name]
				if !ok {
					k = "DCMissing"
				}
				usedTypes[ty] = true
				rows = append(rows, fmt.Sprintf("  (%s, %s, %s, %s)", coqStr(n.Name), coqStr(ty), coqBool(isRef(ty)), k))
			}
		}
		b.WriteString(strings.Join(rows, ";\n") + "\n].\n\n")
		b.WriteString("(* field type, has a DeepCopy method, whose body allocates (make), and copies (copy or a range loop) *)\n")
		b.WriteString("Definition gen_tc_copy_types : list (string * bool * bool * bool) := [\n")
		tys := []string{}
		for t := range usedTypes {
			tys = append(tys, t)
		}
		sort.Strings(tys)
		rows = rows[:0]
		for _, t := range tys {
			fn := copyFn[t]
			hasMake, hasCopy := false, false
			if fn != nil && fn.Body != nil {
				ast.Inspect(fn.Body, func(n ast.Node) bool {
					switch x := n.(type) {
					case *ast.CallExpr:
						if id, ok := x.Fun.(*ast.Ident); ok {
							if id.Name == "make" {
								hasMake = true
							}
							if id.Name == "copy" {
								hasCopy = true
							}
						}
					case *ast.RangeStmt:
						hasCopy = true
					}
					return true
				})
			}
			rows = append(rows, fmt.Sprintf("  (%s, %s, %s, %s)", coqStr(t), coqBool(fn != nil), coqBool(hasMake), coqBool(hasCopy)))
		}
		b.WriteString(strings.Join(rows, ";\n") + "\n].\n")
		return b.String(), nil
	})
}
