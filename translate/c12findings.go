package main

import (
	"fmt"
	"os"
	"path/filepath"
	"regexp"
	"sort"
	"strings"
)

// C12Findings.v: the class ids of the C12 findings recorded in the framework's own
// findings.d/*.txt / known-findings.txt (not a /repo table: it ties the KnownFinding entries of
// Glob/PanicAllow.v to documented findings, obligation Gen_panic_known_findings_listed).
func init() {
	registerGen("C12Findings.v", func(repo string) (string, error) {
		root := os.Getenv("VERIF_ROOT")
		if root == "" {
			wd, err := os.Getwd()
			if err != nil {
				return "", err
			}
			root = filepath.Dir(wd)
		}
		paths, _ := filepath.Glob(filepath.Join(root, "findings.d", "*.txt"))
		paths = append(paths, filepath.Join(root, "known-findings.txt"))
		re := regexp.MustCompile(`^finding:\s+property=C12\s+class=(\S+)`)
		reFixed := regexp.MustCompile(`^fixed:\s+property=C12\s+\S+\s+class=(\S+)`)
		set := map[string]bool{}
		fixedSet := map[string]bool{}
		for _, p := range paths {
			data, err := os.ReadFile(p)
			if err != nil {
				continue
			}
			for _, l := range strings.Split(string(data), "\n") {
				if m := re.FindStringSubmatch(strings.TrimSpace(l)); m != nil {
					set[m[1]] = true
				}
				if m := reFixed.FindStringSubmatch(strings.TrimSpace(l)); m != nil {
					fixedSet[m[1]] = true
				}
			}
		}
		var classes []string
		for c := range set {
			classes = append(classes, c)
		}
		sort.Strings(classes)
		var b strings.Builder
		b.WriteString("From KV Require Import Base.Prelude.\nOpen Scope string_scope.\n\n")
		b.WriteString("Definition gen_c12_finding_classes : list string := [\n")
		for i, c := range classes {
			sep := ";"
			if i == len(classes)-1 {
				sep = ""
			}
			fmt.Fprintf(&b, "  %s%s\n", coqStr(c), sep)
		}
		b.WriteString("].\n\n")
		var fixed []string
		for c := range fixedSet {
			fixed = append(fixed, c)
		}
		sort.Strings(fixed)
		b.WriteString("(* classes of repaired defects (fixed: lines), kept as regression inputs *)\n")
		b.WriteString("Definition gen_c12_fixed_classes : list string := [\n")
		for i, c := range fixed {
			sep := ";"
			if i == len(fixed)-1 {
				sep = ""
			}
			fmt.Fprintf(&b, "  %s%s\n", coqStr(c), sep)
		}
		b.WriteString("].\n")
		return b.String(), nil
	})
}
