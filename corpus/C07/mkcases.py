import json
gen = {"apiVersion":"v1","kind":"ConfigMap","name":"x","ann":{"internal.config.kubernetes.io/needsHashSuffix":"enabled"},"tag":"gen"}
def local(name): return {"apiVersion":"v1","kind":"ConfigMap","name":name,"ann":{"config.kubernetes.io/local-config":"true"},"tag":"local"}
def plain(name): return {"apiVersion":"v1","kind":"ConfigMap","name":name,"tag":"plain"}
import sys
H = sys.argv[1] if len(sys.argv) > 1 else "x-PLACEHOLDER"
seqs = [
  # the refutation witness of C07_ids_unique_output_fifo_refuted on the real code: hash, IgnoreLocal, no sort
  {"init":[local(H), gen], "ops":[{"op":"hash"},{"op":"ignorelocal"},{"op":"strip","bm":[]}]},
  # same input, legacy order: an error instead
  {"init":[local(H), gen], "ops":[{"op":"hash"},{"op":"ignorelocal"},{"op":"sortlegacy"}]},
  # plain clash: Factory.FromResourceSlice panics inside IgnoreLocal
  {"init":[plain(H), gen], "ops":[{"op":"hash"},{"op":"ignorelocal"}]},
  # witness of C07_ids_unique_hash_refuted
  {"init":[plain(H), gen], "ops":[{"op":"hash"}]},
  # witness of C07_wellformed_name_refuted: a nameless List kind passes IgnoreLocal
  {"init":[{"apiVersion":"example.com/v1","kind":"FooList","name":"","tag":"l"}], "ops":[{"op":"ignorelocal"},{"op":"sortlegacy"},{"op":"strip","bm":[]}]},
  # a nameless non-List resource is rejected by IgnoreLocal
  {"init":[{"apiVersion":"example.com/v1","kind":"Foo","name":"","tag":"l"}], "ops":[{"op":"ignorelocal"}]},
  # cross-layer merge: append_all re-checks
  {"init":[plain("p-a")], "ops":[{"op":"appendall","res":[plain("a")]},{"op":"prefix","str":"p-"},{"op":"appendall","res":[{"apiVersion":"v1","kind":"ConfigMap","name":"p-p-a","tag":"late"}]}]},
]
strips = [
  {"bm":[], "ann":{"config.kubernetes.io/origin":"path: a.yaml\n","alpha.config.kubernetes.io/transformations":"- path: k.yaml\n","internal.config.kubernetes.io/refBy":"x","note":"n","config.kubernetes.io/local-config":"false"}},
  {"bm":["originAnnotations","transformerAnnotations"], "ann":{"config.kubernetes.io/origin":"path: a.yaml\n","alpha.config.kubernetes.io/transformations":"- path: k.yaml\n","config.k8s.io/id":"1","internal.config.kubernetes.io/annotations-migration-resource-id":"3"}},
]
kust_gen = "configMapGenerator:\n- name: x\n  literals:\n  - k=v\n"
builds = [
  {"files":{"/a/kustomization.yaml":"resources:\n- r.yaml\n"+kust_gen+"sortOptions:\n  order: fifo\n",
            "/a/r.yaml":"apiVersion: v1\nkind: ConfigMap\nmetadata:\n  name: x-bdg947hgcc\n  annotations:\n    config.kubernetes.io/local-config: \"true\"\ndata:\n  other: thing\n"},
   "dir":"/a","reorder":"legacy","note":"regression (fixed 9a490e0): local-config resource named like a hashed generator output, sortOptions fifo - now a build error"},
  {"files":{"/a/kustomization.yaml":"resources:\n- r.yaml\n"+kust_gen,
            "/a/r.yaml":"apiVersion: v1\nkind: ConfigMap\nmetadata:\n  name: x-bdg947hgcc\n  annotations:\n    config.kubernetes.io/local-config: \"true\"\ndata:\n  other: thing\n"},
   "dir":"/a","reorder":"none","note":"regression (fixed 9a490e0): same with the library default options (Reorder none, no sortOptions) - now a build error"},
  {"files":{"/a/kustomization.yaml":"resources:\n- r.yaml\n"+kust_gen,
            "/a/r.yaml":"apiVersion: v1\nkind: ConfigMap\nmetadata:\n  name: x-bdg947hgcc\n  annotations:\n    config.kubernetes.io/local-config: \"true\"\ndata:\n  other: thing\n"},
   "dir":"/a","reorder":"legacy","note":"same under the legacy order: the build fails instead"},
  {"files":{"/a/kustomization.yaml":"resources:\n- l.yaml\n",
            "/a/l.yaml":"apiVersion: example.com/v1\nkind: WidgetList\nmetadata:\n  labels:\n    a: b\n"},
   "dir":"/a","reorder":"legacy","note":"finding: nameless *List kind without items is emitted without a name"},
]
json.dump({"seqs":seqs,"strips":strips,"builds":builds}, open("/work/c07/corpus/C07/cases.json","w"), indent=1)
