package main

// C12 directed "boundary" mutators. The blind mutators of c12_gen.go rarely produce an option value
// that sits exactly on a boundary of the data it indexes, or an ill-formed pattern in one selector
// field while the rest of the selector still matches a resource (so that execution reaches the use
// site). These mutators build such shapes from the actual content of the valid tree:
//
//   index / count options, values {-1, 0, len-1, len, len+1} computed from the data:
//     replacement source options.delimiter+index, replacement target options.delimiter+index,
//     list indices inside replacement field paths (source and target, with and without create),
//     list indices inside JSON-6902 pointers, vars fieldref indices, replica counts;
//   fields compiled as regular expressions, an invalid pattern in ONE field at a time while the
//   sibling fields stay valid and match an existing resource:
//     patches[].target.{name,namespace,kind,group,version}, patchesJson6902[].target.*,
//     replacement select / reject {name,namespace,kind}, [name=<regexp>] selectors of replacement
//     field paths, images[].name, label / annotation selector strings.

import (
	"fmt"
	"strconv"
	"strings"

	yaml "sigs.k8s.io/yaml/goyaml.v3"
)

var c12BadRegex = []string{"(", "[", "*", "web(", "web[", "*web", "a{2,1}", "(?P<n", "\\", "a**", "[z-a]", "(?<!x)", "a)", "+", "?", "x{", "(?i", "[[:nope:]]", "\\8", "a|*"}

// badRegexFor makes an invalid pattern that still "looks like" the valid value.
func badRegexFor(g *Rng, valid string) string {
	b := g.Pick(c12BadRegex)
	switch g.Intn(4) {
	case 0:
		return valid + b
	case 1:
		return b + valid
	case 2:
		return b
	default:
		if len(valid) > 1 {
			i := 1 + g.Intn(len(valid)-1)
			return valid[:i] + b + valid[i:]
		}
		return valid + b
	}
}

// findObjDoc returns the document that defines the object (also inside a List).
func (t *c12Tree) findObjDoc(o c12Obj) *yaml.Node {
	match := func(d *yaml.Node) bool {
		k := mapGet(d, "kind")
		md := mapGet(d, "metadata")
		if k == nil || md == nil || k.Value != o.kind {
			return false
		}
		n := mapGet(md, "name")
		return n != nil && n.Value == o.name
	}
	for _, f := range t.files {
		if f.role != "resources" {
			continue
		}
		for _, d := range f.docs {
			if match(d) {
				return d
			}
			if items := mapGet(d, "items"); items != nil && items.Kind == yaml.SequenceNode {
				for _, it := range items.Content {
					if match(it) {
						return it
					}
				}
			}
		}
	}
	return nil
}

// evalPath follows a replacement-style path (keys, indices, [k=v]) and returns the node, or nil.
func evalPath(n *yaml.Node, parts []string) *yaml.Node {
	for _, p := range parts {
		if n == nil {
			return nil
		}
		switch {
		case strings.HasPrefix(p, "[") && strings.HasSuffix(p, "]") && strings.Contains(p, "="):
			kv := strings.SplitN(p[1:len(p)-1], "=", 2)
			if n.Kind != yaml.SequenceNode {
				return nil
			}
			var found *yaml.Node
			for _, e := range n.Content {
				if v := mapGet(e, kv[0]); v != nil && v.Value == kv[1] {
					found = e
					break
				}
			}
			n = found
		case n.Kind == yaml.SequenceNode:
			i, err := strconv.Atoi(p)
			if err != nil || i < 0 || i >= len(n.Content) {
				return nil
			}
			n = n.Content[i]
		default:
			n = mapGet(n, p)
		}
	}
	return n
}

func boundary(g *Rng, n int) int {
	return []int{-1, 0, n - 1, n, n + 1, n, n - 1}[g.Intn(7)]
}

// kustomization node of a layer at or above the one that introduced the object
func (t *c12Tree) kustFor(g *Rng, o c12Obj) (*yaml.Node, string) {
	dirs := []string{"/t/base", "/t/mid", "/t/top"}
	var cands []*c12File
	for l := o.generated + 1; l < len(dirs); l++ {
		if l < 0 {
			continue
		}
		for _, f := range t.files {
			if f.path == dirs[l]+"/kustomization.yaml" && len(f.docs) == 1 && f.docs[0].Kind == yaml.MappingNode {
				cands = append(cands, f)
			}
		}
	}
	if len(cands) == 0 {
		return nil, ""
	}
	f := cands[0]
	if g.Chance(30) {
		f = cands[g.Intn(len(cands))]
	}
	return f.docs[0], f.path
}

func listAppend(k *yaml.Node, key string, entry *yaml.Node) {
	l := mapGet(k, key)
	if l == nil || l.Kind != yaml.SequenceNode {
		l = yl()
		mapSet(k, key, l)
	}
	l.Content = append(l.Content, entry)
}

func inlineYAML(n *yaml.Node) *yaml.Node {
	b, _ := encodeDocs([]*yaml.Node{n})
	return &yaml.Node{Kind: yaml.ScalarNode, Tag: "!!str", Value: string(b), Style: yaml.LiteralStyle}
}

func simpleSMP(o c12Obj) *yaml.Node {
	md := ym("name", ys(o.name), "labels", ymss(map[string]string{"directed": "true"}))
	if o.ns != "" {
		mapSet(md, "namespace", ys(o.ns))
	}
	return ym("apiVersion", ys(o.apiVersion), "kind", ys(o.kind), "metadata", md)
}

func simpleJ6902() *yaml.Node {
	return yl(ym("op", ys("add"), "path", ys("/metadata/labels"), "value", ymss(map[string]string{"directed": "true"})))
}

// selectorFor builds a selector that matches exactly o; which optional fields are present is random.
func selectorFor(g *Rng, o c12Obj, forceGV bool) *yaml.Node {
	s := ym("kind", ys(o.kind), "name", ys(o.name))
	gv := strings.Split(o.apiVersion, "/")
	if forceGV || g.Chance(40) {
		mapSet(s, "version", ys(gv[len(gv)-1]))
		if len(gv) == 2 {
			mapSet(s, "group", ys(gv[0]))
		}
	}
	if o.ns != "" && g.Chance(50) {
		mapSet(s, "namespace", ys(o.ns))
	}
	return s
}

// breakOneField puts an invalid pattern into one present field of the selector; the name most often.
func breakOneField(g *Rng, s *yaml.Node) string {
	var fields []string
	for i := 0; i+1 < len(s.Content); i += 2 {
		switch s.Content[i].Value {
		case "name", "namespace", "kind", "group", "version":
			fields = append(fields, s.Content[i].Value)
		}
	}
	if len(fields) == 0 {
		return ""
	}
	f := fields[g.Intn(len(fields))]
	if g.Chance(40) && mapGet(s, "name") != nil {
		f = "name"
	}
	v := mapGet(s, f)
	v.Value = badRegexFor(g, v.Value)
	v.Tag = "!!str"
	return f + "=" + v.Value
}

// scalar-valued, wildcard-free paths of the object together with their current value
func (t *c12Tree) scalarPaths(o c12Obj) (paths []string, vals []string) {
	d := t.findObjDoc(o)
	if d == nil {
		return nil, nil
	}
	for _, p := range o.paths() {
		if strings.Contains(p, "*") {
			continue
		}
		n := evalPath(d, strings.Split(p, "."))
		if n != nil && n.Kind == yaml.ScalarNode {
			paths = append(paths, p)
			vals = append(vals, n.Value)
		}
	}
	return
}

var c12Delims = []string{":", "/", "-", ".", "@", ",", "=", "a"}

// delimiterFor prefers a delimiter that occurs in the value
func delimiterFor(g *Rng, v string) string {
	var occ []string
	for _, d := range c12Delims {
		if strings.Contains(v, d) {
			occ = append(occ, d)
		}
	}
	if len(occ) > 0 && g.Chance(85) {
		return g.Pick(occ)
	}
	return g.Pick(c12Delims)
}

// indexedPaths: paths of the object with a numeric segment, with the length of the list it indexes
func (t *c12Tree) indexedPaths(o c12Obj) (paths []string, seg []int, lens []int) {
	d := t.findObjDoc(o)
	if d == nil {
		return
	}
	for _, p := range o.paths() {
		parts := strings.Split(p, ".")
		for i, s := range parts {
			if _, err := strconv.Atoi(s); err != nil {
				continue
			}
			l := evalPath(d, parts[:i])
			if l != nil && l.Kind == yaml.SequenceNode {
				paths = append(paths, p)
				seg = append(seg, i)
				lens = append(lens, len(l.Content))
			}
		}
	}
	return
}

// directedOnce applies one directed mutation of one of three families; "" when the tree offers no site.
func (gen *c12Gen) directedOnce(g *Rng, t *c12Tree) string {
	switch k := g.Intn(100); {
	case k < 2:
		return gen.directedCrdCycle(g, t)
	case k < 4:
		if d := gen.directedOpenAPILayers(g, t); d != "" {
			return d
		}
		return gen.directedBoundary(g, t)
	case k < 10:
		if d := gen.directedEmptyFile(g, t); d != "" {
			return d
		}
		return gen.directedBoundary(g, t)
	case k < 50:
		return gen.directedBoundary(g, t)
	case k < 75:
		if d := gen.directedDeleteKey(g, t); d != "" {
			return d
		}
		return gen.directedBoundary(g, t)
	default:
		if d := gen.directedTwoDefects(g, t); d != "" {
			return d
		}
		return gen.directedBoundary(g, t)
	}
}

// ---------- family 6: `crds:` definitions whose $ref chain comes back to where it started ----------
//
// loadCrdIntoConfig follows the $ref of every property: a type that refers to itself, two types that refer to
// each other, a longer ring; with and without the marker properties that make a definition "look like a k8s type".
func (gen *c12Gen) directedCrdCycle(g *Rng, t *c12Tree) string {
	var ks []*c12File
	for _, f := range t.files {
		if f.role == "kustomization" && len(f.docs) == 1 && f.docs[0].Kind == yaml.MappingNode {
			ks = append(ks, f)
		}
	}
	if len(ks) == 0 {
		return ""
	}
	kf := ks[g.Intn(len(ks))]
	ring := 1 + g.Intn(3)
	name := func(i int) string { return fmt.Sprintf("github.com/x/v1.T%d", i%ring) }
	defs := ym()
	for i := 0; i < ring; i++ {
		props := ym("next", ym("$ref", ys(name(i+1))))
		if i == 0 || g.Chance(30) {
			mapSet(props, "kind", ym("type", ys("string")))
			mapSet(props, "apiVersion", ym("type", ys("string")))
			mapSet(props, "metadata", ym("type", ys("string")))
		}
		if g.Chance(30) {
			mapSet(props, "ref", ym("x-kubernetes-object-ref-api-version", ys("v1"), "x-kubernetes-object-ref-kind", ys("ConfigMap"), "type", ys("object")))
		}
		mapSet(defs, name(i), ym("Schema", ym("type", ys("object"), "properties", props)))
	}
	dir := kf.path[:strings.LastIndex(kf.path, "/")]
	fn := "crdcycle.yaml"
	t.files = append(t.files, &c12File{path: dir + "/" + fn, docs: []*yaml.Node{defs}, role: "config"})
	listAppend(kf.docs[0], "crds", ys(fn))
	return fmt.Sprintf("directed:crdcycle ring=%d @%s:", ring, kf.path)
}

// ---------- family 5: `openapi:` in more than one layer ----------
//
// The schema is process-wide state guarded by a lock; every layer (base, overlay, component) that
// carries an `openapi:` field goes through SetSchema again. A builtin version in the lower layer and
// a version or a schema file in the upper one (and the other way round).
func (gen *c12Gen) directedOpenAPILayers(g *Rng, t *c12Tree) string {
	var ks []*c12File
	for _, f := range t.files {
		if f.role == "kustomization" && len(f.docs) == 1 && f.docs[0].Kind == yaml.MappingNode {
			ks = append(ks, f)
		}
	}
	if len(ks) < 2 {
		return ""
	}
	version := func() *yaml.Node {
		return ym("version", ys(g.Pick([]string{"v1.21.2", "v1.21.2", "v1.21.2", "v1.20.4", "v1.19.1", "", "latest"})))
	}
	what := []string{}
	n := 2
	if len(ks) > 2 && g.Chance(40) {
		n = 3
	}
	for i := 0; i < n; i++ {
		f := ks[(i*7+g.Intn(len(ks)))%len(ks)]
		if i < 2 {
			f = ks[i*(len(ks)-1)] // the lowest and the top layer always
		}
		k := f.docs[0]
		if existing := mapGet(k, "openapi"); existing != nil && mapGet(existing, "path") != nil && g.Chance(70) {
			what = append(what, "path@"+f.path)
			continue // keep a custom schema file in that layer
		}
		mapSet(k, "openapi", version())
		what = append(what, mapGet(mapGet(k, "openapi"), "version").Value+"@"+f.path)
	}
	return fmt.Sprintf("directed:openapi-layers %s @%s:", strings.Join(what, ","), ks[len(ks)-1].path)
}

// ---------- family 4: a file that a directive names is empty (or holds no document) ----------
//
// Readers index content[0], take the first document, or hand an empty node list on: every file-valued
// directive (crds, configurations, openapi.path, replacements[].path, patches[].path, transformers,
// patchesStrategicMerge, resources, generator files / envs) gets a file with nothing in it.
func (gen *c12Gen) directedEmptyFile(g *Rng, t *c12Tree) string {
	var cands []*c12File
	for _, f := range t.files {
		if f.role != "kustomization" {
			cands = append(cands, f)
		}
	}
	if len(cands) == 0 {
		return ""
	}
	f := cands[g.Intn(len(cands))]
	// config-like files are rarer: prefer them
	for tries := 0; tries < 3 && f.role == "resources"; tries++ {
		f = cands[g.Intn(len(cands))]
	}
	content := g.Pick([]string{"", "", "\n", " ", "---\n", "# nothing\n", "null\n", "~\n", "[]\n", "{}\n", "---\n---\n", "\xef\xbb\xbf", "...\n"})
	f.docs = nil
	f.raw = []byte(content)
	return fmt.Sprintf("directed:emptyfile %s %q @%s:", f.role, content, f.path)
}

// ---------- family 2: delete exactly ONE key of a small identity-bearing mapping ----------
//
// Later code dereferences the fields of these mappings after having checked only some of them
// (roleRef.apiGroup/kind/name, subjects[i].kind/name/namespace, metadata.name/namespace, selector
// and target fields, objref / fieldref of vars, container name/image, key references ...). Everything
// else in the tree stays valid.

// identity mappings: last path segment (list elements: the segment before the index) -> keys worth deleting
var c12IdentityMaps = map[string][]string{
	"roleRef":         {"apiGroup", "kind", "name"},
	"subjects":        {"kind", "name", "namespace", "apiGroup"},
	"metadata":        {"name", "namespace"},
	"target":          {"kind", "name", "group", "version", "namespace"},
	"select":          {"kind", "name", "namespace"},
	"reject":          {"kind", "name"},
	"source":          {"kind", "name", "fieldPath", "namespace"},
	"targets":         {"select", "fieldPaths"},
	"fieldref":        {"fieldpath"},
	"objref":          {"kind", "name", "apiVersion"},
	"vars":            {"name", "objref", "fieldref"},
	"containers":      {"name", "image"},
	"initContainers":  {"name", "image"},
	"configMapKeyRef": {"name", "key"},
	"secretKeyRef":    {"name", "key"},
	"configMapRef":    {"name"},
	"configMap":       {"name"},
	"secret":          {"secretName"},
	"scaleTargetRef":  {"apiVersion", "kind", "name"},
	"service":         {"name", "port"},
	"ports":           {"port", "name", "containerPort", "protocol"},
	"images":          {"name", "newName", "newTag", "digest"},
	"replicas":        {"name", "count"},
	"configMapGenerator": {"name", "literals", "behavior"},
	"secretGenerator": {"name", "literals"},
	"replacements":    {"source", "targets", "path"},
	"patches":         {"patch", "path", "target"},
	"patchesJson6902": {"target", "patch", "path"},
	"options":         {"delimiter", "index", "create"},
	"labels":          {"pairs"},
	"env":             {"name", "value", "valueFrom"},
	"volumes":         {"name"},
	"volumeMounts":    {"name", "mountPath"},
	"rules":           {"apiGroups", "resources", "verbs"},
	"fieldSpecs":      {"path", "kind"},
	"template":        {"metadata", "spec"},
	"selector":        {"matchLabels"},
	"spec":            {"selector", "template", "containers", "rules", "ports"},
}

func identityKeys(path string) []string {
	segs := strings.Split(strings.Trim(path, "/"), "/")
	if len(segs) == 0 {
		return nil
	}
	last := segs[len(segs)-1]
	if _, err := strconv.Atoi(last); err == nil && len(segs) >= 2 {
		last = segs[len(segs)-2]
	}
	if path == "" {
		return []string{"apiVersion", "kind", "metadata"} // a document root
	}
	return c12IdentityMaps[last]
}

func (gen *c12Gen) directedDeleteKey(g *Rng, t *c12Tree) string {
	type cand struct {
		f   *c12File
		ref nodeRef
		key int // index of the key node in Content
	}
	var cands []cand
	var hot []cand  // the mappings named in the brief get extra weight
	var rbac []cand // reference-carrying mappings of RBAC objects and vars: few per tree, dereferenced by the name-reference fixer on every build
	for _, f := range t.files {
		if f.docs == nil {
			continue
		}
		for _, r := range collectRefs(f) {
			if r.node.Kind != yaml.MappingNode {
				continue
			}
			keys := identityKeys(r.path)
			if keys == nil {
				continue
			}
			for i := 0; i+1 < len(r.node.Content); i += 2 {
				for _, k := range keys {
					if r.node.Content[i].Value == k {
						c := cand{f, r, i}
						cands = append(cands, c)
						if strings.HasSuffix(r.path, "/roleRef") || strings.Contains(r.path, "/subjects/") || strings.HasSuffix(r.path, "/objref") || strings.HasSuffix(r.path, "/fieldref") ||
							strings.HasSuffix(r.path, "/scaleTargetRef") || strings.HasSuffix(r.path, "KeyRef") {
							rbac = append(rbac, c)
						}
						if strings.Contains(r.path, "roleRef") || strings.Contains(r.path, "subjects") || strings.HasSuffix(r.path, "/metadata") ||
							strings.Contains(r.path, "objref") || strings.Contains(r.path, "fieldref") || strings.HasSuffix(r.path, "/target") || strings.Contains(r.path, "containers/") {
							hot = append(hot, c)
						}
					}
				}
			}
		}
	}
	if len(cands) == 0 {
		return ""
	}
	c := cands[g.Intn(len(cands))]
	if len(hot) > 0 && g.Chance(50) {
		c = hot[g.Intn(len(hot))]
	}
	if len(rbac) > 0 && g.Chance(40) {
		c = rbac[g.Intn(len(rbac))]
	}
	key := c.ref.node.Content[c.key].Value
	c.ref.node.Content = append(c.ref.node.Content[:c.key:c.key], c.ref.node.Content[c.key+2:]...)
	return fmt.Sprintf("directed:deletekey %s of %s @%s:%d%s", key, lastSeg(c.ref.path), c.f.path, c.ref.doc, c.ref.path)
}

func lastSeg(path string) string {
	segs := strings.Split(strings.Trim(path, "/"), "/")
	last := segs[len(segs)-1]
	if _, err := strconv.Atoi(last); err == nil && len(segs) >= 2 {
		return segs[len(segs)-2] + "[]"
	}
	if last == "" {
		return "document"
	}
	return last
}

// ---------- family 3: two independent defects ----------
//
// An object that PARSES as a node tree but cannot be marshalled (duplicate mapping key, non-string
// key; at top level or nested) combined with a trigger of an error path. Error paths that format a
// resource (MustYaml / MustString / String / AsYAML in a message) are where exits and panics hide.

func (t *c12Tree) findObjLoc(o c12Obj) (*c12File, int, *yaml.Node) {
	d := t.findObjDoc(o)
	if d == nil {
		return nil, -1, nil
	}
	for _, f := range t.files {
		for i, x := range f.docs {
			if x == d {
				return f, i, d
			}
			if items := mapGet(x, "items"); items != nil {
				for _, it := range items.Content {
					if it == d {
						return f, -1, d
					}
				}
			}
		}
	}
	return nil, -1, d
}

// breakMarshal makes the document unmarshalable while it still parses.
func breakMarshal(g *Rng, doc *yaml.Node) string {
	type m struct {
		n    *yaml.Node
		path string
	}
	var maps []m
	var rec func(n *yaml.Node, path string, depth int)
	rec = func(n *yaml.Node, path string, depth int) {
		if n.Kind == yaml.MappingNode {
			maps = append(maps, m{n, path})
			for i := 0; i+1 < len(n.Content); i += 2 {
				rec(n.Content[i+1], path+"/"+n.Content[i].Value, depth+1)
			}
		} else if n.Kind == yaml.SequenceNode {
			for i, c := range n.Content {
				rec(c, fmt.Sprintf("%s/%d", path, i), depth+1)
			}
		}
	}
	rec(doc, "", 0)
	if len(maps) == 0 {
		return ""
	}
	pick := maps[g.Intn(len(maps))]
	// top level, metadata, labels, annotations, data are the usual suspects
	if g.Chance(65) {
		var pref []m
		for _, x := range maps {
			switch x.path {
			case "", "/metadata", "/metadata/labels", "/metadata/annotations", "/data", "/spec", "/spec/selector/matchLabels", "/spec/template/metadata/labels":
				pref = append(pref, x)
			}
		}
		if len(pref) > 0 {
			pick = pref[g.Intn(len(pref))]
		}
	}
	n := pick.n
	if len(n.Content) >= 2 && g.Chance(60) {
		i := 2 * g.Intn(len(n.Content)/2)
		v := copyNode(n.Content[i+1])
		if g.Chance(30) {
			v = ys("other")
		}
		n.Content = append(n.Content, copyNode(n.Content[i]), v)
		return fmt.Sprintf("dupkey %s at %q", n.Content[i].Value, pick.path)
	}
	k := []*yaml.Node{yraw("!!int", "1"), yraw("!!bool", "true"), ynull(), yraw("!!float", "1.5"), yraw("!!int", "0")}[g.Intn(5)]
	n.Content = append(n.Content, k, ys("one"))
	return fmt.Sprintf("nonstringkey %s at %q", k.Value, pick.path)
}

// kustomization file in the same directory as f
func (t *c12Tree) kustOfDir(f *c12File) *c12File {
	dir := f.path[:strings.LastIndex(f.path, "/")]
	for _, k := range t.files {
		if k.path == dir+"/kustomization.yaml" && len(k.docs) == 1 && k.docs[0].Kind == yaml.MappingNode {
			return k
		}
	}
	return nil
}

func (gen *c12Gen) directedTwoDefects(g *Rng, t *c12Tree) string {
	if len(t.objs) == 0 {
		return ""
	}
	for tries := 0; tries < 8; tries++ {
		o := t.objs[g.Intn(len(t.objs))]
		f, idx, doc := t.findObjLoc(o)
		if f == nil || doc == nil {
			continue
		}
		kf := t.kustOfDir(f)
		if kf == nil {
			continue
		}
		k := kf.docs[0]
		base := f.path[strings.LastIndex(f.path, "/")+1:]
		victim := doc // the object that gets the marshalling defect
		var trig string
		switch g.Intn(9) {
		case 0: // duplicate id: the same file listed twice
			if res := mapGet(k, "resources"); res != nil && res.Kind == yaml.SequenceNode {
				res.Content = append(res.Content, ys(base))
				trig = "same-file-twice " + base
			}
		case 1: // duplicate id: the document twice in its file
			if idx >= 0 {
				f.docs = append(f.docs, copyNode(doc))
				if g.Chance(50) {
					victim = f.docs[len(f.docs)-1]
				}
				trig = "document-twice"
			}
		case 2: // duplicate id across files of the layer
			if idx >= 0 {
				nf := &c12File{path: f.path[:strings.LastIndex(f.path, "/")] + "/dup.yaml", docs: []*yaml.Node{copyNode(doc)}, role: "resources"}
				t.files = append(t.files, nf)
				if res := mapGet(k, "resources"); res != nil && res.Kind == yaml.SequenceNode {
					res.Content = append(res.Content, ys("dup.yaml"))
				}
				trig = "same-object-in-two-files"
			}
		case 3: // ambiguous name referral: every ConfigMap (or Secret / ServiceAccount) gets one name
			ref, ok := pickObj(g, t.objs, "ConfigMap", "Secret", "ServiceAccount")
			if !ok {
				continue
			}
			// make sure there are two of the kind
			if idx >= 0 {
				if _, i2, d2 := t.findObjLoc(ref); i2 >= 0 && d2 != nil {
					c := copyNode(d2)
					if md := mapGet(c, "metadata"); md != nil {
						mapSet(md, "name", ys(ref.name+"-twin"))
					}
					f.docs = append(f.docs, c)
				}
			}
			listAppend(k, "patches", ym("patch", inlineYAML(yl(ym("op", ys("replace"), "path", ys("/metadata/name"), "value", ys(ref.name)))), "target", ym("kind", ys(ref.kind))))
			// the victim is a referrer when there is one
			if w, ok := pickObj(g, t.objs, "Deployment", "StatefulSet", "DaemonSet", "Pod", "Job", "CronJob", "RoleBinding", "ClusterRoleBinding"); ok && g.Chance(70) {
				if d := t.findObjDoc(w); d != nil {
					victim = d
				}
			}
			trig = "ambiguous-referral " + ref.kind + "/" + ref.name
		case 4: // id collision after the namespace transformer
			if idx >= 0 {
				c := copyNode(doc)
				if md := mapGet(c, "metadata"); md != nil && md.Kind == yaml.MappingNode {
					mapSet(md, "namespace", ys("elsewhere"))
				}
				f.docs = append(f.docs, c)
				mapSet(k, "namespace", ys(g.Pick(c12NsPool)))
				trig = "id-collision-after-namespace"
			}
		case 5: // id collision after prefix / rename
			if idx >= 0 {
				c := copyNode(doc)
				if md := mapGet(c, "metadata"); md != nil && md.Kind == yaml.MappingNode {
					mapSet(md, "name", ys(o.name+"-b"))
				}
				f.docs = append(f.docs, c)
				listAppend(k, "patches", ym("patch", inlineYAML(yl(ym("op", ys("replace"), "path", ys("/metadata/name"), "value", ys(o.name)))), "target", ym("kind", ys(o.kind), "name", ys(o.name+"-b"))))
				trig = "id-collision-after-rename"
			}
		case 6: // patch target not found / patch that cannot be marshalled
			p := simpleSMP(o)
			if g.Chance(50) {
				mapSet(mapGet(p, "metadata"), "name", ys(o.name+"-missing"))
			}
			if g.Chance(50) {
				victim = p
			}
			nf := &c12File{path: kf.path[:strings.LastIndex(kf.path, "/")] + "/dpatch.yaml", docs: []*yaml.Node{p}, role: "patch"}
			t.files = append(t.files, nf)
			listAppend(k, g.Pick([]string{"patchesStrategicMerge", "patches"}), func() *yaml.Node {
				return ys("dpatch.yaml")
			}())
			if l := mapGet(k, "patches"); l != nil {
				last := l.Content[len(l.Content)-1]
				if last.Kind == yaml.ScalarNode && last.Value == "dpatch.yaml" {
					l.Content[len(l.Content)-1] = ym("path", ys("dpatch.yaml"))
				}
			}
			trig = "patch-target-missing-or-broken"
		case 7: // conflicting generator behaviours on an existing ConfigMap / Secret
			ref, ok := pickObj(g, t.objs, "ConfigMap", "Secret")
			if !ok {
				continue
			}
			if d := t.findObjDoc(ref); d != nil {
				victim = d
			}
			key := "configMapGenerator"
			if ref.kind == "Secret" {
				key = "secretGenerator"
			}
			e := ym("name", ys(ref.name), "literals", ystrs("k=v"), "behavior", ys(g.Pick([]string{"create", "merge", "replace", "merge"})))
			if ref.ns != "" && g.Chance(70) {
				mapSet(e, "namespace", ys(ref.ns))
			}
			listAppend(k, key, e)
			trig = "generator-behaviour " + mapGet(e, "behavior").Value
		default: // replacement whose source or target is the broken object; selection by kind only (several matches)
			listAppend(k, "replacements", ym("source", ym("kind", ys(o.kind), "fieldPath", ys("metadata.name")),
				"targets", yl(ym("select", ym("kind", ys(o.kind)), "fieldPaths", ystrs("metadata.annotations.directed"), "options", ym("create", yb(true))))))
			if idx >= 0 && g.Chance(60) {
				c := copyNode(doc)
				if md := mapGet(c, "metadata"); md != nil && md.Kind == yaml.MappingNode {
					mapSet(md, "name", ys(o.name+"-b"))
				}
				f.docs = append(f.docs, c)
			}
			trig = "replacement-multiple-sources"
		}
		if trig == "" {
			continue
		}
		if g.Chance(25) { // an unrelated object instead
			if d := t.findObjDoc(t.objs[g.Intn(len(t.objs))]); d != nil {
				victim = d
			}
		}
		br := breakMarshal(g, victim)
		if br == "" {
			continue
		}
		return fmt.Sprintf("directed:twodefects %s + %s @%s:", strings.Fields(trig)[0], br, kf.path)
	}
	return ""
}

// directedBoundary applies one directed boundary mutation; "" when the tree offers no site.
func (gen *c12Gen) directedBoundary(g *Rng, t *c12Tree) string {
	if len(t.objs) == 0 {
		return ""
	}
	for tries := 0; tries < 6; tries++ {
		o := t.objs[g.Intn(len(t.objs))]
		if t.findObjDoc(o) == nil {
			continue
		}
		k, kpath := t.kustFor(g, o)
		if k == nil {
			continue
		}
		other := t.objs[g.Intn(len(t.objs))]
		// a target that always accepts a value: annotation created on demand
		sink := func() *yaml.Node {
			return ym("select", ym("kind", ys(o.kind), "name", ys(o.name)), "fieldPaths", ystrs("metadata.annotations.directed"), "options", ym("create", yb(true)))
		}
		kind := g.Intn(100)
		switch {
		case kind < 14: // regexp: patches[].target
			sel := selectorFor(g, o, false)
			var body *yaml.Node
			if g.Chance(60) {
				body = simpleSMP(o)
			} else {
				body = simpleJ6902()
			}
			what := breakOneField(g, sel)
			listAppend(k, "patches", ym("patch", inlineYAML(body), "target", sel))
			return fmt.Sprintf("directed:regex patches.target.%s @%s:", what, kpath)
		case kind < 22: // regexp: patchesJson6902[].target
			sel := selectorFor(g, o, true)
			what := breakOneField(g, sel)
			listAppend(k, "patchesJson6902", ym("target", sel, "patch", inlineYAML(simpleJ6902())))
			return fmt.Sprintf("directed:regex patchesJson6902.target.%s @%s:", what, kpath)
		case kind < 27: // selector syntax: label / annotation selectors of a patch target
			sel := selectorFor(g, o, false)
			f := g.Pick([]string{"labelSelector", "annotationSelector"})
			v := g.Pick([]string{"app in (", "app=", "=x", "!!", "app==a0,", "a in ()", "app notin", ",", "app in (a0", "x y", "app=a0,,", "(", "app!=", "a/b/c=d", strings.Repeat("k", 70) + "=v"})
			mapSet(sel, f, ys(v))
			listAppend(k, "patches", ym("patch", inlineYAML(simpleSMP(o)), "target", sel))
			return fmt.Sprintf("directed:selector patches.target.%s=%q @%s:", f, v, kpath)
		case kind < 33: // regexp: images[].name (the image of a workload, broken)
			d := t.findObjDoc(o)
			img := ""
			for _, p := range []string{"spec.template.spec.containers.0.image", "spec.containers.0.image", "spec.jobTemplate.spec.template.spec.containers.0.image", "spec.image"} {
				if n := evalPath(d, strings.Split(p, ".")); n != nil {
					img = n.Value
				}
			}
			if img == "" {
				continue
			}
			name := strings.SplitN(strings.SplitN(img, "@", 2)[0], ":", 2)[0]
			bad := badRegexFor(g, name)
			listAppend(k, "images", ym("name", ys(bad), "newTag", ys("directed")))
			return fmt.Sprintf("directed:regex images.name=%q @%s:", bad, kpath)
		case kind < 41: // "regexp" siblings: replacement select / reject fields
			tgt := ym("select", ym("kind", ys(o.kind), "name", ys(o.name)), "fieldPaths", ystrs("metadata.annotations.directed"), "options", ym("create", yb(true)))
			where := "select"
			if g.Chance(40) {
				mapSet(tgt, "reject", yl(ym("kind", ys(other.kind), "name", ys(other.name))))
				where = "reject"
			}
			var sel *yaml.Node
			if where == "select" {
				sel = mapGet(tgt, "select")
			} else {
				sel = mapGet(tgt, "reject").Content[0]
			}
			if o.ns != "" && g.Chance(50) {
				mapSet(sel, "namespace", ys(o.ns))
			}
			what := breakOneField(g, sel)
			listAppend(k, "replacements", ym("source", ym("kind", ys(other.kind), "name", ys(other.name), "fieldPath", ys("metadata.name")), "targets", yl(tgt)))
			return fmt.Sprintf("directed:regex replacements.targets.%s.%s @%s:", where, what, kpath)
		case kind < 49: // regexp: [name=<pattern>] selector inside a replacement target field path
			ps := o.paths()
			var withSel []string
			for _, p := range ps {
				if strings.Contains(p, "[") {
					withSel = append(withSel, p)
				}
			}
			if len(withSel) == 0 {
				continue
			}
			p := g.Pick(withSel)
			i, j := strings.Index(p, "="), strings.Index(p, "]")
			bad := badRegexFor(g, p[i+1:j])
			np := p[:i+1] + bad + p[j:]
			tgt := ym("select", ym("kind", ys(o.kind), "name", ys(o.name)), "fieldPaths", ystrs(np))
			if g.Chance(40) {
				mapSet(tgt, "options", ym("create", yb(true)))
			}
			listAppend(k, "replacements", ym("source", ym("kind", ys(other.kind), "name", ys(other.name), "fieldPath", ys("metadata.name")), "targets", yl(tgt)))
			return fmt.Sprintf("directed:regex replacements.fieldPaths %q @%s:", np, kpath)
		case kind < 63: // index: replacement SOURCE options.delimiter + index on the real value
			paths, vals := t.scalarPaths(o)
			if len(paths) == 0 {
				continue
			}
			i := g.Intn(len(paths))
			// prefer values that contain a delimiter
			for tr := 0; tr < 4 && !strings.ContainsAny(vals[i], ":/-.@"); tr++ {
				i = g.Intn(len(paths))
			}
			d := delimiterFor(g, vals[i])
			n := len(strings.Split(vals[i], d))
			ix := boundary(g, n)
			src := ym("kind", ys(o.kind), "name", ys(o.name), "fieldPath", ys(paths[i]), "options", ym("delimiter", ys(d), "index", yi(ix)))
			listAppend(k, "replacements", ym("source", src, "targets", yl(sink())))
			return fmt.Sprintf("directed:index replacements.source %s=%q delimiter=%q parts=%d index=%d @%s:", paths[i], vals[i], d, n, ix, kpath)
		case kind < 73: // index: replacement TARGET options.delimiter + index on the real value
			paths, vals := t.scalarPaths(o)
			if len(paths) == 0 {
				continue
			}
			i := g.Intn(len(paths))
			for tr := 0; tr < 4 && !strings.ContainsAny(vals[i], ":/-.@"); tr++ {
				i = g.Intn(len(paths))
			}
			if paths[i] == "spec.replicas" || strings.Contains(paths[i], "ort") {
				continue
			}
			d := delimiterFor(g, vals[i])
			n := len(strings.Split(vals[i], d))
			ix := boundary(g, n)
			tgt := ym("select", ym("kind", ys(o.kind), "name", ys(o.name)), "fieldPaths", ystrs(paths[i]), "options", ym("delimiter", ys(d), "index", yi(ix)))
			listAppend(k, "replacements", ym("source", ym("kind", ys(other.kind), "name", ys(other.name), "fieldPath", ys("metadata.name")), "targets", yl(tgt)))
			return fmt.Sprintf("directed:index replacements.target %s=%q delimiter=%q parts=%d index=%d @%s:", paths[i], vals[i], d, n, ix, kpath)
		case kind < 85: // index: list index inside a replacement field path
			paths, seg, lens := t.indexedPaths(o)
			if len(paths) == 0 {
				continue
			}
			i := g.Intn(len(paths))
			parts := strings.Split(paths[i], ".")
			ix := boundary(g, lens[i])
			parts[seg[i]] = fmt.Sprint(ix)
			np := strings.Join(parts, ".")
			if g.Chance(45) { // as source
				listAppend(k, "replacements", ym("source", ym("kind", ys(o.kind), "name", ys(o.name), "fieldPath", ys(np)), "targets", yl(sink())))
				return fmt.Sprintf("directed:index replacements.source.fieldPath %s (len %d) @%s:", np, lens[i], kpath)
			}
			tgt := ym("select", ym("kind", ys(o.kind), "name", ys(o.name)), "fieldPaths", ystrs(np))
			if g.Chance(50) {
				mapSet(tgt, "options", ym("create", yb(true)))
			}
			listAppend(k, "replacements", ym("source", ym("kind", ys(other.kind), "name", ys(other.name), "fieldPath", ys("metadata.name")), "targets", yl(tgt)))
			return fmt.Sprintf("directed:index replacements.targets.fieldPaths %s (len %d) @%s:", np, lens[i], kpath)
		case kind < 93: // index: list index inside a JSON-6902 pointer
			paths, seg, lens := t.indexedPaths(o)
			if len(paths) == 0 {
				continue
			}
			i := g.Intn(len(paths))
			parts := strings.Split(paths[i], ".")
			ix := fmt.Sprint(boundary(g, lens[i]))
			if g.Chance(10) {
				ix = "-"
			}
			ptr := "/" + strings.Join(parts[:seg[i]], "/") + "/" + ix
			if g.Chance(40) && seg[i]+1 < len(parts) {
				ptr += "/" + strings.Join(parts[seg[i]+1:], "/")
			}
			op := g.Pick([]string{"add", "replace", "remove", "test", "copy", "move"})
			e := ym("op", ys(op), "path", ys(ptr))
			switch op {
			case "add", "replace", "test":
				mapSet(e, "value", ys("directed"))
			case "copy", "move":
				mapSet(e, "from", ys("/metadata/name"))
				if g.Chance(50) {
					mapSet(e, "from", ys(ptr))
					mapSet(e, "path", ys("/metadata/annotations"))
				}
			}
			listAppend(k, "patches", ym("patch", inlineYAML(yl(e)), "target", selectorFor(g, o, false)))
			return fmt.Sprintf("directed:index json6902 %s %s (len %d) @%s:", op, ptr, lens[i], kpath)
		case kind < 97: // count: replicas
			if o.kind != "Deployment" && o.kind != "StatefulSet" {
				continue
			}
			c := g.Pick([]string{"-1", "0", "1", "2147483647", "2147483648", "-2147483649", "9223372036854775807", "9223372036854775808"})
			listAppend(k, "replicas", ym("name", ys(o.name), "count", yraw("!!int", c)))
			return fmt.Sprintf("directed:count replicas %s=%s @%s:", o.name, c, kpath)
		default: // index: vars fieldref with a slice index at the boundary
			paths, seg, lens := t.indexedPaths(o)
			if len(paths) == 0 {
				continue
			}
			i := g.Intn(len(paths))
			parts := strings.Split(paths[i], ".")
			if strings.Contains(paths[i], "[") {
				continue
			}
			ix := boundary(g, lens[i])
			fp := strings.Join(parts[:seg[i]], ".") + fmt.Sprintf("[%d]", ix)
			if seg[i]+1 < len(parts) {
				fp += "." + strings.Join(parts[seg[i]+1:], ".")
			}
			listAppend(k, "vars", ym("name", ys("DIRECTED"), "objref", ym("kind", ys(o.kind), "name", ys(o.name), "apiVersion", ys(o.apiVersion)), "fieldref", ym("fieldpath", ys(fp))))
			// a var is only resolved when something refers to it
			if d := t.findObjDoc(o); d != nil {
				md := mapGet(d, "metadata")
				if md != nil && md.Kind == yaml.MappingNode {
					an := mapGet(md, "annotations")
					if an == nil || an.Kind != yaml.MappingNode {
						an = ym()
						mapSet(md, "annotations", an)
					}
					mapSet(an, "uses-var", ys("$(DIRECTED)"))
				}
			}
			return fmt.Sprintf("directed:index vars.fieldref %s (len %d) @%s:", fp, lens[i], kpath)
		}
	}
	return ""
}
