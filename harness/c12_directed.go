package main

// C12 directed "boundary" mutators. The blind mutators of c12_gen.go rarely produce an option value
// that sits exactly on a boundary of the data it indexes, or an ill-formed pattern in one selector
// field while the rest of the selector still matches a resource (so that execution reaches the use
// site). These mutators build such shapes from the actual content of the valid tree:
//
//   index / count options, values {-1, 0, len-1, len, len+1} computed from the data:
//     replacement source options.delimiter+index, replacement target options.delimiter+index,
//     list indices inside replacement field paths (source and target, with and without create),
//     list indices inside JSON-6902 pointers, vars fieldref indices, replica counts;
//   fields compiled as regular expressions, an invalid pattern in ONE field at a time while the
//   sibling fields stay valid and match an existing resource:
//     patches[].target.{name,namespace,kind,group,version}, patchesJson6902[].target.*,
//     replacement select / reject {name,namespace,kind}, [name=<regexp>] selectors of replacement
//     field paths, images[].name, label / annotation selector strings.

import (
	"fmt"
	"strconv"
	"strings"

	yaml "sigs.k8s.io/yaml/goyaml.v3"
)

var c12BadRegex = []string{"(", "[", "*", "web(", "web[", "*web", "a{2,1}", "(?P<n", "\\", "a**", "[z-a]", "(?<!x)", "a)", "+", "?", "x{", "(?i", "[[:nope:]]", "\\8", "a|*"}

// badRegexFor makes an invalid pattern that still "looks like" the valid value.
func badRegexFor(g *Rng, valid string) string {
	b := g.Pick(c12BadRegex)
	switch g.Intn(4) {
	case 0:
		return valid + b
	case 1:
		return b + valid
	case 2:
		return b
	default:
		if len(valid) > 1 {
			i := 1 + g.Intn(len(valid)-1)
			return valid[:i] + b + valid[i:]
		}
		return valid + b
	}
}

// findObjDoc returns the document that defines the object (also inside a List).
func (t *c12Tree) findObjDoc(o c12Obj) *yaml.Node {
	match := func(d *yaml.Node) bool {
		k := mapGet(d, "kind")
		md := mapGet(d, "metadata")
		if k == nil || md == nil || k.Value != o.kind {
			return false
		}
		n := mapGet(md, "name")
		return n != nil && n.Value == o.name
	}
	for _, f := range t.files {
		if f.role != "resources" {
			continue
		}
		for _, d := range f.docs {
			if match(d) {
				return d
			}
			if items := mapGet(d, "items"); items != nil && items.Kind == yaml.SequenceNode {
				for _, it := range items.Content {
					if match(it) {
						return it
					}
				}
			}
		}
	}
	return nil
}

// evalPath follows a replacement-style path (keys, indices, [k=v]) and returns the node, or nil.
func evalPath(n *yaml.Node, parts []string) *yaml.Node {
	for _, p := range parts {
		if n == nil {
			return nil
		}
		switch {
		case strings.HasPrefix(p, "[") && strings.HasSuffix(p, "]") && strings.Contains(p, "="):
			kv := strings.SplitN(p[1:len(p)-1], "=", 2)
			if n.Kind != yaml.SequenceNode {
				return nil
			}
			var found *yaml.Node
			for _, e := range n.Content {
				if v := mapGet(e, kv[0]); v != nil && v.Value == kv[1] {
					found = e
					break
				}
			}
			n = found
		case n.Kind == yaml.SequenceNode:
			i, err := strconv.Atoi(p)
			if err != nil || i < 0 || i >= len(n.Content) {
				return nil
			}
			n = n.Content[i]
		default:
			n = mapGet(n, p)
		}
	}
	return n
}

func boundary(g *Rng, n int) int {
	return []int{-1, 0, n - 1, n, n + 1, n, n - 1}[g.Intn(7)]
}

// kustomization node of a layer at or above the one that introduced the object
func (t *c12Tree) kustFor(g *Rng, o c12Obj) (*yaml.Node, string) {
	dirs := []string{"/t/base", "/t/mid", "/t/top"}
	var cands []*c12File
	for l := o.generated + 1; l < len(dirs); l++ {
		if l < 0 {
			continue
		}
		for _, f := range t.files {
			if f.path == dirs[l]+"/kustomization.yaml" && len(f.docs) == 1 && f.docs[0].Kind == yaml.MappingNode {
				cands = append(cands, f)
			}
		}
	}
	if len(cands) == 0 {
		return nil, ""
	}
	f := cands[0]
	if g.Chance(30) {
		f = cands[g.Intn(len(cands))]
	}
	return f.docs[0], f.path
}

func listAppend(k *yaml.Node, key string, entry *yaml.Node) {
	l := mapGet(k, key)
	if l == nil || l.Kind != yaml.SequenceNode {
		l = yl()
		mapSet(k, key, l)
	}
	l.Content = append(l.Content, entry)
}

func inlineYAML(n *yaml.Node) *yaml.Node {
	b, _ := encodeDocs([]*yaml.Node{n})
	return &yaml.Node{Kind: yaml.ScalarNode, Tag: "!!str", Value: string(b), Style: yaml.LiteralStyle}
}

func simpleSMP(o c12Obj) *yaml.Node {
	md := ym("name", ys(o.name), "labels", ymss(map[string]string{"directed": "true"}))
	if o.ns != "" {
		mapSet(md, "namespace", ys(o.ns))
	}
	return ym("apiVersion", ys(o.apiVersion), "kind", ys(o.kind), "metadata", md)
}

func simpleJ6902() *yaml.Node {
	return yl(ym("op", ys("add"), "path", ys("/metadata/labels"), "value", ymss(map[string]string{"directed": "true"})))
}

// selectorFor builds a selector that matches exactly o; which optional fields are present is random.
func selectorFor(g *Rng, o c12Obj, forceGV bool) *yaml.Node {
	s := ym("kind", ys(o.kind), "name", ys(o.name))
	gv := strings.Split(o.apiVersion, "/")
	if forceGV || g.Chance(40) {
		mapSet(s, "version", ys(gv[len(gv)-1]))
		if len(gv) == 2 {
			mapSet(s, "group", ys(gv[0]))
		}
	}
	if o.ns != "" && g.Chance(50) {
		mapSet(s, "namespace", ys(o.ns))
	}
	return s
}

// breakOneField puts an invalid pattern into one present field of the selector; the name most often.
func breakOneField(g *Rng, s *yaml.Node) string {
	var fields []string
	for i := 0; i+1 < len(s.Content); i += 2 {
		switch s.Content[i].Value {
		case "name", "namespace", "kind", "group", "version":
			fields = append(fields, s.Content[i].Value)
		}
	}
	if len(fields) == 0 {
		return ""
	}
	f := fields[g.Intn(len(fields))]
	if g.Chance(40) && mapGet(s, "name") != nil {
		f = "name"
	}
	v := mapGet(s, f)
	v.Value = badRegexFor(g, v.Value)
	v.Tag = "!!str"
	return f + "=" + v.Value
}

// scalar-valued, wildcard-free paths of the object together with their current value
func (t *c12Tree) scalarPaths(o c12Obj) (paths []string, vals []string) {
	d := t.findObjDoc(o)
	if d == nil {
		return nil, nil
	}
	for _, p := range o.paths() {
		if strings.Contains(p, "*") {
			continue
		}
		n := evalPath(d, strings.Split(p, "."))
		if n != nil && n.Kind == yaml.ScalarNode {
			paths = append(paths, p)
			vals = append(vals, n.Value)
		}
	}
	return
}

var c12Delims = []string{":", "/", "-", ".", "@", ",", "=", "a"}

// delimiterFor prefers a delimiter that occurs in the value
func delimiterFor(g *Rng, v string) string {
	var occ []string
	for _, d := range c12Delims {
		if strings.Contains(v, d) {
			occ = append(occ, d)
		}
	}
	if len(occ) > 0 && g.Chance(85) {
		return g.Pick(occ)
	}
	return g.Pick(c12Delims)
}

// indexedPaths: paths of the object with a numeric segment, with the length of the list it indexes
func (t *c12Tree) indexedPaths(o c12Obj) (paths []string, seg []int, lens []int) {
	d := t.findObjDoc(o)
	if d == nil {
		return
	}
	for _, p := range o.paths() {
		parts := strings.Split(p, ".")
		for i, s := range parts {
			if _, err := strconv.Atoi(s); err != nil {
				continue
			}
			l := evalPath(d, parts[:i])
			if l != nil && l.Kind == yaml.SequenceNode {
				paths = append(paths, p)
				seg = append(seg, i)
				lens = append(lens, len(l.Content))
			}
		}
	}
	return
}

// directedOnce applies one directed boundary mutation; "" when the tree offers no site.
func (gen *c12Gen) directedOnce(g *Rng, t *c12Tree) string {
	if len(t.objs) == 0 {
		return ""
	}
	for tries := 0; tries < 6; tries++ {
		o := t.objs[g.Intn(len(t.objs))]
		if t.findObjDoc(o) == nil {
			continue
		}
		k, kpath := t.kustFor(g, o)
		if k == nil {
			continue
		}
		other := t.objs[g.Intn(len(t.objs))]
		// a target that always accepts a value: annotation created on demand
		sink := func() *yaml.Node {
			return ym("select", ym("kind", ys(o.kind), "name", ys(o.name)), "fieldPaths", ystrs("metadata.annotations.directed"), "options", ym("create", yb(true)))
		}
		kind := g.Intn(100)
		switch {
		case kind < 14: // regexp: patches[].target
			sel := selectorFor(g, o, false)
			var body *yaml.Node
			if g.Chance(60) {
				body = simpleSMP(o)
			} else {
				body = simpleJ6902()
			}
			what := breakOneField(g, sel)
			listAppend(k, "patches", ym("patch", inlineYAML(body), "target", sel))
			return fmt.Sprintf("directed:regex patches.target.%s @%s:", what, kpath)
		case kind < 22: // regexp: patchesJson6902[].target
			sel := selectorFor(g, o, true)
			what := breakOneField(g, sel)
			listAppend(k, "patchesJson6902", ym("target", sel, "patch", inlineYAML(simpleJ6902())))
			return fmt.Sprintf("directed:regex patchesJson6902.target.%s @%s:", what, kpath)
		case kind < 27: // selector syntax: label / annotation selectors of a patch target
			sel := selectorFor(g, o, false)
			f := g.Pick([]string{"labelSelector", "annotationSelector"})
			v := g.Pick([]string{"app in (", "app=", "=x", "!!", "app==a0,", "a in ()", "app notin", ",", "app in (a0", "x y", "app=a0,,", "(", "app!=", "a/b/c=d", strings.Repeat("k", 70) + "=v"})
			mapSet(sel, f, ys(v))
			listAppend(k, "patches", ym("patch", inlineYAML(simpleSMP(o)), "target", sel))
			return fmt.Sprintf("directed:selector patches.target.%s=%q @%s:", f, v, kpath)
		case kind < 33: // regexp: images[].name (the image of a workload, broken)
			d := t.findObjDoc(o)
			img := ""
			for _, p := range []string{"spec.template.spec.containers.0.image", "spec.containers.0.image", "spec.jobTemplate.spec.template.spec.containers.0.image", "spec.image"} {
				if n := evalPath(d, strings.Split(p, ".")); n != nil {
					img = n.Value
				}
			}
			if img == "" {
				continue
			}
			name := strings.SplitN(strings.SplitN(img, "@", 2)[0], ":", 2)[0]
			bad := badRegexFor(g, name)
			listAppend(k, "images", ym("name", ys(bad), "newTag", ys("directed")))
			return fmt.Sprintf("directed:regex images.name=%q @%s:", bad, kpath)
		case kind < 41: // "regexp" siblings: replacement select / reject fields
			tgt := ym("select", ym("kind", ys(o.kind), "name", ys(o.name)), "fieldPaths", ystrs("metadata.annotations.directed"), "options", ym("create", yb(true)))
			where := "select"
			if g.Chance(40) {
				mapSet(tgt, "reject", yl(ym("kind", ys(other.kind), "name", ys(other.name))))
				where = "reject"
			}
			var sel *yaml.Node
			if where == "select" {
				sel = mapGet(tgt, "select")
			} else {
				sel = mapGet(tgt, "reject").Content[0]
			}
			if o.ns != "" && g.Chance(50) {
				mapSet(sel, "namespace", ys(o.ns))
			}
			what := breakOneField(g, sel)
			listAppend(k, "replacements", ym("source", ym("kind", ys(other.kind), "name", ys(other.name), "fieldPath", ys("metadata.name")), "targets", yl(tgt)))
			return fmt.Sprintf("directed:regex replacements.targets.%s.%s @%s:", where, what, kpath)
		case kind < 49: // regexp: [name=<pattern>] selector inside a replacement target field path
			ps := o.paths()
			var withSel []string
			for _, p := range ps {
				if strings.Contains(p, "[") {
					withSel = append(withSel, p)
				}
			}
			if len(withSel) == 0 {
				continue
			}
			p := g.Pick(withSel)
			i, j := strings.Index(p, "="), strings.Index(p, "]")
			bad := badRegexFor(g, p[i+1:j])
			np := p[:i+1] + bad + p[j:]
			tgt := ym("select", ym("kind", ys(o.kind), "name", ys(o.name)), "fieldPaths", ystrs(np))
			if g.Chance(40) {
				mapSet(tgt, "options", ym("create", yb(true)))
			}
			listAppend(k, "replacements", ym("source", ym("kind", ys(other.kind), "name", ys(other.name), "fieldPath", ys("metadata.name")), "targets", yl(tgt)))
			return fmt.Sprintf("directed:regex replacements.fieldPaths %q @%s:", np, kpath)
		case kind < 63: // index: replacement SOURCE options.delimiter + index on the real value
			paths, vals := t.scalarPaths(o)
			if len(paths) == 0 {
				continue
			}
			i := g.Intn(len(paths))
			// prefer values that contain a delimiter
			for tr := 0; tr < 4 && !strings.ContainsAny(vals[i], ":/-.@"); tr++ {
				i = g.Intn(len(paths))
			}
			d := delimiterFor(g, vals[i])
			n := len(strings.Split(vals[i], d))
			ix := boundary(g, n)
			src := ym("kind", ys(o.kind), "name", ys(o.name), "fieldPath", ys(paths[i]), "options", ym("delimiter", ys(d), "index", yi(ix)))
			listAppend(k, "replacements", ym("source", src, "targets", yl(sink())))
			return fmt.Sprintf("directed:index replacements.source %s=%q delimiter=%q parts=%d index=%d @%s:", paths[i], vals[i], d, n, ix, kpath)
		case kind < 73: // index: replacement TARGET options.delimiter + index on the real value
			paths, vals := t.scalarPaths(o)
			if len(paths) == 0 {
				continue
			}
			i := g.Intn(len(paths))
			for tr := 0; tr < 4 && !strings.ContainsAny(vals[i], ":/-.@"); tr++ {
				i = g.Intn(len(paths))
			}
			if paths[i] == "spec.replicas" || strings.Contains(paths[i], "ort") {
				continue
			}
			d := delimiterFor(g, vals[i])
			n := len(strings.Split(vals[i], d))
			ix := boundary(g, n)
			tgt := ym("select", ym("kind", ys(o.kind), "name", ys(o.name)), "fieldPaths", ystrs(paths[i]), "options", ym("delimiter", ys(d), "index", yi(ix)))
			listAppend(k, "replacements", ym("source", ym("kind", ys(other.kind), "name", ys(other.name), "fieldPath", ys("metadata.name")), "targets", yl(tgt)))
			return fmt.Sprintf("directed:index replacements.target %s=%q delimiter=%q parts=%d index=%d @%s:", paths[i], vals[i], d, n, ix, kpath)
		case kind < 85: // index: list index inside a replacement field path
			paths, seg, lens := t.indexedPaths(o)
			if len(paths) == 0 {
				continue
			}
			i := g.Intn(len(paths))
			parts := strings.Split(paths[i], ".")
			ix := boundary(g, lens[i])
			parts[seg[i]] = fmt.Sprint(ix)
			np := strings.Join(parts, ".")
			if g.Chance(45) { // as source
				listAppend(k, "replacements", ym("source", ym("kind", ys(o.kind), "name", ys(o.name), "fieldPath", ys(np)), "targets", yl(sink())))
				return fmt.Sprintf("directed:index replacements.source.fieldPath %s (len %d) @%s:", np, lens[i], kpath)
			}
			tgt := ym("select", ym("kind", ys(o.kind), "name", ys(o.name)), "fieldPaths", ystrs(np))
			if g.Chance(50) {
				mapSet(tgt, "options", ym("create", yb(true)))
			}
			listAppend(k, "replacements", ym("source", ym("kind", ys(other.kind), "name", ys(other.name), "fieldPath", ys("metadata.name")), "targets", yl(tgt)))
			return fmt.Sprintf("directed:index replacements.targets.fieldPaths %s (len %d) @%s:", np, lens[i], kpath)
		case kind < 93: // index: list index inside a JSON-6902 pointer
			paths, seg, lens := t.indexedPaths(o)
			if len(paths) == 0 {
				continue
			}
			i := g.Intn(len(paths))
			parts := strings.Split(paths[i], ".")
			ix := fmt.Sprint(boundary(g, lens[i]))
			if g.Chance(10) {
				ix = "-"
			}
			ptr := "/" + strings.Join(parts[:seg[i]], "/") + "/" + ix
			if g.Chance(40) && seg[i]+1 < len(parts) {
				ptr += "/" + strings.Join(parts[seg[i]+1:], "/")
			}
			op := g.Pick([]string{"add", "replace", "remove", "test", "copy", "move"})
			e := ym("op", ys(op), "path", ys(ptr))
			switch op {
			case "add", "replace", "test":
				mapSet(e, "value", ys("directed"))
			case "copy", "move":
				mapSet(e, "from", ys("/metadata/name"))
				if g.Chance(50) {
					mapSet(e, "from", ys(ptr))
					mapSet(e, "path", ys("/metadata/annotations"))
				}
			}
			listAppend(k, "patches", ym("patch", inlineYAML(yl(e)), "target", selectorFor(g, o, false)))
			return fmt.Sprintf("directed:index json6902 %s %s (len %d) @%s:", op, ptr, lens[i], kpath)
		case kind < 97: // count: replicas
			if o.kind != "Deployment" && o.kind != "StatefulSet" {
				continue
			}
			c := g.Pick([]string{"-1", "0", "1", "2147483647", "2147483648", "-2147483649", "9223372036854775807", "9223372036854775808"})
			listAppend(k, "replicas", ym("name", ys(o.name), "count", yraw("!!int", c)))
			return fmt.Sprintf("directed:count replicas %s=%s @%s:", o.name, c, kpath)
		default: // index: vars fieldref with a slice index at the boundary
			paths, seg, lens := t.indexedPaths(o)
			if len(paths) == 0 {
				continue
			}
			i := g.Intn(len(paths))
			parts := strings.Split(paths[i], ".")
			if strings.Contains(paths[i], "[") {
				continue
			}
			ix := boundary(g, lens[i])
			fp := strings.Join(parts[:seg[i]], ".") + fmt.Sprintf("[%d]", ix)
			if seg[i]+1 < len(parts) {
				fp += "." + strings.Join(parts[seg[i]+1:], ".")
			}
			listAppend(k, "vars", ym("name", ys("DIRECTED"), "objref", ym("kind", ys(o.kind), "name", ys(o.name), "apiVersion", ys(o.apiVersion)), "fieldref", ym("fieldpath", ys(fp))))
			// a var is only resolved when something refers to it
			if d := t.findObjDoc(o); d != nil {
				md := mapGet(d, "metadata")
				if md != nil && md.Kind == yaml.MappingNode {
					an := mapGet(md, "annotations")
					if an == nil || an.Kind != yaml.MappingNode {
						an = ym()
						mapSet(md, "annotations", an)
					}
					mapSet(an, "uses-var", ys("$(DIRECTED)"))
				}
			}
			return fmt.Sprintf("directed:index vars.fieldref %s (len %d) @%s:", fp, lens[i], kpath)
		}
	}
	return ""
}
