package main

import (
	"encoding/json"
	"fmt"
	"os"
	"strings"

	"sigs.k8s.io/kustomize/api/filters/namespace"
	"sigs.k8s.io/kustomize/api/krusty"
	"sigs.k8s.io/kustomize/kyaml/filesys"
	"sigs.k8s.io/kustomize/kyaml/openapi"
	"sigs.k8s.io/kustomize/kyaml/resid"
	kyaml "sigs.k8s.io/kustomize/kyaml/yaml"
)

// C09: the namespace directive moves every namespaced resource and nothing else.
// Correspondence: (a) namespace.Filter on one document (all subject modes, unsetOnly, explicit FsSlice),
// (b) krusty builds of 1-3 layer trees with `namespace:` directives, (c) openapi.IsCertainlyClusterScoped
// against the generated scope table; all against KV.Res.Namespace. Search: per-document and
// cross-document oracles of the property on the build outputs.

func init() {
	register("C09", propDef{
		header:     "From KV Require Import Corr.C09.\nOpen Scope string_scope.\n",
		caseType:   "case09",
		mismatchFn: "mismatches09",
		run:        runC09,
		replay:     replayC09,
	})
}

type c09Res struct {
	Kind string `json:"kind"`
	Name string `json:"name"`
	Yaml string `json:"yaml"`
}

type c09Tree struct {
	Namespace string     `json:"namespace,omitempty"`
	Own       []c09Res   `json:"own"`
	Bases     []*c09Tree `json:"bases,omitempty"`
}

type c09Kind struct {
	kind string
	avs  []string
}

// namespaced, cluster-scoped, custom / unknown kinds
var c09Kinds = []c09Kind{
	{"Deployment", []string{"apps/v1", "apps/v1", "extensions/v1beta1"}},
	{"ConfigMap", []string{"v1"}},
	{"Service", []string{"v1"}},
	{"ServiceAccount", []string{"v1", "v1", "v1"}},
	{"Role", []string{"rbac.authorization.k8s.io/v1"}},
	{"RoleBinding", []string{"rbac.authorization.k8s.io/v1", "rbac.authorization.k8s.io/v1", "rbac.authorization.k8s.io/v1beta1"}},
	{"ClusterRoleBinding", []string{"rbac.authorization.k8s.io/v1", "rbac.authorization.k8s.io/v1", "example.com/v1"}},
	{"ClusterRole", []string{"rbac.authorization.k8s.io/v1"}},
	{"Namespace", []string{"v1", "v1", "v1", "example.com/v1"}},
	{"CustomResourceDefinition", []string{"apiextensions.k8s.io/v1", "apiextensions.k8s.io/v1beta1", "apiextensions.k8s.io/v2"}},
	{"PersistentVolume", []string{"v1"}},
	{"StorageClass", []string{"storage.k8s.io/v1"}},
	{"APIService", []string{"apiregistration.k8s.io/v1", "apiregistration.k8s.io/v1", "example.com/v1"}},
	{"Widget", []string{"example.com/v1"}},
	{"Node", []string{"v1", "core/v1"}},
	{"Ingress", []string{"networking.k8s.io/v1", "extensions/v1beta1"}},
}

var c09Namespaces = []string{"ns1", "ns2", "prod", "default", "kube-system"}
var c09Names = []string{"a", "b", "c", "default", "sa1", "web"}

func nsSlot(rng *Rng, meta *gnode) {
	switch r := rng.Intn(100); {
	case r < 45:
		// no namespace
	case r < 85:
		meta.set("namespace", gT(rng.Pick(c09Namespaces)))
	case r < 90:
		meta.set("namespace", gT(`""`))
	case r < 94:
		meta.set("namespace", gT("null"))
	case r < 97:
		meta.set("namespace", gT(""))
	default:
		meta.set("namespace", gT(`'ns1'`))
	}
}

func genSubjects(rng *Rng, sas []string) *gnode {
	switch r := rng.Intn(100); {
	case r < 4:
		return gT("null")
	case r < 6:
		return gT("{}")
	case r < 8:
		return gT("foo")
	case r < 10:
		return gT("[]")
	}
	n := 1 + rng.Intn(3)
	l := &gnode{kind: 2}
	for i := 0; i < n; i++ {
		s := c08gM()
		switch r := rng.Intn(100); {
		case r < 70:
			s.set("kind", gT("ServiceAccount"))
		case r < 85:
			s.set("kind", gT("User"))
		case r < 92:
			s.set("kind", gT("Group"))
		case r < 95:
			s.set("kind", gT("null"))
		}
		switch r := rng.Intn(100); {
		case r < 30:
			s.set("name", gT("default"))
		case r < 60 && len(sas) > 0:
			s.set("name", gT(rng.Pick(sas))) // designates a ServiceAccount of this layer
		case r < 90:
			s.set("name", gT(rng.Pick(c09Names)))
		case r < 93:
			s.set("name", gT(`"default"`))
		case r < 95:
			s.set("name", gT("null"))
		case r < 96:
			s.set("name", c08gM("x", "y"))
		}
		switch r := rng.Intn(100); {
		case r < 45:
		case r < 85:
			s.set("namespace", gT(rng.Pick(c09Namespaces)))
		case r < 90:
			s.set("namespace", gT(`""`))
		case r < 94:
			s.set("namespace", gT("null"))
		case r < 96:
			s.set("namespace", c08gM("x", "y"))
		default:
			s.set("namespace", gT(""))
		}
		if rng.Chance(3) {
			l.vals = append(l.vals, gT("scalar-subject"))
		} else if len(s.keys) == 0 {
			l.vals = append(l.vals, c08gM("kind", "User"))
		} else {
			l.vals = append(l.vals, s)
		}
	}
	return l
}

func genRes09(rng *Rng, name string, sas *[]string) c09Res {
	k := c09Kinds[rng.Intn(len(c09Kinds))]
	if len(*sas) > 0 && rng.Chance(25) {
		k = c09Kinds[5+rng.Intn(2)] // a binding after an account, more often
	}
	if k.kind == "ServiceAccount" {
		*sas = append(*sas, name)
	}
	av := rng.Pick(k.avs)
	meta := c08gM("name", name)
	nsSlot(rng, meta)
	if rng.Chance(15) {
		meta.set("annotations", c08gM("note", "x"))
	}
	if rng.Chance(10) {
		meta.set("labels", c08gM("app", "x"))
	}
	doc := c08gM("apiVersion", av, "kind", k.kind, "metadata", meta)
	switch k.kind {
	case "Deployment":
		spec := c08gM("template", c08gM("spec", c08gM("containers", c08gS(c08gM("name", "c", "image", "nginx")))))
		if rng.Chance(40) {
			spec.vals[0].vals[0].set("serviceAccountName", gT(rng.Pick(c09Names)))
		}
		doc.set("spec", spec)
	case "ConfigMap":
		doc.set("data", c08gM("k", "v"))
	case "Service":
		doc.set("spec", c08gM("ports", c08gS(c08gM("port", "80"))))
	case "Role", "ClusterRole":
		doc.set("rules", c08gS(c08gM("verbs", c08gS(gT("get")))))
	case "RoleBinding", "ClusterRoleBinding":
		rk := "Role"
		if k.kind == "ClusterRoleBinding" || rng.Chance(30) {
			rk = "ClusterRole"
		}
		doc.set("roleRef", c08gM("apiGroup", "rbac.authorization.k8s.io", "kind", rk, "name", "r"))
		if rng.Chance(92) {
			doc.set("subjects", genSubjects(rng, *sas))
		}
	case "CustomResourceDefinition":
		spec := c08gM("group", "example.com")
		switch r := rng.Intn(100); {
		case r < 40:
			spec.set("conversion", c08gM("strategy", "Webhook", "webhook", c08gM("clientConfig", c08gM("service", c08gM("name", "svc", "namespace", rng.Pick(c09Namespaces))))))
		case r < 55:
			spec.set("conversion", c08gM("strategy", "Webhook", "webhook", c08gM("clientConfig", c08gM("service", c08gM("name", "svc")))))
		case r < 60:
			spec.set("conversion", c08gM("strategy", "Webhook", "webhook", c08gM("clientConfig", c08gM("service", c08gM("name", "svc", "namespace", c08gM("x", "y"))))))
		}
		doc.set("spec", spec)
	case "APIService":
		spec := c08gM("group", "example.com")
		switch r := rng.Intn(100); {
		case r < 50:
			spec.set("service", c08gM("name", "svc", "namespace", rng.Pick(c09Namespaces)))
		case r < 70:
			spec.set("service", c08gM("name", "svc"))
		case r < 75:
			spec.set("service", gT("null"))
		case r < 80:
			spec.set("service", gT("foo"))
		}
		doc.set("spec", spec)
	case "PersistentVolume":
		doc.set("spec", c08gM("capacity", c08gM("storage", "1Gi")))
	case "StorageClass":
		doc.set("provisioner", gT("x"))
	case "Widget":
		doc.set("spec", c08gM("size", "1"))
	case "Ingress":
		doc.set("spec", c08gM("rules", c08gS(c08gM("host", "h"))))
	}
	return c09Res{Kind: k.kind, Name: name, Yaml: doc.yaml()}
}

// twin09 re-emits an earlier resource (same apiVersion, kind and name) with another namespace slot:
// ids that collide before the move ("" vs default), after it, or not at all.
func twin09(rng *Rng, r c09Res) (c09Res, bool) {
	n, err := kyaml.Parse(r.Yaml)
	if err != nil {
		return r, false
	}
	av, _ := strAt(n.YNode(), "apiVersion")
	meta := c08gM("name", r.Name)
	switch x := rng.Intn(100); {
	case x < 30:
	case x < 60:
		meta.set("namespace", gT("default"))
	case x < 70:
		meta.set("namespace", gT(`""`))
	default:
		meta.set("namespace", gT(rng.Pick(c09Namespaces)))
	}
	return c09Res{Kind: r.Kind, Name: r.Name, Yaml: c08gM("apiVersion", av, "kind", r.Kind, "metadata", meta).yaml()}, true
}

func genTree09(rng *Rng, depth int, top bool) *c09Tree {
	var all []c09Res
	return genTree09x(rng, depth, top, &all)
}

func genTree09x(rng *Rng, depth int, top bool, all *[]c09Res) *c09Tree {
	t := &c09Tree{}
	if rng.Chance(60) {
		t.Namespace = rng.Pick(c09Namespaces)
	}
	if depth > 1 {
		nb := 0
		switch r := rng.Intn(100); {
		case r < 50:
			nb = 1
		case r < 75:
			nb = 2
		}
		for i := 0; i < nb; i++ {
			t.Bases = append(t.Bases, genTree09x(rng, depth-1, false, all))
		}
	}
	n := rng.Intn(4)
	if len(t.Bases) == 0 && n == 0 {
		n = 1 + rng.Intn(3)
	}
	sas := []string{}
	if rng.Chance(30) {
		// an rbac group: accounts and well-formed bindings that designate them
		na := 1 + rng.Intn(2)
		used := map[string]bool{}
		for i := 0; i < na; i++ {
			nm := rng.Pick(c09Names)
			if used[nm] {
				continue
			}
			used[nm] = true
			meta := c08gM("name", nm)
			nsSlot(rng, meta)
			t.Own = append(t.Own, c09Res{Kind: "ServiceAccount", Name: nm,
				Yaml: c08gM("apiVersion", "v1", "kind", "ServiceAccount", "metadata", meta).yaml()})
			sas = append(sas, nm)
		}
		nb := 1 + rng.Intn(2)
		for i := 0; i < nb; i++ {
			kind := rng.Pick([]string{"RoleBinding", "RoleBinding", "ClusterRoleBinding"})
			meta := c08gM("name", fmt.Sprintf("bind%d", i))
			if kind == "RoleBinding" {
				nsSlot(rng, meta)
			}
			subj := &gnode{kind: 2}
			for j := 0; j < 1+rng.Intn(2); j++ {
				sj := c08gM("kind", "ServiceAccount", "name", rng.Pick(append([]string{"default"}, sas...)))
				switch r := rng.Intn(100); {
				case r < 40:
				case r < 85:
					sj.set("namespace", gT(rng.Pick(c09Namespaces)))
				default:
					sj.set("namespace", gT(`""`))
				}
				subj.vals = append(subj.vals, sj)
			}
			doc := c08gM("apiVersion", "rbac.authorization.k8s.io/v1", "kind", kind, "metadata", meta,
				"roleRef", c08gM("apiGroup", "rbac.authorization.k8s.io", "kind", "ClusterRole", "name", "r"), "subjects", subj)
			t.Own = append(t.Own, c09Res{Kind: kind, Name: fmt.Sprintf("bind%d", i), Yaml: doc.yaml()})
		}
	}
	for i := 0; i < n; i++ {
		// few names: collisions after the move are frequent enough, collisions before it stay rare
		t.Own = append(t.Own, genRes09(rng, rng.Pick(c09Names), &sas))
	}
	*all = append(*all, t.Own...)
	if len(*all) > 0 && rng.Chance(25) {
		if tw, ok := twin09(rng, (*all)[rng.Intn(len(*all))]); ok {
			t.Own = append(t.Own, tw)
		}
	}
	return t
}

func kustomization09(t *c09Tree, files []string) string {
	var b strings.Builder
	b.WriteString("apiVersion: kustomize.config.k8s.io/v1beta1\nkind: Kustomization\n")
	if len(t.Bases)+len(files) > 0 {
		b.WriteString("resources:\n")
		for i := range t.Bases {
			fmt.Fprintf(&b, "- b%d\n", i)
		}
		for _, f := range files {
			fmt.Fprintf(&b, "- %s\n", f)
		}
	}
	if t.Namespace != "" {
		fmt.Fprintf(&b, "namespace: %s\n", c08q(t.Namespace))
	}
	return b.String()
}

func writeTree09(fs filesys.FileSystem, dir string, t *c09Tree) error {
	if err := fs.MkdirAll(dir); err != nil {
		return err
	}
	files := []string{}
	for i, r := range t.Own {
		f := fmt.Sprintf("r%d.yaml", i)
		files = append(files, f)
		if err := fs.WriteFile(dir+"/"+f, []byte(r.Yaml)); err != nil {
			return err
		}
	}
	if err := fs.WriteFile(dir+"/kustomization.yaml", []byte(kustomization09(t, files))); err != nil {
		return err
	}
	for i, b := range t.Bases {
		if err := writeTree09(fs, fmt.Sprintf("%s/b%d", dir, i), b); err != nil {
			return err
		}
	}
	return nil
}

type flat09 struct {
	Res   c09Res
	Chain []string // namespace directives, innermost first ("" = none)
	Layer int
}

func flatten09(t *c09Tree, layerId *int) []flat09 {
	out := []flat09{}
	for _, b := range t.Bases {
		for _, fr := range flatten09(b, layerId) {
			fr.Chain = append(append([]string{}, fr.Chain...), t.Namespace)
			out = append(out, fr)
		}
	}
	*layerId++
	id := *layerId
	for _, r := range t.Own {
		out = append(out, flat09{Res: r, Chain: []string{t.Namespace}, Layer: id})
	}
	return out
}

type build09 struct {
	cls  string
	msg  string
	outs []*kyaml.RNode
}

func runBuild09(t *c09Tree) build09 {
	fs := filesys.MakeFsInMemory()
	if err := writeTree09(fs, "/t", t); err != nil {
		return build09{cls: "setup-error", msg: err.Error()}
	}
	bo := build09{}
	bo.cls, bo.msg = protect(func() error {
		k := krusty.MakeKustomizer(krusty.MakeDefaultOptions())
		m, err := k.Run(fs, "/t")
		if err != nil {
			return err
		}
		for _, r := range m.Resources() {
			bo.outs = append(bo.outs, r.RNode.Copy())
		}
		return nil
	})
	return bo
}

func stripNs09(t *c09Tree) *c09Tree {
	out := &c09Tree{Own: t.Own}
	for _, b := range t.Bases {
		out.Bases = append(out.Bases, stripNs09(b))
	}
	return out
}

func coqNLayer(t *c09Tree) (string, bool) {
	own := []string{}
	for _, r := range t.Own {
		n, err := kyaml.Parse(r.Yaml)
		if err != nil {
			return "", false
		}
		s, ok := nodeTerm(n)
		if !ok {
			return "", false
		}
		own = append(own, s)
	}
	bases := []string{}
	for _, b := range t.Bases {
		s, ok := coqNLayer(b)
		if !ok {
			return "", false
		}
		bases = append(bases, s)
	}
	return fmt.Sprintf("(NLayer %s [%s] [%s])", coqStr(t.Namespace), strings.Join(own, "; "), strings.Join(bases, "; ")), true
}

func treeHasKind09(t *c09Tree, kind string) bool {
	for _, r := range t.Own {
		if r.Kind == kind {
			return true
		}
	}
	for _, b := range t.Bases {
		if treeHasKind09(b, kind) {
			return true
		}
	}
	return false
}

// ---------- oracles ----------

func clusterScoped09(n *kyaml.Node) bool {
	av, kind := "", ""
	if a := getAt(n, []string{"apiVersion"}); a != nil {
		av = a.Value
	}
	if k := getAt(n, []string{"kind"}); k != nil {
		kind = k.Value
	}
	g, v := resid.ParseGroupVersion(av)
	gvk := resid.Gvk{Group: g, Version: v, Kind: kind}
	return openapi.IsCertainlyClusterScoped(kyaml.TypeMeta{APIVersion: gvk.ApiVersion(), Kind: kind})
}

// wellKnownScope09: what Kubernetes says about the well-known types the generator uses (cluster-scoped?).
func wellKnownScope09(n *kyaml.Node) (cluster bool, known bool) {
	av, _ := strAt(n, "apiVersion")
	kind, _ := strAt(n, "kind")
	switch av + "|" + kind {
	case "v1|Namespace", "v1|Node", "v1|PersistentVolume", "rbac.authorization.k8s.io/v1|ClusterRole",
		"rbac.authorization.k8s.io/v1|ClusterRoleBinding", "apiextensions.k8s.io/v1|CustomResourceDefinition",
		"apiextensions.k8s.io/v1beta1|CustomResourceDefinition", "storage.k8s.io/v1|StorageClass", "apiregistration.k8s.io/v1|APIService":
		return true, true
	case "apps/v1|Deployment", "v1|ConfigMap", "v1|Service", "v1|ServiceAccount", "rbac.authorization.k8s.io/v1|Role",
		"rbac.authorization.k8s.io/v1|RoleBinding", "rbac.authorization.k8s.io/v1beta1|RoleBinding", "networking.k8s.io/v1|Ingress",
		"extensions/v1beta1|Ingress":
		return false, true
	}
	return false, false
}

func strAt(n *kyaml.Node, path ...string) (string, bool) {
	x := getAt(n, path)
	if x == nil {
		return "", false
	}
	if x.Kind == kyaml.ScalarNode && x.Tag == kyaml.NodeTagNull {
		return "", true
	}
	return x.Value, true
}

func outermost(chain []string) string {
	ns := ""
	for _, c := range chain {
		if c != "" {
			ns = c
		}
	}
	return ns
}

func effNs(ns string, cluster bool) string {
	if cluster {
		return "_non_namespaceable_"
	}
	if ns == "" || ns == "default" {
		return "default"
	}
	return ns
}

func oracles09(r *Run, t *c09Tree, flat []flat09, bo build09) {
	report := func(law, class, detail string) {
		r.Violation(OracleViolation{Law: law, Class: class, Detail: detail, Replay: t})
	}
	if bo.cls == ClsPanic {
		// panics on malformed subjects (resmap.getNamespacesForRoleBinding) belong to C12, not to this property
		r.Count("panic", c08firstN(bo.msg, 60))
		return
	}
	if bo.cls != ClsOk {
		return
	}
	// never a silent merge or drop
	if len(bo.outs) != len(flat) {
		report("collision_is_error", "C09/resource-count", fmt.Sprintf("%d resources in, %d out", len(flat), len(bo.outs)))
		return
	}
	type idt struct{ av, kind, name, ns string }
	seen := map[idt]int{}
	ins := make([]*kyaml.Node, len(flat))
	for i, fr := range flat {
		in, err := kyaml.Parse(fr.Res.Yaml)
		if err != nil {
			return
		}
		ins[i] = in.YNode()
	}
	for i, fr := range flat {
		in, out := ins[i], bo.outs[i].YNode()
		cluster := clusterScoped09(in)
		if exp, known := wellKnownScope09(in); known && exp != cluster {
			report("scope_table", "C09/scope-table", fmt.Sprintf("%s %s: IsCertainlyClusterScoped = %v, Kubernetes says %v", fr.Res.Kind, fr.Res.Name, cluster, exp))
		}
		want := outermost(fr.Chain)
		nsIn, hadIn := strAt(in, "metadata", "namespace")
		nsOut, hasOut := strAt(out, "metadata", "namespace")
		av, _ := strAt(out, "apiVersion")
		kind, _ := strAt(out, "kind")
		name, _ := strAt(out, "metadata", "name")
		if cluster {
			r.Count("oracle", "cluster_untouched")
			if hadIn != hasOut || nsIn != nsOut {
				report("cluster_untouched", "C09/cluster_untouched",
					fmt.Sprintf("cluster-scoped %s %s: metadata.namespace %q(present=%v) -> %q(present=%v)", kind, name, nsIn, hadIn, nsOut, hasOut))
			}
		} else if want != "" {
			r.Count("oracle", "moved")
			if !hasOut || nsOut != want {
				report("moved", "C09/moved",
					fmt.Sprintf("namespaced %s %s: namespace %q, outermost directive %q", kind, name, nsOut, want))
			}
		} else {
			r.Count("oracle", "no_directive")
			if hadIn != hasOut || nsIn != nsOut {
				report("moved", "C09/changed-without-directive",
					fmt.Sprintf("%s %s: namespace changed from %q to %q without any directive on its chain", kind, name, nsIn, nsOut))
			}
		}
		id := idt{av, kind, name, effNs(nsOut, cluster)}
		seen[id]++
		if seen[id] > 1 {
			report("collision_is_error", "C09/duplicate-id", fmt.Sprintf("two output resources share the id %v", id))
		}
	}
	// subjects: a ServiceAccount subject that designates an account of the build (same innermost layer,
	// unique account of that name in the whole build) ends in the account's output namespace
	for i, fr := range flat {
		if fr.Res.Kind != "RoleBinding" && fr.Res.Kind != "ClusterRoleBinding" {
			continue
		}
		if outermost(fr.Chain) == "" {
			continue
		}
		in, out := ins[i], bo.outs[i].YNode()
		avIn, _ := strAt(in, "apiVersion")
		if !strings.HasPrefix(avIn, "rbac.authorization.k8s.io/") {
			continue // the name-reference rule for subjects is declared for the rbac group only
		}
		sin, sout := getAt(in, []string{"subjects"}), getAt(out, []string{"subjects"})
		if sin == nil || sout == nil || sin.Kind != kyaml.SequenceNode || sout.Kind != kyaml.SequenceNode || len(sin.Content) != len(sout.Content) {
			continue
		}
		for j, s := range sin.Content {
			if s.Kind != kyaml.MappingNode {
				continue
			}
			k, _ := strAt(s, "kind")
			nm, okn := strAt(s, "name")
			sns, hasNs := strAt(s, "namespace")
			if k != "ServiceAccount" || !okn || nm == "" {
				continue
			}
			emptyNs := hasNs && sns == ""
			// the designated account: same layer, same name, the subject names its namespace or none at all
			var acct = -1
			count := 0
			for a, fa := range flat {
				if fa.Res.Kind != "ServiceAccount" || fa.Res.Name != nm {
					continue
				}
				if v, _ := strAt(ins[a], "apiVersion"); v != "v1" {
					continue
				}
				count++
				ans, _ := strAt(ins[a], "metadata", "namespace")
				if fa.Layer == fr.Layer && (!hasNs || effNs(sns, false) == effNs(ans, false)) {
					acct = a
				}
			}
			if acct < 0 || count != 1 {
				continue
			}
			r.Count("oracle", "subjects")
			wantNs, _ := strAt(bo.outs[acct].YNode(), "metadata", "namespace")
			gotNs, _ := strAt(sout.Content[j], "namespace")
			if gotNs != wantNs {
				cls := "C09/subjects"
				if nm != "default" {
					cls = "C09/subjects/non-default-account"
				}
				if emptyNs && gotNs == "" {
					// `namespace: ""` on the subject: before the repair R-nameref-empty-namespace-subject the
					// name-reference fixer keyed its candidates by the literal namespace text and found none; the
					// subject kept the empty namespace while the account moved. Fixed (findings.d/C09.txt `fixed:`),
					// the class is no longer listed: a regression is an unlisted VIOLATION.
					cls = "C09/subjects/empty-namespace-subject"
				}
				report("subjects", cls,
					fmt.Sprintf("%s %s subject %d (ServiceAccount %s): namespace %q, the account is in %q", fr.Res.Kind, fr.Res.Name, j, nm, gotNs, wantNs))
			}
		}
	}
}

// ---------- filter-level cases ----------

type c09FilterCase struct {
	Doc       string   `json:"doc"`
	Namespace string   `json:"namespace"`
	Fss       []c08fsSpec `json:"fss"`
	UnsetOnly bool     `json:"unsetOnly"`
	Mode      string   `json:"mode"`
}

var c09Rows = []c08fsSpec{
	{Kind: "Namespace", Path: "metadata/name", Create: true},
	{Group: "apiregistration.k8s.io", Kind: "APIService", Path: "spec/service/namespace", Create: true},
	{Group: "apiextensions.k8s.io", Kind: "CustomResourceDefinition", Path: "spec/conversion/webhook/clientConfig/service/namespace"},
	{Path: "metadata/namespace", Create: true},
	{Path: "metadata/name", Create: true},
	{Kind: "RoleBinding", Path: "subjects/namespace", Create: true},
	{Kind: "ClusterRoleBinding", Path: "subjects/namespace"},
	{Path: "subjects/namespace", Create: true},
	{Path: "spec/service/namespace", Create: true},
	{Path: "spec/namespace", Create: true},
	{Path: "spec", Create: true},
	{Path: "roleRef/namespace"},
	{Path: "data/k"},
	{Path: "spec/template/spec/containers[]/namespace", Create: true},
	{Path: "subjects[]/namespace", Create: true},
}

var c09Modes = []string{"", "", "defaultOnly", "allServiceAccounts", "none", "bogus"}

func genFilter09(rng *Rng) c09FilterCase {
	sas := []string{"sa1"}
	res := genRes09(rng, rng.Pick(c09Names), &sas)
	c := c09FilterCase{Doc: res.Yaml, Namespace: rng.Pick(append([]string{"", "x y", "true"}, c09Namespaces...)),
		UnsetOnly: rng.Chance(25), Mode: rng.Pick(c09Modes)}
	if rng.Chance(60) {
		// the default table
		c.Fss = append(c.Fss, c09Rows[0], c09Rows[1], c09Rows[2])
	}
	n := rng.Intn(4)
	for i := 0; i < n; i++ {
		f := c09Rows[rng.Intn(len(c09Rows))]
		for _, g := range c.Fss {
			if g.Path == f.Path || strings.HasPrefix(f.Path, g.Path+"/") || strings.HasPrefix(g.Path, f.Path+"/") {
				f.Create = g.Create // same domain restriction as C08: uniform create flag on prefix-related paths
			}
		}
		c.Fss = append(c.Fss, f)
	}
	return c
}

func execFilter09(c c09FilterCase) (cls string, doc *kyaml.RNode, msg string) {
	doc, err := kyaml.Parse(c.Doc)
	if err != nil {
		return "parse-error", nil, err.Error()
	}
	cls, msg = protect(func() error {
		_, e := namespace.Filter{Namespace: c.Namespace, FsSlice: toFsSlice(c.Fss), UnsetOnly: c.UnsetOnly,
			SetRoleBindingSubjects: namespace.RoleBindingSubjectMode(c.Mode)}.Filter([]*kyaml.RNode{doc})
		return e
	})
	return cls, doc, msg
}

func coqMode(m string) string {
	switch m {
	case "", "defaultOnly":
		return "RBDefault"
	case "allServiceAccounts":
		return "RBAll"
	case "none":
		return "RBNone"
	}
	return "RBInvalid"
}

func runFilter09(r *Run, c c09FilterCase) {
	orig, err := kyaml.Parse(c.Doc)
	if err != nil {
		r.Meta.Skipped++
		return
	}
	d0, ok := nodeTerm(orig)
	if !ok {
		r.Meta.Skipped++
		return
	}
	cls, doc, _ := execFilter09(c)
	r.Count("filter_class", cls)
	r.Count("filter_mode", coqMode(c.Mode))
	after := `(Scalar TNone SPlain "")`
	changed := false
	if cls == ClsOk {
		a, ok := nodeTerm(doc)
		if !ok {
			r.Meta.Skipped++
			return
		}
		after = a
		changed = a != d0
	}
	if changed {
		r.Count("filter_effect", "changed")
	} else {
		r.Count("filter_effect", "unchanged")
	}
	term := fmt.Sprintf("(CNsFilter (mkNs %s %s %s %s) %s %s %s)", coqStr(c.Namespace), coqFsList(c.Fss), coqBool(c.UnsetOnly), coqMode(c.Mode), d0, cls, after)
	r.AddCase(term, map[string]interface{}{"filter": c}, changed)
}

func countTree09(r *Run, t *c09Tree, depth int, maxDepth *int) {
	if depth > *maxDepth {
		*maxDepth = depth
	}
	if t.Namespace != "" {
		r.Count("directive", "namespace")
	} else {
		r.Count("directive", "none")
	}
	for _, o := range t.Own {
		r.Count("kind", o.Kind)
	}
	for _, b := range t.Bases {
		countTree09(r, b, depth+1, maxDepth)
	}
}

func runBuild09Case(r *Run, t *c09Tree, toModel bool) {
	lid := 0
	flat := flatten09(t, &lid)
	bo := runBuild09(t)
	if bo.cls == "setup-error" {
		r.Meta.Skipped++
		return
	}
	md := 0
	countTree09(r, t, 1, &md)
	r.Count("layers", fmt.Sprint(md))
	r.Count("build_class", bo.cls)
	if bo.cls == ClsErr {
		switch {
		case strings.Contains(bo.msg, "ID conflict"):
			r.Count("build_error", "namespace transformation produces ID conflict")
		case strings.Contains(bo.msg, "already registered id"):
			r.Count("build_error", "already registered id")
		case strings.Contains(bo.msg, "namespace transformation failed") || strings.Contains(bo.msg, "role binding subject") ||
			strings.Contains(bo.msg, "namespace field specs must target scalar nodes"):
			r.Count("build_error", "namespace filter error")
		default:
			r.Count("build_error", "other: "+c08firstN(bo.msg, 70))
		}
	}
	oracles09(r, t, flat, bo)
	if bo.cls != ClsOk {
		// Domain restriction: errors / panics of other build stages (name references on odd subjects, ...) are
		// outside the model: the tree goes to the model only if it builds without any namespace directive,
		// or fails there for a reason the model covers (an id registered twice while accumulating).
		sb := runBuild09(stripNs09(t))
		if sb.cls != ClsOk && !(sb.cls == ClsErr && strings.Contains(sb.msg, "already registered id")) {
			r.Count("build_skipped", "fails without directives too ("+sb.cls+")")
			r.Meta.Skipped++
			return
		}
		if bo.cls == ClsErr && !strings.Contains(bo.msg, "ID conflict") && !strings.Contains(bo.msg, "already registered id") &&
			!strings.Contains(bo.msg, "namespace transformation failed") && !strings.Contains(bo.msg, "role binding subject") &&
			!strings.Contains(bo.msg, "namespace field specs must target scalar nodes") {
			// an error raised after the namespace transformer (name references following the move)
			r.Count("build_skipped", "error of a later stage: "+c08firstN(bo.msg, 50))
			r.Meta.Skipped++
			return
		}
		if bo.cls == ClsPanic {
			r.Meta.Skipped++
			return
		}
	}
	if !toModel {
		b, _ := json.Marshal(t)
		r.AddEval(string(b), bo.cls == ClsOk)
		return
	}
	lt, ok := coqNLayer(t)
	if !ok {
		r.Meta.Skipped++
		return
	}
	outs := []string{}
	if bo.cls == ClsOk {
		for _, o := range bo.outs {
			s, ok := nodeTerm(o)
			if !ok {
				r.Meta.Skipped++
				return
			}
			outs = append(outs, s)
		}
	}
	mask := treeHasKind09(t, "ServiceAccount")
	nontrivial := false
	for _, fr := range flat {
		if outermost(fr.Chain) != "" {
			nontrivial = true
		}
	}
	term := fmt.Sprintf("(CNsBuild %s %s %s [%s])", lt, coqBool(mask), bo.cls, strings.Join(outs, "; "))
	r.AddCase(term, map[string]interface{}{"build": t}, nontrivial)
}

// well-known and made-up type metas for the scope table cross-check
var c09ScopeAVs = []string{"v1", "apps/v1", "batch/v1", "batch/v1beta1", "rbac.authorization.k8s.io/v1", "rbac.authorization.k8s.io/v1beta1",
	"apiextensions.k8s.io/v1", "apiextensions.k8s.io/v1beta1", "apiregistration.k8s.io/v1", "storage.k8s.io/v1", "storage.k8s.io/v1beta1",
	"networking.k8s.io/v1", "networking.k8s.io/v1beta1", "policy/v1", "policy/v1beta1", "scheduling.k8s.io/v1", "node.k8s.io/v1",
	"admissionregistration.k8s.io/v1", "certificates.k8s.io/v1", "coordination.k8s.io/v1", "discovery.k8s.io/v1", "events.k8s.io/v1",
	"flowcontrol.apiserver.k8s.io/v1beta1", "autoscaling/v1", "autoscaling/v2beta1", "autoscaling/v2beta2", "extensions/v1beta1", "example.com/v1", "", "core/v1", "v2",
	"admissionregistration.k8s.io/v1beta1", "apiregistration.k8s.io/v1beta1", "certificates.k8s.io/v1beta1", "coordination.k8s.io/v1beta1",
	"discovery.k8s.io/v1beta1", "events.k8s.io/v1beta1", "node.k8s.io/v1beta1", "scheduling.k8s.io/v1beta1"}
var c09ScopeKinds = []string{"Pod", "Namespace", "Node", "PersistentVolume", "PersistentVolumeClaim", "ConfigMap", "Secret", "Service", "ServiceAccount",
	"Deployment", "StatefulSet", "DaemonSet", "ReplicaSet", "Job", "CronJob", "Role", "RoleBinding", "ClusterRole", "ClusterRoleBinding",
	"CustomResourceDefinition", "APIService", "StorageClass", "VolumeAttachment", "CSIDriver", "CSINode", "CSIStorageCapacity", "Ingress", "IngressClass",
	"NetworkPolicy", "PodDisruptionBudget", "PodSecurityPolicy", "PriorityClass", "RuntimeClass", "MutatingWebhookConfiguration",
	"ValidatingWebhookConfiguration", "CertificateSigningRequest", "Lease", "EndpointSlice", "Event", "FlowSchema", "PriorityLevelConfiguration",
	"HorizontalPodAutoscaler", "Scale", "ComponentStatus", "Endpoints", "LimitRange", "ResourceQuota", "PodTemplate", "ReplicationController",
	"ControllerRevision", "NodeProxyOptions", "PodExecOptions", "PodAttachOptions", "PodPortForwardOptions", "PodProxyOptions", "ServiceProxyOptions",
	"Widget", "namespace", ""}

func runC09(r *Run, rng *Rng, tier string) error {
	rng = rng.Fork()
	nBuild, nFilter, nSearch := 260, 450, 500
	if tier == "thorough" {
		nBuild, nFilter, nSearch = 3000, 6000, 12000
	}
	r.Meta.Rule = "builds: kustomization trees of depth 1-3 (0-2 bases per layer, 0-3 resources per layer, names from a pool of 6 so that ids collide after a move) over " +
		"namespaced kinds (Deployment, ConfigMap, Service, ServiceAccount, Role, RoleBinding, Ingress), cluster-scoped kinds (Namespace, ClusterRole, ClusterRoleBinding, CRD, " +
		"PersistentVolume, StorageClass, APIService, Node), custom kinds and known kinds under unknown apiVersions; pre-set namespaces absent/ns/\"\"/null; role bindings with 0-3 subjects " +
		"(ServiceAccount/User/Group, name default or other, namespace set or not, odd shapes); `namespace:` on any subset of layers. filters: namespace.Filter with the default rows and " +
		"extra specs, unsetOnly, all subject modes. scope: IsCertainlyClusterScoped on every (apiVersion, kind) of a 39x59 grid (all 82 rows of the precomputed table are among them). non-trivial = a directive reached a resource / the filter changed the document"
	corp := loadCorpus09()
	for _, t := range corp.Builds {
		runBuild09Case(r, t, true)
	}
	for i := 0; i < nBuild; i++ {
		g := rng.Fork()
		runBuild09Case(r, genTree09(g, 1+g.Intn(3), true), true)
	}
	for i := 0; i < nFilter; i++ {
		runFilter09(r, genFilter09(rng.Fork()))
	}
	// scope table: the whole grid (1650 cheap cases)
	for _, av := range c09ScopeAVs {
		for _, k := range c09ScopeKinds {
			got := openapi.IsCertainlyClusterScoped(kyaml.TypeMeta{APIVersion: av, Kind: k})
			ns, found := openapi.IsNamespaceScoped(kyaml.TypeMeta{APIVersion: av, Kind: k})
			switch {
			case !found:
				r.Count("scope", "unknown")
			case ns:
				r.Count("scope", "namespaced")
			default:
				r.Count("scope", "cluster")
			}
			r.AddCase(fmt.Sprintf("(CScope %s %s %s)", coqStr(av), coqStr(k), coqBool(got)), map[string]interface{}{"scope": []string{av, k}}, found)
		}
	}
	for i := 0; i < nSearch; i++ {
		g := rng.Fork()
		runBuild09Case(r, genTree09(g, 1+g.Intn(3), true), false)
		// implementation-level family outside the model (harness/c09_extra.go)
		if i%6 == 0 {
			patchBuild09(r, g.Fork())
		}
	}
	// replayable file-set families (harness/c09_extra.go): patches with metadata.namespace on cluster-scoped targets,
	// annotation patches above a namespace directive
	nFile := 120
	if tier == "thorough" {
		nFile = 1500
	}
	for i := 0; i < nFile; i++ {
		runFileCase09(r, "cluster_patch_build", genClusterPatchCase09(rng.Fork()))
		runFileCase09(r, "anno_patch_build", genAnnoPatchCase09(rng.Fork()))
	}
	// custom-schema builds last: each of them resets the process-wide OpenAPI state before and after itself, which
	// would make every later build that needs the built-in schema parse it again
	nSchema := 48
	if tier == "thorough" {
		nSchema = 400
	}
	for i := 0; i < nSchema; i++ {
		schemaBuild09(r, rng.Fork())
	}
	return nil
}

type c09Corpus struct {
	Builds []*c09Tree `json:"builds"`
}

func loadCorpus09() c09Corpus {
	var c c09Corpus
	data, err := os.ReadFile(verifRoot() + "/corpus/C09/cases.json")
	if err != nil {
		return c
	}
	_ = json.Unmarshal(data, &c)
	return c
}

func replayC09(path string) (bool, string, error) {
	data, err := os.ReadFile(path)
	if err != nil {
		return false, "", err
	}
	var rp struct {
		Case json.RawMessage `json:"case"`
	}
	if err := json.Unmarshal(data, &rp); err != nil {
		return false, "", err
	}
	var wrap struct {
		Build    *c09Tree       `json:"build"`
		Filter   *c09FilterCase `json:"filter"`
		FileCase *c09FileCase   `json:"file_case"`
	}
	_ = json.Unmarshal(rp.Case, &wrap)
	if fc := wrap.FileCase; fc != nil && len(fc.Files) > 0 {
		cls, msg, outs, bad := evalFileCase09(fc)
		var b strings.Builder
		fmt.Fprintf(&b, "class=%s msg=%q\n", cls, msg)
		for _, o := range outs {
			s, _ := o.String()
			fmt.Fprintf(&b, "---\n%s", s)
		}
		for _, v := range bad {
			fmt.Fprintf(&b, "LAW %s class=%s: %s\n", v[0], v[1], v[2])
		}
		return len(bad) > 0, b.String(), nil
	}
	t := wrap.Build
	if t == nil && wrap.Filter == nil {
		var tt c09Tree
		if err := json.Unmarshal(rp.Case, &tt); err == nil && (len(tt.Own) > 0 || len(tt.Bases) > 0) {
			t = &tt
		}
	}
	if wrap.Filter != nil {
		cls, doc, msg := execFilter09(*wrap.Filter)
		return cls == ClsPanic, fmt.Sprintf("class=%s msg=%q after=%s", cls, msg, docString(doc)), nil
	}
	if t == nil {
		return false, "", fmt.Errorf("replay file has neither a build tree nor a filter case")
	}
	r := NewRun("C09", "replay", 0, "", "")
	lid := 0
	flat := flatten09(t, &lid)
	bo := runBuild09(t)
	oracles09(r, t, flat, bo)
	var b strings.Builder
	fmt.Fprintf(&b, "class=%s msg=%q\n", bo.cls, bo.msg)
	for _, o := range bo.outs {
		s, _ := o.String()
		fmt.Fprintf(&b, "---\n%s", s)
	}
	if len(r.Meta.Violations) > 0 {
		for _, v := range r.Meta.Violations {
			fmt.Fprintf(&b, "LAW %s class=%s: %s\n", v.Law, v.Class, v.Detail)
		}
		return true, b.String(), nil
	}
	return false, b.String(), nil
}
