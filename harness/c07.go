package main

// C07: output is well-formed, identity-unique, free of bookkeeping annotations, and a fixpoint.
//
// Part 1 (this file): correspondence of the resmap model (KV.Res.ResMapModel) with the real
// api/resmap.ResMap driven through operation sequences, and of the annotation-stripping model
// (KV.Res.Hygiene) with RemoveBuildAnnotations/RemoveOriginAnnotations/RemoveTransformerAnnotations;
// the step laws of the theorems are evaluated on the implementation after every step.
// Part 2 (c07_build.go): invariant + re-parse + second-build oracles through krusty.Run.

import (
	"encoding/json"
	"fmt"
	"io"
	"log"
	"os"
	"sort"
	"strings"

	"sigs.k8s.io/kustomize/api/builtins" //nolint:staticcheck // the public alias of api/internal/builtins
	"sigs.k8s.io/kustomize/api/krusty"
	"sigs.k8s.io/kustomize/api/provider"
	"sigs.k8s.io/kustomize/api/resmap"
	"sigs.k8s.io/kustomize/api/resource"
	"sigs.k8s.io/kustomize/kyaml/resid"
)

func init() {
	register("C07", propDef{
		header:     c07Header(),
		caseType:   "case07",
		mismatchFn: "mismatches07",
		run:        runC07,
		replay:     replayC07,
	})
}

// ---------- resource specs ----------

type c07Rspec struct {
	APIVersion string            `json:"apiVersion"`
	Kind       string            `json:"kind"`
	Name       string            `json:"name"`
	Ns         string            `json:"ns,omitempty"`
	Ann        map[string]string `json:"ann,omitempty"`
	Tag        string            `json:"tag"`
	Empty      bool              `json:"empty,omitempty"`
}

var c07Factory = provider.NewDefaultDepProvider().GetResourceFactory()
var c07RmF = resmap.NewFactory(c07Factory)

func (s c07Rspec) build() (*resource.Resource, error) {
	if s.Empty {
		return c07Factory.FromMap(map[string]interface{}{})
	}
	m := map[string]interface{}{}
	if s.APIVersion != "" {
		m["apiVersion"] = s.APIVersion
	}
	if s.Kind != "" {
		m["kind"] = s.Kind
	}
	md := map[string]interface{}{}
	if s.Name != "" {
		md["name"] = s.Name
	}
	if s.Ns != "" {
		md["namespace"] = s.Ns
	}
	if len(s.Ann) > 0 {
		a := map[string]interface{}{}
		for k, v := range s.Ann {
			a[k] = v
		}
		md["annotations"] = a
	}
	if len(md) > 0 {
		m["metadata"] = md
	}
	m["tag"] = s.Tag
	return c07Factory.FromMap(m)
}

// annotation keys used by the generator. The harness cannot import api/internal/utils; the values are
// checked against the model's generated constants by the correspondence itself (a wrong key here would
// show up as a disagreement) and resource.BuildAnnotations is compared with the generated table (CTable).
const (
	c07PrevNames  = "internal.config.kubernetes.io/previousNames"
	c07PrevNss    = "internal.config.kubernetes.io/previousNamespaces"
	c07PrevKinds  = "internal.config.kubernetes.io/previousKinds"
	c07Behavior   = "internal.config.kubernetes.io/generatorBehavior"
	c07NeedsHash  = "internal.config.kubernetes.io/needsHashSuffix"
	c07AllowName  = "internal.config.kubernetes.io/allowNameChange"
	c07AllowKind  = "internal.config.kubernetes.io/allowKindChange"
	c07LocalCfg   = "config.kubernetes.io/local-config"
	c07Origin     = "config.kubernetes.io/origin"
	c07Transf     = "alpha.config.kubernetes.io/transformations"
	c07InternalPx = "internal.config.kubernetes.io/"
)

type c07KindSpec struct{ api, kind string }

// long strings that occur in almost every case are bound to short identifiers in the header of the
// case files (coqc's parsing time is proportional to the size of the string literals)
var c07Abbrev = map[string]string{
	c07PrevNames: "kPN", c07PrevNss: "kPS", c07PrevKinds: "kPK", c07Behavior: "kBeh", c07NeedsHash: "kNH",
	c07AllowName: "kAN", c07AllowKind: "kAK", c07LocalCfg: "kLC", c07Origin: "kOr", c07Transf: "kTr",
	"internal.config.kubernetes.io/prefixes": "kPfx", "internal.config.kubernetes.io/suffixes": "kSfx",
	"rbac.authorization.k8s.io": "gRbac", "apiextensions.k8s.io": "gApiext", "apiregistration.k8s.io": "gApireg",
	"admissionregistration.k8s.io": "gAdm", "storage.k8s.io": "gStor", "example.com": "gEx",
	"CustomResourceDefinition": "sCRD", "ValidatingWebhookConfiguration": "sVWC", "_non_namespaceable_": "sNN",
	"ConfigMap": "sCM", "Deployment": "sDep", "Namespace": "sNs", "ClusterRole": "sCR", "ServiceAccount": "sSA",
	"StorageClass": "sSC", "APIService": "sAS", "enabled": "sEn", "default": "sDef",
}

func c07Header() string {
	keys := make([]string, 0, len(c07Abbrev))
	for k := range c07Abbrev {
		keys = append(keys, k)
	}
	sort.Strings(keys)
	var b strings.Builder
	b.WriteString("From KV Require Import Corr.C07.\nOpen Scope string_scope.\nOpen Scope list_scope.\n")
	for _, k := range keys {
		fmt.Fprintf(&b, "Definition %s : string := %s.\n", c07Abbrev[k], coqStr(k))
	}
	return b.String()
}

// c07Qs prints a string term, abbreviated when possible
func c07Qs(s string) string {
	if id, ok := c07Abbrev[s]; ok {
		return id
	}
	return coqStr(s)
}

func c07QsList(l []string) string {
	parts := make([]string, len(l))
	for i, s := range l {
		parts[i] = c07Qs(s)
	}
	return "[" + strings.Join(parts, "; ") + "]"
}

var c07Kinds = []c07KindSpec{
	{"v1", "ConfigMap"}, {"v1", "ConfigMap"}, {"v1", "Secret"}, {"apps/v1", "Deployment"}, {"v1", "Service"},
	{"v1", "Namespace"}, {"rbac.authorization.k8s.io/v1", "ClusterRole"}, {"rbac.authorization.k8s.io/v1", "Role"},
	{"apiextensions.k8s.io/v1", "CustomResourceDefinition"}, {"apiregistration.k8s.io/v1", "APIService"},
	{"example.com/v1", "Foo"}, {"storage.k8s.io/v1", "StorageClass"}, {"v1", "ServiceAccount"},
	{"admissionregistration.k8s.io/v1", "ValidatingWebhookConfiguration"}, {"example.com/v1", "FooList"},
	{"v1", "ConfigMap"},
}
var c07Names = []string{"a", "b", "p-a", "a-s", "c", "a", "b", "p-a-s"}
var c07Nss = []string{"", "", "default", "x", "y", "x"}

type c07gen struct {
	rng  *Rng
	ntag int
	// odd: this sequence may contain resources without a name or a kind (which the loader rejects, List kinds
	// excepted). The model does not distinguish a missing metadata.name from `name: ""`, which the name
	// transformers, CopyMergeMetaDataFieldsFrom and ApplySmPatch do; odd sequences therefore use only the
	// operations that do not write names.
	odd     bool
	pending []c07Opspec // operations forced to come next (adversarial two-step scenarios)
}

func (g *c07gen) tag() string {
	g.ntag++
	return fmt.Sprintf("t%d", g.ntag)
}

func (g *c07gen) spec() c07Rspec {
	k := c07Kinds[g.rng.Intn(len(c07Kinds))]
	s := c07Rspec{APIVersion: k.api, Kind: k.kind, Name: g.rng.Pick(c07Names), Ns: g.rng.Pick(c07Nss), Tag: g.tag()}
	if g.rng.Chance(3) {
		s.Name = "a,b" // CSV-breaking name: StorePreviousId then yields unequal list lengths (panic in PrevIds)
	}
	if g.odd && g.rng.Chance(12) {
		s.Name = ""
	}
	if g.odd && g.rng.Chance(8) {
		s.Kind = ""
	}
	if g.rng.Chance(2) {
		s.APIVersion = "/v1"
	}
	ann := map[string]string{}
	if g.rng.Chance(15) {
		ann[c07LocalCfg] = g.rng.Pick([]string{"true", "false", "true", "yes"})
	}
	if g.rng.Chance(20) {
		ann[c07NeedsHash] = g.rng.Pick([]string{"enabled", "enabled", "enabled", "disabled"})
	}
	if g.rng.Chance(20) {
		// a previous identity
		ann[c07PrevNames] = g.rng.Pick(c07Names)
		ann[c07PrevNss] = g.rng.Pick([]string{"default", "x", "_non_namespaceable_"})
		ann[c07PrevKinds] = g.rng.Pick([]string{s.Kind, s.Kind, "ConfigMap", "Namespace"})
		if g.rng.Chance(5) {
			delete(ann, c07PrevKinds) // malformed bookkeeping
		}
	}
	if g.rng.Chance(10) {
		ann["note"] = g.rng.Pick([]string{"x", "y"})
	}
	if len(ann) > 0 {
		s.Ann = ann
	}
	if g.rng.Chance(3) {
		s = c07Rspec{Empty: true}
	}
	return s
}

// a spec meant to be absorbed (generator output): has a behaviour and aims at an existing resource
func (g *c07gen) absorbSpec(cur []*resource.Resource) c07Rspec {
	s := g.spec()
	s.Empty = false
	if s.Kind == "" {
		s.Kind = "ConfigMap"
		s.APIVersion = "v1"
	}
	if s.Name == "" {
		s.Name = "a"
	}
	aimed := false
	if len(cur) > 0 && g.rng.Chance(65) {
		t := cur[g.rng.Intn(len(cur))]
		if !t.IsNilOrEmpty() && t.GetName() != "" {
			id := t.CurId()
			aimed = true
			s.APIVersion, s.Kind, s.Name, s.Ns = id.ApiVersion(), id.Kind, id.Name, id.Namespace
			if g.rng.Chance(30) {
				// aim at a previous name instead
				if pn := t.GetAnnotations()[c07PrevNames]; pn != "" {
					s.Name = strings.Split(pn, ",")[0]
				}
			}
		}
	}
	if s.Ann == nil {
		s.Ann = map[string]string{}
	}
	delete(s.Ann, c07Origin)
	k := g.rng.Intn(10)
	if !aimed {
		k = []int{8, 8, 8, 9, 9, 9, 9, 0, 2, 8}[k] // mostly create / unspecified when nothing is aimed at
	}
	switch {
	case k < 4:
		s.Ann[c07Behavior] = "merge"
	case k < 8:
		s.Ann[c07Behavior] = "replace"
	case k < 9:
		s.Ann[c07Behavior] = g.rng.Pick([]string{"create", "unspecified", "bogus"})
	}
	return s
}

// ---------- operations ----------

type c07Idspec struct {
	Group   string `json:"group"`
	Version string `json:"version"`
	Kind    string `json:"kind"`
	Name    string `json:"name"`
	Ns      string `json:"ns"`
}

type c07Opspec struct {
	Op     string     `json:"op"`
	Res    []c07Rspec `json:"res,omitempty"`
	Id     *c07Idspec `json:"id,omitempty"`
	Str    string     `json:"str,omitempty"`
	Sel    []int      `json:"sel,omitempty"` // indices of the selected resources (OSmPatch)
	PName  string     `json:"pname,omitempty"`
	PKind  string     `json:"pkind,omitempty"`
	AllowN bool       `json:"allowN,omitempty"`
	AllowK bool       `json:"allowK,omitempty"`
	Del    bool       `json:"del,omitempty"`
	Unset  bool       `json:"unset,omitempty"` // namespace: the plugin\'s unsetOnly option
	Bm     []string   `json:"bm,omitempty"`
}

type seq07 struct {
	Init []c07Rspec  `json:"init"`
	Ops  []c07Opspec `json:"ops"`
}

func c07ToResId(i c07Idspec) resid.ResId {
	return resid.NewResIdWithNamespace(resid.NewGvk(i.Group, i.Version, i.Kind), i.Name, i.Ns)
}

func c07MustConfig(p resmap.TransformerPlugin, cfg string) resmap.TransformerPlugin {
	h := resmap.NewPluginHelpers(nil, nil, c07RmF, nil)
	if err := p.Config(h, []byte(cfg)); err != nil {
		panic("harness: plugin config: " + err.Error())
	}
	return p
}

// state observed on the implementation
type c07ObsRes struct {
	id    resid.ResId
	ann   map[string]string
	empty bool
	tag   string
}

func c07Observe(m resmap.ResMap) []c07ObsRes {
	out := []c07ObsRes{}
	for _, r := range m.Resources() {
		o := c07ObsRes{id: r.CurId(), ann: r.GetAnnotations(), empty: r.IsNilOrEmpty()}
		if !o.empty {
			if v, err := r.GetFieldValue("tag"); err == nil {
				if s, ok := v.(string); ok {
					o.tag = s
				}
			}
		}
		out = append(out, o)
	}
	return out
}

func c07CoqId(id resid.ResId) string {
	return fmt.Sprintf("(mkId (mkGvk %s %s %s %s) %s %s)", c07Qs(id.Group), c07Qs(id.Version), c07Qs(id.Kind),
		coqBool(id.IsClusterScoped()), c07Qs(id.Name), c07Qs(id.Namespace))
}

func c07CoqAnn(a map[string]string) string {
	keys := make([]string, 0, len(a))
	for k := range a {
		keys = append(keys, k)
	}
	sort.Strings(keys)
	parts := make([]string, len(keys))
	for i, k := range keys {
		parts[i] = fmt.Sprintf("(%s, %s)", c07Qs(k), c07Qs(a[k]))
	}
	return "[" + strings.Join(parts, "; ") + "]"
}

func c07CoqObs(o c07ObsRes) string {
	return fmt.Sprintf("(mkRes %s %s %s %s)", c07CoqId(o.id), c07CoqAnn(o.ann), coqBool(o.empty), coqStr(o.tag))
}

// ids, tags and emptiness only (what is compared after every step)
func c07CoqIds(st []c07ObsRes) string {
	parts := make([]string, len(st))
	for i, o := range st {
		parts[i] = fmt.Sprintf("(%s, %s, %s)", c07CoqId(o.id), coqStr(o.tag), coqBool(o.empty))
	}
	return "[" + strings.Join(parts, "; ") + "]"
}

func c07CoqState(st []c07ObsRes) string {
	parts := make([]string, len(st))
	for i, o := range st {
		parts[i] = c07CoqObs(o)
	}
	return "[" + strings.Join(parts, "; ") + "]"
}

// the model's view of a resource that has not been put into a map yet
func c07CoqSpec(s c07Rspec) (string, *resource.Resource, error) {
	r, err := s.build()
	if err != nil {
		return "", nil, err
	}
	o := c07ObsRes{id: r.CurId(), ann: r.GetAnnotations(), empty: r.IsNilOrEmpty(), tag: s.Tag}
	if o.empty {
		o.tag = ""
	}
	return c07CoqObs(o), r, nil
}

func c07IdsUnique(st []c07ObsRes) bool {
	for i := range st {
		for j := i + 1; j < len(st); j++ {
			if st[i].id.Equals(st[j].id) {
				return false
			}
		}
	}
	return true
}

func c07AnyEmpty(st []c07ObsRes) bool {
	for _, o := range st {
		if o.empty {
			return true
		}
	}
	return false
}

// uniform: the kind recorded first in previousKinds (if any) is the current kind, and the bookkeeping
// lists are well formed — the hypothesis of the prefix/suffix step theorem
func c07UniformKinds(st []c07ObsRes) bool {
	for _, o := range st {
		pn, ok := o.ann[c07PrevNames]
		if !ok {
			continue
		}
		names := strings.Split(pn, ",")
		nss := strings.Split(o.ann[c07PrevNss], ",")
		kinds := strings.Split(o.ann[c07PrevKinds], ",")
		if len(names) != len(nss) || len(names) != len(kinds) {
			return false
		}
		if kinds[0] != o.id.Kind {
			return false
		}
	}
	return true
}

// c07HashSideConditions evaluates hash_lengths_equal and no_plain_clash of the model on the observed state.
func c07HashSideConditions(st []c07ObsRes, tab [][2]string) bool {
	h := map[string]string{}
	l := -1
	for _, e := range tab {
		h[e[0]] = e[1]
		if l >= 0 && len(e[1]) != l {
			return false
		}
		l = len(e[1])
	}
	for _, a := range st {
		if a.ann[c07NeedsHash] != "enabled" {
			continue
		}
		hv, ok := h[a.tag]
		if !ok {
			continue
		}
		na := a.id
		na.Name = a.id.Name + "-" + hv
		for _, b := range st {
			if b.ann[c07NeedsHash] == "enabled" {
				continue
			}
			if na.Equals(b.id) {
				return false
			}
		}
	}
	return true
}

func c07InternalKeysPresent(a map[string]string, bm []string) []string {
	want := map[string]bool{}
	for _, b := range bm {
		want[b] = true
	}
	bad := []string{}
	for k := range a {
		switch {
		case k == c07Origin:
			if !want["originAnnotations"] {
				bad = append(bad, k)
			}
		case k == c07Transf:
			if !want["transformerAnnotations"] {
				bad = append(bad, k)
			}
		case strings.HasPrefix(k, c07InternalPx):
			if c07IsBuildAnnotation(k) {
				bad = append(bad, k)
			}
		default:
			if c07IsBuildAnnotation(k) {
				bad = append(bad, k)
			}
		}
	}
	sort.Strings(bad)
	return bad
}

func c07IsBuildAnnotation(k string) bool {
	for _, b := range resource.BuildAnnotations {
		if b == k {
			return true
		}
	}
	return false
}

// c07ExecOp runs one operation on the implementation. It returns the (possibly new) map.
func c07ExecOp(m resmap.ResMap, o c07Opspec, built [][]*resource.Resource, idx int) (resmap.ResMap, string, string) {
	var nm resmap.ResMap = m
	cls, msg := protect(func() error {
		switch o.Op {
		case "append":
			return m.Append(built[idx][0])
		case "appendall":
			other := resmap.New()
			for _, r := range built[idx] {
				if err := other.Append(r); err != nil {
					panic("harness: appendall operand has internal duplicates")
				}
			}
			return m.AppendAll(other)
		case "replace":
			_, err := m.Replace(built[idx][0])
			return err
		case "remove":
			return m.Remove(c07ToResId(*o.Id))
		case "absorball":
			other := resmap.New()
			for _, r := range built[idx] {
				if err := other.Append(r); err != nil {
					panic("harness: absorball operand has internal duplicates")
				}
			}
			return m.AbsorbAll(other)
		case "dropempties":
			m.DropEmpties()
			return nil
		case "clear":
			m.Clear()
			return nil
		case "prefix":
			p := c07MustConfig(builtins.NewPrefixTransformerPlugin(), fmt.Sprintf("prefix: %q\nfieldSpecs:\n- path: metadata/name\n", o.Str))
			return p.Transform(m)
		case "suffix":
			p := c07MustConfig(builtins.NewSuffixTransformerPlugin(), fmt.Sprintf("suffix: %q\nfieldSpecs:\n- path: metadata/name\n", o.Str))
			return p.Transform(m)
		case "namespace":
			p := c07MustConfig(builtins.NewNamespaceTransformerPlugin(),
				fmt.Sprintf("metadata:\n  namespace: %q\nunsetOnly: %v\nfieldSpecs:\n- path: metadata/namespace\n  create: true\n", o.Str, o.Unset))
			return p.Transform(m)
		case "hash":
			p := c07MustConfig(builtins.NewHashTransformerPlugin(), "")
			return p.Transform(m)
		case "sortlegacy":
			return krusty.VerifC07LegacySort(m)
		case "smpatch":
			rs := m.Resources()
			sel := []*resource.Resource{}
			for _, i := range o.Sel {
				if i < len(rs) {
					sel = append(sel, rs[i])
				}
			}
			return m.ApplySmPatch(resource.MakeIdSet(sel), built[idx][0])
		case "rawrename":
			for _, r := range m.Resources() {
				if r.IsNilOrEmpty() {
					continue
				}
				if v, err := r.GetFieldValue("tag"); err == nil && v == o.PName {
					if err := r.SetName(o.Str); err != nil {
						return err
					}
				}
			}
			return nil
		case "ignorelocal":
			// put the resources into an accumulator under temporary unique names, restore the names, run IgnoreLocal
			rs := m.Resources()
			names := make([]string, len(rs))
			for i, r := range rs {
				names[i] = r.GetName()
				if err := r.SetName(fmt.Sprintf("harness-tmp-%d", i)); err != nil {
					panic("harness: " + err.Error())
				}
			}
			restore := func() {
				for i, r := range rs {
					if err := r.SetName(names[i]); err != nil {
						panic("harness: " + err.Error())
					}
				}
			}
			out, err := krusty.VerifC07IgnoreLocal(c07RmF, m, restore)
			if err != nil {
				return err
			}
			nm = out
			return nil
		case "strip":
			m.RemoveBuildAnnotations()
			if !c07StrIn("originAnnotations", o.Bm) {
				if err := m.RemoveOriginAnnotations(); err != nil {
					return err
				}
			}
			if !c07StrIn("transformerAnnotations", o.Bm) {
				if err := m.RemoveTransformerAnnotations(); err != nil {
					return err
				}
			}
			return nil
		}
		return fmt.Errorf("harness: unknown op %s", o.Op)
	})
	return nm, cls, msg
}

func c07StrIn(s string, l []string) bool {
	for _, x := range l {
		if x == s {
			return true
		}
	}
	return false
}

func c07CoqOp(o c07Opspec, opTerms []string, st []c07ObsRes, hashTab [][2]string) string {
	switch o.Op {
	case "append":
		return "(OAppend " + opTerms[0] + ")"
	case "appendall":
		return "(OAppendAll [" + strings.Join(opTerms, "; ") + "])"
	case "replace":
		return "(OReplace " + opTerms[0] + ")"
	case "remove":
		return "(ORemove " + c07CoqId(c07ToResId(*o.Id)) + ")"
	case "absorball":
		return "(OAbsorbAll [" + strings.Join(opTerms, "; ") + "])"
	case "dropempties":
		return "ODropEmpties"
	case "clear":
		return "OClear"
	case "prefix":
		return "(OPrefix " + c07Qs(o.Str) + ")"
	case "suffix":
		return "(OSuffix " + coqStr(o.Str) + ")"
	case "namespace":
		return "(ONamespace " + c07Qs(o.Str) + " " + coqBool(o.Unset) + ")"
	case "hash":
		parts := make([]string, len(hashTab))
		for i, h := range hashTab {
			parts[i] = fmt.Sprintf("(%s, %s)", coqStr(h[0]), coqStr(h[1]))
		}
		return "(OHash [" + strings.Join(parts, "; ") + "])"
	case "sortlegacy":
		return "OSortLegacy"
	case "smpatch":
		ids := []string{}
		for _, i := range o.Sel {
			if i < len(st) {
				ids = append(ids, c07CoqId(st[i].id))
			}
		}
		scope := []string{}
		seenGV := map[string]bool{}
		for _, x := range st {
			gv := x.id.Group + "\x00" + x.id.Version
			if seenGV[gv] {
				continue
			}
			seenGV[gv] = true
			scope = append(scope, fmt.Sprintf("(%s, %s, %s)", c07Qs(x.id.Group), c07Qs(x.id.Version),
				coqBool(resid.NewGvk(x.id.Group, x.id.Version, o.PKind).IsClusterScoped())))
		}
		return fmt.Sprintf("(OSmPatch [%s] [%s] %s %s %s %s %s)", strings.Join(scope, "; "), strings.Join(ids, "; "), c07Qs(o.PName), c07Qs(o.PKind),
			coqBool(o.AllowN), coqBool(o.AllowK), coqBool(o.Del))
	case "rawrename":
		return fmt.Sprintf("(ORawRename %s %s)", coqStr(o.PName), coqStr(o.Str))
	case "ignorelocal":
		return "OIgnoreLocal"
	case "strip":
		return "(OStrip " + coqStrList(o.Bm) + ")"
	}
	return "OClear"
}

func (g *c07gen) genOp(m resmap.ResMap) c07Opspec {
	cur := m.Resources()
	pickCur := func() *resource.Resource {
		if len(cur) == 0 {
			return nil
		}
		return cur[g.rng.Intn(len(cur))]
	}
	if len(g.pending) > 0 {
		o := g.pending[0]
		if o.Op == "ignorelocal" {
			for _, t := range cur {
				if t.IsNilOrEmpty() {
					// IgnoreLocal is only reached after DropEmpties; the forced operation stays queued
					return c07Opspec{Op: "dropempties"}
				}
			}
		}
		g.pending = g.pending[1:]
		return o
	}
	tagOf := func(t *resource.Resource) string {
		if v, err := t.GetFieldValue("tag"); err == nil {
			if s, ok := v.(string); ok {
				return s
			}
		}
		return ""
	}
	k := g.rng.Intn(100)
	if g.odd {
		// operations that never write metadata.name
		k = []int{0, 10, 17, 24, 45, 49, 63, 75, 93, 97, 0, 24, 93, 75}[g.rng.Intn(14)]
	}
	switch {
	case k < 10:
		return c07Opspec{Op: "append", Res: []c07Rspec{g.spec()}}
	case k < 17:
		n := 1 + g.rng.Intn(3)
		o := c07Opspec{Op: "appendall"}
		for i := 0; i < n; i++ {
			o.Res = append(o.Res, g.spec())
		}
		return o
	case k < 24:
		s := g.spec()
		if t := pickCur(); t != nil && g.rng.Chance(75) && !t.IsNilOrEmpty() {
			id := t.CurId()
			s.Empty = false
			s.APIVersion, s.Kind, s.Name, s.Ns = id.ApiVersion(), id.Kind, id.Name, id.Namespace
			if g.rng.Chance(20) && s.Ns == "" {
				s.Ns = "default"
			}
		}
		return c07Opspec{Op: "replace", Res: []c07Rspec{s}}
	case k < 31:
		id := c07Idspec{Group: "", Version: "v1", Kind: "ConfigMap", Name: g.rng.Pick(c07Names), Ns: g.rng.Pick(c07Nss)}
		if t := pickCur(); t != nil && g.rng.Chance(80) {
			c := t.CurId()
			id = c07Idspec{c.Group, c.Version, c.Kind, c.Name, c.Namespace}
			if g.rng.Chance(15) {
				if id.Ns == "" {
					id.Ns = "default"
				} else if id.Ns == "default" {
					id.Ns = ""
				}
			}
		}
		return c07Opspec{Op: "remove", Id: &id}
	case k < 45:
		n := 1 + g.rng.Intn(2)
		o := c07Opspec{Op: "absorball"}
		for i := 0; i < n; i++ {
			o.Res = append(o.Res, g.absorbSpec(cur))
		}
		return o
	case k < 49:
		return c07Opspec{Op: "dropempties"}
	case k < 50:
		return c07Opspec{Op: "clear"}
	case k < 57:
		return c07Opspec{Op: "prefix", Str: g.rng.Pick([]string{"p-", "p-", "", "x"})}
	case k < 63:
		return c07Opspec{Op: "suffix", Str: g.rng.Pick([]string{"-s", "-s", "", "y"})}
	case k < 70:
		return c07Opspec{Op: "namespace", Str: g.rng.Pick([]string{"x", "y", "x", "", "default"}), Unset: g.rng.Chance(40)}
	case k < 75:
		if g.rng.Chance(40) {
			// adversarial: give another resource of the same kind and namespace the name a hashed one is about to get
			for _, a := range cur {
				if a.IsNilOrEmpty() || a.GetAnnotations()[c07NeedsHash] != "enabled" {
					continue
				}
				for _, b := range cur {
					if b == a || b.IsNilOrEmpty() || b.GetAnnotations()[c07NeedsHash] == "enabled" {
						continue
					}
					ia, ib := a.CurId(), b.CurId()
					if ia.Gvk.Equals(ib.Gvk) && ia.IsNsEquals(ib) && tagOf(b) != "" {
						if h, err := a.Hash(c07Factory.Hasher()); err == nil {
							g.pending = append(g.pending, c07Opspec{Op: "hash"})
							if g.rng.Chance(50) {
								g.pending = append(g.pending, c07Opspec{Op: "ignorelocal"})
							}
							return c07Opspec{Op: "rawrename", PName: tagOf(b), Str: a.GetName() + "-" + h}
						}
					}
				}
			}
		}
		return c07Opspec{Op: "hash"}
	case k < 81:
		return c07Opspec{Op: "sortlegacy"}
	case k < 88:
		o := c07Opspec{Op: "smpatch", PName: g.rng.Pick(c07Names), PKind: g.rng.Pick([]string{"ConfigMap", "Secret", "Deployment"}),
			AllowN: g.rng.Chance(50), AllowK: g.rng.Chance(25), Del: g.rng.Chance(12)}
		if g.rng.Chance(15) {
			o.PKind = "Namespace"
		}
		for i := range cur {
			// an empty resource has no id a patch could target
			// nor a nameless one: ApplySmPatch restores the old name with SetName(""), which creates `name: ""` — the
			// model does not distinguish that from a missing name (same restriction as for the odd sequences; a
			// formerly empty resource that gained annotations is such a nameless resource)
			if !cur[i].IsNilOrEmpty() && cur[i].GetName() != "" && g.rng.Chance(35) {
				o.Sel = append(o.Sel, i)
			}
		}
		return o
	case k < 93:
		if g.rng.Chance(50) {
			// aim at a clash: rename a resource to the name of another one of the same kind and namespace
			for _, a := range cur {
				for _, b := range cur {
					if a == b || a.IsNilOrEmpty() || b.IsNilOrEmpty() || tagOf(b) == "" {
						continue
					}
					ia, ib := a.CurId(), b.CurId()
					if ia.Gvk.Equals(ib.Gvk) && ia.IsNsEquals(ib) && ia.Name != ib.Name && ia.Name != "" {
						if g.rng.Chance(60) {
							// ... and let IgnoreLocal see the clash (it rebuilds the map of the kept resources)
							g.pending = append(g.pending, c07Opspec{Op: "ignorelocal"})
						}
						return c07Opspec{Op: "rawrename", PName: tagOf(b), Str: ia.Name}
					}
				}
			}
		}
		t := pickCur()
		tag := "t1"
		if t != nil && !t.IsNilOrEmpty() {
			if v, err := t.GetFieldValue("tag"); err == nil {
				if s, ok := v.(string); ok {
					tag = s
				}
			}
		}
		return c07Opspec{Op: "rawrename", PName: tag, Str: g.rng.Pick(c07Names)}
	case k < 97:
		for _, t := range cur {
			if t.IsNilOrEmpty() {
				// IgnoreLocal is only reached after DropEmpties (multiTransformer drops empties after every transformer)
				return c07Opspec{Op: "dropempties"}
			}
		}
		return c07Opspec{Op: "ignorelocal"}
	default:
		bm := []string{}
		if g.rng.Chance(30) {
			bm = append(bm, "originAnnotations")
		}
		if g.rng.Chance(30) {
			bm = append(bm, "transformerAnnotations")
		}
		return c07Opspec{Op: "strip", Bm: bm}
	}
}

// patch resource for OSmPatch
func c07SmPatchSpec(o c07Opspec) c07Rspec {
	s := c07Rspec{APIVersion: "v1", Kind: o.PKind, Name: o.PName, Tag: ""}
	ann := map[string]string{}
	if o.AllowN {
		ann[c07AllowName] = "enabled"
	}
	if o.AllowK {
		ann[c07AllowKind] = "enabled"
	}
	if len(ann) > 0 {
		s.Ann = ann
	}
	return s
}

func c07BuildSmPatch(o c07Opspec) (*resource.Resource, error) {
	s := c07SmPatchSpec(o)
	m := map[string]interface{}{"apiVersion": s.APIVersion, "kind": s.Kind}
	md := map[string]interface{}{"name": s.Name}
	if len(s.Ann) > 0 {
		a := map[string]interface{}{}
		for k, v := range s.Ann {
			a[k] = v
		}
		md["annotations"] = a
	}
	m["metadata"] = md
	if o.Del {
		m["$patch"] = "delete"
	}
	return c07Factory.FromMap(m)
}

// runSeq07 executes one sequence on the implementation, evaluates the step laws and (toModel) emits the Coq case.
// When ops is nil the operations are generated on the fly from g (they depend on the current state).
func runSeq07(r *Run, g *c07gen, sq *seq07, nOps int, toModel bool) {
	m := resmap.New()
	initTerms := []string{}
	if sq.Init == nil {
		n := 1 + g.rng.Intn(6)
		for i := 0; i < n; i++ {
			sq.Init = append(sq.Init, g.spec())
		}
	}
	kept := []c07Rspec{}
	for _, s := range sq.Init {
		term, res, err := c07CoqSpec(s)
		if err != nil {
			continue
		}
		if cls, _ := protect(func() error { return m.Append(res) }); cls != ClsOk {
			continue
		}
		kept = append(kept, s)
		initTerms = append(initTerms, term)
	}
	sq.Init = kept
	stepTerms := []string{}
	final := c07Observe(m)
	generated := sq.Ops == nil
	nontrivial := false
	report := func(law, cls, detail string) {
		r.Violation(OracleViolation{Law: law, Class: cls, Detail: detail, Replay: *sq})
	}
	for i := 0; ; i++ {
		var o c07Opspec
		if generated {
			if i >= nOps {
				break
			}
			o = g.genOp(m)
			sq.Ops = append(sq.Ops, o)
		} else {
			if i >= len(sq.Ops) {
				break
			}
			o = sq.Ops[i]
		}
		before := c07Observe(m)
		// operands
		built := []*resource.Resource{}
		opTerms := []string{}
		ok := true
		if o.Op == "smpatch" {
			p, err := c07BuildSmPatch(o)
			if err != nil {
				ok = false
			}
			built = append(built, p)
		} else {
			seen := []resid.ResId{}
			for _, s := range o.Res {
				term, res, err := c07CoqSpec(s)
				if err != nil {
					ok = false
					break
				}
				// operands of AppendAll/AbsorbAll arrive as a ResMap: no internal duplicates
				dup := false
				for _, id := range seen {
					if id.Equals(res.CurId()) {
						dup = true
					}
				}
				if dup && (o.Op == "appendall" || o.Op == "absorball") {
					continue
				}
				seen = append(seen, res.CurId())
				built = append(built, res)
				opTerms = append(opTerms, term)
			}
		}
		if !ok || ((o.Op == "append" || o.Op == "replace") && len(built) == 0) {
			r.Meta.Skipped++
			break
		}
		// hash oracle table: content hash per tag, computed before the transformer runs
		var hashTab [][2]string
		if o.Op == "hash" {
			for _, res := range m.Resources() {
				if res.IsNilOrEmpty() {
					continue
				}
				tag := ""
				if v, err := res.GetFieldValue("tag"); err == nil {
					if s, ok := v.(string); ok {
						tag = s
					}
				}
				if h, err := res.Hash(c07Factory.Hasher()); err == nil {
					hashTab = append(hashTab, [2]string{tag, h})
				}
			}
		}
		nm, cls, msg := c07ExecOp(m, o, [][]*resource.Resource{built}, 0)
		m = nm
		r.Count("op", o.Op)
		r.Count("op_class", o.Op+"/"+cls)
		after := []c07ObsRes{}
		if cls == ClsOk {
			after = c07Observe(m)
			if o.Op != "dropempties" && o.Op != "clear" && c07CoqState(before) != c07CoqState(after) {
				nontrivial = true
			}
		}
		stepTerms = append(stepTerms, fmt.Sprintf("(mkStep %s %s %s)", c07CoqOp(o, opTerms, before, hashTab), cls, c07CoqIds(after)))
		if cls == ClsOk {
			final = after
		}
		if cls != ClsOk {
			_ = msg
			break
		}
		// ---- step laws on the implementation (domains = hypotheses of the theorems) ----
		uniqB, uniqA := c07IdsUnique(before), c07IdsUnique(after)
		switch o.Op {
		case "append", "appendall", "replace", "remove", "absorball", "dropempties", "clear", "ignorelocal", "strip":
			if uniqB && !uniqA {
				report("ids_unique", "C07/ids_unique/step/"+o.Op, "ids were unique before "+o.Op+" and are not afterwards: "+c07CoqState(after))
			}
		case "sortlegacy", "smpatch":
			if !uniqA {
				report("ids_unique", "C07/ids_unique/reappend/"+o.Op, "ids not unique after a successful "+o.Op+": "+c07CoqState(after))
			}
		case "namespace":
			if !c07AnyEmpty(before) && o.Str != "" && !uniqA {
				report("ids_unique", "C07/ids_unique/namespace", "ids not unique after a successful namespace transformation: "+c07CoqState(after))
			}
			if o.Str == "" && uniqB && !uniqA {
				report("ids_unique", "C07/ids_unique/namespace", "empty namespace changed identities")
			}
		case "hash":
			// C07_ids_unique_hash: since fix 9a490e0 the HashTransformer re-checks the ids it produced
			if uniqB && !uniqA {
				report("ids_unique", "C07/ids_unique/hash", "ids were unique before the hash step and clash afterwards: "+c07CoqState(after))
			}
		case "prefix", "suffix":
			if uniqB && !c07AnyEmpty(before) && c07UniformKinds(before) && !uniqA {
				report("ids_unique", "C07/ids_unique/rename/"+o.Op, "ids were unique before a uniform "+o.Op+" and are not afterwards: "+c07CoqState(after))
			}
		}
		if o.Op == "ignorelocal" {
			// the resources IgnoreLocal keeps were Appended to a fresh map: they have pairwise distinct ids
			kept := []c07ObsRes{}
			for _, x := range after {
				if v, ok := x.ann[c07LocalCfg]; x.empty || (ok && v != "false") {
					continue
				}
				kept = append(kept, x)
			}
			if !c07IdsUnique(kept) {
				report("ids_unique", "C07/ids_unique/ignorelocal-kept", "IgnoreLocal succeeded although two kept resources share an id: "+c07CoqState(after))
			}
			for _, x := range after {
				if x.id.Kind == "" || (x.id.Name == "" && !strings.HasSuffix(x.id.Kind, "List")) {
					report("wellformed", "C07/wellformed/ignorelocal", "resource without kind or name survived IgnoreLocal: "+c07CoqObs(x))
				}
			}
		}
		if o.Op == "strip" && !c07AnyEmpty(before) {
			for _, x := range after {
				if bad := c07InternalKeysPresent(x.ann, o.Bm); len(bad) > 0 {
					report("hygiene", "C07/hygiene/strip", fmt.Sprintf("internal annotations %v left after stripping (buildMetadata %v)", bad, o.Bm))
				}
			}
		}
	}
	r.Count("seq_len", fmt.Sprint(len(stepTerms)))
	if toModel {
		term := fmt.Sprintf("(CSeq [%s] [%s] %s)", strings.Join(initTerms, "; "), strings.Join(stepTerms, "; "), c07CoqState(final))
		r.AddCase(term, *sq, nontrivial)
	} else {
		b, _ := json.Marshal(sq)
		r.AddEval(string(b), nontrivial)
	}
}

// ---------- annotation stripping ----------

type strip07 struct {
	Bm  []string          `json:"bm"`
	Ann map[string]string `json:"ann"`
}

func genStrip07(rng *Rng) strip07 {
	c := strip07{Bm: []string{}, Ann: map[string]string{}}
	if rng.Chance(30) {
		c.Bm = append(c.Bm, "originAnnotations")
	}
	if rng.Chance(30) {
		c.Bm = append(c.Bm, "transformerAnnotations")
	}
	if rng.Chance(20) {
		c.Bm = append(c.Bm, "managedByLabel")
	}
	pool := append([]string{}, resource.BuildAnnotations...)
	pool = append(pool, c07Origin, c07Transf, c07LocalCfg,
		"internal.config.kubernetes.io/Path", "internal.config.kubernetes.io/pathx", "config.kubernetes.io/paths",
		"internal.config.kubernetes.io", "config.kubernetes.io/origins", "note", "app", "example.com/owner",
		"internal.config.kubernetes.io/unknown", "kustomize.config.k8s.io/id", "config.kubernetes.io/function")
	n := rng.Intn(7)
	for i := 0; i < n; i++ {
		k := rng.Pick(pool)
		v := rng.Pick([]string{"x", "enabled", "a,b", "", "0", "true"})
		if k == c07Origin {
			v = "path: a/b.yaml\n"
		}
		if k == c07Transf {
			v = "- path: k.yaml\n"
		}
		c.Ann[k] = v
	}
	return c
}

func runStrip07(r *Run, c strip07, toModel bool) {
	s := c07Rspec{APIVersion: "v1", Kind: "ConfigMap", Name: "a", Ann: c.Ann, Tag: "t"}
	res, err := s.build()
	if err != nil {
		r.Meta.Skipped++
		return
	}
	m := resmap.New()
	if err := m.Append(res); err != nil {
		r.Meta.Skipped++
		return
	}
	before := res.GetAnnotations()
	o := c07Opspec{Op: "strip", Bm: c.Bm}
	_, cls, _ := c07ExecOp(m, o, nil, 0)
	r.Count("strip_class", cls)
	r.Count("strip_size", fmt.Sprint(len(before)))
	if cls != ClsOk {
		r.Violation(OracleViolation{Law: "hygiene", Class: "C07/hygiene/strip-failed", Detail: "stripping annotations failed", Replay: c})
		return
	}
	after := m.Resources()[0].GetAnnotations()
	if bad := c07InternalKeysPresent(after, c.Bm); len(bad) > 0 {
		r.Violation(OracleViolation{Law: "hygiene", Class: "C07/hygiene/strip", Detail: fmt.Sprintf("internal annotations %v left (buildMetadata %v)", bad, c.Bm), Replay: c})
	}
	// stripping twice changes nothing more
	c07ExecOp(m, o, nil, 0)
	if c07CoqAnn(m.Resources()[0].GetAnnotations()) != c07CoqAnn(after) {
		r.Violation(OracleViolation{Law: "fixpoint", Class: "C07/fixpoint/strip-idempotent", Detail: "second strip changed the annotations", Replay: c})
	}
	if toModel {
		r.AddCase(fmt.Sprintf("(CStrip %s %s %s)", coqStrList(c.Bm), c07CoqAnn(before), c07CoqAnn(after)), c, len(before) != len(after))
	} else {
		b, _ := json.Marshal(c)
		r.AddEval(string(b), len(before) != len(after))
	}
}

// ---------- driver ----------

type corpus07 struct {
	Seqs   []seq07   `json:"seqs"`
	Strips []strip07 `json:"strips"`
	Builds []tree07  `json:"builds"`
}

func loadCorpus07() corpus07 {
	var c corpus07
	data, err := os.ReadFile(verifRoot() + "/corpus/C07/cases.json")
	if err == nil {
		_ = json.Unmarshal(data, &c)
	}
	return c
}

func runC07(r *Run, rng *Rng, tier string) error {
	log.SetOutput(io.Discard)
	r.shard = 100
	nSeq, nStrip, nLawSeq, nBuild := 650, 200, 1300, 260
	if tier == "thorough" {
		nSeq, nStrip, nLawSeq, nBuild = 8000, 2000, 30000, 4000
	}
	r.Meta.Rule = "(1) resmap operation sequences (initial map of 1-6 resources over 14 kinds incl. cluster-scoped and List kinds, names/namespaces from small " +
		"colliding pools, previous-id / behaviour / needs-hash / local-config annotations, rare malformed ones; 3-8 operations drawn from Append, AppendAll, " +
		"Replace, Remove, AbsorbAll, DropEmpties, Clear, Prefix/Suffix/Namespace/Hash transformer plugins, legacy SortOrderTransformer, ApplySmPatch, unchecked " +
		"rename, KustTarget.IgnoreLocal, annotation stripping) compared step by step with the model (outcome class, ids, annotations, emptiness, payload tag); " +
		"(2) annotation maps stripped as krusty.Run does; (3) the runtime value of resource.BuildAnnotations; (4) krusty.Run on generated 1-3 layer trees " +
		"with the output invariants, re-parse and second-build oracles. non-trivial = a step changed the map / stripping removed a key / the build succeeded with >=1 document"
	corp := loadCorpus07()
	for i := range corp.Seqs {
		sq := corp.Seqs[i]
		runSeq07(r, &c07gen{rng: rng.Fork()}, &sq, len(sq.Ops), true)
	}
	for _, c := range corp.Strips {
		runStrip07(r, c, true)
	}
	// runtime table
	r.AddCase(fmt.Sprintf("(CTable %s)", coqStrList(resource.BuildAnnotations)), map[string]interface{}{"table": "resource.BuildAnnotations"}, true)
	for i := 0; i < nSeq; i++ {
		g := &c07gen{rng: rng.Fork()}
		g.odd = g.rng.Chance(12)
		sq := seq07{}
		runSeq07(r, g, &sq, 3+g.rng.Intn(6), true)
	}
	for i := 0; i < nStrip; i++ {
		runStrip07(r, genStrip07(rng.Fork()), true)
	}
	for i := 0; i < nLawSeq; i++ {
		g := &c07gen{rng: rng.Fork()}
		g.odd = g.rng.Chance(12)
		sq := seq07{}
		runSeq07(r, g, &sq, 3+g.rng.Intn(8), false)
	}
	return runBuilds07(r, rng, corp, nBuild, tier)
}

func replayC07(path string) (bool, string, error) {
	log.SetOutput(io.Discard)
	data, err := os.ReadFile(path)
	if err != nil {
		return false, "", err
	}
	var rp struct {
		Case json.RawMessage `json:"case"`
	}
	if err := json.Unmarshal(data, &rp); err != nil {
		return false, "", err
	}
	r := NewRun("C07", "replay", 0, "", "")
	var probe map[string]json.RawMessage
	if err := json.Unmarshal(rp.Case, &probe); err != nil {
		return false, "", err
	}
	detail := ""
	switch {
	case probe["ops"] != nil || probe["init"] != nil:
		var sq seq07
		if err := json.Unmarshal(rp.Case, &sq); err != nil {
			return false, "", err
		}
		if sq.Ops == nil {
			sq.Ops = []c07Opspec{}
		}
		runSeq07(r, &c07gen{rng: NewRng(1)}, &sq, len(sq.Ops), true)
		detail = "operation sequence replayed: " + strings.Join(r.cases, "\n")
	case probe["files"] != nil:
		var t tree07
		if err := json.Unmarshal(rp.Case, &t); err != nil {
			return false, "", err
		}
		detail = checkBuild07(r, t, true)
	default:
		var c strip07
		if err := json.Unmarshal(rp.Case, &c); err != nil {
			return false, "", err
		}
		runStrip07(r, c, true)
		detail = "strip case replayed: " + strings.Join(r.cases, "\n")
	}
	if len(r.Meta.Violations) > 0 {
		v := r.Meta.Violations[0]
		return true, detail + "\nLAW " + v.Law + " [" + v.Class + "]: " + v.Detail, nil
	}
	return false, detail, nil
}
