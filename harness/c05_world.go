package main

import (
	"fmt"
	"os"
	"path/filepath"
	"sort"
	"strings"

	"sigs.k8s.io/kustomize/kyaml/filesys"
)

// ---------- abstract file trees shared by C05 (and C13 package IO) ----------
//
// A vnode tree is the harness' own description of a file system: it is materialised into
// kyaml's in-memory FS or onto the real disk (with symlinks), printed as a Coq term for the
// model, and read by the Go reference resolver.  None of the three consumers shares code with
// the loader under test.

const (
	vFile = 0
	vDir  = 1
	vLink = 2
)

type vnode struct {
	kind    int
	content string
	target  string
	names   []string // creation order
	kids    map[string]*vnode
}

func newDir() *vnode { return &vnode{kind: vDir, kids: map[string]*vnode{}} }

func (n *vnode) child(name string) *vnode {
	if n == nil || n.kind != vDir {
		return nil
	}
	return n.kids[name]
}

func (n *vnode) put(name string, c *vnode) *vnode {
	if _, ok := n.kids[name]; !ok {
		n.names = append(n.names, name)
	}
	n.kids[name] = c
	return c
}

// mkdirs creates (or finds) the directory at the slash separated relative path.
func (n *vnode) mkdirs(p string) *vnode {
	cur := n
	for _, c := range strings.Split(p, "/") {
		if c == "" {
			continue
		}
		k := cur.child(c)
		if k == nil {
			k = cur.put(c, newDir())
		}
		cur = k
	}
	return cur
}

func (n *vnode) addFile(p, content string) {
	d, f := filepath.Split(p)
	n.mkdirs(d).put(f, &vnode{kind: vFile, content: content})
}

func (n *vnode) addLink(p, target string) {
	d, f := filepath.Split(p)
	n.mkdirs(d).put(f, &vnode{kind: vLink, target: target})
}

func (n *vnode) at(comps []string) *vnode {
	cur := n
	for _, c := range comps {
		cur = cur.child(c)
		if cur == nil {
			return nil
		}
	}
	return cur
}

func (n *vnode) hasLinks() bool {
	if n.kind == vLink {
		return true
	}
	for _, k := range n.kids {
		if k.hasLinks() {
			return true
		}
	}
	return false
}

// walk visits every node with its component path.
func (n *vnode) walk(prefix []string, f func(comps []string, n *vnode)) {
	f(prefix, n)
	if n.kind == vDir {
		for _, name := range n.names {
			n.kids[name].walk(append(append([]string{}, prefix...), name), f)
		}
	}
}

// toMem materialises a link-free tree in kyaml's in-memory file system, rooted at "/".
func (n *vnode) toMem() (filesys.FileSystem, error) {
	fs := filesys.MakeFsInMemory()
	var err error
	n.walk(nil, func(comps []string, x *vnode) {
		if err != nil || len(comps) == 0 {
			return
		}
		p := "/" + strings.Join(comps, "/")
		switch x.kind {
		case vDir:
			err = fs.MkdirAll(p)
		case vFile:
			err = fs.WriteFile(p, []byte(x.content))
		default:
			err = fmt.Errorf("links are not representable in the in-memory file system")
		}
	})
	return fs, err
}

// toDisk materialises the tree under the existing directory base.
// Absolute link targets are written as given (callers prefix them with base themselves).
func (n *vnode) toDisk(base string) error {
	var err error
	n.walk(nil, func(comps []string, x *vnode) {
		if err != nil || len(comps) == 0 {
			return
		}
		p := filepath.Join(append([]string{base}, comps...)...)
		switch x.kind {
		case vDir:
			err = os.MkdirAll(p, 0o755)
		case vFile:
			err = os.WriteFile(p, []byte(x.content), 0o644)
		case vLink:
			err = os.Symlink(x.target, p)
		}
	})
	return err
}

// under wraps the tree in the chain of directories named by prefix (the real location of a disk world).
func (n *vnode) under(prefix []string) *vnode {
	cur := n
	for i := len(prefix) - 1; i >= 0; i-- {
		d := newDir()
		d.put(prefix[i], cur)
		cur = d
	}
	return cur
}

func (n *vnode) coqMem() string {
	switch n.kind {
	case vFile:
		return "(MFile " + coqStr(n.content) + ")"
	case vDir:
		parts := make([]string, 0, len(n.names))
		// Go's map has unique keys; the model takes the first match of an association list
		for _, name := range n.names {
			parts = append(parts, "("+coqStr(name)+", "+n.kids[name].coqMem()+")")
		}
		return "(MDir [" + strings.Join(parts, "; ") + "])"
	}
	return "(MFile \"<link>\")"
}

func (n *vnode) coqDisk() string {
	switch n.kind {
	case vFile:
		return "(DFile " + coqStr(n.content) + ")"
	case vLink:
		return "(DLink " + coqStr(n.target) + ")"
	default:
		parts := make([]string, 0, len(n.names))
		for _, name := range n.names {
			parts = append(parts, "("+coqStr(name)+", "+n.kids[name].coqDisk()+")")
		}
		return "(DDir [" + strings.Join(parts, "; ") + "])"
	}
}

// ---------- the Go reference resolver (independent of kyaml/filesys and of the loader) ----------

type refResult struct {
	err  string   // "" when resolved
	phys []string // physical location (names from "/")
	node *vnode
}

func splitRaw(p string) []string { return strings.Split(p, "/") }

// refPhysical: POSIX path resolution (all links followed) of an absolute path over the tree.
// maxLinks bounds the number of links followed (ELOOP beyond it).
func refPhysical(root *vnode, abs string, maxLinks int) refResult {
	if !strings.HasPrefix(abs, "/") {
		return refResult{err: "not absolute"}
	}
	var stack []string
	todo := splitRaw(abs)
	links := 0
	for len(todo) > 0 {
		c := todo[0]
		todo = todo[1:]
		switch c {
		case "", ".":
			continue
		case "..":
			if len(stack) > 0 {
				stack = stack[:len(stack)-1]
			}
			continue
		}
		dir := root.at(stack)
		if dir == nil || dir.kind != vDir {
			return refResult{err: "ENOTDIR"}
		}
		x := dir.child(c)
		if x == nil {
			return refResult{err: "ENOENT"}
		}
		switch x.kind {
		case vDir:
			stack = append(stack, c)
		case vFile:
			if len(todo) > 0 {
				return refResult{err: "ENOTDIR"}
			}
			stack = append(stack, c)
		case vLink:
			links++
			if links > maxLinks {
				return refResult{err: "ELOOP"}
			}
			if strings.HasPrefix(x.target, "/") {
				stack = nil
			}
			todo = append(splitRaw(x.target), todo...)
		}
	}
	return refResult{phys: append([]string{}, stack...), node: root.at(stack)}
}

// refLexical: the in-memory file system's reading of a path: lexical normalisation
// (".." cancels the previous name without looking at the tree, ".." at the top is dropped),
// then a plain walk.
func refLexical(root *vnode, abs string) refResult {
	var stack []string
	for _, c := range splitRaw(abs) {
		switch c {
		case "", ".":
		case "..":
			if len(stack) == 0 {
				// nothing is found above the top of the in-memory FS
				return refResult{err: "ENOENT"}
			}
			stack = stack[:len(stack)-1]
		default:
			stack = append(stack, c)
		}
	}
	cur := root
	for i, c := range stack {
		if cur.kind != vDir {
			return refResult{err: "ENOTDIR"}
		}
		cur = cur.child(c)
		if cur == nil {
			_ = i
			return refResult{err: "ENOENT"}
		}
	}
	return refResult{phys: stack, node: cur}
}

func compsHasPrefix(l, p []string) bool {
	if len(p) > len(l) {
		return false
	}
	for i := range p {
		if l[i] != p[i] {
			return false
		}
	}
	return true
}

func compsEqual(a, b []string) bool { return len(a) == len(b) && compsHasPrefix(a, b) }

func absOf(comps []string) string { return "/" + strings.Join(comps, "/") }

type c05RefFS struct {
	root     *vnode
	physical bool // disk semantics (links, physical ".."); otherwise lexical (in-memory FS)
}

func (r c05RefFS) resolve(abs string) refResult {
	if r.physical {
		return refPhysical(r.root, abs, 255)
	}
	return refLexical(r.root, abs)
}

// resolveRef: the location a loader rooted at root (names from "/") denotes by the reference p.
// Go semantics of a reference: filepath.Join (relative references) and filepath.Abs (on disk)
// normalise "." and ".." lexically before any link is looked at.  The in-memory FS takes an
// absolute reference as it is (and then finds nothing above its top).
func (r c05RefFS) resolveRef(root []string, p string) refResult {
	switch {
	case !strings.HasPrefix(p, "/"):
		return r.resolve(filepath.Clean(absOf(root) + "/" + p))
	case r.physical:
		return r.resolve(filepath.Clean(p))
	default:
		return r.resolve(p)
	}
}

// refLoad: what a root-only load of reference p by a loader rooted at root may return.
func (r c05RefFS) refLoad(root []string, p string) (ok bool, content string, why string) {
	if p == "" {
		return false, "", "empty"
	}
	res := r.resolveRef(root, p)
	if res.err != "" {
		return false, "", res.err
	}
	if res.node == nil || res.node.kind != vFile {
		return false, "", "not a file"
	}
	if !compsHasPrefix(res.phys[:len(res.phys)-1], root) {
		return false, "", "outside root"
	}
	return true, res.node.content, ""
}

// refNew: whether a directory reference p may become a new root given the stack of roots.
func (r c05RefFS) refNew(stack [][]string, p string) (ok bool, newRoot []string, why string) {
	if p == "" {
		return false, nil, "empty"
	}
	if strings.HasPrefix(p, "/") {
		return false, nil, "absolute"
	}
	res := r.resolveRef(stack[0], p)
	if res.err != "" {
		return false, nil, res.err
	}
	if res.node == nil || res.node.kind != vDir {
		return false, nil, "not a directory"
	}
	for _, s := range stack {
		if compsHasPrefix(s, res.phys) {
			return false, nil, "at or above a root on the stack"
		}
	}
	return true, res.phys, ""
}

func sortedNames(m map[string]*vnode) []string {
	out := make([]string, 0, len(m))
	for k := range m {
		out = append(out, k)
	}
	sort.Strings(out)
	return out
}
