package main

import (
	"strings"

	kyaml "sigs.k8s.io/kustomize/kyaml/yaml"
)

// Go mirror of KV.Yaml.JsonRef: the reference model of path get / put on plain typed JSON values
// (ordered objects, first-key-wins, atoms = (tag, quoted, text)). Used by the refinement oracles
// (C14_refines_json, C14_refines_json_get) on the implementation.

type jv14 struct {
	kind   int // 0 atom, 1 object, 2 array
	tag    string
	quoted bool
	text   string
	keys   []string
	vals   []*jv14
}

func toJ14(n *kyaml.Node) *jv14 {
	if n == nil {
		return &jv14{kind: 0}
	}
	switch n.Kind {
	case kyaml.DocumentNode:
		if len(n.Content) == 1 {
			return toJ14(n.Content[0])
		}
		return &jv14{kind: 0}
	case kyaml.MappingNode:
		j := &jv14{kind: 1}
		for i := 0; i+1 < len(n.Content); i += 2 {
			j.keys = append(j.keys, n.Content[i].Value)
			j.vals = append(j.vals, toJ14(n.Content[i+1]))
		}
		return j
	case kyaml.SequenceNode:
		j := &jv14{kind: 2}
		for _, c := range n.Content {
			j.vals = append(j.vals, toJ14(c))
		}
		return j
	default:
		q := false
		if n.Tag == "" {
			q = coqStyle(n.Style) != "SPlain"
		}
		return &jv14{kind: 0, tag: coqTag(n.Tag), quoted: q, text: n.Value}
	}
}

func (j *jv14) String() string {
	if j == nil {
		return "<none>"
	}
	var b strings.Builder
	var rec func(x *jv14)
	rec = func(x *jv14) {
		switch x.kind {
		case 0:
			b.WriteString("(" + x.tag + " ")
			if x.quoted {
				b.WriteString("q ")
			}
			b.WriteString(coqStr(x.text) + ")")
		case 1:
			b.WriteString("{")
			for i, k := range x.keys {
				if i > 0 {
					b.WriteString(",")
				}
				b.WriteString(coqStr(k) + ":")
				rec(x.vals[i])
			}
			b.WriteString("}")
		case 2:
			b.WriteString("[")
			for i, v := range x.vals {
				if i > 0 {
					b.WriteString(",")
				}
				rec(v)
			}
			b.WriteString("]")
		}
	}
	rec(j)
	return b.String()
}

func (j *jv14) value() string {
	if j.kind == 0 {
		return j.text
	}
	return ""
}

func (j *jv14) find(k string) (int, *jv14) {
	for i, key := range j.keys {
		if key == k {
			return i, j.vals[i]
		}
	}
	return -1, nil
}

func jsel14(nm, v string, e *jv14) bool {
	if nm == "" {
		return e.value() == v
	}
	if e.kind != 1 {
		return false
	}
	_, x := e.find(nm)
	return x != nil && x.value() == v
}

// jchild: index of the child selected by the part (-1: none)
func jchildIdx14(p part14, j *jv14) int {
	switch {
	case p.kind == pkKey && j.kind == 1:
		i, _ := j.find(p.key)
		return i
	case p.kind == pkIdx && j.kind == 2:
		if p.idx < len(j.vals) {
			return p.idx
		}
	case p.kind == pkLast && j.kind == 2:
		return len(j.vals) - 1
	case p.kind == pkSel && j.kind == 2:
		for i, e := range j.vals {
			if jsel14(p.nm, p.val, e) {
				return i
			}
		}
	}
	return -1
}

func jget14(ps []part14, j *jv14) *jv14 {
	for _, p := range ps {
		i := jchildIdx14(p, j)
		if i < 0 {
			return nil
		}
		j = j.vals[i]
	}
	return j
}

func jplug14(j *jv14, i int, y *jv14) *jv14 {
	c := *j
	c.vals = append([]*jv14{}, j.vals...)
	c.vals[i] = y
	return &c
}

func jempty14(next *part14) *jv14 {
	if next != nil && (next.kind == pkSel || next.kind == pkBadSel || next.kind == pkIdx) {
		return &jv14{kind: 2}
	}
	return &jv14{kind: 1}
}

func jselNew14(nm, v string) *jv14 {
	atom := &jv14{kind: 0, tag: "TNone", text: v}
	if nm == "" {
		return atom
	}
	return &jv14{kind: 1, keys: []string{nm}, vals: []*jv14{atom}}
}

// jput14 = jput of JsonRef.v: store v at the path, creating missing objects / list elements
// (cr = Some KMap, constant continuation).
func jput14(ps []part14, v *jv14, j *jv14) (*jv14, bool) {
	if len(ps) == 0 {
		return v, true
	}
	p := ps[0]
	if i := jchildIdx14(p, j); i >= 0 {
		y, ok := jput14(ps[1:], v, j.vals[i])
		if !ok {
			return nil, false
		}
		return jplug14(j, i, y), true
	}
	var next *part14
	if len(ps) > 1 {
		next = &ps[1]
	}
	switch {
	case p.kind == pkKey && j.kind == 1:
		y, ok := jput14(ps[1:], v, jempty14(next))
		if !ok {
			return nil, false
		}
		c := *j
		c.keys = append(append([]string{}, j.keys...), p.key)
		c.vals = append(append([]*jv14{}, j.vals...), y)
		return &c, true
	case p.kind == pkSel && j.kind == 2:
		y, ok := jput14(ps[1:], v, jselNew14(p.nm, p.val))
		if !ok {
			return nil, false
		}
		c := *j
		c.vals = append(append([]*jv14{}, j.vals...), y)
		return &c, true
	}
	return nil, false
}
