package main

import (
	"log"
	"runtime"
	"crypto/sha256"
	"encoding/hex"
	"encoding/json"
	"fmt"
	"os"
	"path/filepath"
	"sort"
	"strings"

	yaml "sigs.k8s.io/yaml/goyaml.v3"
)

// verifRoot is the /verif checkout this harness belongs to (set by ./check).
func verifRoot() string {
	if r := os.Getenv("VERIF_ROOT"); r != "" {
		return r
	}
	return "/verif"
}

// ---------- PRNG: every random choice of a run derives from one splitmix64 state ----------

type Rng struct{ s uint64 }

// NewRng mixes the seed so that seeds s and s+1 do not produce shifted copies of one stream.
func NewRng(seed uint64) *Rng {
	z := seed + 0x9E3779B97F4A7C15
	z = (z ^ (z >> 30)) * 0xBF58476D1CE4E5B9
	z = (z ^ (z >> 27)) * 0x94D049BB133111EB
	z ^= z >> 31
	return &Rng{s: z ^ 0x1234567}
}
func (r *Rng) Next() uint64 {
	r.s += 0x9E3779B97F4A7C15
	z := r.s
	z = (z ^ (z >> 30)) * 0xBF58476D1CE4E5B9
	z = (z ^ (z >> 27)) * 0x94D049BB133111EB
	return z ^ (z >> 31)
}
func (r *Rng) Intn(n int) int {
	if n <= 0 {
		return 0
	}
	return int(r.Next() % uint64(n))
}
func (r *Rng) Bool() bool         { return r.Next()&1 == 1 }
func (r *Rng) Chance(p int) bool  { return r.Intn(100) < p } // p percent
func (r *Rng) Pick(l []string) string { return l[r.Intn(len(l))] }
func (r *Rng) Fork() *Rng         { return &Rng{s: r.Next()} }

// ---------- Coq term printing ----------

// coqStr prints a Go byte string as a Coq [string] term.
func coqStr(s string) string {
	printable := true
	for i := 0; i < len(s); i++ {
		c := s[i]
		if c < 0x20 || c > 0x7e {
			printable = false
			break
		}
	}
	if printable {
		return `"` + strings.ReplaceAll(s, `"`, `""`) + `"`
	}
	var b strings.Builder
	b.WriteString("(sb [")
	for i := 0; i < len(s); i++ {
		if i > 0 {
			b.WriteString(";")
		}
		fmt.Fprintf(&b, "%d", s[i])
	}
	b.WriteString("]%N)")
	return b.String()
}

func coqStrList(l []string) string {
	parts := make([]string, len(l))
	for i, s := range l {
		parts[i] = coqStr(s)
	}
	return "[" + strings.Join(parts, "; ") + "]"
}

func coqBool(b bool) string {
	if b {
		return "true"
	}
	return "false"
}

func coqOpt(present bool, term string) string {
	if !present {
		return "None"
	}
	return "(Some " + term + ")"
}

func coqTag(t string) string {
	switch t {
	case "":
		return "TNone"
	case "!!str":
		return "TStr"
	case "!!int":
		return "TInt"
	case "!!bool":
		return "TBool"
	case "!!float":
		return "TFloat"
	case "!!null":
		return "TNull"
	default:
		return "TOther"
	}
}

func coqStyle(s yaml.Style) string {
	switch {
	case s&yaml.DoubleQuotedStyle != 0:
		return "SDouble"
	case s&yaml.SingleQuotedStyle != 0:
		return "SSingle"
	case s&yaml.LiteralStyle != 0:
		return "SLiteral"
	case s&yaml.FoldedStyle != 0:
		return "SFolded"
	default:
		return "SPlain"
	}
}

// coqNode prints a yaml.Node as a KV.Yaml.Node.node term. Documents are unwrapped;
// aliases are not representable and make the case unrepresentable (ok=false).
func coqNode(n *yaml.Node) (string, bool) {
	if n == nil {
		return "", false
	}
	switch n.Kind {
	case yaml.DocumentNode:
		if len(n.Content) != 1 {
			return "", false
		}
		return coqNode(n.Content[0])
	case yaml.ScalarNode:
		return fmt.Sprintf("(Scalar %s %s %s)", coqTag(n.Tag), coqStyle(n.Style), coqStr(n.Value)), true
	case yaml.MappingNode:
		if len(n.Content)%2 != 0 {
			return "", false
		}
		parts := []string{}
		for i := 0; i < len(n.Content); i += 2 {
			k := n.Content[i]
			if k.Kind != yaml.ScalarNode {
				return "", false
			}
			v, ok := coqNode(n.Content[i+1])
			if !ok {
				return "", false
			}
			parts = append(parts, fmt.Sprintf("(%s, %s)", coqStr(k.Value), v))
		}
		return "(Map [" + strings.Join(parts, "; ") + "])", true
	case yaml.SequenceNode:
		parts := []string{}
		for _, c := range n.Content {
			v, ok := coqNode(c)
			if !ok {
				return "", false
			}
			parts = append(parts, v)
		}
		return "(Seq [" + strings.Join(parts, "; ") + "])", true
	default:
		// alias, or a zero-kind node
		if n.Kind == 0 && n.Tag == "" && len(n.Content) == 0 {
			// zero node: encodes like an empty untagged scalar
			return fmt.Sprintf("(Scalar TNone SPlain %s)", coqStr(n.Value)), true
		}
		return "", false
	}
}

// scalarValues collects every scalar text in a node (for oracle tables).
func scalarValues(n *yaml.Node, acc map[string]bool) {
	if n == nil {
		return
	}
	if n.Kind == yaml.ScalarNode {
		acc[n.Value] = true
	}
	for _, c := range n.Content {
		scalarValues(c, acc)
	}
}

func sortedKeys(m map[string]bool) []string {
	out := make([]string, 0, len(m))
	for k := range m {
		out = append(out, k)
	}
	sort.Strings(out)
	return out
}

// ---------- outcome classes ----------

const (
	ClsOk      = "COk"
	ClsErr     = "CErr"
	ClsPanic   = "CPanic"
	ClsDiverge = "CDiverge"
)

// protect runs f and classifies its outcome.
func protect(f func() error) (cls string, msg string) {
	defer func() {
		if r := recover(); r != nil {
			cls = ClsPanic
			msg = fmt.Sprint(r)
		}
	}()
	if err := f(); err != nil {
		return ClsErr, err.Error()
	}
	return ClsOk, ""
}

// ---------- run output: cases for Coq + meta for the check script ----------

type OracleViolation struct {
	Law    string      `json:"law"`
	Class  string      `json:"class"`  // finding class, matched against known-findings.txt
	Detail string      `json:"detail"` // human readable
	Replay interface{} `json:"replay"` // self-contained input
}

type Meta struct {
	Property        string                 `json:"property"`
	Tier            string                 `json:"tier"`
	Seed            uint64                 `json:"seed"`
	Evaluations     int                    `json:"evaluations"`
	DistinctNontriv int                    `json:"distinct_nontrivial"`
	Rule            string                 `json:"rule"`
	Samples         []interface{}          `json:"samples"`
	Distribution    map[string]map[string]int `json:"distribution"`
	ModelCases      int                    `json:"model_cases"`   // cases sent to the Coq model
	Skipped         int                    `json:"skipped"`       // generated but outside the model's declared domain
	CaseFiles       []string               `json:"case_files"`    // cases_XXX.v
	CaseDescs       []interface{}          `json:"case_descs"`    // index -> replayable description
	Violations      []OracleViolation      `json:"violations"`    // found by the property oracles on the implementation
	Exhaustive      bool                   `json:"exhaustive"`
	Notes           []string               `json:"notes"`
}

type Run struct {
	Meta    Meta
	OutDir  string
	header  string   // Coq preamble for case files
	cases   []string // Coq terms, one per case
	descs   []interface{}
	seen    map[string]bool
	shard   int
}

func NewRun(prop, tier string, seed uint64, outDir, header string) *Run {
	return &Run{
		Meta: Meta{Property: prop, Tier: tier, Seed: seed,
			Distribution: map[string]map[string]int{}},
		OutDir: outDir, header: header, seen: map[string]bool{}, shard: 400,
	}
}

func (r *Run) Count(dim, key string) {
	m := r.Meta.Distribution[dim]
	if m == nil {
		m = map[string]int{}
		r.Meta.Distribution[dim] = m
	}
	m[key]++
}

// AddCase registers one model case. term is a Coq term of the property's case type;
// desc a JSON-able replay description; nontrivial says whether the case exercised a non-identity step.
func (r *Run) AddCase(term string, desc interface{}, nontrivial bool) {
	r.Meta.Evaluations++
	h := sha256.Sum256([]byte(term))
	key := hex.EncodeToString(h[:8])
	if nontrivial && !r.seen[key] {
		r.seen[key] = true
		r.Meta.DistinctNontriv++
	}
	r.cases = append(r.cases, term)
	r.descs = append(r.descs, desc)
	if len(r.Meta.Samples) < 4 && nontrivial {
		r.Meta.Samples = append(r.Meta.Samples, desc)
	}
}

// AddEval counts an implementation-only evaluation (oracle run, not sent to the model).
func (r *Run) AddEval(fingerprint string, nontrivial bool) {
	r.Meta.Evaluations++
	if nontrivial {
		h := sha256.Sum256([]byte(fingerprint))
		key := hex.EncodeToString(h[:8])
		if !r.seen[key] {
			r.seen[key] = true
			r.Meta.DistinctNontriv++
		}
	}
}

func (r *Run) Violation(v OracleViolation) {
	// keep at most 20 per class to bound output
	n := 0
	for _, x := range r.Meta.Violations {
		if x.Class == v.Class {
			n++
		}
	}
	if n < 20 {
		r.Meta.Violations = append(r.Meta.Violations, v)
	}
}

// Finish writes cases_XXX.v shards and meta.json.
func (r *Run) Finish(caseType, mismatchFn string) error {
	if err := os.MkdirAll(r.OutDir, 0o755); err != nil {
		return err
	}
	r.Meta.ModelCases = len(r.cases)
	for start, idx := 0, 0; start < len(r.cases); start, idx = start+r.shard, idx+1 {
		end := start + r.shard
		if end > len(r.cases) {
			end = len(r.cases)
		}
		var b strings.Builder
		b.WriteString(r.header)
		fmt.Fprintf(&b, "\nDefinition cases : list %s := [\n", caseType)
		for i := start; i < end; i++ {
			b.WriteString("  ")
			b.WriteString(r.cases[i])
			if i+1 < end {
				b.WriteString(";")
			}
			b.WriteString("\n")
		}
		b.WriteString("].\n")
		fmt.Fprintf(&b, "Definition M := Eval vm_compute in %s cases.\nPrint M.\n", mismatchFn)
		name := fmt.Sprintf("cases_%03d.v", idx)
		if err := os.WriteFile(filepath.Join(r.OutDir, name), []byte(b.String()), 0o644); err != nil {
			return err
		}
		r.Meta.CaseFiles = append(r.Meta.CaseFiles, name)
	}
	r.Meta.CaseDescs = r.descs
	if r.Meta.Samples == nil {
		r.Meta.Samples = []interface{}{}
	}
	if r.Meta.Violations == nil {
		r.Meta.Violations = []OracleViolation{}
	}
	data, err := json.MarshalIndent(r.Meta, "", " ")
	if err != nil {
		return err
	}
	return os.WriteFile(filepath.Join(r.OutDir, "meta.json"), data, 0o644)
}

// ---------- log.Fatal trap (all properties) ----------
// kustomize calls log.Fatal* in a few places (= write to the standard logger, then os.Exit(1)), which would kill
// the harness process. The standard logger's writer is replaced by one that panics when it is called from
// log.Fatal*: the panic unwinds before os.Exit is reached and is classified by `protect` as CPanic with a message
// starting "log.Fatal:". Ordinary log output (warnings) is discarded. Properties that need finer handling install
// their own trap on top (C12, C18).
type globalFatalTrap struct{}

func (globalFatalTrap) Write(p []byte) (int, error) {
	pcs := make([]uintptr, 16)
	n := runtime.Callers(2, pcs)
	frames := runtime.CallersFrames(pcs[:n])
	for {
		f, more := frames.Next()
		if strings.HasPrefix(f.Function, "log.Fatal") || strings.HasPrefix(f.Function, "log.(*Logger).Fatal") {
			panic("log.Fatal: " + strings.TrimSpace(string(p)))
		}
		if !more {
			break
		}
	}
	return len(p), nil
}

func installGlobalFatalTrap() { log.SetOutput(globalFatalTrap{}) }
