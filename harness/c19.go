package main

import (
	"bytes"
	"encoding/json"
	"fmt"
	"io"
	"log"
	"os"
	"path/filepath"
	"sort"
	"strings"

	"sigs.k8s.io/kustomize/api/krusty"
	"sigs.k8s.io/kustomize/api/types"
	"sigs.k8s.io/kustomize/kyaml/filesys"
	"sigs.k8s.io/kustomize/kyaml/resid"
	"sigs.k8s.io/yaml"
)

// C19: deprecated field spellings build like their replacements.
//  (a) correspondence: `kustomize edit fix` driven in-process on generated kustomization files;
//      outcome class, file bytes and strict decode are compared with the Coq model (Corr/C19.v);
//  (b) metamorphic oracle on the implementation: a generated two-layer tree is built by krusty with
//      every deprecated spelling, with every current spelling, with each spelling toggled alone and
//      with random subsets; all outputs must be bytewise equal;
//  (c) `edit fix` on such a tree (on disk) must not change the build output (patches are disjoint
//      by construction), must remove every deprecated fix-time field and must be idempotent.
// Uses the c17 generators / printers of this package.

func init() {
	register("C19", propDef{
		header:     "From KV Require Import Corr.C19.\nOpen Scope string_scope.\n",
		caseType:   "case19",
		mismatchFn: "mismatches19",
		run:        runC19,
		replay:     replayC19,
	})
}

// ---------------------------------------------------------------- (a) edit fix on a file

type c19FixCase struct {
	KPath string            `json:"kpath"`
	Files map[string]string `json:"files"`
	Init  string            `json:"init"`
	Vars  bool              `json:"vars,omitempty"` // run `edit fix --vars`
}

func (c *c19FixCase) as17() *c17Case {
	return &c17Case{KPath: c.KPath, Files: c.Files, Init: c.Init, Flavour: "A"}
}

func c19GenFixCase(g *Rng) *c19FixCase {
	c := &c19FixCase{KPath: "kustomization.yaml", Files: map[string]string{}}
	var present []string
	for _, f := range c17FileUniverse {
		if g.Chance(80) {
			c.Files[f] = "k=v\n"
			present = append(present, f)
		}
	}
	k := c17GenKust(g, present, false)
	// make the fix-time spellings frequent
	if g.Chance(60) && len(k.PatchesStrategicMerge) == 0 {
		for _, p := range c17PickDistinct(g, []string{"patch.yaml", "a.yaml", "nofile.yaml", "sub/d.yaml"}, 1, 3) {
			k.PatchesStrategicMerge = append(k.PatchesStrategicMerge, types.PatchStrategicMerge(p))
		}
		if g.Chance(30) {
			k.PatchesStrategicMerge = append(k.PatchesStrategicMerge, types.PatchStrategicMerge("apiVersion: v1\nkind: ConfigMap\nmetadata:\n  name: inline\n"))
		}
	}
	if g.Chance(50) && len(k.PatchesJson6902) == 0 {
		k.PatchesJson6902 = []types.Patch{{Path: "patch.yaml", Target: &types.Selector{ResId: resid.ResId{Name: "web", Gvk: resid.Gvk{Kind: "Service", Version: "v1"}}}}}
		if g.Chance(30) {
			k.PatchesJson6902 = append(k.PatchesJson6902, types.Patch{Patch: `[{"op": "remove", "path": "/spec/x"}]`, Target: &types.Selector{ResId: resid.ResId{Gvk: resid.Gvk{Kind: "Deployment"}}}})
		}
	}
	if g.Chance(60) && len(k.CommonLabels) == 0 {
		k.CommonLabels = c17GenSmap(g, 1, 3)
	}
	if g.Chance(35) {
		// `edit fix --vars`: the resource files of these cases are not YAML, so the conversion finds no
		// target; what is compared is the bookkeeping of the kustomization file (vars removed, replacements
		// REPLACED, bases folded into resources) and its layout
		c.Vars = true
		if g.Chance(75) {
			k.Vars = []types.Var{{Name: "V", ObjRef: types.Target{APIVersion: "v1", Name: "cm", Gvk: resid.Gvk{Kind: "ConfigMap"}}}}
			if g.Chance(40) {
				k.Vars = append(k.Vars, types.Var{Name: "W", ObjRef: types.Target{APIVersion: "apps/v1", Name: "web", Gvk: resid.Gvk{Kind: "Deployment"}},
					FieldRef: types.FieldSelector{FieldPath: "spec.replicas"}})
			}
		}
		if g.Chance(40) {
			k.Replacements = []types.ReplacementField{{Path: "repl.yaml"}}
		}
	}
	c.Init = c17Layout(g, k, "A")
	return c
}

type c19FixObs struct {
	cls, msg string
	after    []byte
}

func c19RunFix(c *c19FixCase, init []byte) c19FixObs {
	fs := c17MakeFs(c.as17(), init)
	defer fs.close()
	args := []string{"fix"}
	if c.Vars {
		args = append(args, "--vars")
	}
	cls, msg := c17Exec(fs, args)
	return c19FixObs{cls, msg, fs.read(c.KPath)}
}

func c19FixTerm(c *c19FixCase, o c19FixObs) (string, bool) {
	k0, ok := c17RkustTerm([]byte(c.Init))
	if !ok {
		return "", false
	}
	k1, ok := c17RkustTerm(o.after)
	if !ok {
		return "", false
	}
	tbl := "[]"
	if k, err := c17Unmarshal(o.after); err == nil {
		tbl = c17RenderTable(k)
	}
	vo := "None"
	if c.Vars {
		vo = "(Some VFail)"
		if k, err := c17Unmarshal(o.after); err == nil && o.cls == ClsOk {
			vo = "(Some (VOk " + coqOpt(len(k.Replacements) > 0, coqStr(c17JsonTok(k.Replacements))) + "))"
		}
	}
	return c17PoolStrings(fmt.Sprintf("(mkCase19 %s %s %s %s %s %s %s %s)", c17EnvTerm(c.as17()), c17FileTerm([]byte(c.Init)), k0,
		o.cls, c17FileTerm(o.after), k1, tbl, vo)), true
}

var c19FixAddressed = map[string]bool{"Patches": true, "PatchesJson6902": true, "PatchesStrategicMerge": true, "Labels": true, "CommonLabels": true}

// c19RewriteLoad: the hand rewrite of the load-time spellings on a decoded file (bases appended to
// resources, imageTags to images, env to envs) — the harness' own statement of the documented rewrite.
func c19RewriteLoad(k *types.Kustomization) *types.Kustomization {
	b, _ := json.Marshal(k)
	var out types.Kustomization
	_ = json.Unmarshal(b, &out)
	out.Resources = append(out.Resources, out.Bases...)
	out.Bases = nil
	out.Images = append(out.Images, out.ImageTags...)
	out.ImageTags = nil
	for i := range out.ConfigMapGenerator {
		if e := out.ConfigMapGenerator[i].EnvSource; e != "" {
			out.ConfigMapGenerator[i].EnvSources = append(out.ConfigMapGenerator[i].EnvSources, e)
			out.ConfigMapGenerator[i].EnvSource = ""
		}
	}
	for i := range out.SecretGenerator {
		if e := out.SecretGenerator[i].EnvSource; e != "" {
			out.SecretGenerator[i].EnvSources = append(out.SecretGenerator[i].EnvSources, e)
			out.SecretGenerator[i].EnvSource = ""
		}
	}
	return &out
}

// c19LoadSpellingLaw: a file and its hand-rewritten form must reach the pipeline as the same record
// (implementation-level, no Coq model involved); when they do not and both `images` and `imageTags` are
// present, a small deployment with one container per image name is also built both ways.
func c19LoadSpellingLaw(viol func(law, class, detail string), init []byte) {
	k, err := c17Unmarshal(init)
	if err != nil || len(k.HelmChartInflationGenerator) > 0 {
		return
	}
	// typed level: what the loader hands to the pipeline
	rew := c19RewriteLoad(k)
	yb, err := yaml.Marshal(rew)
	if err != nil {
		return
	}
	k2, err := c17FixedOf(yb)
	if err != nil {
		return
	}
	k1, _ := c17FixedOf(init)
	if k1 == nil {
		return
	}
	if a, b := c17WholeJSON(k1), c17WholeJSON(k2); a != b {
		detail := fmt.Sprintf("loader normal form of the file:\n%s\nof its rewritten form:\n%s", a, b)
		// build level, when the difference is in the image entries: a deployment with one container per
		// image name, built with the file's images/imageTags and with the rewritten images
		if len(k.Images) > 0 && len(k.ImageTags) > 0 {
			names := map[string]bool{}
			for _, im := range append(append([]types.Image{}, k.Images...), k.ImageTags...) {
				names[im.Name] = true
			}
			var cont strings.Builder
			for i, n := range c17SortedNames(names) {
				fmt.Fprintf(&cont, "      - name: c%d\n        image: %s:0\n", i, n)
			}
			dep := "apiVersion: apps/v1\nkind: Deployment\nmetadata:\n  name: d\nspec:\n  selector:\n    matchLabels:\n      a: b\n  template:\n    metadata:\n      labels:\n        a: b\n    spec:\n      containers:\n" + cont.String()
			build := func(kk *types.Kustomization) string {
				fs := filesys.MakeFsInMemory()
				_ = fs.WriteFile("/t/d.yaml", []byte(dep))
				kb, _ := yaml.Marshal(&types.Kustomization{Resources: []string{"d.yaml"}, Images: kk.Images, ImageTags: kk.ImageTags})
				_ = fs.WriteFile("/t/kustomization.yaml", kb)
				out, err := c19Build(fs, "/t")
				if err != nil {
					return "error: " + err.Error()
				}
				return out
			}
			if o1, o2 := build(k), build(rew); o1 != o2 {
				detail += fmt.Sprintf("\nbuild with images+imageTags:\n%s\nbuild with the rewritten images:\n%s", o1, o2)
			}
		}
		viol("load_spelling_equivalence", "deprecated-spelling-loads-differently", detail)
	}
}

// laws of `edit fix` on the implementation
func c19FixLaws(r *Run, c *c19FixCase, o c19FixObs) {
	viol := func(law, class, detail string) {
		r.Violation(OracleViolation{Law: law, Class: class, Detail: detail, Replay: map[string]interface{}{"fix": c}})
	}
	c19LoadSpellingLaw(viol, []byte(c.Init))
	wrote := !bytes.Equal(o.after, []byte(c.Init))
	if o.cls == ClsPanic {
		viol("no_panic", "panic:edit fix", o.msg)
		return
	}
	if o.cls != ClsOk {
		if wrote {
			viol("failed_fix_writes_nothing", "fix-write-on-failure", o.msg)
		}
		return
	}
	kPrev, e1 := c17FixedOf([]byte(c.Init))
	kNew, e2 := c17FixedOf(o.after)
	if e1 != nil {
		return
	}
	if e2 != nil {
		viol("still_parses", "fix-unparsable-after", fmt.Sprintf("%v\n%s", e2, o.after))
		return
	}
	if len(kNew.PatchesJson6902) > 0 || len(kNew.PatchesStrategicMerge) > 0 || len(kNew.CommonLabels) > 0 {
		viol("fix_removes_deprecated", "fix-leaves-deprecated-field", string(o.after))
	}
	converting := c.Vars && len(kPrev.Vars) > 0
	for _, f := range c17Fields {
		if c19FixAddressed[f.goName] {
			continue
		}
		if converting && (f.goName == "Vars" || f.goName == "Resources" || f.goName == "Bases") {
			continue // --vars: vars are converted, bases folded into resources
		}
		if jo, jn := c17FieldJSON(kPrev, f), c17FieldJSON(kNew, f); jo != jn {
			class := "fix-frame:" + f.goName
			if converting && f.goName == "Replacements" {
				if len(kPrev.Replacements) == 0 {
					continue // the replacements the conversion produced
				}
				// the file already had replacements: they must still be there, in front of the new ones
				keep := len(kNew.Replacements) >= len(kPrev.Replacements)
				for j := 0; keep && j < len(kPrev.Replacements); j++ {
					keep = c17JsonTok(kPrev.Replacements[j]) == c17JsonTok(kNew.Replacements[j])
				}
				if keep {
					continue
				}
				class = "fix-vars-drops-existing-replacements"
			}
			viol("fix_frame", class, fmt.Sprintf("%s -> %s", jo, jn))
		}
	}
	if converting && len(kNew.Vars) > 0 {
		viol("fix_removes_deprecated", "fix-vars-leaves-vars", string(o.after))
	}
	if len(kNew.Patches) != len(kPrev.Patches)+len(kPrev.PatchesJson6902)+len(kPrev.PatchesStrategicMerge) {
		viol("fix_patches", "fix-patch-count", fmt.Sprintf("%d patches from %d+%d+%d", len(kNew.Patches), len(kPrev.Patches), len(kPrev.PatchesJson6902), len(kPrev.PatchesStrategicMerge)))
	}
	// idempotent
	o2 := c19RunFix(c, o.after)
	k2, e3 := c17FixedOf(o2.after)
	if o2.cls != ClsOk || e3 != nil {
		viol("fix_idempotent", "fix-twice-fails", fmt.Sprintf("%s %s %v", o2.cls, o2.msg, e3))
	} else if c17WholeJSON(k2) != c17WholeJSON(kNew) {
		viol("fix_idempotent", "fix-not-idempotent", fmt.Sprintf("%s then %s", c17WholeJSON(kNew), c17WholeJSON(k2)))
	}
}

// ---------------------------------------------------------------- (b) build equivalence of spellings

var c19Spellings = []string{"bases", "imageTags", "env", "commonLabels", "patchesStrategicMerge", "patchesJson6902"}

// c19Tree: a buildable two-layer tree; the app layer is described once, abstractly, and rendered
// with any subset of the deprecated spellings.
type c19Tree struct {
	Files        map[string]string `json:"files"` // every file but app/kustomization.yaml
	Resources    []string          `json:"resources"`
	Bases        []string          `json:"bases"`
	Images       []types.Image     `json:"images"`
	ImageTags    []types.Image     `json:"imageTags"`
	GenName      string            `json:"genName"`
	Envs         []string          `json:"envs"`
	Env          string            `json:"env"`
	Literals     []string          `json:"literals"`
	CommonLabels map[string]string `json:"commonLabels"`
	Labels       []types.Label     `json:"labels"`
	SMPatches    []string          `json:"smPatches"`
	JsonPatches  []types.Patch     `json:"jsonPatches"`
	Patches      []types.Patch     `json:"patches"`
	NamePrefix   string            `json:"namePrefix"`
	Namespace    string            `json:"namespace"`
	CommonAnn    map[string]string `json:"commonAnnotations"`
	Mode         string            `json:"mode,omitempty"`
}

func c19GenTree(g *Rng, allowOverlap bool) *c19Tree {
	t := &c19Tree{Files: map[string]string{}}
	replicas := 1 + g.Intn(3)
	t.Files["base/deployment.yaml"] = fmt.Sprintf(`apiVersion: apps/v1
kind: Deployment
metadata:
  name: web
  labels:
    dl: x
  annotations:
    da: y
spec:
  replicas: %d
  selector:
    matchLabels:
      app: web
  template:
    metadata:
      labels:
        app: web
    spec:
      containers:
      - name: main
        image: nginx:1.0
      - name: side
        image: busybox:1.0
`, replicas)
	t.Files["base/service.yaml"] = `apiVersion: v1
kind: Service
metadata:
  name: web
spec:
  ports:
  - port: 80
  selector:
    app: web
`
	baseK := "resources:\n- deployment.yaml\n- service.yaml\n"
	if g.Chance(30) {
		baseK += "namePrefix: b-\n"
	}
	if g.Chance(30) {
		baseK += "commonLabels:\n  layer: base\n"
	}
	// the shape of the app layer, chosen up front
	roll := g.Intn(100)
	wantDeletes := roll < 12
	wantOverlap := allowOverlap && roll >= 12 && roll < 30
	wantJSONMeta := roll >= 30 && roll < 70
	wantMulti := roll >= 50 && roll < 70
	baseGens := wantJSONMeta || g.Chance(50)
	if baseGens {
		// generator outputs of the base still await their hash suffix while the app layer is processed
		baseK += "configMapGenerator:\n- name: settings\n  literals:\n  - mode=prod\n  options:\n    labels:\n      gl: a\n    annotations:\n      ga: b\n" +
			"secretGenerator:\n- name: creds\n  literals:\n  - p=q\n  options:\n    labels:\n      gl: a\n    annotations:\n      ga: b\n"
		if g.Chance(40) {
			baseK += "nameSuffix: -prod\n"
		}
	}
	t.Files["base/kustomization.yaml"] = baseK
	t.Files["app/cm.yaml"] = "apiVersion: v1\nkind: ConfigMap\nmetadata:\n  name: plain\ndata:\n  k: v\n"
	t.Resources = []string{"cm.yaml"}
	t.Bases = []string{"../base"}
	if g.Chance(25) {
		// a second plain resource listed after the base
		t.Files["app/extra.yaml"] = "apiVersion: v1\nkind: ConfigMap\nmetadata:\n  name: extra\ndata:\n  a: b\n"
		if g.Bool() {
			t.Resources = append(t.Resources, "extra.yaml")
		} else {
			t.Bases = append(t.Bases, "extra.yaml") // `bases` entries may be files too
		}
	}
	if g.Chance(70) {
		t.Images = []types.Image{{Name: "busybox", NewTag: g.Pick([]string{"2.0", "latest"})}}
	}
	if g.Chance(80) {
		t.ImageTags = []types.Image{{Name: "nginx", NewTag: g.Pick([]string{"1.2", "1.9"}), NewName: g.Pick([]string{"", "mirror/nginx"})}}
	}
	if g.Chance(40) {
		// chained entries: `images` renames nginx, `imageTags` re-tags the NEW name. The image entries are
		// applied in list order, so the output depends on imageTags being appended AFTER images by the
		// load-time rewrite (images ++ imageTags)
		t.Images = append(t.Images, types.Image{Name: "nginx", NewName: "registry.local/web"})
		t.ImageTags = []types.Image{{Name: "registry.local/web", NewTag: g.Pick([]string{"9.9", "stable"})}}
	}
	if g.Chance(15) {
		// the other direction: imageTags renames, images re-tags the new name (no effect either way with
		// the documented order, a visible one if the order were reversed)
		t.ImageTags = []types.Image{{Name: "busybox", NewName: "registry.local/bb"}}
		t.Images = append(t.Images, types.Image{Name: "registry.local/bb", NewTag: "7"})
	}
	if g.Chance(80) {
		t.GenName = "gen"
		t.Files["app/app.env"] = "A=1\nB=two\n"
		t.Files["app/db.env"] = "C=3\n"
		if g.Chance(60) {
			t.Envs = []string{"db.env"}
		}
		t.Env = "app.env"
		if g.Chance(40) {
			t.Literals = []string{"lit=x"}
		}
	}
	if g.Chance(85) {
		t.CommonLabels = map[string]string{"team": g.Pick([]string{"x", "y"})}
		if g.Chance(30) {
			t.CommonLabels["stage"] = "dev"
		}
	}
	if g.Chance(40) {
		t.Labels = []types.Label{{Pairs: map[string]string{"tier": "t1"}, IncludeTemplates: g.Bool()}}
	}
	if g.Chance(85) {
		t.Files["app/smp.yaml"] = fmt.Sprintf("apiVersion: apps/v1\nkind: Deployment\nmetadata:\n  name: web\nspec:\n  replicas: %d\n", 4+g.Intn(3))
		t.SMPatches = []string{"smp.yaml"}
	}
	if g.Chance(85) {
		t.Files["app/json.yaml"] = fmt.Sprintf("- op: replace\n  path: /spec/ports/0/port\n  value: %d\n", 8000+g.Intn(100))
		t.JsonPatches = []types.Patch{{Path: "json.yaml", Target: &types.Selector{ResId: resid.ResId{Name: "web", Gvk: resid.Gvk{Version: "v1", Kind: "Service"}}}}}
	}
	if g.Chance(50) {
		t.Files["app/p3.yaml"] = "apiVersion: apps/v1\nkind: Deployment\nmetadata:\n  name: web\n  annotations:\n    note: patched\n"
		t.Patches = []types.Patch{{Path: "p3.yaml", Target: &types.Selector{ResId: resid.ResId{Gvk: resid.Gvk{Kind: "Deployment"}}}}}
	}
	metaJSON := false
	if wantDeletes {
		// a strategic-merge patch FILE with two `$patch: delete` documents for ADJACENT resources: the
		// deprecated field removes them itself, `patches:` leaves the emptied resources to DropEmpties.
		// Nothing else of the layer may address the deleted resources.
		t.Files["app/del.yaml"] = "apiVersion: apps/v1\nkind: Deployment\nmetadata:\n  name: web\n$patch: delete\n---\napiVersion: v1\nkind: Service\nmetadata:\n  name: web\n$patch: delete\n"
		if g.Chance(40) {
			// three adjacent deletions
			t.Files["app/del.yaml"] = "apiVersion: v1\nkind: ConfigMap\nmetadata:\n  name: plain\n$patch: delete\n---\n" + t.Files["app/del.yaml"]
		}
		t.Mode = "adjacent-deletes"
		t.SMPatches = []string{"del.yaml"}
		t.JsonPatches, t.Patches = nil, nil
		delete(t.Files, "app/p3.yaml")
		delete(t.Files, "app/json.yaml")
		delete(t.Files, "app/smp.yaml")
		if g.Chance(40) {
			t.NamePrefix = "app-"
		}
		return t
	}
	if wantOverlap {
		// the SAME key in a labels entry and in commonLabels, different values: the hand rewrite puts the
		// former commonLabels LAST (labels ++ [{pairs, includeSelectors: true}]), which is also the order in
		// which the label transformer instances run (`edit fix` refuses such a file, the build does not)
		t.Mode = "overlapping-label-keys"
		t.CommonLabels = map[string]string{"team": "from-common"}
		t.Labels = []types.Label{{Pairs: map[string]string{"team": "from-labels"}, IncludeTemplates: g.Bool(), IncludeSelectors: g.Chance(30)}}
		if g.Chance(40) {
			t.Labels = append(t.Labels, types.Label{Pairs: map[string]string{"tier": "t1", "team": "second"}})
		}
	} else if wantJSONMeta {
		metaJSON = true
		t.Mode = "json-whole-metadata"
		// JSON6902 patches on whole metadata objects of generated and ordinary resources; nothing else of
		// this layer writes labels/annotations, so the patches stay disjoint from the other directives
		t.CommonLabels, t.Labels, t.CommonAnn, t.Patches = nil, nil, nil, nil
		delete(t.Files, "app/p3.yaml")
		ops := []string{
			"- op: add\n  path: /metadata/annotations\n  value:\n    note: x\n",
			"- op: replace\n  path: /metadata/annotations\n  value:\n    note: y\n",
			"- op: remove\n  path: /metadata/annotations\n",
			"- op: replace\n  path: /metadata/labels\n  value:\n    nl: z\n",
			"- op: add\n  path: /metadata/labels\n  value:\n    nl: z\n",
			"- op: remove\n  path: /metadata/labels\n",
			"- op: add\n  path: /metadata/annotations/extra\n  value: e\n",
		}
		targets := []types.Selector{
			{ResId: resid.ResId{Name: "settings", Gvk: resid.Gvk{Version: "v1", Kind: "ConfigMap"}}},
			{ResId: resid.ResId{Name: "creds", Gvk: resid.Gvk{Version: "v1", Kind: "Secret"}}},
			{ResId: resid.ResId{Name: "web", Gvk: resid.Gvk{Group: "apps", Version: "v1", Kind: "Deployment"}}},
		}
		if wantMulti {
			t.Mode = "json-multi-target"
			// ONE patch whose target selects SEVERAL resources: no kind (Deployment and Service `web`), a
			// regular expression as name (the deprecated field insists on a name: a name-less target cannot be
			// written in it, so `.*` stands for "every ConfigMap")
			multi := []types.Selector{
				{ResId: resid.ResId{Name: "web"}},
				{ResId: resid.ResId{Name: "w.*"}},
				{ResId: resid.ResId{Name: "web|plain"}},
				{ResId: resid.ResId{Name: ".*", Gvk: resid.Gvk{Version: "v1", Kind: "ConfigMap"}}}, // every ConfigMap
				{ResId: resid.ResId{Name: ".*s$"}},
			}
			tg := multi[g.Intn(len(multi))]
			t.Files["app/multi.yaml"] = g.Pick([]string{ops[0], ops[4]}) // whole-object add: valid on every resource
			t.JsonPatches = []types.Patch{{Path: "multi.yaml", Target: &tg}}
			if g.Chance(40) {
				t.NamePrefix = "app-"
			}
			return t
		}
		n := 1 + g.Intn(2)
		perm := []int{0, 1, 2}
		for i := 2; i > 0; i-- {
			j := g.Intn(i + 1)
			perm[i], perm[j] = perm[j], perm[i]
		}
		for i := 0; i < n; i++ {
			fn := fmt.Sprintf("meta%d.yaml", i)
			t.Files["app/"+fn] = g.Pick(ops)
			tg := targets[perm[i]]
			t.JsonPatches = append(t.JsonPatches, types.Patch{Path: fn, Target: &tg})
		}
	}
	if g.Chance(40) {
		t.NamePrefix = "app-"
	}
	if g.Chance(40) {
		t.Namespace = "prod"
	}
	if g.Chance(30) && !metaJSON {
		t.CommonAnn = map[string]string{"owner": "me"}
	}
	return t
}

// render writes app/kustomization.yaml using the deprecated spelling for every name in dep and the
// current spelling for the others (the rewrite FixKustomization / FixKustomizationPreMarshalling do).
func (t *c19Tree) render(dep map[string]bool) string {
	k := &types.Kustomization{}
	k.Resources = append([]string{}, t.Resources...)
	if dep["bases"] {
		k.Bases = t.Bases
	} else {
		k.Resources = append(k.Resources, t.Bases...)
	}
	k.Images = append([]types.Image{}, t.Images...)
	if dep["imageTags"] {
		k.ImageTags = t.ImageTags
	} else {
		k.Images = append(k.Images, t.ImageTags...)
	}
	if t.GenName != "" {
		a := types.ConfigMapArgs{}
		a.Name = t.GenName
		a.LiteralSources = t.Literals
		a.EnvSources = append([]string{}, t.Envs...)
		if dep["env"] {
			a.EnvSource = t.Env
		} else {
			a.EnvSources = append(a.EnvSources, t.Env)
		}
		k.ConfigMapGenerator = []types.ConfigMapArgs{a}
	}
	k.Labels = append([]types.Label{}, t.Labels...)
	if len(t.CommonLabels) > 0 {
		if dep["commonLabels"] {
			k.CommonLabels = t.CommonLabels
		} else {
			k.Labels = append(k.Labels, types.Label{Pairs: t.CommonLabels, IncludeSelectors: true})
		}
	}
	k.Patches = append([]types.Patch{}, t.Patches...)
	if dep["patchesJson6902"] {
		k.PatchesJson6902 = t.JsonPatches
	} else {
		k.Patches = append(k.Patches, t.JsonPatches...)
	}
	if dep["patchesStrategicMerge"] {
		for _, p := range t.SMPatches {
			k.PatchesStrategicMerge = append(k.PatchesStrategicMerge, types.PatchStrategicMerge(p))
		}
	} else {
		for _, p := range t.SMPatches {
			k.Patches = append(k.Patches, types.Patch{Path: p})
		}
	}
	k.NamePrefix = t.NamePrefix
	k.Namespace = t.Namespace
	k.CommonAnnotations = t.CommonAnn
	b, err := yaml.Marshal(k)
	if err != nil {
		panic(err)
	}
	return string(b)
}

func c19Build(fs filesys.FileSystem, dir string) (string, error) {
	var out string
	var err error
	cls, msg := protect(func() error {
		m, e := krusty.MakeKustomizer(krusty.MakeDefaultOptions()).Run(fs, dir)
		if e != nil {
			err = e
			return nil
		}
		y, e := m.AsYaml()
		out, err = string(y), e
		return nil
	})
	if cls == ClsPanic {
		return "", fmt.Errorf("panic: %s", msg)
	}
	return out, err
}

func (t *c19Tree) buildWith(dep map[string]bool) (string, error) {
	fs := filesys.MakeFsInMemory()
	for n, c := range t.Files {
		_ = fs.WriteFile("/"+n, []byte(c))
	}
	_ = fs.WriteFile("/app/kustomization.yaml", []byte(t.render(dep)))
	return c19Build(fs, "/app")
}

func c19SubsetName(dep map[string]bool) string {
	var l []string
	for _, s := range c19Spellings {
		if dep[s] {
			l = append(l, s)
		}
	}
	if len(l) == 0 {
		return "none"
	}
	return strings.Join(l, "+")
}

// spellingLaws: every subset of deprecated spellings builds to the bytes of the all-current form.
func c19SpellingLaws(r *Run, t *c19Tree, subsets []map[string]bool) {
	mode := t.Mode
	if mode == "" {
		mode = "plain"
	}
	r.Count("tree_mode", mode)
	ref, err := t.buildWith(map[string]bool{})
	if err != nil {
		all := map[string]bool{}
		for _, sp := range c19Spellings {
			all[sp] = true
		}
		if out, err2 := t.buildWith(all); err2 == nil {
			// the tree builds with the deprecated spellings but not with the current ones
			r.Violation(OracleViolation{Law: "spelling_equivalence", Class: "current-spelling-fails-where-deprecated-builds:" + mode,
				Detail: fmt.Sprintf("all current: %v\nall deprecated builds:\n%s", err, out), Replay: map[string]interface{}{"tree": t, "subset": c19SubsetName(all)}})
			return
		}
		// the generator is meant to produce buildable trees; a failing reference is a generator
		// defect, reported loudly rather than skipped
		r.Violation(OracleViolation{Law: "tree_builds", Class: "c19-generated-tree-does-not-build", Detail: err.Error(), Replay: map[string]interface{}{"tree": t}})
		return
	}
	r.Count("build", "reference-ok")
	// spellings that change the build when toggled alone: a larger subset that differs is attributed to
	// them (one finding class per responsible spelling, not one per subset)
	single := map[string]bool{}
	for _, sp := range c19Spellings {
		if out, err := t.buildWith(map[string]bool{sp: true}); err != nil || out != ref {
			single[sp] = true
		}
	}
	for _, dep := range subsets {
		out, err := t.buildWith(dep)
		name := c19SubsetName(dep)
		if len(dep) > 1 {
			var resp []string
			for _, sp := range c19Spellings {
				if dep[sp] && single[sp] {
					resp = append(resp, sp)
				}
			}
			if len(resp) > 0 {
				name = strings.Join(resp, "+")
			}
		}
		r.Count("subset_size", fmt.Sprint(len(strings.Split(name, "+"))))
		r.AddEval("build:"+name+":"+t.render(dep), true)
		if err != nil {
			r.Violation(OracleViolation{Law: "spelling_equivalence", Class: "deprecated-spelling-fails:" + name, Detail: err.Error(), Replay: map[string]interface{}{"tree": t, "subset": name}})
			continue
		}
		if out != ref {
			r.Violation(OracleViolation{Law: "spelling_equivalence", Class: "deprecated-spelling-changes-build:" + name,
				Detail: fmt.Sprintf("with %s deprecated:\n%s\nall current:\n%s", name, out, ref), Replay: map[string]interface{}{"tree": t, "subset": name}})
		}
	}
}

func c19Subsets(g *Rng, exhaustive bool) []map[string]bool {
	var out []map[string]bool
	if exhaustive {
		for m := 1; m < 1<<len(c19Spellings); m++ {
			d := map[string]bool{}
			for i, s := range c19Spellings {
				if m&(1<<i) != 0 {
					d[s] = true
				}
			}
			out = append(out, d)
		}
		return out
	}
	all := map[string]bool{}
	for _, s := range c19Spellings {
		all[s] = true
		out = append(out, map[string]bool{s: true})
	}
	out = append(out, all)
	for i := 0; i < 3; i++ {
		d := map[string]bool{}
		for _, s := range c19Spellings {
			if g.Bool() {
				d[s] = true
			}
		}
		out = append(out, d)
	}
	return out
}

// ---------------------------------------------------------------- (c) edit fix keeps the build

func c19FixBuildLaw(r *Run, t *c19Tree) {
	base, err := os.MkdirTemp("", "verif-c19-")
	if err != nil {
		panic(err)
	}
	if p, err := filepath.EvalSymlinks(base); err == nil {
		base = p
	}
	defer os.RemoveAll(base)
	all := map[string]bool{}
	for _, s := range c19Spellings {
		all[s] = true
	}
	names := make([]string, 0, len(t.Files))
	for n := range t.Files {
		names = append(names, n)
	}
	sort.Strings(names)
	for _, n := range names {
		_ = os.MkdirAll(filepath.Join(base, filepath.Dir(n)), 0o755)
		_ = os.WriteFile(filepath.Join(base, n), []byte(t.Files[n]), 0o644)
	}
	app := filepath.Join(base, "app")
	_ = os.WriteFile(filepath.Join(app, "kustomization.yaml"), []byte(t.render(all)), 0o644)
	disk := filesys.MakeFsOnDisk()
	before, err := c19Build(disk, app)
	if err != nil {
		r.Violation(OracleViolation{Law: "tree_builds", Class: "c19-generated-tree-does-not-build", Detail: err.Error(), Replay: map[string]interface{}{"tree": t}})
		return
	}
	cls, msg := c17Exec(&c17Fs{disk, app}, []string{"fix"})
	r.Count("fix_on_tree", cls)
	rp := map[string]interface{}{"tree": t, "editfix": true}
	if cls != ClsOk {
		r.Violation(OracleViolation{Law: "fix_runs", Class: "fix-fails-on-tree:" + cls, Detail: msg, Replay: rp})
		return
	}
	fixed, _ := os.ReadFile(filepath.Join(app, "kustomization.yaml"))
	r.AddEval("fixtree:"+string(fixed), true)
	k, err := c17Unmarshal(fixed)
	if err != nil {
		r.Violation(OracleViolation{Law: "still_parses", Class: "fix-unparsable-after", Detail: err.Error() + "\n" + string(fixed), Replay: rp})
		return
	}
	if len(k.PatchesJson6902) > 0 || len(k.PatchesStrategicMerge) > 0 || len(k.CommonLabels) > 0 || len(k.Bases) > 0 || len(k.ImageTags) > 0 {
		r.Violation(OracleViolation{Law: "fix_removes_deprecated", Class: "fix-leaves-deprecated-field", Detail: string(fixed), Replay: rp})
	}
	after, err := c19Build(disk, app)
	if err != nil {
		r.Violation(OracleViolation{Law: "fix_preserves_build", Class: "fixed-tree-does-not-build", Detail: err.Error() + "\n" + string(fixed), Replay: rp})
		return
	}
	if after != before {
		r.Violation(OracleViolation{Law: "fix_preserves_build", Class: "fix-changes-build", Detail: fmt.Sprintf("fixed file:\n%s\nbefore:\n%s\nafter:\n%s", fixed, before, after), Replay: rp})
	}
}

// ---------------------------------------------------------------- (d) edit fix --vars

// c19VarsTree: one layer with a Deployment whose container command / env values mention vars, the
// Service / ConfigMap the vars point to, and `vars:` entries. Occurrences are whole values, prefixes,
// suffixes, or delimited middles; `bad` adds an occurrence that is not delimited (the command must refuse).
type c19VarsTree struct {
	Files map[string]string `json:"files"` // relative to the layer directory, kustomization.yaml included
	Bad   bool              `json:"bad"`
	NVars int               `json:"nvars"`
	Repl  bool              `json:"repl"` // the kustomization already has a `replacements:` entry
}

func c19GenVarsTree(g *Rng) *c19VarsTree {
	t := &c19VarsTree{Files: map[string]string{}}
	t.NVars = 1 + g.Intn(2)
	t.Bad = g.Chance(25)
	t.Repl = g.Chance(25)
	occ := func(v string) string {
		switch g.Intn(5) {
		case 0:
			return "$(" + v + ")"
		case 1:
			return "$(" + v + "):80"
		case 2:
			return "--svc=$(" + v + ")"
		case 3:
			return "a.$(" + v + ").b"
		default:
			return "x/$(" + v + ")/y"
		}
	}
	names := []string{"SVC_NAME", "CM_NAME"}[:t.NVars]
	var env strings.Builder
	for i, v := range names {
		fmt.Fprintf(&env, "        - name: E%d\n          value: %s\n", i, occ(v))
		if g.Chance(50) {
			fmt.Fprintf(&env, "        - name: F%d\n          value: %s\n", i, occ(v))
		}
	}
	if t.Bad {
		// not delimited: different characters before and after
		fmt.Fprintf(&env, "        - name: BAD\n          value: x/$(%s):y\n", names[len(names)-1])
	}
	t.Files["deployment.yaml"] = "apiVersion: apps/v1\nkind: Deployment\nmetadata:\n  name: web\nspec:\n  selector:\n    matchLabels:\n      app: web\n  template:\n    metadata:\n      labels:\n        app: web\n    spec:\n      containers:\n      - name: main\n        image: nginx:1.0\n        env:\n" + env.String()
	t.Files["service.yaml"] = "apiVersion: v1\nkind: Service\nmetadata:\n  name: web-svc\nspec:\n  ports:\n  - port: 80\n"
	t.Files["cm.yaml"] = "apiVersion: v1\nkind: ConfigMap\nmetadata:\n  name: settings\ndata:\n  k: v\n"
	k := "resources:\n- deployment.yaml\n- service.yaml\n- cm.yaml\n"
	if g.Chance(50) {
		k += "namePrefix: p-\n"
	}
	k += "vars:\n- name: SVC_NAME\n  objref:\n    apiVersion: v1\n    kind: Service\n    name: web-svc\n"
	if t.NVars > 1 {
		k += "- name: CM_NAME\n  objref:\n    apiVersion: v1\n    kind: ConfigMap\n    name: settings\n"
		if g.Chance(40) {
			k += "  fieldref:\n    fieldPath: metadata.name\n"
		}
	}
	if t.Repl {
		k += "replacements:\n- source:\n    kind: Service\n    name: web-svc\n    fieldPath: spec.ports.0.port\n  targets:\n  - select:\n      kind: Deployment\n      name: web\n    fieldPaths:\n    - spec.template.spec.containers.0.image\n    options:\n      delimiter: \":\"\n      index: 1\n"
	}
	t.Files["kustomization.yaml"] = k
	return t
}

// fixVarsLaw: `edit fix --vars` either converts every var and leaves the build unchanged, or fails and
// changes NO file of the tree.
func c19FixVarsLaw(r *Run, t *c19VarsTree) {
	base, err := os.MkdirTemp("", "verif-c19v-")
	if err != nil {
		panic(err)
	}
	if p, err := filepath.EvalSymlinks(base); err == nil {
		base = p
	}
	defer os.RemoveAll(base)
	for n, c := range t.Files {
		_ = os.WriteFile(filepath.Join(base, n), []byte(c), 0o644)
	}
	disk := filesys.MakeFsOnDisk()
	before, err := c19Build(disk, base)
	rp := map[string]interface{}{"vars": t}
	if err != nil {
		r.Violation(OracleViolation{Law: "tree_builds", Class: "c19-generated-tree-does-not-build", Detail: err.Error(), Replay: rp})
		return
	}
	cls, msg := c17Exec(&c17Fs{disk, base}, []string{"fix", "--vars"})
	r.Count("fix_vars", fmt.Sprintf("%s bad=%v repl=%v", cls, t.Bad, t.Repl))
	r.AddEval("fixvars:"+t.Files["deployment.yaml"]+t.Files["kustomization.yaml"], true)
	var changed []string
	for n, c := range t.Files {
		b, _ := os.ReadFile(filepath.Join(base, n))
		if string(b) != c {
			changed = append(changed, n)
		}
	}
	sort.Strings(changed)
	if cls == ClsPanic {
		r.Violation(OracleViolation{Law: "no_panic", Class: "panic:edit fix --vars", Detail: msg, Replay: rp})
		return
	}
	if cls != ClsOk {
		if len(changed) > 0 {
			class := "fix-vars-writes-on-failure"
			// the shape of the known defect: an earlier var has already been replaced by its placeholder in the
			// resource files when a later occurrence turns out not to be convertible; the kustomization keeps `vars:`
			onlyRes := true
			for _, n := range changed {
				if n == "kustomization.yaml" {
					onlyRes = false
				}
			}
			if onlyRes {
				after, _ := os.ReadFile(filepath.Join(base, changed[0]))
				if strings.Contains(string(after), "_PLACEHOLDER") {
					class = "fix-vars-partial-rewrite-on-failure"
				}
			}
			r.Violation(OracleViolation{Law: "failed_fix_writes_nothing", Class: class,
				Detail: fmt.Sprintf("`edit fix --vars` failed (%s) but changed %v", msg, changed), Replay: rp})
		}
		return
	}
	kb, _ := os.ReadFile(filepath.Join(base, "kustomization.yaml"))
	k, err := c17Unmarshal(kb)
	if err != nil {
		r.Violation(OracleViolation{Law: "still_parses", Class: "fix-unparsable-after", Detail: err.Error() + "\n" + string(kb), Replay: rp})
		return
	}
	if len(k.Vars) > 0 {
		r.Violation(OracleViolation{Law: "fix_removes_deprecated", Class: "fix-vars-leaves-vars", Detail: string(kb), Replay: rp})
	}
	after, err := c19Build(disk, base)
	if err != nil {
		r.Violation(OracleViolation{Law: "fix_preserves_build", Class: "fix-vars-tree-does-not-build", Detail: err.Error() + "\n" + string(kb), Replay: rp})
		return
	}
	if after != before {
		class := "fix-vars-changes-build"
		if t.Repl && len(k.Replacements) == t.NVars {
			// the known defect: k.Replacements is overwritten, the replacements the file already had are gone
			class = "fix-vars-drops-existing-replacements"
		}
		r.Violation(OracleViolation{Law: "fix_preserves_build", Class: class,
			Detail: fmt.Sprintf("fixed file:\n%s\nbefore:\n%s\nafter:\n%s", kb, before, after), Replay: rp})
	}
}

// ---------------------------------------------------------------- run / replay

func c19RunFixCase(r *Run, c *c19FixCase, toModel bool) {
	o := c19RunFix(c, []byte(c.Init))
	r.Count("fix_class", o.cls)
	k, err := c17Unmarshal([]byte(c.Init))
	if err == nil {
		n := 0
		if len(k.PatchesStrategicMerge) > 0 {
			n++
			r.Count("fix_input", "patchesStrategicMerge")
		}
		if len(k.PatchesJson6902) > 0 {
			n++
			r.Count("fix_input", "patchesJson6902")
		}
		if len(k.CommonLabels) > 0 {
			n++
			r.Count("fix_input", "commonLabels")
		}
		if len(k.Labels) > 0 && len(k.CommonLabels) > 0 {
			r.Count("fix_input", "labels+commonLabels")
		}
		r.Count("fix_deprecated_fields", fmt.Sprint(n))
	} else {
		r.Count("fix_input", "unparsable")
	}
	wrote := !bytes.Equal(o.after, []byte(c.Init))
	if toModel {
		if term, ok := c19FixTerm(c, o); ok {
			r.AddCase(term, map[string]interface{}{"fix": c}, wrote)
		} else {
			r.Meta.Skipped++
		}
	}
	c19FixLaws(r, c, o)
}

// the build prints deprecation warnings straight to os.Stderr
func c19Quiet() func() {
	old := os.Stderr
	if dn, err := os.OpenFile(os.DevNull, os.O_WRONLY, 0); err == nil {
		os.Stderr = dn
		return func() { os.Stderr = old; dn.Close() }
	}
	return func() {}
}

func runC19(r *Run, rng *Rng, tier string) error {
	log.SetOutput(io.Discard)
	defer c17Cleanup()
	defer c19Quiet()()
	nFix, nTree, nFixTree := 150, 40, 25
	exhaustiveEvery := 20
	if tier == "thorough" {
		nFix, nTree, nFixTree = 1000, 400, 200
		exhaustiveEvery = 5
	}
	r.shard = 25
	r.Meta.Rule = "(a) kustomization files from the C17 generator with the fix-time spellings made frequent (file and inline strategic-merge patches, json6902 patches, commonLabels with and without conflicting labels entries), one `edit fix` each, compared with the Coq model; " +
		"(b) buildable two-layer trees (base: Deployment+Service; app: plain resources, bases, images/imageTags, an env-file generator with env+envs, commonLabels/labels, one strategic-merge, one json6902 and one targeted patch on disjoint fields, prefix/namespace/annotations), built by krusty with every single deprecated spelling, all of them, and random subsets (every 20th tree quick / 5th thorough: all 63 subsets) against the all-current form, bytewise; " +
		"(c) `edit fix` on the all-deprecated tree on disk: build output unchanged, no deprecated field left. non-trivial = the fix rewrote the file / a build was compared"
	for _, c := range loadCorpus19() {
		c19RunFixCase(r, c, true)
	}
	for i := 0; i < nFix; i++ {
		c19RunFixCase(r, c19GenFixCase(rng.Fork()), true)
	}
	for i := 0; i < nTree; i++ {
		g := rng.Fork()
		t := c19GenTree(g, true)
		c19SpellingLaws(r, t, c19Subsets(g, i%exhaustiveEvery == 0))
	}
	for i := 0; i < nFixTree; i++ {
		c19FixBuildLaw(r, c19GenTree(rng.Fork(), false))
	}
	if data, err := os.ReadFile(verifRoot() + "/corpus/C19/vars.json"); err == nil {
		var vt []*c19VarsTree
		if json.Unmarshal(data, &vt) == nil {
			for _, t := range vt {
				c19FixVarsLaw(r, t)
			}
		}
	}
	for i := 0; i < nFixTree; i++ {
		c19FixVarsLaw(r, c19GenVarsTree(rng.Fork()))
	}
	return nil
}

func loadCorpus19() []*c19FixCase {
	var out []*c19FixCase
	data, err := os.ReadFile(verifRoot() + "/corpus/C19/cases.json")
	if err != nil {
		return out
	}
	_ = json.Unmarshal(data, &out)
	return out
}

func replayC19(p string) (bool, string, error) {
	log.SetOutput(io.Discard)
	defer c17Cleanup()
	defer c19Quiet()()
	data, err := os.ReadFile(p)
	if err != nil {
		return false, "", err
	}
	var rp struct {
		Case struct {
			Fix     *c19FixCase `json:"fix"`
			Tree    *c19Tree    `json:"tree"`
			Subset  string      `json:"subset"`
			EditFix bool        `json:"editfix"`
			Vars    *c19VarsTree `json:"vars"`
		} `json:"case"`
	}
	if err := json.Unmarshal(data, &rp); err != nil {
		return false, "", err
	}
	r := NewRun("C19", "replay", 0, "", "")
	var b strings.Builder
	switch {
	case rp.Case.Fix != nil:
		c := rp.Case.Fix
		o := c19RunFix(c, []byte(c.Init))
		fmt.Fprintf(&b, "initial:\n%s\n--- kustomize edit fix -> %s %s\n%s\n", c.Init, o.cls, o.msg, o.after)
		c19FixLaws(r, c, o)
	case rp.Case.Vars != nil:
		c19FixVarsLaw(r, rp.Case.Vars)
	case rp.Case.Tree != nil && rp.Case.EditFix:
		c19FixBuildLaw(r, rp.Case.Tree)
	case rp.Case.Tree != nil:
		dep := map[string]bool{}
		for _, s := range strings.Split(rp.Case.Subset, "+") {
			dep[s] = true
		}
		fmt.Fprintf(&b, "app/kustomization.yaml with %s deprecated:\n%s\nall current:\n%s\n", rp.Case.Subset, rp.Case.Tree.render(dep), rp.Case.Tree.render(map[string]bool{}))
		c19SpellingLaws(r, rp.Case.Tree, []map[string]bool{dep})
	default:
		return false, "", fmt.Errorf("unrecognised replay file")
	}
	for _, v := range r.Meta.Violations {
		fmt.Fprintf(&b, "LAW VIOLATED law=%s class=%s: %s\n", v.Law, v.Class, v.Detail)
	}
	return len(r.Meta.Violations) > 0, b.String(), nil
}
