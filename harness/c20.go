package main

import (
	"bytes"
	"encoding/json"
	"fmt"
	"os"
	"path/filepath"
	"reflect"
	"sort"
	"strings"
	"sync"

	"sigs.k8s.io/kustomize/kyaml/kio"
	"sigs.k8s.io/kustomize/kyaml/kio/filters"
	"sigs.k8s.io/kustomize/kyaml/openapi"
	kyaml "sigs.k8s.io/kustomize/kyaml/yaml"
	sigsyaml "sigs.k8s.io/yaml"
	yamlv2 "sigs.k8s.io/yaml/goyaml.v2"
	yaml "sigs.k8s.io/yaml/goyaml.v3"
)

// C20: the canonical formatter is idempotent and meaning-preserving.
//
// Correspondence (layer A): kio.ByteReader.Read -> filters.FormatFilter{UseSchema}.Filter, node trees
//   (comments, anchors, tags, styles, values, order) before and after, vs KV.Yaml.Fmt.filter_stream.
// Correspondence (layer B): the same stream through kio.Pipeline{ByteReader, FormatFilter, ByteWriter}
//   (= filters.FormatInput when UseSchema is off); the written bytes are re-parsed and compared with
//   writer_clean (model output) on structure / order / values / tags / quoting + comment-line multiset.
// Oracles on the implementation (bytes in, bytes out): fmt(fmt x) == fmt x bytewise; typed value of
//   every document preserved up to the order of the whitelisted lists; comment-line multiset preserved;
//   no panic; the output parses.

func init() {
	register("C20", propDef{
		header:     "From KV Require Import Corr.C20.\nOpen Scope string_scope.\n",
		caseType:   "case20",
		mismatchFn: "mismatches20",
		run:        runC20,
		replay:     replayC20,
	})
}

// ------------------------------------------------------------------ case description (replayable)

type case20 struct {
	Yaml      string `json:"yaml"`
	UseSchema bool   `json:"use_schema,omitempty"`
	// OmitReaderAnnotations: read without the index annotations (reaches Filter's own error branches;
	// layer A only — FormatInput never runs this way)
	Omit bool `json:"omit_reader_annotations,omitempty"`
}

// ------------------------------------------------------------------ Coq term printing for cnode

func hdrTerm(n *yaml.Node) string {
	if n.HeadComment == "" && n.LineComment == "" && n.FootComment == "" && n.Anchor == "" {
		return fmt.Sprintf("(h0 %s %d)", coqStr(n.Tag), uint32(n.Style))
	}
	if n.Anchor == "" {
		return fmt.Sprintf("(hc %s %s %s %s %d)", coqStr(n.HeadComment), coqStr(n.LineComment), coqStr(n.FootComment),
			coqStr(n.Tag), uint32(n.Style))
	}
	return fmt.Sprintf("(mkHdr %s %s %s %s %s %d)", coqStr(n.HeadComment), coqStr(n.LineComment), coqStr(n.FootComment),
		coqStr(n.Anchor), coqStr(n.Tag), uint32(n.Style))
}

func plainHdr20(n *yaml.Node, tag string) bool {
	return n.HeadComment == "" && n.LineComment == "" && n.FootComment == "" && n.Anchor == "" && n.Tag == tag && n.Style == 0
}

// cnodeTerm prints a yaml.Node as a KV.Yaml.Fmt.cnode term (documents unwrapped).
func cnodeTerm(n *yaml.Node) (string, bool) {
	if n == nil {
		return "", false
	}
	switch n.Kind {
	case yaml.DocumentNode:
		if len(n.Content) != 1 {
			return "", false
		}
		return cnodeTerm(n.Content[0])
	case yaml.ScalarNode:
		if len(n.Content) != 0 {
			return "", false
		}
		if plainHdr20(n, "!!str") {
			return "(s0 " + coqStr(n.Value) + ")", true
		}
		return fmt.Sprintf("(CScalar %s %s)", hdrTerm(n), coqStr(n.Value)), true
	case yaml.AliasNode:
		if len(n.Content) != 0 {
			return "", false
		}
		return fmt.Sprintf("(CAlias %s %s)", hdrTerm(n), coqStr(n.Value)), true
	case yaml.MappingNode:
		if len(n.Content)%2 != 0 || n.Value != "" {
			return "", false
		}
		parts := make([]string, 0, len(n.Content)/2)
		for i := 0; i < len(n.Content); i += 2 {
			k, ok := cnodeTerm(n.Content[i])
			if !ok {
				return "", false
			}
			v, ok := cnodeTerm(n.Content[i+1])
			if !ok {
				return "", false
			}
			parts = append(parts, "("+k+", "+v+")")
		}
		if plainHdr20(n, "!!map") {
			return "(m0 [" + strings.Join(parts, "; ") + "])", true
		}
		return fmt.Sprintf("(CMap %s [%s])", hdrTerm(n), strings.Join(parts, "; ")), true
	case yaml.SequenceNode:
		if n.Value != "" {
			return "", false
		}
		parts := make([]string, 0, len(n.Content))
		for _, c := range n.Content {
			v, ok := cnodeTerm(c)
			if !ok {
				return "", false
			}
			parts = append(parts, v)
		}
		if plainHdr20(n, "!!seq") {
			return "(q0 [" + strings.Join(parts, "; ") + "])", true
		}
		return fmt.Sprintf("(CSeq %s [%s])", hdrTerm(n), strings.Join(parts, "; ")), true
	}
	return "", false
}

func cnodeListTerm(ns []*kyaml.RNode) (string, bool) {
	parts := make([]string, 0, len(ns))
	for _, n := range ns {
		t, ok := cnodeTerm(n.YNode())
		if !ok {
			return "", false
		}
		parts = append(parts, t)
	}
	return "[" + strings.Join(parts, "; ") + "]", true
}

// ------------------------------------------------------------------ schema projection (oracle)

// schTerm prints the answers the real ResourceSchema gives along the given nodes: Type/Format at this
// position, Field(k) for every key occurring in a mapping here, Elements() for sequences here.
func schTerm(s *openapi.ResourceSchema, nodes []*yaml.Node, depth int) string {
	if s == nil || s.Schema == nil || depth > 40 {
		return "SNil"
	}
	keys := []string{}
	byKey := map[string][]*yaml.Node{}
	elems := []*yaml.Node{}
	for _, n := range nodes {
		switch n.Kind {
		case yaml.MappingNode:
			for i := 0; i+1 < len(n.Content); i += 2 {
				k := n.Content[i].Value
				if _, seen := byKey[k]; !seen {
					keys = append(keys, k)
				}
				byKey[k] = append(byKey[k], n.Content[i+1])
			}
		case yaml.SequenceNode:
			elems = append(elems, n.Content...)
		}
	}
	fields := []string{}
	for _, k := range keys {
		var child *openapi.ResourceSchema
		func() {
			defer func() { _ = recover() }()
			child = s.Field(k)
		}()
		t := schTerm(child, byKey[k], depth+1)
		if t != "SNil" {
			fields = append(fields, fmt.Sprintf("(%s, %s)", coqStr(k), t))
		}
	}
	el := "SNil"
	if len(elems) > 0 {
		var child *openapi.ResourceSchema
		func() {
			defer func() { _ = recover() }()
			child = s.Elements()
		}()
		el = schTerm(child, elems, depth+1)
	}
	return fmt.Sprintf("(SSch %s %s [%s] %s)", coqStrList([]string(s.Schema.Type)), coqStr(s.Schema.Format),
		strings.Join(fields, "; "), el)
}

// valueHasType20: the oracle behind the model parameter [hastype] — the value, read as an unquoted YAML 1.1
// scalar by go-yaml v2, is of the OpenAPI type t (what compatibility.go's unexported valueHasType decides).
func valueHasType20(value, t string) bool {
	var i1 interface{}
	if err := yamlv2.Unmarshal([]byte(value), &i1); err != nil {
		return false
	}
	switch i1.(type) {
	case bool:
		return t == "boolean"
	case int, int64, uint64:
		return t == "integer" || t == "number"
	case float64:
		return t == "number"
	}
	return false
}

// scalObs20: what go-yaml v2 (through kyaml) says about one scalar text — compared with KV.Yaml.Resolve11.
func scalObs20(v string) string {
	ns := kyaml.IsValueNonString(v)
	return fmt.Sprintf("(%s, (%s, (%s, (%s, %s))))", coqStr(v), coqBool(ns),
		coqBool(ns && valueHasType20(v, "boolean")), coqBool(ns && valueHasType20(v, "integer")),
		coqBool(ns && valueHasType20(v, "number")))
}

// scalarPool20: adversarial plain-scalar texts around the YAML 1.1 resolution rules (fixed part) plus
// random strings over the characters of the modelled fragment.
func scalarPool20(rng *Rng, nRandom int) string {
	fixed := []string{"", "y", "Y", "yes", "Yes", "YES", "yEs", "n", "N", "no", "No", "NO", "nO", "true", "True", "TRUE", "tRUE",
		"false", "False", "FALSE", "on", "On", "ON", "oN", "off", "Off", "OFF", "o", "t", "f", "~", "~x", "null", "Null", "NULL",
		"nULL", "nil", ".nan", ".NaN", ".NAN", ".Nan", ".inf", ".Inf", ".INF", "+.inf", "-.inf", "-.INF", "+.Inf", ".infinity",
		"inf", "nan", "NaN", "0", "00", "07", "08", "09", "010", "0o7", "0O7", "0o8", "0x", "0x1F", "0X1f", "0xG", "0b1", "0B101",
		"0b2", "0b", "-0b11", "+0b1", "-0x1F", "+0x1F", "-010", "+010", "1", "-1", "+1", "+", "-", "--1", "++1", "1_000", "_1",
		"1_", "1__0", "+_1", "0_7", "0_x1", "123456789012345678", "999999999999999999", "-99999999999999999",
		"0xFFFFFFFFFFFFFFFF", "0x7FFFFFFFFFFFFFFF", "0o1777777777777777", "1.5", "1.", ".5", "-.5", "+.5", ".", "..", "...",
		"...x", ".5.", "1.5.2", "1e3", "1E3", "1e+3", "1e-3", "1e", "e3", "1e3x", "1.e3", ".5e3", ".5e", ".e5", "1e99", "1e100",
		".5e10", "9e99", "-9e99", "1_0.5", "1.5_0", ".5_0", "1e1_0", "12abc", "abc12", "a-b", "a.b", "a/b", "a+b", "a~b", "a_b",
		"-x", "-.x", "-_x", "/x", "+x", "_", "__", "x", "web", "nginx", "v1", "apps/v1", "1.2.3", "1-2", "2001-01-01", "2001-1-1",
		"2001-13-01", "12345-1", "123-4", "20010101", "1:30", "a b", "a: b", "- x", "[1]", "{a: 1}", "# c", "'1'", "\"1\"", "*x",
		"&x", "!x", "|", ">", "%x", "@x", "`x", "x#y", "x #y", "<<", "=", "0.0.0.0", "1.0", "-0", "+0", "-0.0", "0e0", "0x0", "0o0",
		"0b0", "00x1", "0xx1", "0x_1", "1e+", "1e-", "+.e1", "-.5e-2", "Yes1", "on1", "1on", "nULL1", ".inf1", ".nan.", "NO.", "y.",
		// inner ':' ',' '=' '@' '%' (inside the fragment) and their out-of-fragment neighbours
		"a:b", "a:", "a: b", ":a", "nginx:1.0.0", "redis:6", "1:2", "01:30", "1:30:00", "x:y:z", "x:y:", "http://x/y", "a,b", "1,5",
		"1,000", ",a", "a=b", "=a", "a==", "1=1", "50%", "%x", "5%5", "a@b", "@a", "1@2", "yes:", "yes:no", "on,off", "true=1",
		"0x1F:", "1e3,", "~:", "~,", "y=", "n%", "null@", "1.5:", ".5,", "+1=", "-1%", "a:b,c=d@e%f",
		// timestamps and near-timestamps (go-yaml v2 tries time.Parse after "dddd-")
		"2001-12-14", "2001-12-14t21:59:43Z", "2001-12-14T21:59:43.10-05:00", "2001-12-14 21:59:43.10", "2001-2-3", "2001-02-30",
		"2001-1-1T1:1:1Z", "0000-01-01", "9999-12-31", "2001-00-01", "2001-01-00", "20011-01-01", "201-01-01", "2001_01_01",
		"2001-01-01x", "2001-01", "2001-", "2001--1", "1970-01-01T00:00:00Z",
		// texts that are not one plain scalar as a document (IsValueNonString parses the whole text)
		"a b", " a", "a ", "a\tb", "a #b", "a# b", "#a", "x: y", "x:  1", "- 1", "-  x", "? a", "[a, b]", "[]", "{}", "{a: b}", "a: [1]",
		"\"a\"", "'a'", "\"1\"", "'yes'", "!!str 1", "!!int a", "&a 1", "*a", "|", ">-", "%YAML 1.1", "---", "--- 1", "...", "a\nb",
		"1\n", "yes\n", "- a\n- b", "\t1", "1 2", "1, 2", "yes no", "null null", "~ ~", "@", "`", "a`b", "a|b", "a>b", "a<b", "a&b",
		"a*b", "a!b", "a?b", "a[b", "a]b", "a{b", "a}b", "a'b", "a\"b", "a\\b", "é", "1é", "\u00e9",
		"0777", "0778", "-0777", "-0778", "07_7", "1_2_3", "0o", "0oo7", "0b1_0", "0B_1", "1e0_1", "TRUE1", "True.", "~~", "~1"}
	obs := []string{}
	seen := map[string]bool{}
	add := func(v string) {
		if !seen[v] {
			seen[v] = true
			obs = append(obs, scalObs20(v))
		}
	}
	for _, v := range fixed {
		add(v)
	}
	alphabet := "0123456789" + "0123456789" + "_.+-eExXoObB" + "aAfFyYnNtT~/" + ":,=@%:."
	if v := os.Getenv("C20_POOL_N"); v != "" {
		fmt.Sscan(v, &nRandom)
	}
	for i := 0; i < nRandom; i++ {
		n := 1 + rng.Intn(7)
		b := make([]byte, n)
		for j := range b {
			b[j] = alphabet[rng.Intn(len(alphabet))]
		}
		add(string(b))
	}
	return "(KScalars [" + strings.Join(obs, "; ") + "])"
}

// typeMeta20 reads kind / apiVersion the way FormatFilter.Filter does (first field of that name, its Value).
func typeMeta20(n *kyaml.RNode) (kind, api string, ok bool) {
	cls, _ := protect(func() error {
		k, err := n.Pipe(kyaml.Get("kind"))
		if err != nil || k == nil {
			return fmt.Errorf("no kind")
		}
		a, err := n.Pipe(kyaml.Get("apiVersion"))
		if err != nil || a == nil {
			return fmt.Errorf("no apiVersion")
		}
		kind, api = k.YNode().Value, a.YNode().Value
		return nil
	})
	return kind, api, cls == ClsOk
}

func rootSchema20(n *kyaml.RNode, useSchema bool) string {
	if !useSchema {
		return "SNil"
	}
	kind, api, ok := typeMeta20(n)
	if !ok {
		return "SNil"
	}
	s := openapi.SchemaForResourceType(kyaml.TypeMeta{APIVersion: api, Kind: kind})
	return schTerm(s, []*yaml.Node{n.YNode()}, 0)
}

// ------------------------------------------------------------------ running the implementation

func read20(text string, omit bool) ([]*kyaml.RNode, error) {
	var nodes []*kyaml.RNode
	var err error
	cls, msg := protect(func() error {
		nodes, err = (&kio.ByteReader{Reader: strings.NewReader(text), OmitReaderAnnotations: omit}).Read()
		return err
	})
	if cls == ClsPanic {
		return nil, fmt.Errorf("reader panic: %s", msg)
	}
	return nodes, err
}

// format20 = filters.FormatInput, generalised to UseSchema.
func format20(text string, useSchema bool) (out string, cls string, msg string) {
	cls, msg = protect(func() error {
		if !useSchema {
			b, err := filters.FormatInput(strings.NewReader(text))
			if err != nil {
				return err
			}
			out = b.String()
			return nil
		}
		buff := &bytes.Buffer{}
		err := kio.Pipeline{
			Inputs:  []kio.Reader{&kio.ByteReader{Reader: strings.NewReader(text)}},
			Filters: []kio.Filter{filters.FormatFilter{UseSchema: true}},
			Outputs: []kio.Writer{kio.ByteWriter{Writer: buff}},
		}.Execute()
		out = buff.String()
		return err
	})
	return out, cls, msg
}

// identity20: the same pipeline without the formatter (baseline for what the reader/writer pair does).
func identity20(text string) (out string, ok bool) {
	cls, _ := protect(func() error {
		buff := &bytes.Buffer{}
		err := kio.Pipeline{
			Inputs:  []kio.Reader{&kio.ByteReader{Reader: strings.NewReader(text)}},
			Outputs: []kio.Writer{kio.ByteWriter{Writer: buff}},
		}.Execute()
		out = buff.String()
		return err
	})
	return out, cls == ClsOk
}

// ------------------------------------------------------------------ structural facts about an input

type facts20 struct {
	dupKeys        bool // some mapping has two keys with the same Value
	bigEquiv       bool // some sorted collection has > 12 entries and two equivalent sort keys
	nestedSeqKeyed bool // a sequence is an element of a keyed whitelisted list
	dupSortField   bool // an element of a keyed whitelisted list carries the sort field twice
	dupSortFieldBig bool // ... and has more than 12 fields
	alias          bool
	emptyMeta      bool // metadata / metadata.annotations with empty content (dropped by the writer)
	complexKey     bool
	wlSeqs         int // whitelisted sequences met (len >= 2)
	wlReordered    bool
	maxMap         int
	comments       int
	otherKeyedUnsorted bool // a list outside the reference whitelist whose elements carry "name"/"key" in non-sorted order
	ambiguousKeys      int  // plain mapping keys that YAML 1.1 reads as a non-string
}

// PINNED reference copy of the order-insensitive lists the property allows the formatter to reorder
// (= coq/theories/Yaml/FmtTablesRef.v; cross-checked by the KTable case).  The value / pair-multiset
// oracles normalise exactly these lists — NOT whatever the run-time table of the tree under test says:
// a row added to yaml.WhitelistedListSortFields makes the formatter reorder a list whose order matters
// (initContainers run in sequence), and must show up as a changed value.
var refWlKinds20 = []string{"CronJob", "DaemonSet", "Deployment", "Job", "ReplicaSet", "StatefulSet", "ValidatingWebhookConfiguration"}
var refWlApis20 = []string{"apps/v1", "apps/v1beta1", "apps/v1beta2", "batch/v1", "batch/v1beta1", "extensions/v1beta1", "v1",
	"admissionregistration.k8s.io/v1"}
var refWlFieldsList20 = [][2]string{{".spec.template.spec.containers", "name"}, {".webhooks.rules.operations", ""}}
var refWlFields20 = func() map[string]string {
	m := map[string]string{}
	for _, p := range refWlFieldsList20 {
		m[p[0]] = p[1]
	}
	return m
}()

func inList20(s string, l []string) bool {
	for _, x := range l {
		if x == s {
			return true
		}
	}
	return false
}

func wlOnRef20(kind, api string) bool { return inList20(kind, refWlKinds20) && inList20(api, refWlApis20) }

func wlOn20(kind, api string) bool {
	return kyaml.WhitelistedListSortKinds.Has(kind) && kyaml.WhitelistedListSortApis.Has(api)
}

func seqKey20(e *yaml.Node, f string) string {
	if f == "" {
		return e.Value
	}
	if e.Kind != yaml.MappingNode {
		return "" // only a mapping element carries a sort field
	}
	v := ""
	for a := 0; a+1 < len(e.Content); a += 2 {
		if e.Content[a].Value == f {
			v = e.Content[a+1].Value
		}
	}
	return v
}

func gatherFacts20(n *yaml.Node, path string, wl bool, f *facts20) {
	if n.HeadComment != "" {
		f.comments++
	}
	if n.LineComment != "" {
		f.comments++
	}
	if n.FootComment != "" {
		f.comments++
	}
	switch n.Kind {
	case yaml.AliasNode:
		f.alias = true
	case yaml.MappingNode:
		seen := map[string]bool{}
		dup := false
		for i := 0; i+1 < len(n.Content); i += 2 {
			k := n.Content[i]
			if k.Kind != yaml.ScalarNode {
				f.complexKey = true
			} else if k.Style == 0 && kyaml.IsValueNonString(k.Value) {
				f.ambiguousKeys++
			}
			if seen[k.Value] {
				dup = true
			}
			seen[k.Value] = true
		}
		if dup {
			f.dupKeys = true
			if len(n.Content)/2 > 12 {
				f.bigEquiv = true
			}
		}
		if len(n.Content)/2 > f.maxMap {
			f.maxMap = len(n.Content) / 2
		}
		for i := 0; i+1 < len(n.Content); i += 2 {
			gatherFacts20(n.Content[i], path, wl, f)
			gatherFacts20(n.Content[i+1], path+"."+n.Content[i].Value, wl, f)
		}
	case yaml.SequenceNode:
		if wl {
			if sf, found := kyaml.WhitelistedListSortFields[path]; found {
				if len(n.Content) >= 2 {
					f.wlSeqs++
				}
				keys := map[string]bool{}
				equiv := false
				prev := ""
				for i, e := range n.Content {
					if sf != "" && e.Kind == yaml.SequenceNode {
						f.nestedSeqKeyed = true
					}
					if sf != "" && e.Kind == yaml.MappingNode {
						c := 0
						for a := 0; a+1 < len(e.Content); a += 2 {
							if e.Content[a].Value == sf {
								c++
							}
						}
						if c > 1 {
							f.dupSortField = true
							if len(e.Content)/2 > 12 {
								f.dupSortFieldBig = true
							}
						}
					}
					k := seqKey20(e, sf)
					if keys[k] {
						equiv = true
					}
					keys[k] = true
					if i > 0 && k < prev {
						f.wlReordered = true
					}
					prev = k
				}
				if equiv && len(n.Content) > 12 {
					f.bigEquiv = true
				}
			}
		}
		if _, ref := refWlFields20[path]; !ref && len(n.Content) >= 2 {
			for _, sf := range []string{"name", "key"} {
				prev, have := "", false
				for _, e := range n.Content {
					if e.Kind != yaml.MappingNode {
						continue
					}
					k := seqKey20(e, sf)
					if k == "" {
						continue
					}
					if have && k < prev {
						f.otherKeyedUnsorted = true
					}
					prev, have = k, true
				}
			}
		}
		for _, e := range n.Content {
			gatherFacts20(e, path, wl, f)
		}
	}
}

func emptyMeta20(n *kyaml.RNode) bool {
	y := n.YNode()
	if y == nil || y.Kind != yaml.MappingNode {
		return false
	}
	for i := 0; i+1 < len(y.Content); i += 2 {
		if y.Content[i].Value == "metadata" {
			m := y.Content[i+1]
			if len(m.Content) == 0 {
				return true
			}
			if m.Kind == yaml.MappingNode {
				for j := 0; j+1 < len(m.Content); j += 2 {
					if m.Content[j].Value == "annotations" && len(m.Content[j+1].Content) == 0 {
						return true
					}
				}
			}
		}
	}
	return false
}

func factsOf20(nodes []*kyaml.RNode) facts20 {
	f := facts20{}
	for _, n := range nodes {
		kind, api, ok := typeMeta20(n)
		wl := ok && wlOn20(kind, api)
		if n.YNode() != nil {
			gatherFacts20(n.YNode(), "", wl, &f)
		}
		if emptyMeta20(n) {
			f.emptyMeta = true
		}
	}
	return f
}

// ------------------------------------------------------------------ oracles on the implementation

func splitDocs20(s string) []string {
	s = strings.TrimPrefix(s, "---\n")
	parts := strings.Split(s, "\n---\n")
	out := []string{}
	for i, p := range parts {
		if i != len(parts)-1 {
			p += "\n" // the separator match consumed the line end of the document (ByteReader.Read does the same)
		}
		if strings.TrimSpace(p) != "" {
			out = append(out, p)
		}
	}
	return out
}

func firstDiff20(a, b string) string {
	i := 0
	for i < len(a) && i < len(b) && a[i] == b[i] {
		i++
	}
	lo := i - 60
	if lo < 0 {
		lo = 0
	}
	ha, hb := i+60, i+60
	if ha > len(a) {
		ha = len(a)
	}
	if hb > len(b) {
		hb = len(b)
	}
	return fmt.Sprintf("first difference at byte %d: ...%s... vs ...%s...", i, a[lo:ha], b[lo:hb])
}

// typed value of a document the way the API machinery reads it (YAML 1.1 via sigs.k8s.io/yaml)
func jsonValue20(doc string) (interface{}, error) {
	var v interface{}
	var err error
	cls, msg := protect(func() error {
		j, e := sigsyaml.YAMLToJSON([]byte(doc))
		if e != nil {
			return e
		}
		return json.Unmarshal(j, &v)
	})
	if cls != ClsOk {
		err = fmt.Errorf("%s", msg)
	}
	return v, err
}

func canonJSON20(v interface{}) string {
	b, _ := json.Marshal(v) // map keys sorted by encoding/json
	return string(b)
}

// normWl20 sorts (as multisets) the lists the formatter is allowed to reorder.
func normWl20(v interface{}, path string) interface{} {
	switch x := v.(type) {
	case map[string]interface{}:
		out := map[string]interface{}{}
		for k, c := range x {
			out[k] = normWl20(c, path+"."+k)
		}
		return out
	case []interface{}:
		out := make([]interface{}, len(x))
		for i, c := range x {
			out[i] = normWl20(c, path)
		}
		if _, found := refWlFields20[path]; found {
			sort.SliceStable(out, func(i, j int) bool { return canonJSON20(out[i]) < canonJSON20(out[j]) })
		}
		return out
	}
	return v
}

func collectComments20(n *yaml.Node, acc *[]string) {
	if n == nil {
		return
	}
	for _, c := range []string{n.HeadComment, n.LineComment, n.FootComment} {
		for _, l := range strings.Split(c, "\n") {
			l = strings.TrimSpace(l)
			if l != "" {
				*acc = append(*acc, l)
			}
		}
	}
	for _, c := range n.Content {
		collectComments20(c, acc)
	}
}

func commentLines20(text string) ([]string, bool) {
	nodes, err := read20(text, true)
	if err != nil {
		return nil, false
	}
	acc := []string{}
	for _, n := range nodes {
		collectComments20(n.Document(), &acc)
	}
	sort.Strings(acc)
	return acc, true
}

type verdict20 struct {
	law, class, detail string
}

// laws20 evaluates the property's laws on the implementation for one input stream.
// Domain = streams the reader accepts and on which Filter returns no error.
func laws20(c case20) (vs []verdict20, info map[string]string) {
	info = map[string]string{}
	if c.Omit {
		return nil, info
	}
	nodes, err := read20(c.Yaml, true)
	if err != nil {
		info["outcome"] = "read-error"
		return nil, info
	}
	f := factsOf20(nodes)
	y, cls, msg := format20(c.Yaml, c.UseSchema)
	info["outcome"] = cls
	if cls == ClsPanic {
		// no panic of the formatter is a listed finding any more (the index-out-of-range in
		// sortedSeqContents.Less was repaired by /repo d64b8e2): every panic is a violation
		class := "panic/format-input"
		return []verdict20{{"no_panic", class, "FormatInput panicked: " + msg}}, info
	}
	if cls != ClsOk {
		return nil, info // rejected input (illegal annotation value, malformed metadata): an error, not a violation
	}
	// --- idempotence, bytewise
	z, cls2, msg2 := format20(y, c.UseSchema)
	switch {
	case cls2 != ClsOk:
		class := "reparse/other"
		if f.alias && strings.Contains(msg2, "unknown anchor") {
			class = "reparse/alias-before-anchor"
		} else if cls2 == ClsPanic {
			class = "panic/second-pass"
		}
		vs = append(vs, verdict20{"idempotent", class, fmt.Sprintf("formatting the formatted output fails (%s): %s", cls2, msg2)})
	case z != y:
		// fmt(y) = write(filter(read y)).  When the reader/writer pair alone is not the identity on y
		// (go-yaml's encoder is not stable on its own output: S3, outside the claim) the law is checked
		// relative to it: the formatter must add nothing to what the round trip does.
		idy, okid := identity20(y)
		if okid && idy != y && z == idy {
			info["idempotence"] = "s3-roundtrip-unstable"
			break
		}
		// (both idempotence findings are repaired in /repo: every failure is an unlisted violation)
		class := "idempotence/other"
		vs = append(vs, verdict20{"idempotent", class, "fmt(fmt x) != fmt x\n--- fmt x\n" + y + "--- fmt(fmt x)\n" + z})
	default:
		info["idempotence"] = "checked"
	}
	// --- context independence: a document inside a stream is formatted exactly as when it is alone
	if xs := splitDocs20(c.Yaml); len(xs) > 1 && len(xs) == len(nodes) {
		if ys := splitDocs20(y); len(ys) == len(xs) {
			for i := range xs {
				yi, clsi, msgi := format20(xs[i], c.UseSchema)
				if clsi != ClsOk {
					vs = append(vs, verdict20{"stream_independent", "stream/alone-fails",
						fmt.Sprintf("document %d formats inside the stream but not alone (%s): %s", i, clsi, msgi)})
					continue
				}
				if strings.TrimRight(yi, "\n") != strings.TrimRight(ys[i], "\n") {
					pk, pa := "", ""
					if i > 0 {
						pk, pa, _ = typeMeta20(nodes[i-1])
					}
					vs = append(vs, verdict20{"stream_independent", "stream/context-dependent",
						fmt.Sprintf("document %d (preceded by %s %s) is formatted differently inside the stream than alone; %s",
							i, pa, pk, firstDiff20(yi, ys[i]))})
				}
			}
			info["stream"] = "checked"
		}
	}
	// --- canonical order: in a formatted document every mapping is sorted for Less and every whitelisted
	// list for its sort key (comparators re-implemented here from yaml.FieldOrder)
	if outNodes, e := read20(y, true); e == nil {
		for _, on := range outNodes {
			kind, api, ok := typeMeta20(on)
			if !ok || fmtOptOut20(on) {
				continue
			}
			if where, bad := unsorted20(on.YNode(), "", wlOn20(kind, api)); bad {
				class := "order/not-sorted"
				vs = append(vs, verdict20{"canonical_order", class, "formatted output is not in canonical order at " + where})
			}
		}
		info["order"] = "checked"
	}
	// --- value preservation (typed JSON per document, up to the whitelisted lists)
	xd, yd := splitDocs20(c.Yaml), splitDocs20(y)
	idx, okidx := identity20(c.Yaml)
	idd := splitDocs20(idx)
	if len(xd) == len(nodes) && !f.emptyMeta && okidx && len(idd) == len(xd) {
		if len(yd) != len(xd) {
			vs = append(vs, verdict20{"value_preserved", "value/doc-count", fmt.Sprintf("%d documents in, %d out", len(xd), len(yd))})
		} else {
			for i := range xd {
				xv, ex := jsonValue20(xd[i])
				if ex != nil {
					continue // the input itself has no typed value (e.g. unhashable / unknown anchor)
				}
				if iv, ei := jsonValue20(idd[i]); ei != nil || !reflect.DeepEqual(xv, iv) {
					info["value"] = "s3-roundtrip-changes-value" // go-yaml's encoder alone alters this document
					continue
				}
				info["value"] = "checked"
				if docDupKeys20(nodes[i]) {
					// the typed value of a mapping with duplicate (typed) keys is "last one wins": not a function
					// of the pair multiset; such documents are covered by the pair-multiset law below
					info["value"] = "dup-keys-json-skipped"
					continue
				}
				yv, ey := jsonValue20(yd[i])
				if ey != nil && strings.Contains(ey.Error(), "json: unsupported value") {
					continue // .inf / .nan have no JSON form (the input's typed value exists only because of key order)
				}
				if ey != nil {
					class := "value/output-unreadable"
					if f.alias && strings.Contains(ey.Error(), "unknown anchor") {
						class = "reparse/alias-before-anchor"
					}
					vs = append(vs, verdict20{"value_preserved", class, "output document does not parse: " + ey.Error()})
					continue
				}
				kind, api, ok := typeMeta20(nodes[i])
				if ok && wlOnRef20(kind, api) && !fmtOptOut20(nodes[i]) {
					xv, yv = normWl20(xv, ""), normWl20(yv, "")
				}
				if c.UseSchema && ok && openapi.SchemaForResourceType(kyaml.TypeMeta{APIVersion: api, Kind: kind}) != nil {
					// scalar VALUES follow the schema by design (see schemaLaw20); the KEYS of every mapping must
					// still resolve to the same typed key (`on:` is the key true, `"on":` the key "on")
					if !docDupKeys20(nodes[i]) {
						wlr := wlOnRef20(kind, api) && !fmtOptOut20(nodes[i])
						ka, kb := canonJSON20(keySkel20(xv, "", wlr)), canonJSON20(keySkel20(yv, "", wlr))
						if ka != kb {
							vs = append(vs, verdict20{"value_preserved", "keys/retyped",
								"the typed keys of the document changed; " + firstDiff20(ka, kb)})
						}
						info["keyskel"] = "checked"
					}
					continue
				}
				// (a document whose own type has no schema must keep its typed value under UseSchema too)
				if !reflect.DeepEqual(xv, yv) {
					vs = append(vs, verdict20{"value_preserved", "value/other",
						"typed value changed; " + firstDiff20(canonJSON20(xv), canonJSON20(yv))})
				}
			}
		}
	}
	// --- pairs only permuted (node level): every mapping keeps its multiset of (key, value) pairs, every
	// sequence its elements (in order, or as a multiset for the whitelisted lists); scalars keep tag and text
	if !c.UseSchema && okidx {
		in, e1 := read20(idx, true) // the reader/writer round trip of x (baseline for tags/normalisation)
		out, e2 := read20(y, true)
		if e1 == nil && e2 == nil && len(in) == len(out) && len(in) == len(nodes) {
			for i := range in {
				kind, api, ok := typeMeta20(nodes[i])
				wl := ok && wlOnRef20(kind, api) && !fmtOptOut20(nodes[i])
				a, b := canonNode20(in[i].YNode(), "", wl), canonNode20(out[i].YNode(), "", wl)
				if a != b {
					vs = append(vs, verdict20{"value_preserved", "value/pairs-not-permuted",
						"a mapping's pair multiset / a list's elements changed; " + firstDiff20(a, b)})
				}
			}
			info["pairs"] = "checked"
		}
	}
	// --- keys: formatting never touches a mapping key node (text, tag, quoting), with or without a schema
	if okidx {
		in, e1 := read20(idx, true)
		out, e2 := read20(y, true)
		if e1 == nil && e2 == nil && len(in) == len(out) && len(in) == len(nodes) {
			for i := range in {
				a, b := []string{}, []string{}
				keyFacts20(in[i].YNode(), "", &a)
				keyFacts20(out[i].YNode(), "", &b)
				sort.Strings(a)
				sort.Strings(b)
				if ja, jb := strings.Join(a, "\n"), strings.Join(b, "\n"); ja != jb {
					vs = append(vs, verdict20{"value_preserved", "keys/restyled",
						"a mapping key changed its tag / quoting / text; " + firstDiff20(ja, jb)})
				}
			}
			info["keys"] = "checked"
		}
	}
	if c.UseSchema {
		svs, nStr, nInt := schemaLaw20(c, y)
		vs = append(vs, svs...)
		info["schema_sites_string"] = fmt.Sprint(nStr)
		info["schema_sites_integer"] = fmt.Sprint(nInt)
	}
	// --- comments: multiset of comment lines, relative to what the reader/writer pair alone preserves
	xc, okx := commentLines20(c.Yaml)
	if okx && len(xc) > 0 && f.complexKey {
		// go-yaml's encoder does not reliably emit the comments next to a complex ("? ") key once the
		// key has moved (S3); the node trees still carry them (layer A compares them)
		info["comments"] = "skipped-complex-key"
	} else if okx && len(xc) > 0 {
		id, okid := identity20(c.Yaml)
		ic, oki := commentLines20(id)
		if okid && oki && reflect.DeepEqual(xc, ic) {
			yc, oky := commentLines20(y)
			if oky && !reflect.DeepEqual(xc, yc) {
				vs = append(vs, verdict20{"comments_preserved", "comments/multiset",
					fmt.Sprintf("comment lines changed: in %q out %q", xc, yc)})
			}
			info["comments"] = "checked"
		} else {
			info["comments"] = "skipped-s3" // go-yaml alone does not round-trip this comment placement
		}
	}
	return vs, info
}

func lessKey20(a, b string) bool {
	i, fi := kyaml.FieldOrder[a]
	j, fj := kyaml.FieldOrder[b]
	switch {
	case fi && fj:
		return i < j
	case fi:
		return true
	case fj:
		return false
	}
	return a < b
}

// unsorted20 reports the first mapping / whitelisted list of a formatted document that is out of order.
func unsorted20(n *yaml.Node, path string, wl bool) (string, bool) {
	switch n.Kind {
	case yaml.MappingNode:
		for i := 2; i+1 < len(n.Content); i += 2 {
			if lessKey20(n.Content[i].Value, n.Content[i-2].Value) {
				return fmt.Sprintf("mapping %q: key %q after %q", path, n.Content[i].Value, n.Content[i-2].Value), true
			}
		}
		for i := 0; i+1 < len(n.Content); i += 2 {
			if w, bad := unsorted20(n.Content[i], path, wl); bad {
				return w, true
			}
			if w, bad := unsorted20(n.Content[i+1], path+"."+n.Content[i].Value, wl); bad {
				return w, true
			}
		}
	case yaml.SequenceNode:
		if sf, found := kyaml.WhitelistedListSortFields[path]; found && wl {
			for i := 1; i < len(n.Content); i++ {
				if seqKey20(n.Content[i], sf) < seqKey20(n.Content[i-1], sf) {
					return fmt.Sprintf("list %q: element %d before element %d", path, i-1, i), true
				}
			}
		}
		for _, e := range n.Content {
			if w, bad := unsorted20(e, path, wl); bad {
				return w, true
			}
		}
	}
	return "", false
}

// keyFacts20 lists every mapping key of a tree as "path|tag|quoted|text".
func keyFacts20(n *yaml.Node, path string, acc *[]string) {
	if n == nil {
		return
	}
	switch n.Kind {
	case yaml.MappingNode:
		for i := 0; i+1 < len(n.Content); i += 2 {
			k := n.Content[i]
			if k.Kind == yaml.ScalarNode {
				q := k.Style&(yaml.DoubleQuotedStyle|yaml.SingleQuotedStyle) != 0
				*acc = append(*acc, fmt.Sprintf("%s|%s|%v|%q", path, k.Tag, q, k.Value))
			} else {
				keyFacts20(k, path, acc)
			}
			keyFacts20(n.Content[i+1], path+"."+k.Value, acc)
		}
	case yaml.SequenceNode:
		for _, e := range n.Content {
			keyFacts20(e, path, acc)
		}
	}
}

// keySkel20: the typed value with every leaf erased (keys and shape only); reference-whitelisted lists as multisets.
func keySkel20(v interface{}, path string, wl bool) interface{} {
	switch x := v.(type) {
	case map[string]interface{}:
		out := map[string]interface{}{}
		for k, c := range x {
			out[k] = keySkel20(c, path+"."+k, wl)
		}
		return out
	case []interface{}:
		out := make([]interface{}, len(x))
		for i, c := range x {
			out[i] = keySkel20(c, path, wl)
		}
		if _, found := refWlFields20[path]; found && wl {
			sort.SliceStable(out, func(i, j int) bool { return canonJSON20(out[i]) < canonJSON20(out[j]) })
		}
		return out
	}
	return nil
}

var typedKeyCache20 = map[string]string{}
var typedKeyMu20 sync.Mutex

// typedKey20: the key as YAML 1.1 / JSON reads it (`yes`, `on`, `true` are all the key "true"; `010` is "8").
func typedKey20(k *yaml.Node) string {
	if k.Kind != yaml.ScalarNode || k.Style != 0 || k.Tag == "!!str" && !kyaml.IsValueNonString(k.Value) {
		return k.Value
	}
	typedKeyMu20.Lock()
	v0, ok0 := typedKeyCache20[k.Value]
	typedKeyMu20.Unlock()
	if ok0 {
		return v0
	}
	out := k.Value
	if v, err := jsonValue20(k.Value + ": 0\n"); err == nil {
		if m, ok := v.(map[string]interface{}); ok && len(m) == 1 {
			for kk := range m {
				out = kk
			}
		}
	}
	typedKeyMu20.Lock()
	typedKeyCache20[k.Value] = out
	typedKeyMu20.Unlock()
	return out
}

// docDupKeys20: some mapping has two keys that are the same key once typed (textual duplicates included):
// the typed value of such a document is "last one wins" and not a function of its pair multiset.
func docDupKeys20(n *kyaml.RNode) bool {
	var rec func(y *yaml.Node) bool
	rec = func(y *yaml.Node) bool {
		if y == nil {
			return false
		}
		if y.Kind == yaml.MappingNode {
			seen := map[string]bool{}
			for i := 0; i+1 < len(y.Content); i += 2 {
				tk := typedKey20(y.Content[i])
				if seen[tk] {
					return true
				}
				seen[tk] = true
			}
		}
		for _, c := range y.Content {
			if rec(c) {
				return true
			}
		}
		return false
	}
	return rec(n.YNode())
}

// canonNode20: canonical text of a node tree up to the order of mapping pairs and of whitelisted lists.
func canonNode20(n *yaml.Node, path string, wl bool) string {
	if n == nil {
		return "nil"
	}
	switch n.Kind {
	case yaml.ScalarNode:
		return fmt.Sprintf("S(%q,%q,&%q)", n.Tag, n.Value, n.Anchor)
	case yaml.AliasNode:
		return fmt.Sprintf("A(%q)", n.Value)
	case yaml.MappingNode:
		parts := []string{}
		for i := 0; i+1 < len(n.Content); i += 2 {
			parts = append(parts, canonNode20(n.Content[i], path, wl)+"=>"+canonNode20(n.Content[i+1], path+"."+n.Content[i].Value, wl))
		}
		sort.Strings(parts)
		return fmt.Sprintf("M(%q,&%q){%s}", n.Tag, n.Anchor, strings.Join(parts, ","))
	case yaml.SequenceNode:
		parts := []string{}
		for _, e := range n.Content {
			parts = append(parts, canonNode20(e, path, wl))
		}
		if _, found := refWlFields20[path]; found && wl {
			sort.Strings(parts)
		}
		return fmt.Sprintf("Q(%q,&%q)[%s]", n.Tag, n.Anchor, strings.Join(parts, ","))
	}
	return "?"
}

// schemaLaw20: with UseSchema, scalars at positions whose OpenAPI type is known follow that type in the
// written output, and a string keeps its text.  Evaluated for built-in kinds at well-known positions.
func schemaLaw20(c case20, y string) (vs []verdict20, nStr, nInt int) {
	in, e1 := read20(c.Yaml, true)
	yd := splitDocs20(y)
	if e1 != nil || len(in) != len(yd) {
		return nil, 0, 0
	}
	for i, n := range in {
		kind, api, ok := typeMeta20(n)
		if !ok || fmtOptOut20(n) || docDupKeys20(n) {
			continue
		}
		root := openapi.SchemaForResourceType(kyaml.TypeMeta{APIVersion: api, Kind: kind})
		if root == nil {
			continue
		}
		ff := facts20{}
		gatherFacts20(n.YNode(), "", false, &ff)
		if ff.alias {
			continue
		}
		yv, err := jsonValue20(yd[i])
		if err != nil {
			continue
		}
		for _, sp := range schemaSites20(kind, api) {
			for _, site := range lookupSites20(n.YNode(), yv, sp.path, root) {
				x := site.node
				if siteType20(site.sch) != sp.typ {
					continue // the real schema does not give this position the type the site table expects
				}
				if x.Kind != yaml.ScalarNode || x.Tag == "!!null" || x.Style&yaml.TaggedStyle != 0 || x.Tag == "!!binary" ||
					x.Tag == "!!merge" || strings.Contains(x.Value, "\n") {
					continue
				}
				switch sp.typ {
				case "int-or-string":
					// FormatNonStringStyle must not touch such a position: the written scalar reads back with the
					// typed value it had (a number stays a number, a quoted number stays a string)
					nStr++
					want, err := jsonValue20("v: " + scalarText20(x) + "\n")
					if err != nil {
						break
					}
					if wm, ok := want.(map[string]interface{}); ok && !reflect.DeepEqual(wm["v"], site.val) {
						vs = append(vs, verdict20{"schema_quote", "schema/int-or-string-retyped",
							fmt.Sprintf("%s: int-or-string scalar %s is read back as %#v (was %#v)", sp.path, scalarText20(x), site.val, wm["v"])})
					}
				case "string":
					nStr++
					if s, isStr := site.val.(string); !isStr || s != x.Value {
						vs = append(vs, verdict20{"schema_quote", "schema/string-retyped",
							fmt.Sprintf("%s: string-typed scalar %q is read back as %#v", sp.path, x.Value, site.val)})
					}
				case "integer", "boolean", "number":
					nInt++
					if kyaml.IsValueNonString(x.Value) && valueHasType20(x.Value, sp.typ) {
						if _, isStr := site.val.(string); isStr {
							vs = append(vs, verdict20{"schema_quote", "schema/number-left-quoted",
								fmt.Sprintf("%s: %s-typed scalar %q is read back as the string %#v", sp.path, sp.typ, x.Value, site.val)})
						}
					}
				}
			}
		}
	}
	return vs, nStr, nInt
}

// scalarText20: a scalar as it is written (plain, or re-quoted the way its style says)
func scalarText20(x *yaml.Node) string {
	switch {
	case x.Style&yaml.DoubleQuotedStyle != 0:
		b, _ := json.Marshal(x.Value)
		return string(b)
	case x.Style&yaml.SingleQuotedStyle != 0:
		return "'" + strings.ReplaceAll(x.Value, "'", "''") + "'"
	}
	return x.Value
}

type schemaSite20 struct {
	path string // dotted; "*" = every key of a mapping, "[]" = every element
	typ  string
}

func schemaSites20(kind, api string) []schemaSite20 {
	sites := []schemaSite20{{"metadata.labels.*", "string"}, {"metadata.annotations.*", "string"}, {"metadata.name", "string"}}
	switch {
	case kind == "ConfigMap" && api == "v1":
		sites = append(sites, schemaSite20{"data.*", "string"})
	case kind == "CustomResourceDefinition" && api == "apiextensions.k8s.io/v1":
		base := "spec.versions.[].schema.openAPIV3Schema.properties.*."
		sites = append(sites, schemaSite20{base + "minimum", "number"}, schemaSite20{base + "maximum", "number"},
			schemaSite20{base + "multipleOf", "number"}, schemaSite20{base + "maxLength", "integer"},
			schemaSite20{base + "exclusiveMinimum", "boolean"}, schemaSite20{base + "description", "string"})
	case kind == "Service" && api == "v1":
		sites = append(sites, schemaSite20{"spec.ports.[].targetPort", "int-or-string"})
		sites = append(sites, schemaSite20{"spec.ports.[].port", "integer"}, schemaSite20{"spec.ports.[].name", "string"},
			schemaSite20{"spec.publishNotReadyAddresses", "boolean"}, schemaSite20{"spec.sessionAffinity", "string"})
	case kind == "Secret" && api == "v1":
		sites = append(sites, schemaSite20{"stringData.*", "string"})
	case (kind == "Deployment" || kind == "StatefulSet") && api == "apps/v1":
		sites = append(sites,
			schemaSite20{"spec.replicas", "integer"},
			schemaSite20{"spec.strategy.rollingUpdate.maxSurge", "int-or-string"},
			schemaSite20{"spec.strategy.rollingUpdate.maxUnavailable", "int-or-string"},
			schemaSite20{"spec.template.spec.containers.[].livenessProbe.httpGet.port", "int-or-string"},
			schemaSite20{"spec.template.spec.containers.[].readinessProbe.httpGet.port", "int-or-string"},
			schemaSite20{"spec.paused", "boolean"},
			schemaSite20{"spec.minReadySeconds", "integer"},
			schemaSite20{"spec.template.spec.hostNetwork", "boolean"},
			schemaSite20{"spec.template.spec.containers.[].tty", "boolean"},
			schemaSite20{"spec.template.spec.containers.[].image", "string"},
			schemaSite20{"spec.template.spec.containers.[].name", "string"},
			schemaSite20{"spec.template.spec.containers.[].args.[]", "string"},
			schemaSite20{"spec.template.spec.containers.[].command.[]", "string"},
			schemaSite20{"spec.template.spec.containers.[].env.[].value", "string"},
			schemaSite20{"spec.template.spec.containers.[].ports.[].containerPort", "integer"},
			schemaSite20{"spec.template.spec.serviceAccountName", "string"},
			schemaSite20{"spec.template.spec.nodeSelector.*", "string"},
			schemaSite20{"spec.template.metadata.labels.*", "string"})
	}
	return sites
}

type site20 struct {
	node *yaml.Node
	val  interface{}
	sch  *openapi.ResourceSchema // the schema at this position (nil once unknown)
}

func schField20(s *openapi.ResourceSchema, k string) (out *openapi.ResourceSchema) {
	if s == nil || s.Schema == nil {
		return nil
	}
	defer func() { _ = recover() }()
	return s.Field(k)
}

func schElems20(s *openapi.ResourceSchema) (out *openapi.ResourceSchema) {
	if s == nil || s.Schema == nil {
		return nil
	}
	defer func() { _ = recover() }()
	return s.Elements()
}

// siteType20: the site's OpenAPI type as FormatNonStringStyle reads it ("" when it does not apply)
func siteType20(s *openapi.ResourceSchema) string {
	if s == nil || s.Schema == nil || len(s.Schema.Type) != 1 {
		return ""
	}
	t := s.Schema.Type[0]
	if t == "string" && s.Schema.Format == "int-or-string" {
		return "int-or-string"
	}
	return t
}

// lookupSites20 walks the input node tree and the output typed value in parallel along a site path.
// Keys are matched by name (documents with duplicate keys are excluded by the caller); list elements by
// position — so lists whose order the formatter may change are matched through their sort key instead.
func lookupSites20(n *yaml.Node, v interface{}, path string, root *openapi.ResourceSchema) []site20 {
	parts := strings.Split(path, ".")
	cur := []site20{{n, v, root}}
	for _, p := range parts {
		next := []site20{}
		for _, s := range cur {
			switch {
			case p == "*":
				m, ok := s.val.(map[string]interface{})
				if s.node.Kind != yaml.MappingNode || !ok {
					continue
				}
				for i := 0; i+1 < len(s.node.Content); i += 2 {
					if cv, ok := m[typedKey20(s.node.Content[i])]; ok {
						next = append(next, site20{s.node.Content[i+1], cv, schField20(s.sch, s.node.Content[i].Value)})
					}
				}
			case p == "[]":
				l, ok := s.val.([]interface{})
				if s.node.Kind != yaml.SequenceNode || !ok || len(l) != len(s.node.Content) {
					continue
				}
				// match elements by position after sorting both sides the same way when names are unique
				idx := matchElems20(s.node.Content, l)
				for i, j := range idx {
					if j >= 0 {
						next = append(next, site20{s.node.Content[i], l[j], schElems20(s.sch)})
					}
				}
			default:
				m, ok := s.val.(map[string]interface{})
				if s.node.Kind != yaml.MappingNode || !ok {
					continue
				}
				for i := 0; i+1 < len(s.node.Content); i += 2 {
					if s.node.Content[i].Value == p {
						if cv, ok := m[p]; ok {
							next = append(next, site20{s.node.Content[i+1], cv, schField20(s.sch, p)})
						}
						break
					}
				}
			}
		}
		cur = next
	}
	return cur
}

// matchElems20 pairs input elements with output elements: same position when the list was not reordered,
// otherwise by the unique "name" text; -1 when no safe pairing exists.
func matchElems20(in []*yaml.Node, out []interface{}) []int {
	idx := make([]int, len(in))
	names := map[string]int{}
	uniq := true
	for j, o := range out {
		m, ok := o.(map[string]interface{})
		if !ok {
			uniq = false
			break
		}
		nm, ok := m["name"].(string)
		if !ok {
			uniq = false
			break
		}
		if _, dup := names[nm]; dup {
			uniq = false
			break
		}
		names[nm] = j
	}
	for i, e := range in {
		idx[i] = -1
		if e.Kind != yaml.MappingNode {
			if !uniq {
				idx[i] = i
			}
			continue
		}
		if uniq {
			if j, ok := names[seqKey20(e, "name")]; ok {
				idx[i] = j
			}
		}
	}
	if !uniq {
		// scalars / unnamed elements: position is only safe when nothing could have been reordered
		for i := range in {
			idx[i] = -1
		}
		allScalar := true
		for _, e := range in {
			if e.Kind != yaml.ScalarNode {
				allScalar = false
			}
		}
		if allScalar {
			for i := range in {
				idx[i] = i
			}
		}
	}
	return idx
}

func fmtOptOut20(n *kyaml.RNode) bool {
	v, err := n.Pipe(kyaml.GetAnnotation(filters.FmtAnnotation))
	return err == nil && v != nil && v.YNode().Value == filters.FmtStrategyNone
}

// ------------------------------------------------------------------ one case: implementation + Coq term

type result20 struct {
	term       string
	ok         bool // representable for the model
	cls        string
	nontrivial bool
	facts      facts20
	skipWhy    string
	writtenComments           bool
	twinNeighbours            bool // consecutive documents: same kind, different apiVersion, exactly one with a schema
	schemaFound               bool
	quotedBySchema, unquotedBySchema, retaggedBySchema int
}

func runImpl20(c case20, withWritten bool) result20 {
	res := result20{}
	nodes, err := read20(c.Yaml, c.Omit)
	if err != nil {
		res.skipWhy = "read-error"
		return res
	}
	if len(nodes) == 0 {
		res.skipWhy = "empty-stream"
		return res
	}
	res.facts = factsOf20(nodes)
	// (the formatter sorts with sort.Stable: the model's stable sort is exact for every size, equal sort
	// keys included — nothing is skipped for that reason any more)
	// input terms + schema projection + nonstr table
	vals := map[string]bool{}
	docs := []string{}
	before := []string{}
	for _, n := range nodes {
		t, ok := cnodeTerm(n.YNode())
		if !ok {
			res.skipWhy = "unrepresentable"
			return res
		}
		before = append(before, t)
		docs = append(docs, "("+t+", "+rootSchema20(n, c.UseSchema)+")")
		scalarValues(n.YNode(), vals)
	}
	nonstr := []string{}
	hastype := []string{}
	if c.UseSchema {
		for _, s := range sortedKeys(vals) {
			if kyaml.IsValueNonString(s) {
				nonstr = append(nonstr, s)
				for _, t := range []string{"boolean", "integer", "number"} {
					if valueHasType20(s, t) {
						hastype = append(hastype, fmt.Sprintf("(%s, %s)", coqStr(s), coqStr(t)))
					}
				}
			}
		}
	}
	type st struct {
		style yaml.Style
		tag   string
	}
	snap := map[*yaml.Node]st{}
	var walk func(n *yaml.Node)
	walk = func(n *yaml.Node) {
		if n.Kind == yaml.ScalarNode {
			snap[n] = st{n.Style, n.Tag}
		}
		for _, ch := range n.Content {
			walk(ch)
		}
	}
	if c.UseSchema {
		for i := 1; i < len(nodes); i++ {
			k1, a1, ok1 := typeMeta20(nodes[i-1])
			k2, a2, ok2 := typeMeta20(nodes[i])
			if ok1 && ok2 && k1 == k2 && a1 != a2 {
				s1 := openapi.SchemaForResourceType(kyaml.TypeMeta{APIVersion: a1, Kind: k1}) != nil
				s2 := openapi.SchemaForResourceType(kyaml.TypeMeta{APIVersion: a2, Kind: k2}) != nil
				if s1 != s2 {
					res.twinNeighbours = true
				}
			}
		}
		for _, n := range nodes {
			walk(n.YNode())
			if kind, api, ok := typeMeta20(n); ok && openapi.SchemaForResourceType(kyaml.TypeMeta{APIVersion: api, Kind: kind}) != nil {
				res.schemaFound = true
			}
		}
	}
	var outs []*kyaml.RNode
	cls, _ := protect(func() error {
		var e error
		outs, e = filters.FormatFilter{UseSchema: c.UseSchema}.Filter(nodes)
		return e
	})
	res.cls = cls
	q := yaml.DoubleQuotedStyle | yaml.SingleQuotedStyle
	for n, b := range snap {
		switch {
		case b.style&q == 0 && n.Style&q != 0:
			res.quotedBySchema++
		case b.style&q != 0 && n.Style&q == 0:
			res.unquotedBySchema++
		case b.tag != n.Tag:
			res.retaggedBySchema++
		}
	}
	outTerm := "[]"
	if cls == ClsOk {
		t, ok := cnodeListTerm(outs)
		if !ok {
			res.skipWhy = "unrepresentable-output"
			return res
		}
		outTerm = t
		after := []string{}
		for _, n := range outs {
			a, _ := cnodeTerm(n.YNode())
			after = append(after, a)
		}
		res.nontrivial = strings.Join(after, ";") != strings.Join(before, ";")
	}
	docComments := func(ns []*kyaml.RNode) []string {
		out := []string{}
		for _, n := range ns {
			if d := n.Document(); d != nil && d.Kind == yaml.DocumentNode {
				for _, cm := range []string{d.HeadComment, d.LineComment, d.FootComment} {
					if cm != "" {
						out = append(out, cm)
					}
				}
			}
		}
		return out
	}
	dcIn, dcOut := docComments(nodes), []string{}
	written := "None"
	if withWritten && !c.Omit && cls == ClsOk && !res.facts.complexKey {
		y, cls2, _ := format20(c.Yaml, c.UseSchema)
		if cls2 == ClsOk {
			wn, err := read20(y, true)
			if err == nil {
				dcOut = docComments(wn)
				if t, ok := cnodeListTerm(wn); ok {
					// comment lines are compared only when go-yaml alone round-trips them on this input
					wc := false
					if xc, okx := commentLines20(c.Yaml); okx {
						if id, okid := identity20(c.Yaml); okid {
							if ic, oki := commentLines20(id); oki && reflect.DeepEqual(xc, ic) {
								wc = true
							}
						}
					}
					written = "(Some (" + t + ", " + coqBool(wc) + "))"
					if wc {
						res.writtenComments = true
					}
				}
			}
		}
	}
	if res.skipWhy != "" {
		return res
	}
	scal := []string{}
	for _, v := range sortedKeys(vals) {
		scal = append(scal, scalObs20(v))
	}
	res.term = fmt.Sprintf("(KDocs [%s] %s [%s] %s %s %s %s %s [%s])", strings.Join(docs, "; "), coqStrList(nonstr),
		strings.Join(hastype, "; "), cls, outTerm, written,
		coqStrList(dcIn), coqStrList(dcOut), strings.Join(scal, "; "))
	res.ok = true
	return res
}

func tableCase20() string {
	names := []string{}
	for k := range kyaml.FieldOrder {
		names = append(names, k)
	}
	sort.Strings(names)
	ranks := []string{}
	for _, k := range names {
		ranks = append(ranks, fmt.Sprintf("(%s, Some %d%%N)", coqStr(k), kyaml.FieldOrder[k]))
	}
	for _, k := range []string{"", "zzz", "Name", "name ", "apiversion", "containers2", "x"} {
		if _, ok := kyaml.FieldOrder[k]; !ok {
			ranks = append(ranks, fmt.Sprintf("(%s, None)", coqStr(k)))
		}
	}
	probe := func(s interface{ Has(string) bool }, extra []string) string {
		out := []string{}
		for _, k := range extra {
			out = append(out, fmt.Sprintf("(%s, %s)", coqStr(k), coqBool(s.Has(k))))
		}
		return "[" + strings.Join(out, "; ") + "]"
	}
	kinds := []string{"CronJob", "DaemonSet", "Deployment", "Job", "ReplicaSet", "StatefulSet", "ValidatingWebhookConfiguration",
		"MutatingWebhookConfiguration", "Pod", "ConfigMap", "deployment", "", "Service", "Foo"}
	apis := []string{"apps/v1", "apps/v1beta1", "apps/v1beta2", "batch/v1", "batch/v1beta1", "extensions/v1beta1", "v1",
		"admissionregistration.k8s.io/v1", "admissionregistration.k8s.io/v1beta1", "example.com/v1", "", "apps", "v2"}
	for k := range kyaml.WhitelistedListSortKinds {
		kinds = append(kinds, k)
	}
	for k := range kyaml.WhitelistedListSortApis {
		apis = append(apis, k)
	}
	sort.Strings(kinds)
	sort.Strings(apis)
	paths := []string{".spec.template.spec.containers", ".webhooks.rules.operations", "", ".spec", ".spec.containers",
		".spec.template.spec.initContainers", ".webhooks.rules", "spec.template.spec.containers"}
	for k := range kyaml.WhitelistedListSortFields {
		paths = append(paths, k)
	}
	sort.Strings(paths)
	fields := []string{}
	for _, p := range paths {
		if v, ok := kyaml.WhitelistedListSortFields[p]; ok {
			fields = append(fields, fmt.Sprintf("(%s, Some %s)", coqStr(p), coqStr(v)))
		} else {
			fields = append(fields, fmt.Sprintf("(%s, None)", coqStr(p)))
		}
	}
	sizes := fmt.Sprintf("[%d; %d; %d; %d]%%N", len(kyaml.FieldOrder), len(kyaml.WhitelistedListSortKinds),
		len(kyaml.WhitelistedListSortApis), len(kyaml.WhitelistedListSortFields))
	refFields := []string{}
	for _, p := range refWlFieldsList20 {
		refFields = append(refFields, fmt.Sprintf("(%s, %s)", coqStr(p[0]), coqStr(p[1])))
	}
	return fmt.Sprintf("(KTable [%s] %s %s [%s] %s %d %d %s %s [%s])", strings.Join(ranks, "; "),
		probe(kyaml.WhitelistedListSortKinds, kinds), probe(kyaml.WhitelistedListSortApis, apis),
		strings.Join(fields, "; "), sizes, uint32(yaml.DoubleQuotedStyle), uint32(yaml.SingleQuotedStyle),
		coqStrList(refWlKinds20), coqStrList(refWlApis20), strings.Join(refFields, "; "))
}

// ------------------------------------------------------------------ driver

func known20Classes() map[string]bool {
	return map[string]bool{}
}

// work20: one case with everything computed on the implementation (done in parallel by runBatch20);
// the bookkeeping in record20 is sequential and in generation order, so the output is deterministic.
type work20 struct {
	c       case20
	toModel bool
	src     string
	res     result20
	vs      []verdict20
	info    map[string]string
}

func runBatch20(r *Run, batch []*work20) {
	workers := 8
	ch := make(chan *work20)
	done := make(chan bool)
	for w := 0; w < workers; w++ {
		go func() {
			for j := range ch {
				j.res = runImpl20(j.c, j.toModel)
				if j.res.skipWhy != "read-error" && j.res.skipWhy != "empty-stream" {
					j.vs, j.info = laws20(j.c)
				}
			}
			done <- true
		}()
	}
	for _, j := range batch {
		ch <- j
	}
	close(ch)
	for w := 0; w < workers; w++ {
		<-done
	}
	for _, j := range batch {
		record20(r, j)
	}
}

func runOne20(r *Run, c case20, toModel bool, src string) {
	runBatch20(r, []*work20{{c: c, toModel: toModel, src: src}})
}

func record20(r *Run, j *work20) {
	c, toModel, src, res := j.c, j.toModel, j.src, j.res
	r.Count("source", src)
	if res.skipWhy == "read-error" || res.skipWhy == "empty-stream" {
		r.Count("outcome", res.skipWhy)
		r.Meta.Skipped++
		return
	}
	r.Count("outcome", res.cls)
	r.Count("use_schema", fmt.Sprint(c.UseSchema))
	f := res.facts
	r.Count("max_map_size", bucket20(f.maxMap))
	r.Count("comments", bucket20(f.comments))
	flag := func(name string, b bool) {
		if b {
			r.Count("shape", name)
		}
	}
	flag("dup_keys", f.dupKeys)
	flag("equal_sort_keys_beyond_12", f.bigEquiv)
	flag("nested_seq_in_keyed_list", f.nestedSeqKeyed)
	flag("dup_sort_field", f.dupSortField)
	flag("alias", f.alias)
	flag("complex_key", f.complexKey)
	flag("non_whitelisted_keyed_list_out_of_order", f.otherKeyedUnsorted)
	flag("ambiguous_plain_keys_2plus", f.ambiguousKeys >= 2)
	flag("whitelisted_seq", f.wlSeqs > 0)
	flag("whitelisted_seq_out_of_order", f.wlReordered)
	flag("changed_by_filter", res.nontrivial)
	if toModel {
		flag("written_output_comments_compared", res.writtenComments)
	}
	flag("empty_metadata", f.emptyMeta)
	if c.UseSchema {
		flag("same_kind_other_group_neighbours", res.twinNeighbours)
		flag("schema_found", res.schemaFound)
		flag("schema_quoted_a_scalar", res.quotedBySchema > 0)
		flag("schema_unquoted_a_scalar", res.unquotedBySchema > 0)
		flag("schema_retagged_only", res.retaggedBySchema > 0)
	}
	if toModel {
		if !res.ok {
			r.Count("skipped", res.skipWhy)
			r.Meta.Skipped++
		} else {
			r.AddCase(res.term, c, res.nontrivial)
		}
	} else {
		r.AddEval(c.Yaml, res.nontrivial)
	}
	vs, info := j.vs, j.info
	if v, ok := info["comments"]; ok {
		r.Count("comment_oracle", v)
	}
	if v, ok := info["idempotence"]; ok {
		r.Count("idempotence_oracle", v)
	}
	if v, ok := info["value"]; ok {
		r.Count("value_oracle", v)
	}
	if v, ok := info["pairs"]; ok {
		r.Count("pairs_oracle", v)
	}
	if v, ok := info["order"]; ok {
		r.Count("order_oracle", v)
	}
	if v, ok := info["stream"]; ok {
		r.Count("stream_oracle", v)
	}
	if v, ok := info["keys"]; ok {
		r.Count("keys_oracle", v)
	}
	if v, ok := info["keyskel"]; ok {
		r.Count("key_type_oracle", v)
	}
	for _, k := range []string{"schema_sites_string", "schema_sites_integer"} {
		if v, ok := info[k]; ok {
			n := 0
			fmt.Sscan(v, &n)
			m := r.Meta.Distribution["schema_oracle"]
			if m == nil {
				m = map[string]int{}
				r.Meta.Distribution["schema_oracle"] = m
			}
			m[k] += n
		}
	}
	for _, v := range vs {
		r.Count("law_failures", v.class)
		r.Violation(OracleViolation{Law: v.law, Class: "C20/" + v.class, Detail: v.detail, Replay: c})
	}
}

func bucket20(n int) string {
	switch {
	case n == 0:
		return "0"
	case n <= 3:
		return "1-3"
	case n <= 7:
		return "4-7"
	case n <= 12:
		return "8-12"
	default:
		return ">12"
	}
}

func runC20(r *Run, rng *Rng, tier string) error {
	nModel, nLaw := 360, 1600
	if tier == "thorough" {
		nModel, nLaw = 2400, 20000
	}
	r.Meta.Rule = "streams of 1-3 generated resource documents (workload / webhook / configmap / free-form shapes; whitelisted and other kinds; " +
		"known + unknown field names in shuffled order; keyed and primitive lists incl. the whitelisted paths; adversarial scalars; " +
		"head/line/foot comments; rare duplicate keys, >12-entry maps/lists, nested lists, anchors, opt-out annotation, missing kind/apiVersion). " +
		"non-trivial = Filter changed at least one node tree; distinct by hash of the case term"
	// NewRng(seed) states are shifts of one another (seed n+1 = seed n advanced by one step): derive the
	// run's generator from a mixed output so that different seeds give unrelated streams
	rng = rng.Fork().Fork()
	r.shard = 30 // case terms are large (three node trees with comments per case): many small shards, evaluated in parallel
	r.AddCase(tableCase20(), map[string]string{"kind": "table"}, true)
	nPool := 1500
	if tier == "thorough" {
		nPool = 12000
	}
	r.AddCase(scalarPool20(rng.Fork(), nPool), map[string]string{"kind": "scalar-resolution-pool"}, true)
	for _, c := range loadCorpus20() {
		runOne20(r, c, true, "corpus")
	}
	batch := []*work20{}
	flush := func() {
		runBatch20(r, batch)
		batch = batch[:0]
	}
	for i := 0; i < nModel; i++ {
		g := rng.Fork()
		batch = append(batch, &work20{c: genCase20(g), toModel: true, src: "generated-model"})
		if len(batch) >= 256 {
			flush()
		}
	}
	for i := 0; i < nLaw; i++ {
		g := rng.Fork()
		batch = append(batch, &work20{c: genCase20(g), toModel: false, src: "generated-laws"})
		if len(batch) >= 256 {
			flush()
		}
	}
	flush()
	return nil
}

func loadCorpus20() []case20 {
	out := []case20{}
	dir := filepath.Join(verifRoot(), "corpus", "C20")
	ents, err := os.ReadDir(dir)
	if err != nil {
		return out
	}
	names := []string{}
	for _, e := range ents {
		if strings.HasSuffix(e.Name(), ".yaml") {
			names = append(names, e.Name())
		}
	}
	sort.Strings(names)
	for _, n := range names {
		data, err := os.ReadFile(filepath.Join(dir, n))
		if err != nil {
			continue
		}
		out = append(out, case20{Yaml: string(data), UseSchema: strings.Contains(n, "schema")})
	}
	return out
}

func replayC20(path string) (bool, string, error) {
	data, err := os.ReadFile(path)
	if err != nil {
		return false, "", err
	}
	var rp struct {
		Case case20 `json:"case"`
	}
	if err := json.Unmarshal(data, &rp); err != nil {
		return false, "", err
	}
	c := rp.Case
	y, cls, msg := format20(c.Yaml, c.UseSchema)
	detail := fmt.Sprintf("input:\n%s\nclass=%s msg=%q\noutput:\n%s", c.Yaml, cls, msg, y)
	vs, _ := laws20(c)
	if len(vs) > 0 {
		for _, v := range vs {
			detail += fmt.Sprintf("\nLAW %s class=C20/%s: %s", v.law, v.class, v.detail)
		}
		return true, detail, nil
	}
	return false, detail, nil
}
