package main

import (
	"fmt"
	"io/fs"
	"log"
	"os"
	"path/filepath"
	"sort"
	"strings"

	"sigs.k8s.io/kustomize/api/krusty"
	"sigs.k8s.io/kustomize/api/krusty/localizer"
	"sigs.k8s.io/kustomize/kyaml/filesys"
)

// C18 on-disk oracle family: a dozen fixed trees in a temporary directory with REAL symbolic
// links, localized with filesys.MakeFsOnDisk().  The Coq model and the generated trees use the
// in-memory file system, which has no symlinks; these runs cover what only a real file system
// can show (a lexically descending reference that leaves the scope through a link, links to
// files, dangling links, linked arguments).  No fault is injected here.
//
// The whole temporary tree is snapshotted (lstat: directories, file bytes, link targets) before
// and after.  Laws:
//   writes ⊆ newDir / source unchanged : every difference between the snapshots lies below the
//                                        (symlink-resolved) destination directory
//   out-of-scope reference ⇒ error     : a tree whose reference resolves outside the scope (or
//                                        outside the root for files) must be rejected
//   all-or-nothing                      : after an error the destination does not exist
//   valid tree ⇒ success                : a tree whose links stay inside the scope must localize
//   equivalent                          : after success krusty.Run of the copy == krusty.Run of the source

type diskTree struct {
	name   string
	files  map[string]string // relative to the temp base
	dirs   []string
	links  map[string]string // link path -> target (as written into the link)
	target string
	scope  string // "" = default
	newDir string
	expect string // "ok" | "err"
	why    string
}

type diskNode struct {
	kind    byte // 'd', 'f', 'l'
	content string
}

func diskSnapshot(base string) map[string]diskNode {
	out := map[string]diskNode{}
	_ = filepath.WalkDir(base, func(p string, d fs.DirEntry, err error) error {
		if err != nil || p == base {
			return nil
		}
		rel, _ := filepath.Rel(base, p)
		info, err := os.Lstat(p)
		if err != nil {
			return nil
		}
		switch {
		case info.Mode()&os.ModeSymlink != 0:
			t, _ := os.Readlink(p)
			out[rel] = diskNode{'l', t}
		case info.IsDir():
			out[rel] = diskNode{'d', ""}
		default:
			b, _ := os.ReadFile(p)
			out[rel] = diskNode{'f', string(b)}
		}
		return nil
	})
	return out
}

func diskCM(name string) string {
	return "apiVersion: v1\nkind: ConfigMap\nmetadata:\n  name: " + name + "\ndata:\n  k: v\n"
}

func diskTrees() []diskTree {
	libShared := map[string]string{
		"libs/shared/kustomization.yaml": "# shared library\nresources:\n  - lib.yaml\n",
		"libs/shared/lib.yaml":           diskCM("lib"),
	}
	merge := func(ms ...map[string]string) map[string]string {
		out := map[string]string{}
		for _, m := range ms {
			for k, v := range m {
				out[k] = v
			}
		}
		return out
	}
	return []diskTree{
		{name: "plain", expect: "ok", why: "no links (sanity)",
			files: map[string]string{"scope/t/kustomization.yaml": "resources:\n- cm.yaml\n- ../base\n", "scope/t/cm.yaml": diskCM("a"),
				"scope/base/kustomization.yaml": "resources:\n- b.yaml\n", "scope/base/b.yaml": diskCM("b")},
			target: "scope/t", scope: "scope", newDir: "out"},
		{name: "dir-link-inside-scope", expect: "ok", why: "t/linked -> ../base stays inside the scope",
			files: map[string]string{"scope/t/kustomization.yaml": "resources:\n- cm.yaml\n- linked\n", "scope/t/cm.yaml": diskCM("a"),
				"scope/base/kustomization.yaml": "resources:\n- b.yaml\n", "scope/base/b.yaml": diskCM("b")},
			links:  map[string]string{"scope/t/linked": "../base"},
			target: "scope/t", scope: "scope", newDir: "out"},
		{name: "dir-link-out-of-scope", expect: "err", why: "t/shared -> ../../libs/shared leaves the scope through a link",
			files:  merge(libShared, map[string]string{"scope/t/kustomization.yaml": "resources:\n- cm.yaml\n- shared\n", "scope/t/cm.yaml": diskCM("a")}),
			links:  map[string]string{"scope/t/shared": "../../libs/shared"},
			target: "scope/t", scope: "scope", newDir: "out"},
		{name: "dir-link-out-of-scope-nested-target", expect: "err", why: "as above, target two levels below the scope, destination beside the scope",
			files:  merge(libShared, map[string]string{"scope/a/t/kustomization.yaml": "resources:\n- shared\n"}),
			links:  map[string]string{"scope/a/t/shared": "../../../libs/shared"},
			target: "scope/a/t", scope: "scope", newDir: "newdst"},
		{name: "dir-link-out-of-default-scope", expect: "err", why: "scope defaults to the target; link to a sibling directory",
			files:  merge(libShared, map[string]string{"scope/t/kustomization.yaml": "bases:\n- shared\n"}),
			links:  map[string]string{"scope/t/shared": "../../libs/shared"},
			target: "scope/t", scope: "", newDir: "out"},
		{name: "file-link-inside-root", expect: "ok", why: "cm-link.yaml -> d/cm.yaml: the copy goes to the cleaned location",
			files:  map[string]string{"scope/t/kustomization.yaml": "resources:\n- cm-link.yaml\n", "scope/t/d/cm.yaml": diskCM("a")},
			links:  map[string]string{"scope/t/cm-link.yaml": "d/cm.yaml"},
			target: "scope/t", scope: "scope", newDir: "out"},
		{name: "file-link-out-of-root", expect: "err", why: "a file link to ../other.yaml resolves outside the root",
			files:  map[string]string{"scope/t/kustomization.yaml": "resources:\n- o-link.yaml\n", "scope/other.yaml": diskCM("o")},
			links:  map[string]string{"scope/t/o-link.yaml": "../other.yaml"},
			target: "scope/t", scope: "scope", newDir: "out"},
		{name: "generator-file-link-out-of-scope", expect: "err", why: "configMapGenerator file through a link to a file outside the scope",
			files:  map[string]string{"scope/t/kustomization.yaml": "configMapGenerator:\n- name: g\n  files:\n  - k=secret-link\n", "outside/secret.txt": "s3cret\n"},
			links:  map[string]string{"scope/t/secret-link": "../../outside/secret.txt"},
			target: "scope/t", scope: "scope", newDir: "out"},
		{name: "link-to-newdir-parent", expect: "err", why: "t/up -> the directory that holds the destination (outside the scope)",
			files:  map[string]string{"scope/t/kustomization.yaml": "resources:\n- cm.yaml\n- up\n", "scope/t/cm.yaml": diskCM("a"), "kustomization.yaml": "resources: []\n"},
			links:  map[string]string{"scope/t/up": "../.."},
			target: "scope/t", scope: "scope", newDir: "out"},
		{name: "link-to-scope-itself", expect: "err", why: "t/up -> .. (the scope, which holds the destination): an ancestor",
			files:  map[string]string{"scope/t/kustomization.yaml": "resources:\n- up\n", "scope/kustomization.yaml": "resources: []\n"},
			links:  map[string]string{"scope/t/up": ".."},
			target: "scope/t", scope: "scope", newDir: "scope/out"},
		{name: "dangling-link", expect: "err", why: "resources entry is a dangling link",
			files:  map[string]string{"scope/t/kustomization.yaml": "resources:\n- cm.yaml\n- gone\n", "scope/t/cm.yaml": diskCM("a")},
			links:  map[string]string{"scope/t/gone": "../nowhere"},
			target: "scope/t", scope: "scope", newDir: "out"},
		{name: "linked-target-and-scope", expect: "ok", why: "target and scope arguments are links to the real directories",
			files: map[string]string{"real/scope/t/kustomization.yaml": "resources:\n- cm.yaml\n- ../base\n", "real/scope/t/cm.yaml": diskCM("a"),
				"real/scope/base/kustomization.yaml": "resources:\n- b.yaml\n", "real/scope/base/b.yaml": diskCM("b")},
			links:  map[string]string{"lscope": "real/scope", "ltarget": "real/scope/t"},
			target: "ltarget", scope: "lscope", newDir: "out"},
		{name: "newdir-below-linked-parent", expect: "ok", why: "the destination's parent is a link",
			files:  map[string]string{"scope/t/kustomization.yaml": "resources:\n- cm.yaml\n", "scope/t/cm.yaml": diskCM("a")},
			dirs:   []string{"realout"},
			links:  map[string]string{"lout": "realout"},
			target: "scope/t", scope: "scope", newDir: "lout/new"},
	}
}

func diskBuild(dir string) (string, error) {
	saved := os.Stderr
	if devnull, e := os.OpenFile(os.DevNull, os.O_WRONLY, 0); e == nil {
		os.Stderr = devnull
		defer func() { os.Stderr = saved; devnull.Close() }()
	}
	var out string
	var err error
	func() {
		defer func() {
			if r := recover(); r != nil {
				err = fmt.Errorf("panic: %v", r)
			}
		}()
		m, e := krusty.MakeKustomizer(krusty.MakeDefaultOptions()).Run(filesys.MakeFsOnDisk(), dir)
		if e != nil {
			err = e
			return
		}
		y, e := m.AsYaml()
		out, err = string(y), e
	}()
	return out, err
}

// runDisk18 materialises every tree, runs the real localizer on the real file system and
// evaluates the laws. Returns the number of trees run.
func runDisk18(r *Run) int {
	log.SetOutput(fatalTrap{})
	n := 0
	for _, dt := range diskTrees() {
		base, err := os.MkdirTemp("", "c18-disk-")
		if err != nil {
			r.Meta.Notes = append(r.Meta.Notes, "on-disk oracle family skipped: "+err.Error())
			return n
		}
		base, _ = filepath.EvalSymlinks(base)
		func() {
			defer os.RemoveAll(base)
			for _, d := range dt.dirs {
				_ = os.MkdirAll(filepath.Join(base, d), 0o755)
			}
			for p, c := range dt.files {
				_ = os.MkdirAll(filepath.Join(base, filepath.Dir(p)), 0o755)
				_ = os.WriteFile(filepath.Join(base, p), []byte(c), 0o644)
			}
			links := make([]string, 0, len(dt.links))
			for l := range dt.links {
				links = append(links, l)
			}
			sort.Strings(links)
			for _, l := range links {
				_ = os.MkdirAll(filepath.Join(base, filepath.Dir(l)), 0o755)
				if err := os.Symlink(dt.links[l], filepath.Join(base, l)); err != nil {
					r.Meta.Notes = append(r.Meta.Notes, "symlink failed: "+err.Error())
					return
				}
			}
			n++
			before := diskSnapshot(base)
			target := filepath.Join(base, dt.target)
			scope := ""
			if dt.scope != "" {
				scope = filepath.Join(base, dt.scope)
			}
			newDir := filepath.Join(base, dt.newDir)
			// where the destination really is (its parent may be a link)
			realNew := newDir
			if rp, err := filepath.EvalSymlinks(filepath.Dir(newDir)); err == nil {
				realNew = filepath.Join(rp, filepath.Base(newDir))
			}
			relNew, _ := filepath.Rel(base, realNew)
			origBuild, origErr := diskBuild(target)
			dst := ""
			cls, msg := runTrapped(func() error {
				d, err := localizer.Run(filesys.MakeFsOnDisk(), target, scope, newDir)
				if err == nil {
					dst = d
				}
				return err
			})
			after := diskSnapshot(base)
			r.Count("ondisk-tree", dt.name+":"+cls)
			r.AddEval("ondisk|"+dt.name, true)
			viol := func(law, class, detail string) {
				r.Violation(OracleViolation{Law: law, Class: class, Detail: "on-disk tree " + dt.name + " (" + dt.why + "): " + detail,
					Replay: map[string]interface{}{"ondisk_tree": dt.name}})
			}
			// writes ⊆ newDir, source unchanged
			var changed []string
			for p, a := range after {
				if insideDir(relNew, p) {
					continue
				}
				if b, ok := before[p]; !ok || b != a {
					changed = append(changed, p)
				}
			}
			for p := range before {
				if _, ok := after[p]; !ok && !insideDir(relNew, p) {
					changed = append(changed, p+" (removed)")
				}
			}
			sort.Strings(changed)
			if len(changed) > 0 {
				viol("writes_confined", "C18/ondisk:write-outside-newdir", fmt.Sprintf("paths outside the destination %q were created/modified/removed: %s", relNew, strings.Join(changed, ", ")))
			}
			_, left := after[relNew]
			switch {
			case cls != kOk && left:
				viol("all_or_nothing", "C18/ondisk:newdir-left", fmt.Sprintf("localize ended with %s (%.200s) and left %q behind", cls, msg, relNew))
			case dt.expect == "err" && cls == kOk:
				viol("confined", "C18/ondisk:out-of-scope-accepted", "a reference that resolves outside the scope / root was accepted: localize reported success")
			case dt.expect == "ok" && cls != kOk:
				viol("equivalent", "C18/ondisk:valid-tree-rejected", fmt.Sprintf("all links stay inside the scope, yet localize ended with %s: %.300s", cls, msg))
			case cls != kOk && cls != kErr:
				viol("all_or_nothing", "C18/ondisk:crash", fmt.Sprintf("localize ended with %s: %.200s", cls, msg))
			}
			if cls == kOk && origErr == nil {
				realTarget, _ := filepath.EvalSymlinks(target)
				realScope := realTarget
				if scope != "" {
					realScope, _ = filepath.EvalSymlinks(scope)
				}
				rel, _ := filepath.Rel(realScope, realTarget)
				lb, lerr := diskBuild(filepath.Join(dst, rel))
				switch {
				case lerr != nil:
					viol("equivalent", "C18/ondisk:localized-build-fails", fmt.Sprintf("the source builds, the copy does not: %.200s", lerr.Error()))
				case lb != origBuild:
					viol("equivalent", "C18/ondisk:build-differs", "build output of the copy differs from the source's")
				default:
					r.Count("law", "ondisk:builds-identical")
				}
			}
		}()
	}
	return n
}
