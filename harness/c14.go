package main

import (
	"encoding/json"
	"fmt"
	"os"
	"strconv"
	"strings"
	"sync"

	kyaml "sigs.k8s.io/kustomize/kyaml/yaml"
)

// C14: kyaml path operations obey get/set laws; field-spec traversal visits exactly the denoted nodes.
//
// Correspondence: PathGetter/FieldSetter/FieldClearer and fieldspec.Filter vs KV.Yaml.Fns / KV.Yaml.FieldSpec
//   on (doc, path, op) and (object, field spec, SetValue) cases (c14.go, c14_fs.go).
// Search: the lens laws evaluated directly on kyaml under exactly the hypotheses of the theorems in
//   Props/C14.v (laws14), on random cases and on an exhaustive small scope (c14_enum.go); the JSON reference
//   model of Yaml/JsonRef.v is mirrored in c14_ref.go.

func init() {
	register("C14", propDef{
		header:     "From KV Require Import Yaml.NodeApi Corr.C14.\nOpen Scope string_scope.\n",
		caseType:   "case14",
		mismatchFn: "mismatches14",
		run:        runC14,
		replay:     replayC14,
	})
}

// protect14 is protect without the error text: kyaml's InvalidNodeKindError.Error() YAML-encodes the whole
// node, which dominated the run time of the exhaustive enumeration. The message of a panic is kept.
func protect14(f func() error) (cls string, msg string) {
	defer func() {
		if r := recover(); r != nil {
			cls = ClsPanic
			msg = fmt.Sprint(r)
		}
	}()
	if err := f(); err != nil {
		return ClsErr, ""
	}
	return ClsOk, ""
}

// sink receives what the oracles produce (a *Run, or a per-worker buffer in the exhaustive enumeration).
type sink interface {
	Violation(v OracleViolation)
	Count(dim, key string)
}

// ---- small document AST, emitted as block YAML and parsed by kyaml ----

type gnode struct {
	kind int // 0 scalar, 1 map, 2 seq
	text string
	keys []string
	vals []*gnode
}

func (g *gnode) emit(b *strings.Builder, indent int, inline bool) {
	pad := strings.Repeat("  ", indent)
	switch g.kind {
	case 0:
		b.WriteString(g.text)
		b.WriteString("\n")
	case 1:
		if len(g.keys) == 0 {
			b.WriteString("{}\n")
			return
		}
		for i, k := range g.keys {
			if i > 0 || !inline {
				b.WriteString(pad)
			}
			b.WriteString(k)
			b.WriteString(":")
			v := g.vals[i]
			if v.kind == 0 || (v.kind == 1 && len(v.keys) == 0) || (v.kind == 2 && len(v.vals) == 0) {
				b.WriteString(" ")
				v.emit(b, indent+1, true)
			} else {
				b.WriteString("\n")
				v.emit(b, indent+1, false)
			}
		}
	case 2:
		if len(g.vals) == 0 {
			b.WriteString("[]\n")
			return
		}
		for i, v := range g.vals {
			if i > 0 || !inline {
				b.WriteString(pad)
			}
			b.WriteString("- ")
			v.emit(b, indent+1, true)
		}
	}
}

func (g *gnode) yaml() string {
	var b strings.Builder
	g.emit(&b, 0, false)
	return b.String()
}

var c14Keys = []string{"a", "b", "name", "c"}
var c14Scalars = []string{"x", "y", "1", `"1"`, "null", "true", `""`, "yes", "x"}

func genNode14(rng *Rng, depth int, wantMap bool) *gnode {
	k := rng.Intn(10)
	if wantMap {
		k = 5
	}
	if depth <= 0 && !wantMap {
		k = 0
	}
	switch {
	case k < 4:
		return &gnode{kind: 0, text: rng.Pick(c14Scalars)}
	case k < 8:
		n := rng.Intn(4)
		if wantMap && n == 0 {
			n = 1
		}
		g := &gnode{kind: 1}
		used := map[string]bool{}
		for i := 0; i < n; i++ {
			key := rng.Pick(c14Keys)
			if used[key] && !rng.Chance(5) { // rarely allow a duplicate key
				continue
			}
			used[key] = true
			g.keys = append(g.keys, key)
			g.vals = append(g.vals, genNode14(rng, depth-1, false))
		}
		return g
	default:
		n := rng.Intn(4)
		g := &gnode{kind: 2}
		elemMap := rng.Chance(70)
		for i := 0; i < n; i++ {
			if elemMap && rng.Chance(20) { // a stray scalar / null among keyed elements
				g.vals = append(g.vals, &gnode{kind: 0, text: rng.Pick(c14Scalars)})
				continue
			}
			if elemMap {
				e := genNode14(rng, depth-1, true)
				if rng.Chance(70) { // keyed element
					has := false
					for _, k := range e.keys {
						if k == "name" {
							has = true
						}
					}
					if !has {
						e.keys = append([]string{"name"}, e.keys...)
						e.vals = append([]*gnode{{kind: 0, text: rng.Pick([]string{"x", "y", "z"})}}, e.vals...)
					}
				}
				g.vals = append(g.vals, e)
			} else {
				g.vals = append(g.vals, &gnode{kind: 0, text: rng.Pick(c14Scalars)})
			}
		}
		return g
	}
}

var c14Parts = []string{"a", "b", "name", "c", "a", "b",
	"[name=x]", "[name=y]", "[name=z]", "[a=1]", "[=x]", "[=y]", "[name=]",
	"0", "1", "2", "-"}
var c14OddParts = []string{"*", "[bad]", "-1", " a ", "", "+1", "[=]", "00", "[a=b=c]", "-0"}

func genPath14(rng *Rng, maxLen int) []string {
	n := rng.Intn(maxLen + 1)
	p := []string{}
	for i := 0; i < n; i++ {
		if rng.Chance(6) {
			p = append(p, rng.Pick(c14OddParts))
		} else {
			p = append(p, rng.Pick(c14Parts))
		}
	}
	return p
}

// genPathGuided14 follows the generated document most of the time (existing keys, indices in range, selectors
// that match an element) and leaves it with a random part now and then, so that deep branches are reached.
func genPathGuided14(rng *Rng, root *gnode, maxLen int) []string {
	n := rng.Intn(maxLen + 1)
	p := []string{}
	cur := root
	for i := 0; i < n; i++ {
		if cur == nil || rng.Chance(22) {
			if rng.Chance(15) {
				p = append(p, rng.Pick(c14OddParts))
			} else {
				p = append(p, rng.Pick(c14Parts))
			}
			cur = nil
			continue
		}
		switch cur.kind {
		case 1:
			if len(cur.keys) == 0 {
				p = append(p, rng.Pick(c14Keys))
				cur = nil
				continue
			}
			j := rng.Intn(len(cur.keys))
			p = append(p, cur.keys[j])
			cur = cur.vals[j]
		case 2:
			if len(cur.vals) == 0 {
				p = append(p, rng.Pick([]string{"0", "-", "[name=x]", "[=x]"}))
				cur = nil
				continue
			}
			j := rng.Intn(len(cur.vals))
			e := cur.vals[j]
			switch k := rng.Intn(4); {
			case k == 0:
				p = append(p, fmt.Sprint(j))
			case k == 1:
				p = append(p, "-")
				e = cur.vals[len(cur.vals)-1]
			case e.kind == 1 && len(e.keys) > 0:
				kj := rng.Intn(len(e.keys))
				if e.vals[kj].kind == 0 {
					p = append(p, "["+e.keys[kj]+"="+strings.Trim(e.vals[kj].text, `"`)+"]")
				} else {
					p = append(p, "["+e.keys[kj]+"=]")
				}
				// the selector returns the FIRST matching element, which may be an earlier one
				e = nil
			case e.kind == 0:
				p = append(p, "[="+strings.Trim(e.text, `"`)+"]")
				e = nil
			default:
				p = append(p, fmt.Sprint(j))
			}
			cur = e
		default:
			p = append(p, rng.Pick(c14Parts))
			cur = nil
		}
	}
	return p
}

// value specs for set operations: how the RNode is built matters (tags)
type vspec struct {
	Kind string `json:"kind"` // parse | scalar | string
	Text string `json:"text"`
}

var c14Values = []vspec{
	{"parse", "x"}, {"parse", "y"}, {"parse", "1"}, {"parse", `"1"`}, {"parse", "true"},
	{"scalar", "x"}, {"scalar", "yes"}, {"scalar", "1"}, {"string", "yes"}, {"string", "012"},
	{"string", "x"}, {"parse", "null"}, {"parse", "{k: v}"}, {"parse", "[p, q]"}, {"parse", "k: v\n"},
	{"scalar", ""}, {"string", "1e3"}, {"parse", "'on'"},
}

var vspecCache sync.Map // vspec -> *kyaml.RNode (parsed once; build hands out copies)

// build returns a fresh value node (FieldSetter mutates the style of the node it is given).
func (v vspec) build() *kyaml.RNode {
	switch v.Kind {
	case "scalar":
		return kyaml.NewScalarRNode(v.Text)
	case "string":
		return kyaml.NewStringRNode(v.Text)
	default:
		if n, ok := vspecCache.Load(v); ok {
			return n.(*kyaml.RNode).Copy()
		}
		n := kyaml.MustParse(v.Text)
		vspecCache.Store(v, n)
		return n.Copy()
	}
}

type case14 struct {
	Op     string     `json:"op"` // lookup | lookupcreate | put | putnc | clear | putscalar | fieldspec
	Kind   string     `json:"kind,omitempty"`
	Doc    string     `json:"doc"`
	Path   []string   `json:"path"`
	Name   string     `json:"name,omitempty"`
	Value  *vspec     `json:"value,omitempty"`
	Value2 *vspec     `json:"value2,omitempty"` // second value for the last-write-wins law (put)
	FS     *fsSpec    `json:"fs,omitempty"`     // field spec (op fieldspec)
	API    *apiSpec   `json:"api,omitempty"`    // node-API operation (c14_api.go)
	FSL    []*fsSpec  `json:"fsl,omitempty"`    // field specs of an fsslice.Filter (op fsslice); FSL[0] == FS
	Probes [][]string `json:"probes,omitempty"` // frame probes (paths q) recorded for replay
}

func kindOf(s string) int {
	switch s {
	case "KMap":
		return int(kyaml.MappingNode)
	case "KSeq":
		return int(kyaml.SequenceNode)
	case "KScalar":
		return int(kyaml.ScalarNode)
	default:
		return 0
	}
}

// exec14On runs the operation on the given document object (mutating it).
func exec14On(doc *kyaml.RNode, c case14) (cls string, found *kyaml.RNode, msg string) {
	if apiOps[c.Op] {
		cls, found, _, msg = execAPI14(doc, c)
		return cls, found, msg
	}
	cls, msg = protect14(func() error {
		var e error
		switch c.Op {
		case "lookup":
			found, e = doc.Pipe(kyaml.Lookup(c.Path...))
		case "lookupcreate":
			found, e = doc.Pipe(kyaml.LookupCreate(kyaml.Kind(kindOf(c.Kind)), c.Path...))
		case "put":
			found, e = doc.Pipe(kyaml.LookupCreate(kyaml.MappingNode, c.Path...), kyaml.SetField(c.Name, c.Value.build()))
		case "putnc":
			found, e = doc.Pipe(kyaml.Lookup(c.Path...), kyaml.SetField(c.Name, c.Value.build()))
		case "clear":
			found, e = doc.Pipe(kyaml.Lookup(c.Path...), kyaml.Clear(c.Name))
		case "putscalar":
			found, e = doc.Pipe(kyaml.LookupCreate(kyaml.ScalarNode, c.Path...), kyaml.FieldSetter{Value: c.Value.build()})
		case "copyindep":
			// clear, copy, write to the copy, write to the original: both documents are observed
			if _, e = doc.Pipe(kyaml.Lookup(c.Path...), kyaml.Clear(c.Name)); e != nil {
				return e
			}
			cp := doc.Copy()
			if _, e = cp.Pipe(kyaml.LookupCreate(kyaml.MappingNode, c.Path...), kyaml.SetField("zz1", kyaml.NewScalarRNode("1"))); e != nil {
				// the model runs the put on the original first: same error either way (same node kinds)
				return e
			}
			if _, e = doc.Pipe(kyaml.LookupCreate(kyaml.MappingNode, c.Path...), kyaml.SetField("zz2", kyaml.NewScalarRNode("2"))); e != nil {
				return e
			}
			found = cp
		case "fieldspec":
			_, e = doc.Pipe(c.FS.filter(nil))
		case "fsslice":
			_, e = doc.Pipe(sliceFilter14(c.FSL, nil))
		default:
			return fmt.Errorf("bad op")
		}
		return e
	})
	return cls, found, msg
}

// exec14Err is exec14On returning the error value (replay only: the text is expensive to build).
func exec14Err(doc *kyaml.RNode, c case14) (string, *kyaml.RNode, error) {
	var found *kyaml.RNode
	var e error
	switch c.Op {
	case "lookup":
		found, e = doc.Pipe(kyaml.Lookup(c.Path...))
	case "lookupcreate":
		found, e = doc.Pipe(kyaml.LookupCreate(kyaml.Kind(kindOf(c.Kind)), c.Path...))
	case "put":
		found, e = doc.Pipe(kyaml.LookupCreate(kyaml.MappingNode, c.Path...), kyaml.SetField(c.Name, c.Value.build()))
	case "putnc":
		found, e = doc.Pipe(kyaml.Lookup(c.Path...), kyaml.SetField(c.Name, c.Value.build()))
	case "clear":
		found, e = doc.Pipe(kyaml.Lookup(c.Path...), kyaml.Clear(c.Name))
	case "putscalar":
		found, e = doc.Pipe(kyaml.LookupCreate(kyaml.ScalarNode, c.Path...), kyaml.FieldSetter{Value: c.Value.build()})
	case "fieldspec":
		_, e = doc.Pipe(c.FS.filter(nil))
	case "fsslice":
		_, e = doc.Pipe(sliceFilter14(c.FSL, nil))
	default:
		e = fmt.Errorf("bad op")
	}
	return "", found, e
}

// exec14 runs the operation on a fresh parse of the document.
func exec14(c case14) (cls string, doc *kyaml.RNode, found *kyaml.RNode, msg string) {
	doc, err := kyaml.Parse(c.Doc)
	if err != nil {
		return "parse-error", nil, nil, err.Error()
	}
	cls, found, msg = exec14On(doc, c)
	return cls, doc, found, msg
}

func nodeTerm(n *kyaml.RNode) (string, bool) {
	if n == nil || n.YNode() == nil {
		return "", false
	}
	return coqNode(n.YNode())
}

func docString(n *kyaml.RNode) string {
	s, ok := nodeTerm(n)
	if !ok {
		return "<unrepresentable>"
	}
	return s
}

func optString(n *kyaml.RNode) string {
	if n == nil || n.YNode() == nil {
		return "<nil>"
	}
	return docString(n)
}

// ---------- path parts: mirror of KV.Yaml.Fns.classify / parse_path and of PathGetter.getFilter ----------

const (
	pkKey = iota
	pkIdx
	pkLast
	pkSel
	pkBadSel
	pkNeg
	pkWild
)

type part14 struct {
	kind    int
	key     string
	idx     int
	nm, val string
}

func classify14(p string) part14 {
	if i, err := strconv.Atoi(p); err == nil {
		if i < 0 {
			return part14{kind: pkNeg}
		}
		return part14{kind: pkIdx, idx: i}
	}
	switch {
	case p == "-":
		return part14{kind: pkLast}
	case p == "*":
		return part14{kind: pkWild}
	case kyaml.IsListIndex(p):
		nm, v, err := kyaml.SplitIndexNameValue(p)
		if err != nil {
			return part14{kind: pkBadSel}
		}
		return part14{kind: pkSel, nm: nm, val: v}
	}
	return part14{kind: pkKey, key: p}
}

func cleanPath14(path []string) []string {
	out := []string{}
	for _, p := range path {
		p = strings.TrimSpace(p)
		if p != "" {
			out = append(out, p)
		}
	}
	return out
}

func parsePath14(path []string) []part14 {
	out := []part14{}
	for _, p := range cleanPath14(path) {
		out = append(out, classify14(p))
	}
	return out
}

func partEq14(a, b part14) bool {
	if a.kind != b.kind {
		return false
	}
	switch a.kind {
	case pkKey:
		return a.key == b.key
	case pkIdx:
		return a.idx == b.idx
	case pkSel:
		return a.nm == b.nm && a.val == b.val
	}
	return true
}

// apartb of FnsSpec.v
func apart14(a, b part14) bool {
	if a.kind != b.kind {
		return false
	}
	switch a.kind {
	case pkKey:
		return a.key != b.key
	case pkIdx:
		return a.idx != b.idx
	case pkSel:
		return a.nm == b.nm && a.val != b.val
	}
	return false
}

// divergesb of FnsSpec.v
func diverges14(ps, qs []part14) bool {
	if len(ps) == 0 || len(qs) == 0 {
		return false
	}
	if apart14(ps[0], qs[0]) {
		return true
	}
	return partEq14(ps[0], qs[0]) && diverges14(ps[1:], qs[1:])
}

// no_sel_key_read of FnsSpec.v
func noSelKeyRead14(qs []part14) bool {
	for i := 0; i+1 < len(qs); i++ {
		if qs[i].kind == pkSel && qs[i+1].kind == pkKey && qs[i+1].key == qs[i].nm {
			return false
		}
	}
	return true
}

// stable14 = stable_put (finalKey != "") / stable_put_scalar (finalKey == "") of FnsSpec.v:
// the write must not overwrite the field a [nm=v] selector at the end of its own path matches on.
func stable14(path []string, finalKey string) bool {
	ps := parsePath14(path)
	n := len(ps)
	if n >= 1 && ps[n-1].kind == pkSel {
		return ps[n-1].nm != finalKey
	}
	if finalKey == "" && n >= 2 && ps[n-2].kind == pkSel && ps[n-1].kind == pkKey {
		return ps[n-1].key != ps[n-2].nm || ps[n-2].nm == ""
	}
	return true
}

// nullOnPath14 = negb (no_null_path ps n): some node reached along the existing part of the path
// (including the document and the node the whole path denotes) is null. Lookup is pure, so one document
// object serves all prefixes.
func nullOnPath14(doc *kyaml.RNode, path []string) bool {
	clean := cleanPath14(path)
	for i := 0; i <= len(clean); i++ {
		var got *kyaml.RNode
		cls, _ := protect14(func() error {
			var e error
			got, e = doc.Pipe(kyaml.Lookup(clean[:i]...))
			return e
		})
		if cls != ClsOk || got == nil {
			return false
		}
		if kyaml.IsMissingOrNull(got) {
			return true
		}
	}
	return false
}

// panicClass14 names the class of a panic raised by a path operation. No path operation may panic (theorems
// C14_no_panic*): every panic is an unlisted violation, classed by its message. (The former known shape, "-" on
// an empty or null sequence, was repaired in /repo by 5cf7cc6.)
func panicClass14(msg string) string {
	short := msg
	if len(short) > 60 {
		short = short[:60]
	}
	return "C14/panic:" + strings.ReplaceAll(short, " ", "_")
}

func reportPanic14(s sink, c case14, msg string) {
	s.Violation(OracleViolation{Law: "no_panic", Class: panicClass14(msg),
		Detail: fmt.Sprintf("op %s path %q panics: %s", c.Op, c.Path, msg), Replay: c})
}

// sameValue: got is v up to the scalar style (with_style s v of the theorems)
func sameValue14(got, want *kyaml.RNode) bool {
	g, w := got.YNode(), want.YNode()
	if g.Kind != w.Kind {
		return false
	}
	if g.Kind == kyaml.ScalarNode {
		return g.Value == w.Value && g.Tag == w.Tag
	}
	return docString(got) == docString(want)
}

func lookupOn(doc *kyaml.RNode, path []string) (string, *kyaml.RNode, string) {
	var got *kyaml.RNode
	cls, msg := protect14(func() error {
		var e error
		got, e = doc.Pipe(kyaml.Lookup(path...))
		return e
	})
	return cls, got, msg
}

func putOn(doc *kyaml.RNode, path []string, name string, v *kyaml.RNode) (string, *kyaml.RNode, string) {
	var got *kyaml.RNode
	cls, msg := protect14(func() error {
		var e error
		got, e = doc.Pipe(kyaml.LookupCreate(kyaml.MappingNode, path...), kyaml.SetField(name, v))
		return e
	})
	return cls, got, msg
}

// eqNode14: equality of two nodes under the projection the model sees (coqNode): kind, tag class, style
// class, scalar text, map keys by value. No allocation, so it can run millions of times.
func eqNode14(a, b *kyaml.Node, styles bool) bool {
	if a == nil || b == nil {
		return a == b
	}
	if a.Kind == kyaml.DocumentNode && len(a.Content) == 1 {
		a = a.Content[0]
	}
	if b.Kind == kyaml.DocumentNode && len(b.Content) == 1 {
		b = b.Content[0]
	}
	ak, bk := a.Kind, b.Kind
	if ak == 0 {
		ak = kyaml.ScalarNode
	}
	if bk == 0 {
		bk = kyaml.ScalarNode
	}
	if ak != bk {
		return false
	}
	switch ak {
	case kyaml.ScalarNode:
		return a.Value == b.Value && coqTag(a.Tag) == coqTag(b.Tag) && (!styles || coqStyle(a.Style) == coqStyle(b.Style))
	case kyaml.MappingNode:
		if len(a.Content) != len(b.Content) {
			return false
		}
		for i := 0; i+1 < len(a.Content); i += 2 {
			if a.Content[i].Value != b.Content[i].Value || !eqNode14(a.Content[i+1], b.Content[i+1], styles) {
				return false
			}
		}
		return true
	case kyaml.SequenceNode:
		if len(a.Content) != len(b.Content) {
			return false
		}
		for i := range a.Content {
			if !eqNode14(a.Content[i], b.Content[i], styles) {
				return false
			}
		}
		return true
	}
	return false
}

// wellFormed14: the tree is one the model's node type can represent (what coqNode accepts), no allocation
func wellFormed14(n *kyaml.Node) bool {
	if n == nil {
		return false
	}
	switch n.Kind {
	case kyaml.DocumentNode:
		return len(n.Content) == 1 && wellFormed14(n.Content[0])
	case kyaml.MappingNode:
		if len(n.Content)%2 != 0 {
			return false
		}
		for i := 0; i < len(n.Content); i += 2 {
			if n.Content[i].Kind != kyaml.ScalarNode || !wellFormed14(n.Content[i+1]) {
				return false
			}
		}
		return true
	case kyaml.SequenceNode:
		for _, c := range n.Content {
			if !wellFormed14(c) {
				return false
			}
		}
		return true
	case kyaml.ScalarNode:
		return true
	}
	return n.Kind == 0 && n.Tag == "" && len(n.Content) == 0
}

func checkWellFormed14(s sink, c case14, cls string, doc *kyaml.RNode) {
	if cls == ClsOk && doc != nil && !wellFormed14(doc.YNode()) {
		s.Violation(OracleViolation{Law: "well_formed_result", Class: "C14/malformed-result",
			Detail: "the operation returned without error but left a malformed node tree (odd mapping Content / alias / non-scalar key)", Replay: c})
	}
}

func eqR14(a, b *kyaml.RNode) bool {
	if a == nil || a.YNode() == nil || b == nil || b.YNode() == nil {
		return (a == nil || a.YNode() == nil) == (b == nil || b.YNode() == nil)
	}
	return eqNode14(a.YNode(), b.YNode(), true)
}

// docCtx14: one parsed document shared by many law evaluations. orig is never handed to a mutating
// operation (those run on copies); the only operations run on it are Lookups, whose purity is itself a law:
// ref is a second pristine copy and orig is compared with it after every evaluation.
type docCtx14 struct {
	text      string
	orig, ref *kyaml.RNode
	j         *jv14
	before    map[string]probeRes14
}

type probeRes14 struct {
	cls   string
	found *kyaml.Node
}

func newDocCtx14(text string) *docCtx14 {
	orig, err := kyaml.Parse(text)
	if err != nil {
		return nil
	}
	return &docCtx14{text: text, orig: orig, ref: orig.Copy()}
}

func (d *docCtx14) json() *jv14 {
	if d.j == nil {
		d.j = toJ14(d.ref.YNode())
	}
	return d.j
}

func (d *docCtx14) lookupBefore(key string, q []string) probeRes14 {
	if d.before == nil {
		d.before = map[string]probeRes14{}
	}
	if r, ok := d.before[key]; ok {
		return r
	}
	cls, found, _ := lookupOn(d.orig, q)
	r := probeRes14{cls: cls}
	if found != nil {
		r.found = found.YNode()
	}
	d.before[key] = r
	return r
}

// probe14: a frame probe path, parsed once
type probe14 struct {
	q     []string
	key   string
	parts []part14
	nskr  bool // no_sel_key_read
}

func mkProbes14(qs [][]string) []probe14 {
	out := make([]probe14, len(qs))
	for i, q := range qs {
		pp := parsePath14(q)
		out[i] = probe14{q: q, key: strings.Join(q, "\x00"), parts: pp, nskr: noSelKeyRead14(pp)}
	}
	return out
}

// laws14 evaluates the lens laws on the implementation for one case (fresh parse).
func laws14(s sink, c case14) {
	d := newDocCtx14(c.Doc)
	if d == nil {
		return
	}
	laws14doc(s, c, d, mkProbes14(c.Probes))
}

// laws14doc evaluates the laws for one case on a shared document context. Every law is checked under exactly
// the hypotheses of its theorem in Props/C14.v (named in the comments). Returns the outcome class of the
// case's own operation and whether it returned a node.
func laws14doc(s sink, c case14, d *docCtx14, probes []probe14) (cls string, gotNode bool) {
	report := func(law, detail string) {
		s.Violation(OracleViolation{Law: law, Class: "C14/" + law, Detail: detail, Replay: c})
	}
	defer func() {
		// C14_lookup_pure, for every Lookup the evaluation ran on the shared document
		if !eqR14(d.orig, d.ref) {
			report("lookup_pure", "Lookup modified the document: "+docString(d.ref)+" -> "+docString(d.orig))
			d.orig = d.ref.Copy()
			d.before = nil
		}
	}()
	switch c.Op {
	case "fieldspec":
		return lawsFS14(s, c, d)
	case "fsslice":
		return lawsFSSlice14(s, c, d)
	case "lookup":
		lawPM14(s, c, d)
		fallthrough
	case "lookup-only":
		// C14_lookup_pure (checked by the deferred comparison), no panic
		cls, found, msg := lookupOn(d.orig, c.Path)
		if cls == ClsPanic {
			reportPanic14(s, c, msg)
			return cls, false
		}
		// C14_refines_json_get / _absent
		if cls == ClsOk {
			j := jget14(parsePath14(c.Path), d.json())
			if found != nil {
				if j == nil || j.String() != toJ14(found.YNode()).String() {
					report("refines_json_get", fmt.Sprintf("Lookup found %s but the reference jget gives %v", docString(found), j))
				}
			} else if j != nil {
				report("refines_json_get", fmt.Sprintf("Lookup found nothing but the reference jget gives %v", j))
			}
		}
		return cls, found != nil
	case "clear":
		// C14_absent_clear_noop: lookup (ps ++ [name]) = Ok None => clear leaves the document untouched
		full := append(append([]string{}, c.Path...), c.Name)
		clsL, foundL, _ := lookupOn(d.orig, full)
		doc2 := d.ref.Copy()
		cls2, found2, msg2 := exec14On(doc2, c)
		if cls2 == ClsPanic {
			reportPanic14(s, c, msg2)
			return cls2, false
		}
		checkWellFormed14(s, c, cls2, doc2)
		if clsL == ClsOk && foundL == nil {
			if cls2 != ClsOk || !eqR14(doc2, d.ref) {
				report("absent_clear_noop", fmt.Sprintf("Clear of an absent path (class %s) changed the document: %s -> %s", cls2, docString(d.ref), docString(doc2)))
			}
		}
		if cls2 == ClsOk && found2 != nil { // something was removed: the Content slice was truncated in place
			lawCopyIndependent14(s, c, doc2, c.Path)
		}
		return cls2, found2 != nil
	case "lookupcreate", "putnc", "putscalar":
		doc := d.ref.Copy()
		cls, found, msg := exec14On(doc, c)
		if cls == ClsPanic {
			reportPanic14(s, c, msg)
			return cls, false
		}
		checkWellFormed14(s, c, cls, doc)
		if c.Op == "putscalar" && c.Value != nil && cls == ClsOk && found != nil {
			lawsPutScalar14(s, c, d, doc)
		}
		return cls, found != nil
	case "put":
		if c.Value == nil {
			return "", false
		}
		return lawsPut14(s, c, d, probes)
	}
	if apiOps[c.Op] {
		return lawsAPI14(s, c, d)
	}
	return "", false
}

// lawCopyIndependent14: RNode.Copy() yields an independent document: writing to the copy leaves the original
// untouched and writing to the original leaves the copy untouched. Checked on the document [doc] as an operation left
// it, with two puts at [path] (the node the operation worked on). The model is value based (a copy is the same value),
// so this is an implementation-only law.
func lawCopyIndependent14(s sink, c case14, doc *kyaml.RNode, path []string) {
	if doc == nil || !wellFormed14(doc.YNode()) {
		return
	}
	s.Count("law_domain", "copy-independent")
	before := docString(doc)
	cp := doc.Copy()
	clsC, _, _ := putOn(cp, path, "zz1", kyaml.NewScalarRNode("1"))
	if docString(doc) != before {
		s.Violation(OracleViolation{Law: "copy_independent", Class: "C14/copy-shares-content",
			Detail: fmt.Sprintf("a put on the Copy() (class %s) changed the original: %s -> %s", clsC, before, docString(doc)), Replay: c})
		return
	}
	cpAfter := docString(cp)
	clsO, _, _ := putOn(doc, path, "zz2", kyaml.NewScalarRNode("2"))
	if docString(cp) != cpAfter {
		s.Violation(OracleViolation{Law: "copy_independent", Class: "C14/copy-shares-content",
			Detail: fmt.Sprintf("a put on the original (class %s) changed its earlier Copy(): %s -> %s", clsO, cpAfter, docString(cp)), Replay: c})
	}
}

func lawsPutScalar14(s sink, c case14, d *docCtx14, doc1 *kyaml.RNode) {
	// C14_put_scalar_get: v non-null, stable_put_scalar, no_null_path, Ok & node returned
	v := c.Value.build()
	if kyaml.IsMissingOrNull(v) || !stable14(c.Path, "") || nullOnPath14(d.orig, c.Path) {
		return
	}
	s.Count("law_domain", "put-scalar-laws")
	cls2, got, _ := lookupOn(doc1, c.Path)
	if cls2 != ClsOk || got == nil || !sameValue14(got, v) {
		s.Violation(OracleViolation{Law: "put_scalar_get", Class: "C14/put_scalar_get",
			Detail: fmt.Sprintf("after putscalar lookup gives class %s node %s, want %s", cls2, optString(got), docString(v)), Replay: c})
	}
}

func lawsPut14(s sink, c case14, d *docCtx14, probes []probe14) (string, bool) {
	report := func(law, detail string) {
		s.Violation(OracleViolation{Law: law, Class: "C14/" + law, Detail: detail, Replay: c})
	}
	full := append(append([]string{}, c.Path...), c.Name)

	doc1 := d.ref.Copy()
	cls, found, msg := putOn(doc1, c.Path, c.Name, c.Value.build())
	if cls == ClsPanic {
		reportPanic14(s, c, msg)
		return cls, false
	}
	checkWellFormed14(s, c, cls, doc1)

	// ---- C14_get_put: lookup (ps ++ [name]) n = Ok (Some w), w non-null  =>  putting w back changes nothing
	if clsL, w, _ := lookupOn(d.orig, full); clsL == ClsOk && w != nil && !kyaml.IsMissingOrNull(w) {
		docG := d.ref.Copy()
		clsG, _, _ := putOn(docG, c.Path, c.Name, w.Copy())
		if clsG != ClsOk || !eqR14(docG, d.ref) {
			report("get_put", fmt.Sprintf("writing back the value read (class %s) changed the document: %s -> %s", clsG, docString(d.ref), docString(docG)))
		}
	}
	if cls != ClsOk {
		return cls, false
	}
	stable := stable14(c.Path, c.Name)

	// ---- C14_frame: stable_put; outcome Ok (path found or not); q diverges from ps ++ [name];
	//      side condition: no_sel_key_read q \/ lookup q n <> Ok None.
	//      (An unchanged document trivially has unchanged lookups.)
	if stable && len(probes) > 0 && !eqR14(doc1, d.ref) {
		pp := parsePath14(full)
		for i := range probes {
			pr := &probes[i]
			if !diverges14(pp, pr.parts) {
				continue
			}
			before := d.lookupBefore(pr.key, pr.q)
			if !pr.nskr && before.cls == ClsOk && before.found == nil {
				continue
			}
			clsA, after, _ := lookupOn(doc1, pr.q)
			var afterN *kyaml.Node
			if after != nil {
				afterN = after.YNode()
			}
			if clsA != before.cls || !eqNode14(afterN, before.found, true) {
				report("frame", fmt.Sprintf("put at %q changed Lookup(%q): %s %s -> %s %s", full, pr.q, before.cls, yString(before.found), clsA, yString(afterN)))
				break
			}
		}
	}

	v := c.Value.build()
	if found == nil || !stable || kyaml.IsMissingOrNull(v) || nullOnPath14(d.orig, c.Path) {
		return cls, found != nil
	}
	s.Count("law_domain", "put-laws")

	// ---- C14_put_get
	cls2, got, _ := lookupOn(doc1, full)
	if cls2 != ClsOk || got == nil {
		report("put_get", fmt.Sprintf("after put the path is not found (class %s): %s", cls2, docString(doc1)))
	} else if !sameValue14(got, v) {
		report("put_get", fmt.Sprintf("after put lookup returns %s, want %s", docString(got), docString(v)))
	}

	// ---- C14_put_put_idempotent
	doc2 := doc1.Copy()
	cls3, _, _ := putOn(doc2, c.Path, c.Name, c.Value.build())
	if cls3 != ClsOk || !eqR14(doc2, doc1) {
		report("put_put", fmt.Sprintf("second identical put changed the document (class %s): %s -> %s", cls3, docString(doc1), docString(doc2)))
	}

	// ---- C14_put_put_last_wins: put v2 after put v1 == put v2 alone, up to scalar styles
	if c.Value2 != nil {
		v2 := c.Value2.build()
		if !kyaml.IsMissingOrNull(v2) {
			docA := doc1.Copy()
			clsA, _, _ := putOn(docA, c.Path, c.Name, c.Value2.build())
			docB := d.ref.Copy()
			clsB, _, _ := putOn(docB, c.Path, c.Name, c.Value2.build())
			if clsA != clsB || (clsA == ClsOk && !eqNode14(docA.YNode(), docB.YNode(), false)) {
				report("last_write_wins", fmt.Sprintf("put v2 after put v1 (%s %s) differs from put v2 alone (%s %s)", clsA, docString(docA), clsB, docString(docB)))
			}
		}
	}

	// ---- C14_refines_json: tagged v  =>  to_json n' = jput (ps ++ [name]) (to_json v) (to_json n)
	if v.YNode().Kind != kyaml.ScalarNode || v.YNode().Tag != "" {
		want, ok := jput14(parsePath14(full), toJ14(v.YNode()), d.json())
		if !ok || want.String() != toJ14(doc1.YNode()).String() {
			ws := "<undefined>"
			if ok {
				ws = want.String()
			}
			report("refines_json", fmt.Sprintf("put result %s differs from the reference jput %s", toJ14(doc1.YNode()).String(), ws))
		}
	}
	return cls, true
}

func caseTerm14(c case14, cls string, doc, found *kyaml.RNode) (string, bool) {
	return caseTermObs14(c, cls, doc, found, "ObNone")
}

func caseTermObs14(c case14, cls string, doc, found *kyaml.RNode, obs string) (string, bool) {
	origDoc, err := kyaml.Parse(c.Doc)
	if err != nil {
		return "", false
	}
	d0, ok := nodeTerm(origDoc)
	if !ok {
		return "", false
	}
	var op string
	vals := map[string]bool{}
	scalarValues(origDoc.YNode(), vals)
	switch c.Op {
	case "lookup":
		op = "OLookup"
	case "lookupcreate":
		op = "(OLookupCreate " + c.Kind + ")"
	case "put", "putnc", "putscalar":
		v := c.Value.build()
		vt, ok := nodeTerm(v)
		if !ok {
			return "", false
		}
		scalarValues(v.YNode(), vals)
		switch c.Op {
		case "put":
			op = fmt.Sprintf("(OPut %s %s)", coqStr(c.Name), vt)
		case "putnc":
			op = fmt.Sprintf("(OPutNC %s %s)", coqStr(c.Name), vt)
		default:
			op = fmt.Sprintf("(OPutScalar %s)", vt)
		}
	case "clear":
		op = fmt.Sprintf("(OClear %s)", coqStr(c.Name))
	case "copyindep":
		op = fmt.Sprintf("(OCopyIndep %s)", coqStr(c.Name))
		vals["1"], vals["2"] = true, true
	case "fieldspec":
		op = c.FS.coqOp()
		vals["MARK"] = true
		vals["MV"] = true
	case "fsslice":
		op = coqSliceOp14(c.FSL)
		vals["MARK"] = true
		vals["MV"] = true
	default:
		if apiOps[c.Op] {
			var ok bool
			op, ok = c.API.coqOp(c.Op)
			if !ok {
				return "", false
			}
			c.API.scalarTexts(vals)
		}
	}
	nonstr := []string{}
	for _, s := range sortedKeys(vals) {
		if kyaml.IsValueNonString(s) {
			nonstr = append(nonstr, s)
		}
	}
	after, found2 := "(Scalar TNone SPlain \"\")", "None"
	if cls == ClsOk {
		a, ok := nodeTerm(doc)
		if !ok {
			return "", false
		}
		after = a
		if found != nil && found.YNode() != nil {
			f, ok := nodeTerm(found)
			if !ok {
				return "", false
			}
			found2 = "(Some " + f + ")"
		}
	}
	if cls != ClsOk {
		obs = "ObNone"
	}
	return fmt.Sprintf("(mk14 %s %s %s %s %s %s %s %s %s)", op, coqStrList(c.Path), d0, cls, after, found2, coqStrList(nonstr),
		obs, coqStrList(floatTexts(vals))), true
}

// genProbes14: frame probes for a random put: paths that leave the write path at one position
// (another key / index / selector value), with an optional tail, plus a few unrelated paths.
func genProbes14(g *Rng, full []string) [][]string {
	clean := cleanPath14(full)
	out := [][]string{}
	alt := func(p string) string {
		pt := classify14(p)
		switch pt.kind {
		case pkKey:
			return g.Pick(c14Keys)
		case pkIdx:
			return fmt.Sprint(g.Intn(3))
		case pkSel:
			return "[" + pt.nm + "=" + g.Pick([]string{"x", "y", "z", "1", ""}) + "]"
		}
		return g.Pick(c14Parts)
	}
	for i := range clean {
		for k := 0; k < 2; k++ {
			q := append([]string{}, clean[:i]...)
			q = append(q, alt(clean[i]))
			for t := g.Intn(3); t > 0; t-- {
				q = append(q, g.Pick(c14Parts))
			}
			out = append(out, q)
		}
	}
	for k := 0; k < 2; k++ {
		out = append(out, genPath14(g, 3))
	}
	return out
}

func runC14(r *Run, rng *Rng, tier string) error {
	nModel, nLaw, nFS, nFSLaw := 900, 4000, 500, 2500
	if tier == "thorough" {
		nModel, nLaw, nFS, nFSLaw = 6000, 100000, 3000, 40000
	}
	r.Meta.Rule = "path ops: random block-YAML mappings (depth<=3, keys a/b/name/c, scalars x/y/1/\"1\"/null/true/\"\"/yes, " +
		"keyed and primitive lists, rare duplicate keys); paths of length<=4 over keys, [name=v], [=v], indices, '-', rare malformed parts; " +
		"ops lookup/lookupcreate/put/putnc/clear/putscalar. field specs: random objects (apiVersion/kind, nested maps, lists of maps, " +
		"null fields, scalars on the path) x slash paths (plain, '[]' hints, escaped '\\/', malformed segments) x create x CreateKind x CreateTag x GVK x SetValue. " +
		"exhaustive: every mapping document up to the stated size over keys {a,b,name} / scalars {x,y,1} x every path up to the stated length " +
		"over the stated part alphabet (see notes). non-trivial = the operation returned a node or changed the document; distinct by hash of the case term"
	ops := []string{"lookup", "lookupcreate", "put", "put", "putnc", "clear", "putscalar", "lookup"}
	kinds := []string{"KScalar", "KMap", "KSeq"}
	gen := func(g *Rng) case14 {
		root := genNode14(g, 3, true)
		doc := root.yaml()
		path := genPath14(g, 4)
		if g.Chance(60) {
			path = genPathGuided14(g, root, 4)
		}
		c := case14{Op: g.Pick(ops), Doc: doc, Path: path}
		switch c.Op {
		case "lookupcreate":
			c.Kind = g.Pick(kinds)
		case "put", "putnc":
			c.Name = g.Pick(c14Keys)
			v := c14Values[g.Intn(len(c14Values))]
			c.Value = &v
		case "putscalar":
			v := c14Values[g.Intn(len(c14Values))]
			c.Value = &v
		case "clear":
			c.Name = g.Pick(c14Keys)
			if g.Chance(40) {
				c.Op = "copyindep"
				// aim at an existing field most of the time, the only field of its mapping if there is one
				maps := []seqAt{}
				sq := []seqAt{}
				collect14(root, nil, &sq, &maps, 0)
				if len(maps) > 0 && !g.Chance(20) {
					m := maps[g.Intn(len(maps))]
					for _, cand := range maps {
						if len(cand.seq.keys) == 1 && g.Chance(60) {
							m = cand
						}
					}
					c.Path = m.path
					if len(m.seq.keys) > 0 {
						c.Name = m.seq.keys[g.Intn(len(m.seq.keys))]
					}
				}
			}
		}
		if c.Op == "put" {
			v2 := c14Values[g.Intn(len(c14Values))]
			c.Value2 = &v2
			c.Probes = genProbes14(g, append(append([]string{}, c.Path...), c.Name))
		}
		return c
	}
	// corpus first
	for _, c := range loadCorpus14() {
		runOne14(r, c, true)
	}
	for i := 0; i < nModel; i++ {
		runOne14(r, gen(rng.Fork()), true)
	}
	for i := 0; i < nFS; i++ {
		if i%6 == 5 {
			runOne14(r, genFSSliceCase14(rng.Fork()), true)
		} else {
			runOne14(r, genFSCase14(rng.Fork()), true)
		}
	}
	nAPI := 700
	if tier == "thorough" {
		nAPI = 5000
	}
	for i := 0; i < nAPI; i++ {
		runOne14(r, genAPICase14(rng.Fork()), true)
	}
	for i := 0; i < 4*nAPI; i++ { // law oracles only
		g := rng.Fork()
		c := genAPICase14(g)
		runOne14(r, c, false)
		lawSplit14(r, c, g)
	}
	// anchors / aliases / merge keys: the de-anchored document goes to the model and the laws; the operation on the
	// document as written runs on the implementation only and is counted as skipped when its result is unrepresentable
	nAlias := 120
	if tier == "thorough" {
		nAlias = 1500
	}
	for i := 0; i < nAlias; i++ {
		c, raw, ok := genAliasCase14(rng.Fork(), r)
		if ok {
			r.Count("alias_docs", "de-anchored: sent to the model")
			runOne14(r, c, true)
		}
		cls, doc, found, _ := exec14(raw)
		if _, rep := caseTerm14(raw, cls, doc, found); rep {
			r.Count("alias_docs", "as written: representable result")
		} else {
			r.Count("alias_docs", "as written: implementation only (alias nodes are not representable)")
			r.Meta.Skipped++
		}
	}
	for i := 0; i < nLaw; i++ {
		g := rng.Fork()
		c := gen(g)
		if c.Op == "lookupcreate" || c.Op == "putnc" {
			c.Op = "put"
			c.Name = g.Pick(c14Keys)
			v := c14Values[g.Intn(len(c14Values))]
			c.Value = &v
			v2 := c14Values[g.Intn(len(c14Values))]
			c.Value2 = &v2
			c.Probes = genProbes14(g, append(append([]string{}, c.Path...), c.Name))
		}
		runOne14(r, c, false)
	}
	for i := 0; i < nFSLaw; i++ {
		if i%6 == 5 {
			runOne14(r, genFSSliceCase14(rng.Fork()), false)
		} else {
			runOne14(r, genFSCase14(rng.Fork()), false)
		}
	}
	// exhaustive small scope (law oracles only; a stride sample also goes to the model)
	exhaustive14(r, tier)
	return nil
}

func runOne14(r *Run, c case14, toModel bool) {
	cls, doc, found, _ := exec14(c)
	if cls == "parse-error" {
		r.Meta.Skipped++
		return
	}
	obs := "ObNone"
	if apiOps[c.Op] {
		d2, _ := kyaml.Parse(c.Doc)
		cls, found, obs, _ = execAPI14(d2, c)
		doc = d2
	}
	r.Count("op", c.Op)
	r.Count("class/"+c.Op, cls)
	if c.Op == "fieldspec" {
		c.FS.count(r, c, cls, doc)
	} else if c.Op == "fsslice" {
		r.Count("fsslice_len", fmt.Sprint(len(c.FSL)))
	} else {
		r.Count("path_len", fmt.Sprint(len(c.Path)))
	}
	nontrivial := cls == ClsOk && (found != nil)
	if (c.Op == "fieldspec" || c.Op == "fsslice") && cls == ClsOk {
		if orig, err := kyaml.Parse(c.Doc); err == nil {
			nontrivial = docString(orig) != docString(doc)
		}
	}
	if toModel {
		cm := c
		cm.Probes = nil
		term, ok := caseTermObs14(c, cls, doc, found, obs)
		if !ok {
			r.Meta.Skipped++
		} else {
			r.AddCase(term, cm, nontrivial || (apiOps[c.Op] && cls == ClsOk && obs != "ObNone" && obs != "ObNotFound"))
		}
	} else {
		b, _ := json.Marshal(c)
		r.AddEval(string(b), nontrivial)
	}
	laws14(r, c)
}

func loadCorpus14() []case14 {
	out := []case14{}
	data, err := os.ReadFile(verifRoot() + "/corpus/C14/cases.json")
	if err != nil {
		return out
	}
	_ = json.Unmarshal(data, &out)
	return out
}

func replayC14(path string) (bool, string, error) {
	data, err := os.ReadFile(path)
	if err != nil {
		return false, "", err
	}
	var rp struct {
		Case case14 `json:"case"`
	}
	if err := json.Unmarshal(data, &rp); err != nil {
		return false, "", err
	}
	if rp.Case.Op == "" {
		// a bare case (e.g. a disagreeing correspondence case handed over by ./check)
		_ = json.Unmarshal(data, &rp.Case)
	}
	expandEnumProbes(&rp.Case)
	r := NewRun("C14", "replay", 0, "", "")
	laws14(r, rp.Case)
	cls, doc, found, msg := exec14(rp.Case)
	if cls == ClsErr {
		if d2, err := kyaml.Parse(rp.Case.Doc); err == nil {
			c2 := rp.Case
			_, msg = protect(func() error { _, _, e := exec14Err(d2, c2); return e })
		}
	}
	detail := fmt.Sprintf("class=%s msg=%q after=%s found=%s", cls, msg, optString(doc), optString(found))
	if len(r.Meta.Violations) > 0 {
		v := r.Meta.Violations[0]
		return true, detail + " LAW " + v.Law + " class " + v.Class + ": " + v.Detail, nil
	}
	if cls == ClsPanic {
		return true, detail, nil
	}
	return false, detail, nil
}
