package main

import (
	"encoding/json"
	"fmt"
	"os"
	"strings"

	kyaml "sigs.k8s.io/kustomize/kyaml/yaml"
)

// C14: kyaml path operations obey get/set laws.
// Correspondence: PathGetter/FieldSetter/FieldClearer vs KV.Yaml.Fns on (doc, path, op) cases.
// Search: the lens laws evaluated directly on kyaml, under the side conditions of the theorems.

func init() {
	register("C14", propDef{
		header:     "From KV Require Import Corr.C14.\nOpen Scope string_scope.\n",
		caseType:   "case14",
		mismatchFn: "mismatches14",
		run:        runC14,
		replay:     replayC14,
	})
}

// ---- small document AST, emitted as block YAML and parsed by kyaml ----

type gnode struct {
	kind   int // 0 scalar, 1 map, 2 seq
	text   string
	keys   []string
	vals   []*gnode
}

func (g *gnode) emit(b *strings.Builder, indent int, inline bool) {
	pad := strings.Repeat("  ", indent)
	switch g.kind {
	case 0:
		b.WriteString(g.text)
		b.WriteString("\n")
	case 1:
		if len(g.keys) == 0 {
			b.WriteString("{}\n")
			return
		}
		for i, k := range g.keys {
			if i > 0 || !inline {
				b.WriteString(pad)
			}
			b.WriteString(k)
			b.WriteString(":")
			v := g.vals[i]
			if v.kind == 0 || (v.kind == 1 && len(v.keys) == 0) || (v.kind == 2 && len(v.vals) == 0) {
				b.WriteString(" ")
				v.emit(b, indent+1, true)
			} else {
				b.WriteString("\n")
				v.emit(b, indent+1, false)
			}
		}
	case 2:
		if len(g.vals) == 0 {
			b.WriteString("[]\n")
			return
		}
		for i, v := range g.vals {
			if i > 0 || !inline {
				b.WriteString(pad)
			}
			b.WriteString("- ")
			if v.kind == 0 || (v.kind == 1 && len(v.keys) == 0) || (v.kind == 2 && len(v.vals) == 0) {
				v.emit(b, indent+1, true)
			} else {
				v.emit(b, indent+1, true)
			}
		}
	}
}

func (g *gnode) yaml() string {
	var b strings.Builder
	g.emit(&b, 0, false)
	return b.String()
}

var c14Keys = []string{"a", "b", "name", "c"}
var c14Scalars = []string{"x", "y", "1", `"1"`, "null", "true", `""`, "yes", "x"}

func genNode14(rng *Rng, depth int, wantMap bool) *gnode {
	k := rng.Intn(10)
	if wantMap {
		k = 5
	}
	if depth <= 0 && !wantMap {
		k = 0
	}
	switch {
	case k < 4:
		return &gnode{kind: 0, text: rng.Pick(c14Scalars)}
	case k < 8:
		n := rng.Intn(4)
		if wantMap && n == 0 {
			n = 1
		}
		g := &gnode{kind: 1}
		used := map[string]bool{}
		for i := 0; i < n; i++ {
			key := rng.Pick(c14Keys)
			if used[key] && !rng.Chance(5) { // rarely allow a duplicate key
				continue
			}
			used[key] = true
			g.keys = append(g.keys, key)
			g.vals = append(g.vals, genNode14(rng, depth-1, false))
		}
		return g
	default:
		n := rng.Intn(4)
		g := &gnode{kind: 2}
		elemMap := rng.Chance(70)
		for i := 0; i < n; i++ {
			if elemMap {
				e := genNode14(rng, depth-1, true)
				if rng.Chance(70) { // keyed element
					has := false
					for _, k := range e.keys {
						if k == "name" {
							has = true
						}
					}
					if !has {
						e.keys = append([]string{"name"}, e.keys...)
						e.vals = append([]*gnode{{kind: 0, text: rng.Pick([]string{"x", "y", "z"})}}, e.vals...)
					}
				}
				g.vals = append(g.vals, e)
			} else {
				g.vals = append(g.vals, &gnode{kind: 0, text: rng.Pick(c14Scalars)})
			}
		}
		return g
	}
}

var c14Parts = []string{"a", "b", "name", "c", "a", "b",
	"[name=x]", "[name=y]", "[name=z]", "[a=1]", "[=x]", "[=y]", "[name=]",
	"0", "1", "2", "-"}
var c14OddParts = []string{"*", "[bad]", "-1", " a ", "", "+1", "[=]", "00", "[a=b=c]", "-0"}

func genPath14(rng *Rng, maxLen int) []string {
	n := rng.Intn(maxLen + 1)
	p := []string{}
	for i := 0; i < n; i++ {
		if rng.Chance(6) {
			p = append(p, rng.Pick(c14OddParts))
		} else {
			p = append(p, rng.Pick(c14Parts))
		}
	}
	return p
}

// value specs for set operations: how the RNode is built matters (tags)
type vspec struct {
	Kind string `json:"kind"` // parse | scalar | string
	Text string `json:"text"`
}

var c14Values = []vspec{
	{"parse", "x"}, {"parse", "y"}, {"parse", "1"}, {"parse", `"1"`}, {"parse", "true"},
	{"scalar", "x"}, {"scalar", "yes"}, {"scalar", "1"}, {"string", "yes"}, {"string", "012"},
	{"string", "x"}, {"parse", "null"}, {"parse", "{k: v}"}, {"parse", "[p, q]"}, {"parse", "k: v\n"},
	{"scalar", ""}, {"string", "1e3"}, {"parse", "'on'"},
}

func (v vspec) build() *kyaml.RNode {
	switch v.Kind {
	case "scalar":
		return kyaml.NewScalarRNode(v.Text)
	case "string":
		return kyaml.NewStringRNode(v.Text)
	default:
		return kyaml.MustParse(v.Text)
	}
}

type case14 struct {
	Op    string   `json:"op"` // lookup | lookupcreate | put | putnc | clear | putscalar
	Kind  string   `json:"kind,omitempty"`
	Doc   string   `json:"doc"`
	Path  []string `json:"path"`
	Name  string   `json:"name,omitempty"`
	Value *vspec   `json:"value,omitempty"`
}

func kindOf(s string) int {
	switch s {
	case "KMap":
		return int(kyaml.MappingNode)
	case "KSeq":
		return int(kyaml.SequenceNode)
	default:
		return int(kyaml.ScalarNode)
	}
}

// exec14 runs the operation on a fresh parse of the document.
func exec14(c case14) (cls string, doc *kyaml.RNode, found *kyaml.RNode, msg string) {
	doc, err := kyaml.Parse(c.Doc)
	if err != nil {
		return "parse-error", nil, nil, err.Error()
	}
	cls, msg = protect(func() error {
		var e error
		switch c.Op {
		case "lookup":
			found, e = doc.Pipe(kyaml.Lookup(c.Path...))
		case "lookupcreate":
			found, e = doc.Pipe(kyaml.LookupCreate(kyaml.Kind(kindOf(c.Kind)), c.Path...))
		case "put":
			found, e = doc.Pipe(kyaml.LookupCreate(kyaml.MappingNode, c.Path...), kyaml.SetField(c.Name, c.Value.build()))
		case "putnc":
			found, e = doc.Pipe(kyaml.Lookup(c.Path...), kyaml.SetField(c.Name, c.Value.build()))
		case "clear":
			found, e = doc.Pipe(kyaml.Lookup(c.Path...), kyaml.Clear(c.Name))
		case "putscalar":
			found, e = doc.Pipe(kyaml.LookupCreate(kyaml.ScalarNode, c.Path...), kyaml.FieldSetter{Value: c.Value.build()})
		default:
			return fmt.Errorf("bad op")
		}
		return e
	})
	return cls, doc, found, msg
}

func nodeTerm(n *kyaml.RNode) (string, bool) {
	if n == nil || n.YNode() == nil {
		return "", false
	}
	return coqNode(n.YNode())
}

// selector-stability side condition shared with the theorems (KV.Yaml.FnsProofs.stable):
// no [nm=v] selector is followed by the key nm as the place finally written, and no
// primitive selector [=v] is the final part.
func stable14(path []string, finalKey string) bool {
	clean := []string{}
	for _, p := range path {
		p = strings.TrimSpace(p)
		if p != "" {
			clean = append(clean, p)
		}
	}
	for i, p := range clean {
		if !kyaml.IsListIndex(p) {
			continue
		}
		nm, _, err := kyaml.SplitIndexNameValue(p)
		if err != nil {
			continue
		}
		if i == len(clean)-1 {
			if nm == finalKey {
				return false
			}
		} else if i == len(clean)-2 && finalKey == "" && clean[i+1] == nm {
			return false
		}
	}
	return true
}

// nullOnPath14: some node reached along the path (including the document and the final node) is null.
// kyaml silently drops writes made through a null node; the theorems carry the hypothesis
// no_null_path, and the oracles use the same domain.
func nullOnPath14(docText string, path []string) bool {
	for i := 0; i <= len(path); i++ {
		doc, err := kyaml.Parse(docText)
		if err != nil {
			return true
		}
		var got *kyaml.RNode
		cls, _ := protect(func() error {
			var e error
			got, e = doc.Pipe(kyaml.Lookup(path[:i]...))
			return e
		})
		if cls != ClsOk {
			return false
		}
		if got == nil {
			return false
		}
		if kyaml.IsMissingOrNull(got) {
			return true
		}
	}
	return false
}

func hasDupKeys(n *kyaml.RNode) bool {
	y := n.YNode()
	if y == nil {
		return false
	}
	var rec func(y *kyaml.Node) bool
	rec = func(y *kyaml.Node) bool {
		if y.Kind == kyaml.MappingNode {
			seen := map[string]bool{}
			for i := 0; i+1 < len(y.Content); i += 2 {
				if seen[y.Content[i].Value] {
					return true
				}
				seen[y.Content[i].Value] = true
			}
		}
		for _, c := range y.Content {
			if rec(c) {
				return true
			}
		}
		return false
	}
	return rec(y)
}

func docString(n *kyaml.RNode) string {
	s, ok := nodeTerm(n)
	if !ok {
		return "<unrepresentable>"
	}
	return s
}

// laws14 evaluates the lens laws on the implementation for one (doc, path, name, value).
func laws14(r *Run, c case14) {
	if c.Op != "put" && c.Op != "lookup" && c.Op != "clear" {
		return
	}
	orig, err := kyaml.Parse(c.Doc)
	if err != nil {
		return
	}
	origS := docString(orig)
	report := func(law, detail string) {
		r.Violation(OracleViolation{Law: law, Class: "C14/" + law, Detail: detail, Replay: c})
	}
	switch c.Op {
	case "lookup":
		cls, doc, _, _ := exec14(c)
		if cls == ClsOk || cls == ClsErr {
			if docString(doc) != origS {
				report("lookup_pure", "Lookup modified the document: "+origS+" -> "+docString(doc))
			}
		}
	case "clear":
		// absent path => clear is a no-op
		full := append(append([]string{}, c.Path...), c.Name)
		lc := case14{Op: "lookup", Doc: c.Doc, Path: full}
		cls, _, found, _ := exec14(lc)
		if cls == ClsOk && found == nil {
			cls2, doc2, _, _ := exec14(c)
			if cls2 == ClsOk && docString(doc2) != origS {
				report("absent_clear_noop", "Clear of an absent path changed the document: "+origS+" -> "+docString(doc2))
			}
		}
	case "put":
		if c.Value == nil {
			return
		}
		v := c.Value.build()
		if kyaml.IsMissingOrNull(v) {
			return
		}
		if !stable14(c.Path, c.Name) || nullOnPath14(c.Doc, c.Path) {
			return
		}
		cls, doc1, found, _ := exec14(c)
		if cls != ClsOk || found == nil {
			return
		}
		full := append(append([]string{}, c.Path...), c.Name)
		// put-get on the same document object
		var got *kyaml.RNode
		cls2, _ := protect(func() error {
			var e error
			got, e = doc1.Pipe(kyaml.Lookup(full...))
			return e
		})
		if cls2 != ClsOk || got == nil {
			report("put_get", fmt.Sprintf("after put the path is not found (class %s): %s", cls2, docString(doc1)))
		} else {
			want := c.Value.build()
			if got.YNode().Value != want.YNode().Value || got.YNode().Kind != want.YNode().Kind || got.YNode().Tag != want.YNode().Tag {
				report("put_get", fmt.Sprintf("after put lookup returns %s, want %s", docString(got), docString(want)))
			}
		}
		// put-put: same put again changes nothing
		after1 := docString(doc1)
		cls3, _ := protect(func() error {
			_, e := doc1.Pipe(kyaml.LookupCreate(kyaml.MappingNode, c.Path...), kyaml.SetField(c.Name, c.Value.build()))
			return e
		})
		if cls3 != ClsOk || docString(doc1) != after1 {
			report("put_put", fmt.Sprintf("second identical put changed the document (class %s): %s -> %s", cls3, after1, docString(doc1)))
		}
		// get-put: writing back what is there changes nothing
		if got != nil && cls2 == ClsOk {
			back := got.Copy()
			cls4, _ := protect(func() error {
				_, e := doc1.Pipe(kyaml.LookupCreate(kyaml.MappingNode, c.Path...), kyaml.SetField(c.Name, back))
				return e
			})
			if cls4 != ClsOk || docString(doc1) != after1 {
				report("get_put", fmt.Sprintf("writing back the value read changed the document (class %s): %s -> %s", cls4, after1, docString(doc1)))
			}
		}
		// frame: every top-level key other than the first path part is untouched
		if len(full) > 0 && !hasDupKeys(orig) {
			first := ""
			for _, p := range full {
				if strings.TrimSpace(p) != "" {
					first = strings.TrimSpace(p)
					break
				}
			}
			oy, ay := orig.YNode(), doc1.YNode()
			if oy.Kind == kyaml.MappingNode && ay.Kind == kyaml.MappingNode {
				for i := 0; i+1 < len(oy.Content); i += 2 {
					k := oy.Content[i].Value
					if k == first {
						continue
					}
					before, _ := coqNode(oy.Content[i+1])
					var afterN *kyaml.RNode
					protect(func() error {
						var e error
						afterN, e = doc1.Pipe(kyaml.Get(k))
						return e
					})
					if afterN == nil || docString(afterN) != before {
						report("frame", fmt.Sprintf("put under %q changed sibling key %q", first, k))
					}
				}
			}
		}
	}
}

func coqPartList(path []string) string { return coqStrList(path) }

func caseTerm14(c case14, cls string, doc, found *kyaml.RNode) (string, bool) {
	origDoc, err := kyaml.Parse(c.Doc)
	if err != nil {
		return "", false
	}
	d0, ok := nodeTerm(origDoc)
	if !ok {
		return "", false
	}
	var op string
	vals := map[string]bool{}
	scalarValues(origDoc.YNode(), vals)
	switch c.Op {
	case "lookup":
		op = "OLookup"
	case "lookupcreate":
		op = "(OLookupCreate " + c.Kind + ")"
	case "put", "putnc", "putscalar":
		v := c.Value.build()
		vt, ok := nodeTerm(v)
		if !ok {
			return "", false
		}
		scalarValues(v.YNode(), vals)
		switch c.Op {
		case "put":
			op = fmt.Sprintf("(OPut %s %s)", coqStr(c.Name), vt)
		case "putnc":
			op = fmt.Sprintf("(OPutNC %s %s)", coqStr(c.Name), vt)
		default:
			op = fmt.Sprintf("(OPutScalar %s)", vt)
		}
	case "clear":
		op = fmt.Sprintf("(OClear %s)", coqStr(c.Name))
	}
	nonstr := []string{}
	for _, s := range sortedKeys(vals) {
		if kyaml.IsValueNonString(s) {
			nonstr = append(nonstr, s)
		}
	}
	after, found2 := "(Scalar TNone SPlain \"\")", "None"
	if cls == ClsOk {
		a, ok := nodeTerm(doc)
		if !ok {
			return "", false
		}
		after = a
		if found != nil && found.YNode() != nil {
			f, ok := nodeTerm(found)
			if !ok {
				return "", false
			}
			found2 = "(Some " + f + ")"
		}
	}
	return fmt.Sprintf("(mk14 %s %s %s %s %s %s %s)", op, coqStrList(c.Path), d0, cls, after, found2, coqStrList(nonstr)), true
}

func runC14(r *Run, rng *Rng, tier string) error {
	nModel, nLaw := 1500, 6000
	if tier == "thorough" {
		nModel, nLaw = 12000, 120000
	}
	r.Meta.Rule = "documents: random block-YAML mappings (depth<=3, keys a/b/name/c, scalars x/y/1/\"1\"/null/true/\"\"/yes, " +
		"keyed and primitive lists, rare duplicate keys); paths: length<=4 over keys, [name=v], [=v], indices, '-', rare malformed parts; " +
		"ops lookup/lookupcreate/put/putnc/clear/putscalar. non-trivial = the operation returned a node or changed the document; distinct by hash of the case term"
	ops := []string{"lookup", "lookupcreate", "put", "put", "putnc", "clear", "putscalar", "lookup"}
	kinds := []string{"KScalar", "KMap", "KSeq"}
	gen := func(g *Rng) case14 {
		doc := genNode14(g, 3, true).yaml()
		c := case14{Op: g.Pick(ops), Doc: doc, Path: genPath14(g, 4)}
		switch c.Op {
		case "lookupcreate":
			c.Kind = g.Pick(kinds)
		case "put", "putnc":
			c.Name = g.Pick(c14Keys)
			v := c14Values[g.Intn(len(c14Values))]
			c.Value = &v
		case "putscalar":
			v := c14Values[g.Intn(len(c14Values))]
			c.Value = &v
		case "clear":
			c.Name = g.Pick(c14Keys)
		}
		return c
	}
	// corpus first
	for _, c := range loadCorpus14() {
		runOne14(r, c, true)
	}
	for i := 0; i < nModel; i++ {
		runOne14(r, gen(rng.Fork()), true)
	}
	for i := 0; i < nLaw; i++ {
		c := gen(rng.Fork())
		if c.Op == "lookupcreate" || c.Op == "putnc" || c.Op == "putscalar" {
			c.Op = "put"
			c.Name = rng.Pick(c14Keys)
			v := c14Values[rng.Intn(len(c14Values))]
			c.Value = &v
		}
		runOne14(r, c, false)
	}
	return nil
}

func runOne14(r *Run, c case14, toModel bool) {
	cls, doc, found, _ := exec14(c)
	if cls == "parse-error" {
		r.Meta.Skipped++
		return
	}
	r.Count("op", c.Op)
	r.Count("class", cls)
	r.Count("path_len", fmt.Sprint(len(c.Path)))
	nontrivial := cls == ClsOk && (found != nil)
	if toModel {
		term, ok := caseTerm14(c, cls, doc, found)
		if !ok {
			r.Meta.Skipped++
		} else {
			r.AddCase(term, c, nontrivial)
		}
	} else {
		b, _ := json.Marshal(c)
		r.AddEval(string(b), nontrivial)
	}
	laws14(r, c)
}

func loadCorpus14() []case14 {
	out := []case14{}
	data, err := os.ReadFile(verifRoot() + "/corpus/C14/cases.json")
	if err != nil {
		return out
	}
	_ = json.Unmarshal(data, &out)
	return out
}

func replayC14(path string) (bool, string, error) {
	data, err := os.ReadFile(path)
	if err != nil {
		return false, "", err
	}
	var rp struct {
		Case case14 `json:"case"`
	}
	if err := json.Unmarshal(data, &rp); err != nil {
		return false, "", err
	}
	r := NewRun("C14", "replay", 0, "", "")
	laws14(r, rp.Case)
	cls, doc, found, msg := exec14(rp.Case)
	detail := fmt.Sprintf("class=%s msg=%q after=%s found=%s", cls, msg, docString(doc), docString(found))
	if len(r.Meta.Violations) > 0 {
		return true, detail + " LAW: " + r.Meta.Violations[0].Detail, nil
	}
	if cls == ClsPanic {
		return true, detail, nil
	}
	return false, detail, nil
}
