package main

import (
	"bytes"
	"encoding/json"
	"fmt"
	"os"
	"os/exec"
	"path/filepath"
	"reflect"
	"regexp"
	"sort"
	"strings"
	"time"

	"sigs.k8s.io/kustomize/kyaml/filesys"
	"sigs.k8s.io/kustomize/kyaml/kio"
	"sigs.k8s.io/kustomize/kyaml/kio/kioutil"
	kyaml "sigs.k8s.io/kustomize/kyaml/yaml"
	syaml "sigs.k8s.io/yaml"
	yaml3 "sigs.k8s.io/yaml/goyaml.v3"
)

// C13: YAML streams round-trip; package writes stay inside the package.
//
// Correspondence (model = KV.Yaml.Split / Yaml.Annot / Fs.PkgWriter, evaluated by vm_compute):
//   - kio.splitDocuments (verif hook) on every string over small alphabets of {"\n","-","x","#"," "} and on
//     generated streams (comment-bearing separators, runs of "---", CRLF, literal blocks containing "---");
//   - strings.ReplaceAll(s, "\r\n", "\n");
//   - the annotations ByteReader sets on a decoded document, and the clearing sequence of ByteWriter;
//   - LocalPackageWriter on a recording file system: for one resource and one path annotation value,
//     whether anything is touched and which directory / file.
// Search (law oracles on the implementation):
//   - split: the documents, re-joined with separators of the form \n---[^\n]*\n, give the input back;
//     no document contains a separator; splitting a document again returns it;
//   - reader -> writer round trip: same number and order of documents, same JSON (anchors resolved) up to
//     the reader's bookkeeping annotations and emptied annotation maps, same multiset of comments,
//     second round trip byte-identical;
//   - package writer / read-writer: every MkdirAll / WriteFile / Create / RemoveAll lands inside the package
//     for all path / index annotation values; deletions only hit files that were read from the package.

func init() {
	register("C13", propDef{
		header:     "From KV Require Import Corr.C13.\nOpen Scope string_scope.\n",
		caseType:   "case13",
		mismatchFn: "mismatches13",
		run:        runC13,
		replay:     replayC13,
	})
}

// ---------- split ----------

var sepRe = regexp.MustCompile(`\n---.*\n`)

func splitOracle(r *Run, s string, docs []string, desc interface{}) {
	report := func(law, cls, detail string) {
		r.Violation(OracleViolation{Law: law, Class: cls, Detail: detail, Replay: desc})
	}
	if s == "" {
		if len(docs) != 0 {
			report("split_join", "C13/split-join", "empty input gave documents")
		}
		return
	}
	// re-join: doc, separator, doc, ...
	pos := 0
	for i, d := range docs {
		if !strings.HasPrefix(s[pos:], d) {
			report("split_join", "C13/split-join", fmt.Sprintf("document %d is not the next piece of the input", i))
			return
		}
		pos += len(d)
		if i == len(docs)-1 {
			break
		}
		rest := s[pos:]
		if !strings.HasPrefix(rest, "\n---") {
			report("split_join", "C13/split-join", fmt.Sprintf("no separator after document %d", i))
			return
		}
		j := strings.IndexByte(rest[4:], '\n')
		if j < 0 {
			report("split_join", "C13/split-join", "unterminated separator")
			return
		}
		pos += 4 + j + 1
	}
	if pos != len(s) {
		report("split_join", "C13/split-join", "input not exhausted by documents and separators")
	}
	for i, d := range docs {
		if sepRe.MatchString(d) {
			report("split_no_inner", "C13/split-inner-separator", fmt.Sprintf("document %d contains a separator", i))
		}
		if d != "" {
			again, err := kio.VerifC13SplitDocuments(d)
			if err != nil || len(again) != 1 || again[0] != d {
				report("split_idempotent", "C13/split-idempotent", fmt.Sprintf("splitting document %d again changes it", i))
			}
		}
	}
}

func splitCase(r *Run, s string, toModel bool) {
	var docs []string
	cls, _ := protect(func() error {
		var err error
		docs, err = kio.VerifC13SplitDocuments(s)
		return err
	})
	desc := map[string]string{"kind": "split", "s": s}
	if cls != ClsOk {
		docs = nil
	}
	r.Count("split_class", cls)
	r.Count("split_docs", fmt.Sprint(len(docs)))
	if toModel {
		r.AddCase(fmt.Sprintf("(S_split %s %s %s)", coqStr(s), cls, coqStrList(docs)), desc, len(docs) > 1)
	} else {
		r.AddEval("split|"+s, len(docs) > 1)
	}
	if cls == ClsOk {
		splitOracle(r, s, docs, desc)
	}
	if cls == ClsPanic {
		r.Violation(OracleViolation{Law: "no_panic", Class: "C13/split-panic", Detail: "splitDocuments panicked", Replay: desc})
	}
}

// ---------- generated documents and streams ----------

type gdoc struct {
	text    string
	mapping bool
}

var c13Kinds = []string{"ConfigMap", "Secret", "Deployment", "Service"}

func genDoc13(g *Rng, i int) string {
	var b strings.Builder
	if g.Chance(25) {
		fmt.Fprintf(&b, "# head comment %d\n", i)
	}
	fmt.Fprintf(&b, "apiVersion: v1\nkind: %s", g.Pick(c13Kinds))
	if g.Chance(20) {
		b.WriteString(" # line comment kind")
	}
	b.WriteString("\nmetadata:\n")
	fmt.Fprintf(&b, "  name: n%d\n", i)
	switch g.Intn(6) {
	case 0:
		b.WriteString("  annotations:\n    keep: me\n")
	case 1:
		b.WriteString("  annotations: {}\n")
	case 2:
		b.WriteString("  labels:\n    app: x # lc\n")
	case 3:
		b.WriteString("  annotations:\n    a.b/c: 'q'\n    z: \"1\"\n")
	}
	switch g.Intn(8) {
	case 0:
		b.WriteString("data:\n  script: |\n    line one\n    --- not a separator\n    ---\n    end\n")
	case 1:
		b.WriteString("data:\n  folded: >\n    folded text\n    continues\n")
	case 2:
		b.WriteString("data: {a: \"1\", b: [x, y], c: {d: e}}\n")
	case 3:
		b.WriteString("spec:\n  # comment before list\n  items:\n  - a\n  - b: 1\n    c: 2\n  - [p, q]\n")
	case 4:
		b.WriteString("base: &anc\n  k: v\n  l: [1, 2]\nuse: *anc\nmerged:\n  <<: *anc\n  extra: y\n")
	case 5:
		b.WriteString("data:\n  n: 012\n  t: yes\n  e: \"\"\n  nul: null\n  tilde: ~\n")
	case 6:
		b.WriteString("spec:\n  replicas: 3\n  tpl:\n    list:\n      - name: a\n        v: 1\n      - name: b\n")
	default:
		b.WriteString("data:\n  k: v\n")
	}
	if g.Chance(15) {
		fmt.Fprintf(&b, "# foot comment %d\n", i)
	} else if g.Chance(25) {
		// a keep-chomped block scalar as the LAST node, followed by 0-3 blank lines: its value depends on
		// the exact number of line breaks the reader hands to the decoder
		ind := g.Pick([]string{"|+", ">+", "|+", "|"})
		fmt.Fprintf(&b, "tail:\n  script: %s\n    echo hello %d\n", ind, i)
		b.WriteString(strings.Repeat("\n", g.Intn(4)))
	}
	return b.String()
}

var c13GoodSeps = []string{"---", "---", "---", "--- # sep comment", "---   ", "---\t", "--- #", "--- #x"}

func genStream13(g *Rng) (string, int) {
	n := 1 + g.Intn(4)
	var b strings.Builder
	if g.Chance(30) {
		b.WriteString("---\n")
	}
	for i := 0; i < n; i++ {
		if i > 0 {
			b.WriteString(g.Pick(c13GoodSeps) + "\n")
			if g.Chance(10) {
				b.WriteString("---\n") // a run of separators: an empty document in between
			}
		}
		if g.Chance(8) {
			continue // empty document
		}
		if g.Chance(6) {
			b.WriteString(g.Pick([]string{"{}\n", "{} # empty map\n", "# head of empty\n{}\n"}))
			continue
		}
		b.WriteString(genDoc13(g, i))
	}
	if g.Chance(20) {
		b.WriteString("---\n")
	}
	s := b.String()
	if g.Chance(15) {
		s = strings.TrimSuffix(s, "\n")
	}
	if g.Chance(20) {
		s = strings.ReplaceAll(s, "\n", "\r\n")
	}
	return s, n
}

// keepTailCases: streams whose documents are "k: |+" (or ">+") scalars followed by 0-3 blank lines.
// Observed per decoded document: the number of line breaks the scalar's value ends with, which is the
// number of newlines the chunk handed to the decoder ends with (model: reader_chunks).
func keepTailCases(r *Run) {
	blanks := []int{0, 1, 2, 3}
	emit := func(docs []string, final string, crlf bool) {
		s := strings.Join(docs, "---\n") + final
		if crlf {
			s = strings.ReplaceAll(s, "\n", "\r\n")
		}
		desc := map[string]string{"kind": "keep-tails", "s": s}
		nodes, err := (&kio.ByteReader{Reader: strings.NewReader(s)}).Read()
		if err != nil {
			r.Violation(OracleViolation{Law: "roundtrip_ok", Class: "C13/roundtrip-rejected", Detail: "reader rejected a keep-scalar stream: " + err.Error(), Replay: desc})
			return
		}
		var tails []string
		for _, n := range nodes {
			v, err := n.Pipe(kyaml.Lookup("k"))
			if err != nil || v == nil {
				return
			}
			val := v.YNode().Value
			tails = append(tails, fmt.Sprintf("%d%%N", len(val)-len(strings.TrimRight(val, "\n"))))
		}
		r.AddCase(fmt.Sprintf("(S_tails %s [%s])", coqStr(s), strings.Join(tails, "; ")), desc, len(nodes) > 1)
		r.Count("keep_tails", fmt.Sprint(len(nodes)))
		roundTripOracle(r, s)
	}
	for _, ind := range []string{"|+", ">+"} {
		doc := func(b int) string { return "k: " + ind + "\n  a\n" + strings.Repeat("\n", b) }
		for _, b1 := range blanks {
			for _, b2 := range blanks {
				emit([]string{doc(b1), doc(b2)}, "", false)
				emit([]string{doc(b1), doc(b2)}, "---\n", false)
				for _, b3 := range []int{0, 2} {
					emit([]string{doc(b1), doc(b2), doc(b3)}, "", b3 == 2)
				}
			}
			emit([]string{doc(b1), "k: " + ind + "\n  a"}, "", false)
		}
	}
}

// decodesToDocument: the chunk holds a YAML document whose root is not null.
func decodesToDocument(chunk string) bool {
	var n yaml3.Node
	if err := yaml3.NewDecoder(strings.NewReader(chunk)).Decode(&n); err != nil {
		return false
	}
	return n.Kind == yaml3.DocumentNode && len(n.Content) > 0 && n.Content[0].Tag != "!!null"
}

// Which texts between separators are documents for ByteReader (default options) — pinned from the reader's
// behaviour on the unchanged tree: a root that is a mapping, even an EMPTY one, is a document; a null root,
// nothing, or only comments is no document; any other root (sequence, scalar) makes Read fail.
const (
	formDoc    = 0
	formSkip   = 1
	formReject = 2
)

type docForm struct {
	text string
	kind int
	sig  string // JSON of the document as it must be read
}

var c13DocForms = []docForm{
	{"a: 1\n", formDoc, `{"a":1}`},
	{"{}\n", formDoc, `{}`},
	{"{} # line comment on empty map\n", formDoc, `{}`},
	{"# head comment of empty map\n{}\n", formDoc, `{}`},
	{"", formSkip, ""},
	{"# only a comment\n", formSkip, ""},
	{"null\n", formSkip, ""},
	{"[]\n", formReject, ""},
	{"b:\n  c: {}\n  d: []\n", formDoc, `{"b":{"c":{},"d":[]}}`},
}

func emptyDocCases(r *Run) {
	var rec func(cur []int, n int)
	rec = func(cur []int, n int) {
		if len(cur) > 0 {
			var parts []string
			var want []string
			reject := false
			for _, i := range cur {
				f := c13DocForms[i]
				parts = append(parts, f.text)
				switch f.kind {
				case formDoc:
					want = append(want, f.sig)
				case formReject:
					reject = true
				}
			}
			s := strings.Join(parts, "---\n")
			desc := map[string]string{"kind": "docforms", "s": s}
			report := func(law, cls, detail string) {
				r.Violation(OracleViolation{Law: law, Class: cls, Detail: detail, Replay: desc})
			}
			// (1) default reader: a sequence document cannot carry the reader annotations => Read fails
			nodes, err := (&kio.ByteReader{Reader: strings.NewReader(s)}).Read()
			// (2) without reader annotations (kio.FromBytes): a sequence root is a document like any other
			nodesOmit, errOmit := (&kio.ByteReader{Reader: strings.NewReader(s), OmitReaderAnnotations: true}).Read()
			var wantOmit []string
			for _, i := range cur {
				switch f := c13DocForms[i]; f.kind {
				case formDoc:
					wantOmit = append(wantOmit, f.sig)
				case formReject:
					wantOmit = append(wantOmit, "[]")
				}
			}
			sigs := func(ns []*kyaml.RNode) []string {
				var got []string
				for _, n := range ns {
					j, err := n.MarshalJSON()
					if err != nil {
						got = append(got, "<"+err.Error()+">")
						continue
					}
					var v interface{}
					if json.Unmarshal(j, &v) == nil {
						if b, err := json.Marshal(normaliseMeta(v, true)); err == nil {
							j = b
						}
					}
					got = append(got, string(j))
				}
				return got
			}
			r.Count("docforms", fmt.Sprintf("docs=%d reject=%v", len(want), reject))
			r.AddEval("docforms|"+s, len(want) > 1)
			if errOmit != nil {
				report("roundtrip_ok", "C13/roundtrip-rejected", "reader (no annotations) rejected the stream: "+errOmit.Error())
			} else if got := sigs(nodesOmit); !reflect.DeepEqual(got, wantOmit) {
				cls := "C13/reader-doc-order"
				if len(got) != len(wantOmit) {
					cls = "C13/reader-doc-count"
				}
				report("roundtrip_order", cls, fmt.Sprintf("read (no annotations) %q, the stream holds %q", got, wantOmit))
			}
			switch {
			case reject && err == nil:
				report("roundtrip_order", "C13/reader-accepts-non-mapping-document", fmt.Sprintf("a stream with a sequence document was read without error (%d documents)", len(nodes)))
			case !reject && err != nil:
				report("roundtrip_ok", "C13/roundtrip-rejected", "reader rejected the stream: "+err.Error())
			case !reject:
				if got := sigs(nodes); !reflect.DeepEqual(got, want) {
					cls := "C13/reader-doc-order"
					if len(got) != len(want) {
						cls = "C13/reader-doc-count"
					}
					report("roundtrip_order", cls, fmt.Sprintf("read %q, the stream holds %q", got, want))
				}
				// index annotations follow the documents
				if nodes2, err := (&kio.ByteReader{Reader: strings.NewReader(s)}).Read(); err == nil {
					for k, n := range nodes2 {
						if v := n.GetAnnotations()[kioutil.IndexAnnotation]; v != fmt.Sprint(k) {
							report("roundtrip_order", "C13/reader-index", fmt.Sprintf("document %d carries index %q", k, v))
						}
					}
				}
				roundTripOracle(r, s)
			}
		}
		if n == 0 {
			return
		}
		for i := range c13DocForms {
			rec(append(append([]int{}, cur...), i), n-1)
		}
	}
	rec(nil, 3)
}

// ---------- text-level round trip with go-yaml as tables ----------

var c13PlainDocs = []string{
	"a: 1\n",
	"apiVersion: v1\nkind: ConfigMap\nmetadata:\n  name: x\ndata:\n  k: v\n",
	"kind: K\nmetadata:\n  name: y\n  annotations: {}\n",
	"kind: K\nmetadata:\n  annotations:\n    keep: me\n  name: z\n",
	"{}\n",
	"metadata: {}\nspec:\n  l:\n  - 1\n  - b: c\n",
	"k: |+\n  a\n\n",
	"s: \"q\"\nt: 'r'\nu: [1, 2]\n",
	"",
	"null\n",
}

// decodeChunk does what ByteReader.decode does with go-yaml before it touches annotations.
func decodeChunk(chunk string) (*kyaml.RNode, bool, error) {
	node := &kyaml.Node{}
	err := kyaml.NewDecoder(bytes.NewBufferString(chunk)).Decode(node)
	if err != nil {
		if err.Error() == "EOF" {
			return nil, false, nil
		}
		return nil, false, err
	}
	if kyaml.IsYNodeEmptyDoc(node) {
		return nil, false, nil
	}
	n := kyaml.NewRNode(node)
	if kyaml.IsMissingOrNull(n) {
		return nil, false, nil
	}
	return n, true, nil
}

func textStreamCases(r *Run, rng *Rng, n int) {
	// comment-free streams only: comments are not part of the node model, so a comment that ends up inside a chunk
	// (a "--- # c" line after another separator, or on the first line) would make the encoder table ambiguous
	seps := []string{"---\n", "---\n", "---\t\n", "---   \n"}
	for it := 0; it < n; it++ {
		g := rng.Fork()
		k := 1 + g.Intn(4)
		var b strings.Builder
		if g.Chance(20) {
			b.WriteString("---\n")
		}
		for i := 0; i < k; i++ {
			if i > 0 {
				b.WriteString(g.Pick(seps))
			}
			b.WriteString(g.Pick(c13PlainDocs))
		}
		s := b.String()
		if g.Chance(15) {
			s = strings.TrimSuffix(s, "\n")
		}
		if g.Chance(15) {
			s = strings.ReplaceAll(s, "\n", "\r\n")
		}
		desc := map[string]string{"kind": "text-stream", "s": s}
		// tables: decoder on the chunks the reader must form, encoder on the cleared nodes
		docs, err := kio.VerifC13SplitDocuments(strings.ReplaceAll(s, "\r\n", "\n"))
		if err != nil {
			continue
		}
		var decTerms, encTerms []string
		seenDec := map[string]bool{}
		seenEnc := map[string]bool{}
		var allNodes []*kyaml.RNode
		ok := true
		for i, d := range docs {
			if i != len(docs)-1 {
				d += "\n"
			}
			if seenDec[d] {
				continue
			}
			seenDec[d] = true
			n, isDoc, err := decodeChunk(d)
			if err != nil {
				ok = false
				break
			}
			if !isDoc {
				decTerms = append(decTerms, fmt.Sprintf("(%s, None)", coqStr(d)))
				continue
			}
			t, tok := nodeTerm(n)
			if !tok {
				ok = false
				break
			}
			decTerms = append(decTerms, fmt.Sprintf("(%s, Some %s)", coqStr(d), t))
			allNodes = append(allNodes, n)
			// the cleared form and its encoding
			c := n.Copy()
			if err := kyaml.ClearEmptyAnnotations(c); err != nil {
				ok = false
				break
			}
			ct, tok := nodeTerm(c)
			if !tok {
				ok = false
				break
			}
			var ob bytes.Buffer
			if err := (kio.ByteWriter{Writer: &ob}).Write([]*kyaml.RNode{c}); err != nil {
				ok = false
				break
			}
			if !seenEnc[ct] {
				seenEnc[ct] = true
				encTerms = append(encTerms, fmt.Sprintf("(%s, %s)", ct, coqStr(ob.String())))
			}
		}
		if !ok {
			r.Meta.Skipped++
			continue
		}
		var out string
		cls, _ := protect(func() error {
			var err error
			out, err = roundTrip(s)
			return err
		})
		if cls != ClsOk {
			out = ""
		}
		r.AddCase(fmt.Sprintf("(T_stream %s [%s] [%s] %s %s %s)", coqStr(s), strings.Join(decTerms, "; "), strings.Join(encTerms, "; "),
			coqStrList(nonstrOf(allNodes...)), cls, coqStr(out)), desc, cls == ClsOk && len(allNodes) > 1)
		r.Count("text_stream", fmt.Sprintf("%s/%d", cls, len(allNodes)))
	}
}

// ---------- anchors: kio.FromBytes (AnchorsAweigh) -> kio.StringAll ----------

var c13AnchorDocs = []string{
	// alias to a mapping that itself contains an alias
	"defs:\n  d: &d\n    x: 1\n  n: &n\n    inner: *d\n    y: 2\nuse:\n  ref: *n\n",
	// alias to a mapping that contains a merge key to another anchor
	"defs:\n  d: &d\n    x: 1\n  n: &n\n    <<: *d\n    y: 2\nuse:\n  ref: *n\n",
	// alias to a sequence holding aliases
	"d: &d {x: 1}\nl: &l\n- *d\n- z\n- [*d]\nuse: *l\n",
	// merge of a mapping that contains an alias, and merge lists
	"d: &d {x: 1}\nn: &n\n  inner: *d\nm:\n  <<: *n\n  k: v\nmm:\n  <<: [*n, *d]\n",
	// three levels
	"a: &a {p: q}\nb: &b\n  a1: *a\nc: &c\n  b1: *b\n  <<: *a\nuse:\n  c1: *c\n  cs: [*c, *b, *a]\n",
	// aliases to scalars inside aliased collections
	"s: &s hello\nm: &m\n  t: *s\n  u: [*s, *s]\nuse: *m\nagain: *m\n",
	// plain single level (control)
	"base: &anc\n  k: v\n  l: [1, 2]\nuse: *anc\nmerged:\n  <<: *anc\n  extra: y\n",
	// chained merges: the merged mapping has a merge key itself
	"d: &d {x: 1}\nn: &n\n  <<: *d\n  y: 2\nuse:\n  <<: *n\n  z: 3\n",
	"d: &d {x: 1}\nuse:\n  <<: {<<: *d, q: 1}\n",
}

func anchorOracle(r *Run, rng *Rng, n int) {
	check := func(s string) {
		desc := map[string]string{"kind": "anchors", "s": s}
		report := func(law, cls, detail string) {
			r.Violation(OracleViolation{Law: law, Class: cls, Detail: detail, Replay: desc})
		}
		var out string
		cls, msg := protect(func() error {
			nodes, err := kio.FromBytes([]byte(s))
			if err != nil {
				return err
			}
			out, err = kio.StringAll(nodes)
			return err
		})
		r.AddEval("anchors|"+s, cls == ClsOk)
		r.Count("anchors", cls)
		if cls == ClsPanic {
			report("no_panic", "C13/anchors-panic", msg)
			return
		}
		if cls != ClsOk {
			report("roundtrip_ok", "C13/anchors-rejected", "FromBytes/StringAll rejected a stream with nested anchors: "+msg)
			return
		}
		if strings.Contains(out, "*") || strings.Contains(out, "&") {
			report("anchors_expanded", "C13/anchors-left-in-output", "an alias or anchor is left after DeAnchor:\n"+out)
		} else if strings.Contains(out, "<<") {
			// known: a merge of a mapping that has a merge key itself copies that key as an ordinary entry
			report("anchors_expanded", "C13/deanchor-chained-merge-key-left", "a merge key is left after DeAnchor:\n"+out)
		}
		in, err1 := jsonDocs(s, true)
		got, err2 := jsonDocs(out, false)
		if err2 != nil {
			report("anchors_expanded", "C13/anchors-output-unparsable", fmt.Sprintf("the output does not reparse: %v\n%s", err2, out))
			return
		}
		if err1 != nil {
			return
		}
		if !reflect.DeepEqual(in, got) {
			a, _ := json.Marshal(in)
			b, _ := json.Marshal(got)
			cls := "C13/anchors-data"
			if strings.Contains(s, ">+") && len(in) == len(got) {
				known := true
				for i := range in {
					if !onlyKeepFoldedGrowth(in[i], got[i]) {
						known = false
					}
				}
				if known {
					cls = "C13/roundtrip-data/folded-keep-scalar-gains-line-break"
				}
			}
			report("anchors_expanded", cls, fmt.Sprintf("expanded data differs: %s -> %s", a, b))
		}
		// and the ordinary reader/writer (aliases kept) still round-trips
		roundTripOracle(r, s)
	}
	for _, d := range c13AnchorDocs {
		check(d)
	}
	// streams mixing them with ordinary documents
	for i := 0; i < n; i++ {
		g := rng.Fork()
		k := 1 + g.Intn(3)
		var parts []string
		for j := 0; j < k; j++ {
			if g.Chance(65) {
				parts = append(parts, g.Pick(c13AnchorDocs))
			} else {
				parts = append(parts, genDoc13(g, j))
			}
		}
		check(strings.Join(parts, "---\n"))
	}
}

// ---------- RNode.DeAnchor vs the model (Yaml/Anchor.v) ----------

// anodeTerm prints a yaml.Node (anchors, aliases kept) as a KV.Yaml.Anchor.anode term.
func anodeTerm(n *kyaml.Node) (string, bool) {
	if n == nil {
		return "", false
	}
	switch n.Kind {
	case kyaml.DocumentNode:
		if len(n.Content) != 1 || n.Anchor != "" {
			return "", false
		}
		return anodeTerm(n.Content[0])
	case kyaml.ScalarNode:
		return fmt.Sprintf("(AScalar %s %s %s %s)", coqStr(n.Anchor), coqTag(n.Tag), coqStyle(n.Style), coqStr(n.Value)), true
	case kyaml.AliasNode:
		if n.Anchor != "" {
			return "", false
		}
		return fmt.Sprintf("(AAlias %s)", coqStr(n.Value)), true
	case kyaml.MappingNode:
		var parts []string
		for i := 0; i+1 < len(n.Content); i += 2 {
			k := n.Content[i]
			if k.Kind != kyaml.ScalarNode || k.Anchor != "" {
				return "", false
			}
			if (k.Value == "<<") != (k.Tag == "!!merge") {
				return "", false // a quoted "<<" key: outside the model
			}
			v, ok := anodeTerm(n.Content[i+1])
			if !ok {
				return "", false
			}
			parts = append(parts, fmt.Sprintf("(%s, %s)", coqStr(k.Value), v))
		}
		return fmt.Sprintf("(AMap %s [%s])", coqStr(n.Anchor), strings.Join(parts, "; ")), true
	case kyaml.SequenceNode:
		var parts []string
		for _, c := range n.Content {
			v, ok := anodeTerm(c)
			if !ok {
				return "", false
			}
			parts = append(parts, v)
		}
		return fmt.Sprintf("(ASeq %s [%s])", coqStr(n.Anchor), strings.Join(parts, "; ")), true
	}
	return "", false
}

var c13DeanchorDocs = []string{
	"d: &d {x: 1}\nn: &n\n  <<: *d\n  y: 2\nuse:\n  <<: *n\n  z: 3\n",
	"l:\n- &d {x: 1}\n- &n\n  <<: *d\n  y: 2\nuse:\n  <<: *n\n",
	"d: &d {x: 1}\nuse:\n  <<: {<<: *d, q: 1}\n",
	"d: &d {x: 1}\ne: &e {x: 9, w: 0}\nmm:\n  k: v\n  <<: [*d, *e]\n  x: own\n",
	"d: &d {x: 1}\nmm:\n  <<: [*d, {y: 2}, *d]\n",
	"data: &x {b: *x}\n",
	"s: &s [1, *s]\n",
	"s: &s [1, 2]\nm:\n  <<: *s\n",
	"v: &v 1\nm:\n  <<: *v\n",
	"m:\n  <<: 1\n",
	"d: &d {x: 1}\nm:\n  <<: [[*d]]\n",
	"a: &x 1\nb: *x\nc: &x 2\nd: *x\n",
	"a: &x {k: &x 1}\nb: *x\n",
	"a: &a {x: &b 1}\nuse: [*a, *b]\n",
	"top: &t\n  inner: &i {p: q}\n  again: *i\nuse: *t\nuse2: {<<: *t, extra: 1}\n",
	"d: &d {x: 1, y: 2}\nm:\n  y: own\n  <<: *d\n  z: 3\n",
	"e: &e {}\nm: {<<: *e, a: 1}\nl: &l []\nn: *l\n",
	// duplicated keys: kept where they stand, but a merge copies the first value of a name only
	"k: 1\nk: 2\nk: 3\n",
	"a: &x {k: 1, k: 2}\nb: {<<: *x}\n",
	"a: &x {j: 9, j: 8}\nb: {j: 1, <<: *x, j: 2, m: 0, m: 1}\n",
	"a: &x {j: 9, n: 7, j: 8}\nb: {<<: [*x, {n: 1, n: 2, o: 3}], m: 0, m: 1}\n",
}

func genAnchorDoc(g *Rng) string {
	names := []string{"p", "q", "r"}
	var defined []string // anchors whose node has started (aliases to the open ones are self references)
	var closed []string  // anchors whose node is complete
	openCount := map[string]int{} // collections in progress that carry the name
	var gen func(depth int, inMerge bool) string
	scalar := func() string { return g.Pick([]string{"1", "x", "true", "'s'", "null"}) }
	gen = func(depth int, inMerge bool) string {
		anchor := ""
		if !inMerge && g.Chance(35) {
			anchor = "&" + g.Pick(names) + " "
		}
		k := g.Intn(10)
		if depth <= 0 {
			k = g.Intn(4)
		}
		switch {
		case k < 2:
			if anchor != "" {
				defined = append(defined, strings.TrimSpace(anchor[1:]))
				closed = append(closed, strings.TrimSpace(anchor[1:]))
			}
			return anchor + scalar()
		case k < 4 && len(defined) > 0:
			if g.Chance(90) {
				// an anchor whose most recent node is complete
				var cands []string
				for _, c := range closed {
					if openCount[c] == 0 {
						cands = append(cands, c)
					}
				}
				if len(cands) == 0 {
					return scalar()
				}
				return "*" + g.Pick(cands)
			}
			return "*" + g.Pick(defined) // possibly a node that contains this alias
		case k < 4:
			return scalar()
		case k < 8:
			// anchors are registered when the node starts (self references are possible)
			if anchor != "" {
				defined = append(defined, strings.TrimSpace(anchor[1:]))
				openCount[strings.TrimSpace(anchor[1:])]++
			}
			n := 1 + g.Intn(3)
			var es []string
			usedMerge := false
			var keys []string
			for i := 0; i < n; i++ {
				if !usedMerge && len(closed) > 0 && g.Chance(30) {
					usedMerge = true
					var pool []string
					for _, c := range closed {
						if openCount[c] == 0 {
							pool = append(pool, c)
						}
					}
					if len(pool) == 0 || g.Chance(4) {
						pool = defined // rarely an anchor that may still be open (skipped when it is)
					}
					switch g.Intn(4) {
					case 0:
						es = append(es, "<<: [*"+g.Pick(pool)+", *"+g.Pick(pool)+"]")
					case 1:
						es = append(es, "<<: "+gen(depth-1, true))
					default:
						es = append(es, "<<: *"+g.Pick(pool))
					}
					continue
				}
				key := g.Pick([]string{"a", "b", "c", "x"}) + fmt.Sprint(i)
				if len(keys) > 0 && g.Chance(12) {
					key = g.Pick(keys) // a duplicated key: mergeAll copies the FIRST value of a name only
				}
				keys = append(keys, key)
				es = append(es, key+": "+gen(depth-1, inMerge))
			}
			if anchor != "" {
				closed = append(closed, strings.TrimSpace(anchor[1:]))
				openCount[strings.TrimSpace(anchor[1:])]--
			}
			return anchor + "{" + strings.Join(es, ", ") + "}"
		default:
			if anchor != "" {
				defined = append(defined, strings.TrimSpace(anchor[1:]))
				openCount[strings.TrimSpace(anchor[1:])]++
			}
			n := g.Intn(3)
			var es []string
			for i := 0; i < n; i++ {
				es = append(es, gen(depth-1, inMerge))
			}
			if anchor != "" {
				closed = append(closed, strings.TrimSpace(anchor[1:]))
				openCount[strings.TrimSpace(anchor[1:])]--
			}
			return anchor + "[" + strings.Join(es, ", ") + "]"
		}
	}
	var top []string
	for i := 0; i < 2+g.Intn(3); i++ {
		top = append(top, fmt.Sprintf("k%d: %s", i, gen(2, false)))
	}
	return strings.Join(top, "\n") + "\n"
}

// mergesOpenAnchor: some merge key names (directly or in a list) the mapping it sits in or one of the
// collections enclosing it.  Before fix 2965816 DeAnchor did not notice (fix 46c2be4 covered aliases in value
// position only): it returned nonsense or never returned, growing without bound — such documents are run in a
// child process only, and must be refused.
func mergesOpenAnchor(n *kyaml.Node, open map[*kyaml.Node]bool) bool {
	if n == nil {
		return false
	}
	switch n.Kind {
	case kyaml.MappingNode:
		open[n] = true
		defer delete(open, n)
		for i := 0; i+1 < len(n.Content); i += 2 {
			k, v := n.Content[i], n.Content[i+1]
			if k.Tag == "!!merge" {
				cands := []*kyaml.Node{v}
				if v.Kind == kyaml.SequenceNode {
					cands = v.Content
				}
				for _, c := range cands {
					if c.Kind == kyaml.AliasNode && open[c.Alias] {
						return true
					}
				}
			}
			if mergesOpenAnchor(v, open) {
				return true
			}
		}
	case kyaml.SequenceNode, kyaml.DocumentNode:
		open[n] = true
		defer delete(open, n)
		for _, c := range n.Content {
			if mergesOpenAnchor(c, open) {
				return true
			}
		}
	}
	return false
}

// flatMerges mirrors Yaml/Anchor.v flat_merges: no mapping that can be the source of a merge (anchored, written in
// place as a merge value or as an item of a merge list) has a merge key itself.  Outside this domain DeAnchor's
// result depends on the history of the nodes (an alias in value position processes its target in place, a later
// merge of the same anchor then sees the processed node; a left-over "<<" entry is merged on the next visit):
// the model does not follow that, generated documents outside the domain get the implementation oracles only.
func flatMerges(n *kyaml.Node, lax bool) bool {
	if n == nil {
		return true
	}
	switch n.Kind {
	case kyaml.DocumentNode:
		for _, c := range n.Content {
			if !flatMerges(c, lax) {
				return false
			}
		}
	case kyaml.SequenceNode:
		for _, c := range n.Content {
			if !flatMerges(c, lax) {
				return false
			}
		}
	case kyaml.MappingNode:
		for i := 0; i+1 < len(n.Content); i += 2 {
			isM := n.Content[i].Value == "<<"
			if isM && (lax || n.Anchor != "") {
				return false
			}
			if !flatMerges(n.Content[i+1], !lax && isM) {
				return false
			}
		}
	}
	return true
}

// aliasesOpenAnchor: some alias in value position names a collection that encloses it (`&x {b: *x}`).  DeAnchor
// must refuse such a document (fix 46c2be4); without the check it recurses until the Go runtime kills the
// process, so these documents are run in a child process and only their verdict is taken.
func aliasesOpenAnchor(n *kyaml.Node, open map[*kyaml.Node]bool) bool {
	if n == nil {
		return false
	}
	switch n.Kind {
	case kyaml.AliasNode:
		return open[n.Alias]
	case kyaml.MappingNode:
		open[n] = true
		defer delete(open, n)
		for i := 0; i+1 < len(n.Content); i += 2 {
			if aliasesOpenAnchor(n.Content[i+1], open) {
				return true
			}
		}
	case kyaml.SequenceNode, kyaml.DocumentNode:
		open[n] = true
		defer delete(open, n)
		for _, c := range n.Content {
			if aliasesOpenAnchor(c, open) {
				return true
			}
		}
	}
	return false
}

func trunc13(s string, n int) string {
	if len(s) > n {
		return s[:n]
	}
	return s
}

// deanchorProbe runs DeAnchor on one document in a child process (it may never return).
func deanchorProbe(doc string) (finished bool, output string) {
	cmd := exec.Command(os.Args[0], "-tier", "quick", "-seed", "1", "-out", os.TempDir(), "C13")
	cmd.Env = append(os.Environ(), "C13_DEANCHOR_PROBE="+doc, "GOMEMLIMIT=512MiB")
	var sb strings.Builder
	cmd.Stdout = &sb
	cmd.Stderr = &sb
	if err := cmd.Start(); err != nil {
		return true, "cannot start probe: " + err.Error()
	}
	done := make(chan error, 1)
	go func() { done <- cmd.Wait() }()
	select {
	case <-done:
		return true, sb.String()
	case <-time.After(8 * time.Second):
		_ = cmd.Process.Kill()
		<-done
		return false, ""
	}
}

// deanchorOne: one document through DeAnchor — implementation oracles, and the model case when it is in the model's domain.
func deanchorOne(r *Run, s string, fixed bool) {
	orig, err := kyaml.Parse(s)
	if err != nil {
		r.Meta.Skipped++
		return
	}
	// fixed documents (the witnesses of the findings among them) are always compared with the model;
	// generated ones only inside its domain
	inDomain := flatMerges(orig.YNode(), false)
	ctor := "D_deanchor"
	if !fixed {
		ctor = "D_deanchor_flat"
	}
	in, ok := anodeTerm(orig.YNode())
	if !ok {
		r.Meta.Skipped++
		return
	}
	desc := map[string]string{"kind": "deanchor", "s": s}
	selfRef := aliasesOpenAnchor(orig.YNode(), map[*kyaml.Node]bool{})
	selfMerge := mergesOpenAnchor(orig.YNode(), map[*kyaml.Node]bool{})
	if selfRef || selfMerge {
		// a node that contains itself, through an alias in value position (fix 46c2be4) or under a merge key
		// (fix 2965816): verdict from a child process — without the fixes DeAnchor overflows the stack / never
		// returns and eats memory.  The model says Err whatever else the document holds.
		fin, pout := deanchorProbe(s)
		class, what := "C13/deanchor-self-reference-not-refused", "self reference (child process)"
		if selfMerge {
			class, what = "C13/deanchor-merge-of-open-anchor", "merge of an enclosing anchor (child process)"
		}
		r.Count("deanchor", what)
		switch {
		case !fin || !strings.Contains(pout, "PROBE err="):
			r.Violation(OracleViolation{Law: "terminates", Class: class, Detail: "DeAnchor does not return / dies on a node that contains itself: " + s + " " + trunc13(pout, 300), Replay: desc})
		case strings.Contains(pout, "PROBE err=<nil>"):
			r.Violation(OracleViolation{Law: "anchors_expanded", Class: class, Detail: "DeAnchor accepted a node that contains itself: " + s, Replay: desc})
		default:
			r.AddCase(fmt.Sprintf("(D_deanchor %s %s %s)", in, ClsErr, "(AAlias \"\")"), desc, false)
		}
		return
	}
	work := orig.Copy()
	o := make(chan string, 1)
	var cls string
	go func() {
		c, _ := protect(func() error { return work.DeAnchor() })
		o <- c
	}()
	select {
	case cls = <-o:
	case <-time.After(20 * time.Second):
		r.Violation(OracleViolation{Law: "terminates", Class: "C13/deanchor-diverges", Detail: "DeAnchor did not return", Replay: desc})
		return
	}
	out := "(AAlias \"\")"
	if cls == ClsOk {
		t, ok := anodeTerm(work.YNode())
		if !ok {
			// the output still holds something the alias-free type cannot express
			r.Violation(OracleViolation{Law: "anchors_expanded", Class: "C13/deanchor-output-not-plain", Detail: "DeAnchor output is not expressible without aliases", Replay: desc})
			return
		}
		out = t
		if strings.Contains(t, "(AAlias ") {
			r.Violation(OracleViolation{Law: "anchors_expanded", Class: "C13/anchors-left-in-output", Detail: "an alias is left after DeAnchor", Replay: desc})
		}
	}
	if cls == ClsPanic {
		r.Violation(OracleViolation{Law: "no_panic", Class: "C13/deanchor-panic", Detail: "DeAnchor panicked", Replay: desc})
	}
	if !fixed && !inDomain {
		r.Count("deanchor", "implementation only: a merge source has a merge key (outside the model's domain)")
		return
	}
	r.AddCase(fmt.Sprintf("(%s %s %s %s)", ctor, in, cls, out), desc, cls == ClsOk && strings.Contains(s, "*"))
	r.Count("deanchor", cls)
}

func deanchorCases(r *Run, rng *Rng, n int) {
	// the known non-terminating shape, in a child process
	// (started now, judged when the other cases are done: the probe waits on a clock)
	probeDoc := "k1: &p {b0: {<<: *p}}\n"
	type probeRes struct {
		fin bool
		out string
	}
	probeCh := make(chan probeRes, 1)
	go func() {
		fin, out := deanchorProbe(probeDoc)
		probeCh <- probeRes{fin, out}
	}()
	defer func() {
		doc := probeDoc
		pr := <-probeCh
		fin, out := pr.fin, pr.out
		r.AddEval("deanchor-probe", false)
		if !fin || strings.Contains(out, "fatal error") || strings.Contains(out, "out of memory") {
			r.Violation(OracleViolation{Law: "terminates", Class: "C13/deanchor-merge-of-open-anchor", Detail: "REGRESSION of fix 2965816: DeAnchor does not return (memory grows without bound) on a merge key naming an enclosing anchor: " + doc,
				Replay: map[string]string{"kind": "deanchor-probe", "s": doc}})
		} else if !strings.Contains(out, "PROBE err=") || strings.Contains(out, "PROBE err=<nil>") {
			r.Violation(OracleViolation{Law: "anchors_expanded", Class: "C13/deanchor-merge-of-open-anchor", Detail: "DeAnchor accepted a merge key naming an enclosing anchor: " + out,
				Replay: map[string]string{"kind": "deanchor-probe", "s": doc}})
		}
	}()
	one := func(s string, fixed bool) { deanchorOne(r, s, fixed) }
	for _, d := range c13AnchorDocs {
		one(d, true)
	}
	for _, d := range c13DeanchorDocs {
		one(d, true)
	}
	for i := 0; i < n; i++ {
		one(genAnchorDoc(rng.Fork()), false)
	}
}

// ---------- round trip oracles ----------

func roundTrip(s string) (string, error) {
	nodes, err := (&kio.ByteReader{Reader: strings.NewReader(s)}).Read()
	if err != nil {
		return "", err
	}
	var out bytes.Buffer
	if err := (kio.ByteWriter{Writer: &out}).Write(nodes); err != nil {
		return "", err
	}
	return out.String(), nil
}

// jsonDocs parses a stream (go-yaml document by document, anchors resolved) into JSON values.
func jsonDocs(s string, input bool) ([]interface{}, error) {
	var out []interface{}
	dec := yaml3.NewDecoder(strings.NewReader(strings.ReplaceAll(s, "\r\n", "\n")))
	for {
		var n yaml3.Node
		err := dec.Decode(&n)
		if err != nil {
			if err.Error() == "EOF" {
				break
			}
			return nil, err
		}
		if n.Kind == 0 || (n.Kind == yaml3.DocumentNode && (len(n.Content) == 0 || n.Content[0].Tag == "!!null")) {
			continue
		}
		bs, err := yaml3.Marshal(&n)
		if err != nil {
			return nil, err
		}
		js, err := syaml.YAMLToJSON(bs)
		if err != nil {
			return nil, err
		}
		var v interface{}
		if err := json.Unmarshal(js, &v); err != nil {
			return nil, err
		}
		out = append(out, normaliseMeta(v, input))
	}
	return out, nil
}

var readerKeys = map[string]bool{
	"internal.config.kubernetes.io/index": true, "config.kubernetes.io/index": true,
	"internal.config.kubernetes.io/seqindent": true,
}

// normaliseMeta drops an emptied annotations map and an emptied metadata map; on the input side also
// the reader's own annotations (the output must not carry them at all).
func normaliseMeta(v interface{}, input bool) interface{} {
	m, ok := v.(map[string]interface{})
	if !ok {
		return v
	}
	md, ok := m["metadata"].(map[string]interface{})
	if !ok {
		if mv, present := m["metadata"]; present && mv == nil {
			delete(m, "metadata")
		}
		return m
	}
	if an, ok := md["annotations"].(map[string]interface{}); ok {
		if input {
			for k := range readerKeys {
				delete(an, k)
			}
		}
		if len(an) == 0 {
			delete(md, "annotations")
		}
	} else if av, present := md["annotations"]; present && av == nil {
		delete(md, "annotations")
	}
	if len(md) == 0 {
		delete(m, "metadata")
	}
	return m
}

func commentsOf(s string) ([]string, error) {
	var out []string
	dec := yaml3.NewDecoder(strings.NewReader(strings.ReplaceAll(s, "\r\n", "\n")))
	var walk func(n *yaml3.Node)
	add := func(c string) {
		for _, line := range strings.Split(c, "\n") {
			line = strings.TrimSpace(strings.TrimLeft(strings.TrimSpace(line), "#"))
			if line != "" {
				out = append(out, line)
			}
		}
	}
	walk = func(n *yaml3.Node) {
		add(n.HeadComment)
		add(n.LineComment)
		add(n.FootComment)
		for _, c := range n.Content {
			walk(c)
		}
	}
	for {
		var n yaml3.Node
		err := dec.Decode(&n)
		if err != nil {
			if err.Error() == "EOF" {
				break
			}
			return nil, err
		}
		walk(&n)
	}
	sort.Strings(out)
	return out, nil
}

// chunkComments: the comments attached to nodes inside the documents as the reader cuts them
// (a comment on a separator line belongs to no document).
func chunkComments(s string) ([]string, error) {
	docs, err := kio.VerifC13SplitDocuments(strings.ReplaceAll(s, "\r\n", "\n"))
	if err != nil {
		return nil, err
	}
	var out []string
	for i, d := range docs {
		if i != len(docs)-1 {
			d += "\n"
		}
		// a comment on a document-marker line ("--- # c") is attached to no node of the document
		lines := strings.Split(d, "\n")
		for j, l := range lines {
			if strings.HasPrefix(l, "---") {
				if k := strings.Index(l, "#"); k >= 0 {
					lines[j] = strings.TrimRight(l[:k], " \t")
				}
			}
		}
		d = strings.Join(lines, "\n")
		if !decodesToDocument(d) {
			continue // a chunk without any node (empty, null, comment only): its comments belong to no node
		}
		c, err := commentsOf(d)
		if err != nil {
			return nil, err
		}
		out = append(out, c...)
	}
	sort.Strings(out)
	return out, nil
}

func roundTripOracle(r *Run, s string) {
	desc := map[string]string{"kind": "roundtrip", "s": s}
	report := func(law, cls, detail string) {
		r.Violation(OracleViolation{Law: law, Class: cls, Detail: detail, Replay: desc})
	}
	var out1 string
	cls, msg := protect(func() error {
		var err error
		out1, err = roundTrip(s)
		return err
	})
	r.Count("roundtrip_class", cls)
	r.AddEval("rt|"+s, cls == ClsOk)
	if cls == ClsPanic {
		report("no_panic", "C13/roundtrip-panic", msg)
		return
	}
	if cls != ClsOk {
		// generated streams are valid: a rejected stream is a failed round trip
		report("roundtrip_ok", "C13/roundtrip-rejected", "reader/writer rejected a generated stream: "+msg)
		return
	}
	in, err1 := jsonDocs(s, true)
	got, err2 := jsonDocs(out1, false)
	if err1 != nil || err2 != nil {
		report("roundtrip_data", "C13/roundtrip-unparsable", fmt.Sprintf("reference parse failed: %v / %v", err1, err2))
		return
	}
	if len(in) != len(got) {
		report("roundtrip_order", "C13/roundtrip-doc-count", fmt.Sprintf("%d documents in, %d out", len(in), len(got)))
		return
	}
	for i := range in {
		if !reflect.DeepEqual(in[i], got[i]) {
			a, _ := json.Marshal(in[i])
			b, _ := json.Marshal(got[i])
			cls := "C13/roundtrip-data"
			if strings.Contains(s, ">+") && onlyKeepFoldedGrowth(in[i], got[i]) {
				// known: the emitter writes one blank line after every folded scalar; for a keep-chomped one (>+)
				// that ends in a blank line this is one more line break of data
				cls = "C13/roundtrip-data/folded-keep-scalar-gains-line-break"
			}
			report("roundtrip_data", cls, fmt.Sprintf("document %d changed: %s -> %s", i, a, b))
			return
		}
	}
	cin, err1 := chunkComments(s)
	cout, err2 := commentsOf(out1)
	if err1 == nil && err2 == nil {
		// comments written on "---" lines belong to no node of a document: kept or dropped, both are fine
		sepc := map[string]bool{}
		for _, l := range strings.Split(strings.ReplaceAll(s, "\r\n", "\n"), "\n") {
			if strings.HasPrefix(l, "---") {
				if k := strings.Index(l, "#"); k >= 0 {
					sepc[strings.TrimSpace(strings.TrimLeft(strings.TrimSpace(l[k:]), "#"))] = true
				}
			}
		}
		strip := func(l []string) []string {
			var out []string
			for _, c := range l {
				if !sepc[c] {
					out = append(out, c)
				}
			}
			return out
		}
		if a, b := strip(cin), strip(cout); !reflect.DeepEqual(a, b) {
			report("roundtrip_comments", "C13/roundtrip-comments", fmt.Sprintf("comments in %q, out %q", a, b))
		}
	}
	out2, err := roundTrip(out1)
	if err != nil {
		report("roundtrip_idempotent", "C13/roundtrip-second-rejected", err.Error())
	} else if out2 != out1 {
		cls := "C13/roundtrip-not-idempotent"
		if dropBlankLines(out1) == dropBlankLines(out2) && strings.Contains(out1, ">+") {
			cls = "C13/roundtrip-not-idempotent/folded-keep-scalar-gains-line-break"
		} else if dropBlankLines(out1) == dropBlankLines(out2) && foldedBeforeComment(out1) {
			// known: the emitter adds one more blank line between a folded scalar and a following comment
			cls = "C13/roundtrip-not-idempotent/folded-scalar-then-comment-blank-line"
		}
		report("roundtrip_idempotent", cls, fmt.Sprintf("second round trip differs:\n%q\n%q", out1, out2))
	}
}

// dropBlankLines removes empty lines and the indentation of whole-line comments.
// onlyKeepFoldedGrowth: a and b differ only in string leaves, each of which ends in a blank line in a
// and has exactly one more line break in b.
func onlyKeepFoldedGrowth(a, b interface{}) bool {
	switch x := a.(type) {
	case map[string]interface{}:
		y, ok := b.(map[string]interface{})
		if !ok || len(x) != len(y) {
			return false
		}
		for k, v := range x {
			w, ok := y[k]
			if !ok || !onlyKeepFoldedGrowth(v, w) {
				return false
			}
		}
		return true
	case []interface{}:
		y, ok := b.([]interface{})
		if !ok || len(x) != len(y) {
			return false
		}
		for i := range x {
			if !onlyKeepFoldedGrowth(x[i], y[i]) {
				return false
			}
		}
		return true
	case string:
		y, ok := b.(string)
		return ok && (x == y || (strings.HasSuffix(x, "\n\n") && y == x+"\n"))
	default:
		return reflect.DeepEqual(a, b)
	}
}

func dropBlankLines(s string) string {
	var out []string
	for _, l := range strings.Split(s, "\n") {
		t := strings.TrimSpace(l)
		if t == "" {
			continue
		}
		if strings.HasPrefix(t, "#") {
			l = t
		}
		out = append(out, l)
	}
	return strings.Join(out, "\n")
}

// foldedBeforeComment: some folded block scalar (": >") is followed, after its text and blank lines, by a comment line.
func foldedBeforeComment(s string) bool {
	lines := strings.Split(s, "\n")
	for i, l := range lines {
		t := strings.TrimSpace(l)
		if !strings.HasSuffix(t, ": >") && !strings.HasSuffix(t, ": >-") && !strings.HasSuffix(t, ": >+") {
			continue
		}
		ind := len(l) - len(strings.TrimLeft(l, " "))
		for j := i + 1; j < len(lines); j++ {
			u := lines[j]
			if strings.TrimSpace(u) == "" {
				continue
			}
			ui := len(u) - len(strings.TrimLeft(u, " "))
			if ui > ind {
				continue // text of the scalar
			}
			if strings.HasPrefix(strings.TrimSpace(u), "#") {
				return true
			}
			break
		}
	}
	return false
}

// ---------- annotations ----------

func c13NonstrOf(nodes ...*kyaml.RNode) []string {
	vals := map[string]bool{}
	for _, n := range nodes {
		if n != nil && n.YNode() != nil {
			scalarValues(n.YNode(), vals)
		}
	}
	var out []string
	for _, s := range sortedKeys(vals) {
		if kyaml.IsValueNonString(s) {
			out = append(out, s)
		}
	}
	return out
}

var c13AnnDocs = []string{
	"apiVersion: v1\nkind: ConfigMap\n",
	"apiVersion: v1\nkind: ConfigMap\nmetadata:\n  name: a\n",
	"apiVersion: v1\nkind: ConfigMap\nmetadata:\n  name: a\n  annotations:\n    keep: me\n",
	"apiVersion: v1\nkind: ConfigMap\nmetadata:\n  name: a\n  annotations: {}\n",
	"apiVersion: v1\nkind: ConfigMap\nmetadata:\n  annotations: {}\n",
	"apiVersion: v1\nkind: ConfigMap\nmetadata: {}\ndata:\n  k: v\n",
	"metadata:\n  annotations:\n    x: '1'\n    y: \"2\"\nkind: K\n",
	"kind: K\nmetadata:\n  labels:\n    l: v\n  annotations:\n    z: z\n  name: n\n",
	"a: b\n",
	"metadata:\n  name: x\n  annotations:\n    internal.config.kubernetes.io/seqindent: wide\n    other: o\n",
	"metadata:\n  annotations:\n    internal.config.kubernetes.io/index: '7'\n    config.kubernetes.io/index: '7'\n",
	"metadata:\n  annotations:\n    internal.config.kubernetes.io/index: '7'\n    config.kubernetes.io/index: '7'\n    k: v\n  name: q\n",
	"metadata:\n  name: x\n  annotations:\n    internal.config.kubernetes.io/seqindent: compact\n",
	"kind: K\nmetadata:\n  annotations:\n    a: b\n  annotations2: {}\n",
}

func annotationCases(r *Run, rng *Rng) {
	for _, d := range c13AnnDocs {
		// reader: a one-document stream
		orig, err := kyaml.Parse(d)
		if err != nil {
			continue
		}
		nodes, err := (&kio.ByteReader{Reader: strings.NewReader(d)}).Read()
		if err == nil && len(nodes) == 1 {
			hasReaderKey := strings.Contains(d, "config.kubernetes.io/index") || strings.Contains(d, "config.kubernetes.io/path") || strings.Contains(d, "config.k8s.io/id")
			if !hasReaderKey {
				a, ok1 := nodeTerm(orig)
				b, ok2 := nodeTerm(nodes[0])
				if ok1 && ok2 {
					r.AddCase(fmt.Sprintf("(A_read 0%%N %s %s %s)", a, b, coqStrList(c13NonstrOf(orig, nodes[0]))), map[string]string{"kind": "ann-read", "doc": d}, true)
					r.Count("annot", "read")
				}
			}
		}
		// package reader: the same with SetAnnotations = {path, legacy path}; package writer clearing
		for _, pth := range []string{"a.yaml", "d/e/f.yaml", ""} {
			if strings.Contains(d, "config.kubernetes.io/index") || strings.Contains(d, "config.k8s.io/id") {
				break
			}
			pn, err := (&kio.ByteReader{Reader: strings.NewReader(d), SetAnnotations: map[string]string{
				kioutil.PathAnnotation: pth, kioutil.LegacyPathAnnotation: pth}}).Read()
			if err != nil || len(pn) != 1 {
				continue
			}
			a, ok1 := nodeTerm(orig)
			b, ok2 := nodeTerm(pn[0])
			if ok1 && ok2 {
				r.AddCase(fmt.Sprintf("(A_pkgread 0%%N %s %s %s %s)", coqStr(pth), a, b, coqStrList(nonstrOf(orig, pn[0]))), map[string]string{"kind": "ann-pkgread", "doc": d, "path": pth}, true)
				r.Count("annot", "pkgread")
			}
			before, ok3 := nodeTerm(pn[0])
			cls, _ := protect(func() error {
				for _, k := range []string{kioutil.IndexAnnotation, kioutil.LegacyIndexAnnotation, kioutil.SeqIndentAnnotation, kioutil.PathAnnotation, kioutil.LegacyPathAnnotation} {
					if _, err := pn[0].Pipe(kyaml.ClearAnnotation(k)); err != nil {
						return err
					}
				}
				return kyaml.ClearEmptyAnnotations(pn[0])
			})
			after, ok4 := nodeTerm(pn[0])
			if ok3 && ok4 {
				r.AddCase(fmt.Sprintf("(A_pkgwrite %s %s %s)", before, after, cls), map[string]string{"kind": "ann-pkgwrite", "doc": d, "path": pth}, true)
				r.Count("annot", "pkgwrite")
			}
		}
		// writer: the clearing sequence of ByteWriter.Write applied to the parsed document
		w, _ := kyaml.Parse(d)
		cls, _ := protect(func() error {
			for _, k := range []string{kioutil.IndexAnnotation, kioutil.LegacyIndexAnnotation, kioutil.SeqIndentAnnotation} {
				if _, err := w.Pipe(kyaml.ClearAnnotation(k)); err != nil {
					return err
				}
			}
			return kyaml.ClearEmptyAnnotations(w)
		})
		a, ok1 := nodeTerm(orig)
		b, ok2 := nodeTerm(w)
		if ok1 && ok2 {
			r.AddCase(fmt.Sprintf("(A_write %s %s %s %s)", a, b, cls, coqStrList(c13NonstrOf(orig, w))), map[string]string{"kind": "ann-write", "doc": d}, true)
			r.Count("annot", "write")
		}
		// law: what ByteWriter emits equals the cleared node; reader then writer is the identity up to emptied maps
		var out bytes.Buffer
		p, _ := kyaml.Parse(d)
		if err := (kio.ByteWriter{Writer: &out}).Write([]*kyaml.RNode{p}); err == nil && cls == ClsOk {
			back, err := kyaml.Parse(out.String())
			if out.String() != "" && err == nil {
				ja, _ := back.MarshalJSON()
				jb, _ := w.MarshalJSON()
				if string(ja) != string(jb) {
					r.Violation(OracleViolation{Law: "annotations_roundtrip", Class: "C13/writer-clearing", Detail: fmt.Sprintf("ByteWriter output %s differs from the cleared node %s", ja, jb), Replay: map[string]string{"kind": "ann-write", "doc": d}})
				}
			}
		}
	}
	// index values on a multi-document stream
	s := "a: 1\n---\nb: 2\n---\nc: 3\n"
	nodes, err := (&kio.ByteReader{Reader: strings.NewReader(s)}).Read()
	if err == nil {
		for i, n := range nodes {
			orig, _ := kyaml.Parse(strings.Split(s, "---\n")[i])
			a, ok1 := nodeTerm(orig)
			b, ok2 := nodeTerm(n)
			if ok1 && ok2 {
				r.AddCase(fmt.Sprintf("(A_read %d%%N %s %s %s)", i, a, b, coqStrList(c13NonstrOf(orig, n))), map[string]interface{}{"kind": "ann-read-index", "i": i}, true)
			}
		}
	}
}

// ---------- package writer on a recording file system ----------

type recFS struct {
	filesys.FileSystem
	muts  []string // "op path"
	opens []string // files opened for reading
}

func (f *recFS) Open(p string) (filesys.File, error) {
	fl, err := f.FileSystem.Open(p)
	if err == nil {
		f.opens = append(f.opens, p)
	}
	return fl, err
}

func (f *recFS) WriteFile(p string, d []byte) error {
	f.muts = append(f.muts, "WriteFile "+p)
	return f.FileSystem.WriteFile(p, d)
}
func (f *recFS) Mkdir(p string) error {
	f.muts = append(f.muts, "Mkdir "+p)
	return f.FileSystem.Mkdir(p)
}
func (f *recFS) MkdirAll(p string) error {
	f.muts = append(f.muts, "MkdirAll "+p)
	return f.FileSystem.MkdirAll(p)
}
func (f *recFS) RemoveAll(p string) error {
	f.muts = append(f.muts, "RemoveAll "+p)
	return f.FileSystem.RemoveAll(p)
}
func (f *recFS) Create(p string) (filesys.File, error) {
	f.muts = append(f.muts, "Create "+p)
	return f.FileSystem.Create(p)
}

func insidePkg(pkg, p string) bool {
	c := filepath.Clean(p)
	return c == pkg || strings.HasPrefix(c, pkg+"/")
}

var c13PathForms = []string{
	"a.yaml", "d/a.yaml", "d/e/f/a.yaml", "./a.yaml", "d/./a.yaml", "d//a.yaml", "d/../a.yaml", "d/e/../../a.yaml",
	"/etc/passwd", "/pkg/a.yaml", "/", "//a", "../a.yaml", "../../a.yaml", "d/../../a.yaml", "a/../../b", "../pkg/a.yaml",
	"../pkg-evil/a.yaml", "..", ".", "", "d/", "d/a.yaml/", "...", "..a", "a..", "a..b/c.yaml", "d/.../a.yaml", ".a", ".hidden/a.yaml",
	"d/..", "d/../..", "./..", "a b.yaml", "ä.yaml", "d\\..\\a.yaml", "~a.yaml", "a.yaml/../b.yaml", "x/../../pkg/a.yaml",
	"pkg/a.yaml", "outside/a.yaml", "./../outside/secret.yaml", "d/../../outside/secret.yaml", "/outside/secret.yaml",
}

func newPkgFS() (*recFS, error) {
	fs := filesys.MakeFsInMemory()
	if err := fs.MkdirAll("/pkg"); err != nil {
		return nil, err
	}
	if err := fs.WriteFile("/outside/secret.yaml", []byte("secret: 1\n")); err != nil {
		return nil, err
	}
	if err := fs.MkdirAll("/pkg-evil"); err != nil {
		return nil, err
	}
	return &recFS{FileSystem: fs}, nil
}

func resourceWith(path, index string, i int) *kyaml.RNode {
	n := kyaml.MustParse(fmt.Sprintf("apiVersion: v1\nkind: ConfigMap\nmetadata:\n  name: r%d\n", i))
	_ = n.PipeE(kyaml.SetAnnotation(kioutil.PathAnnotation, path))
	_ = n.PipeE(kyaml.SetAnnotation(kioutil.IndexAnnotation, index))
	return n
}

func checkMuts(r *Run, fs *recFS, law, cls string, desc interface{}) (writes, mkdirs []string) {
	for _, m := range fs.muts {
		op, p, _ := strings.Cut(m, " ")
		if !insidePkg("/pkg", p) {
			r.Violation(OracleViolation{Law: law, Class: cls, Detail: "file system mutation outside the package: " + m, Replay: desc})
		}
		switch op {
		case "WriteFile", "Create":
			writes = append(writes, p)
		case "MkdirAll", "Mkdir":
			mkdirs = append(mkdirs, p)
		}
	}
	return
}

// resSpec: what the package writer looks at in a resource (nil = annotation absent).
type resSpec struct {
	Internal *string `json:"internal"`
	Legacy   *string `json:"legacy"`
	Index    *string `json:"index"`
	Ns       string  `json:"ns"`
	Kind     string  `json:"kind"`
	Name     string  `json:"name"`
}

func yq13(s string) string { return "'" + strings.ReplaceAll(s, "'", "''") + "'" }

func (rs resSpec) build() (*kyaml.RNode, error) {
	var b strings.Builder
	fmt.Fprintf(&b, "apiVersion: v1\nkind: %s\nmetadata:\n  name: %s\n", yq13(rs.Kind), yq13(rs.Name))
	if rs.Ns != "" {
		fmt.Fprintf(&b, "  namespace: %s\n", yq13(rs.Ns))
	}
	n, err := kyaml.Parse(b.String())
	if err != nil {
		return nil, err
	}
	for _, kv := range []struct {
		k string
		v *string
	}{{kioutil.PathAnnotation, rs.Internal}, {kioutil.LegacyPathAnnotation, rs.Legacy}, {kioutil.IndexAnnotation, rs.Index}} {
		if kv.v != nil {
			if err := n.PipeE(kyaml.SetAnnotation(kv.k, *kv.v)); err != nil {
				return nil, err
			}
		}
	}
	return n, nil
}

func coqOptStr13(p *string) string {
	if p == nil {
		return "None"
	}
	return "(Some " + coqStr(*p) + ")"
}

func (rs resSpec) coq() string {
	return fmt.Sprintf("(mkRes %s %s %s %s %s %s)", coqOptStr13(rs.Internal), coqOptStr13(rs.Legacy), coqOptStr13(rs.Index),
		coqStr(rs.Ns), coqStr(rs.Kind), coqStr(rs.Name))
}

func sp13(s string) *string { return &s }

var c13PathOpts = []*string{nil, sp13(""), sp13("d/a.yaml"), sp13("../x.yaml"), sp13("d/../../x.yaml"), sp13("/abs.yaml")}
var c13Namespaces = []string{"", "ns", "a/b", "../../outside", "..", "a/../..", "/abs", "./x", "..a", "pkg-evil/../../pkg-evil", "/"}
var c13Names = []string{"cm", "../x", "a/b", "/etc/x", "..", "x/../../../y"}
var c13KindsAdv = []string{"ConfigMap", "../K", "A/B", "/K"}

// writeOne runs LocalPackageWriter on one resource in a fresh package and returns what the recording FS saw.
func writeOne(r *Run, n *kyaml.RNode, desc interface{}) (obs, mk, wr string) {
	fs, err := newPkgFS()
	if err != nil {
		return ClsErr, "", ""
	}
	cls, _ := protect(func() error {
		return kio.LocalPackageWriter{PackagePath: "/pkg", FileSystem: filesys.FileSystemOrOnDisk{FileSystem: fs}}.Write([]*kyaml.RNode{n})
	})
	writes, mkdirs := checkMuts(r, fs, "write_confined", "C13/write-escape", desc)
	obs = ClsErr
	if len(fs.muts) > 0 {
		obs = ClsOk
		if len(mkdirs) > 0 {
			mk = mkdirs[0]
		}
		if len(writes) > 0 {
			wr = writes[0]
		}
	}
	if cls == ClsPanic {
		obs = ClsPanic
		r.Violation(OracleViolation{Law: "no_panic", Class: "C13/pkg-write-panic", Detail: "LocalPackageWriter panicked", Replay: desc})
	}
	if b, err := fs.ReadFile("/outside/secret.yaml"); err != nil || string(b) != "secret: 1\n" {
		r.Violation(OracleViolation{Law: "write_confined", Class: "C13/write-escape", Detail: "a file outside the package changed", Replay: desc})
	}
	for _, p := range []string{"/outside", "/pkg-evil"} {
		if l, err := fs.ReadDir(p); err == nil && ((p == "/outside" && len(l) != 1) || (p == "/pkg-evil" && len(l) != 0)) {
			r.Violation(OracleViolation{Law: "write_confined", Class: "C13/write-escape", Detail: fmt.Sprintf("entries appeared in %s: %v", p, l), Replay: desc})
		}
	}
	return obs, mk, wr
}

// legalForMemFS: every directory component the writer will create is a legal in-memory file name
// (otherwise MkdirAll fails half way and the WriteFile argument is not observable).
var legalName = regexp.MustCompile(`^[a-zA-Z0-9-_.:]+$`)

func defaultedPathCases(r *Run) {
	idx := []*string{nil, sp13("0"), sp13("")}
	for _, in := range c13PathOpts {
		for _, lg := range c13PathOpts {
			for _, ns := range c13Namespaces {
				for _, name := range c13Names {
					for ki, kind := range c13KindsAdv {
						explicit := (in != nil && *in != "") || (lg != nil && *lg != "")
						if explicit && (ns != c13Namespaces[0] && ns != "../../outside" || name != "cm" || ki != 0) {
							continue // the metadata only matters when the path is defaulted
						}
						if !explicit && in != nil && (name != "cm" || ki != 0) {
							continue // present-but-empty internal path: no default either
						}
						for _, ix := range idx {
							if ix != nil && *ix == "" && (ns != "" || name != "cm") {
								continue
							}
							rs := resSpec{Internal: in, Legacy: lg, Index: ix, Ns: ns, Kind: kind, Name: name}
							n, err := rs.build()
							if err != nil {
								r.Meta.Skipped++
								continue
							}
							desc := map[string]interface{}{"kind": "pkg-res", "res": rs}
							obs, mk, wr := writeOne(r, n, desc)
							r.Count("pkg_res", obs)
							r.AddCase(fmt.Sprintf("(P_res \"/pkg\" %s %s %s %s)", rs.coq(), obs, coqStr(mk), coqStr(wr)), desc, obs == ClsOk)
						}
					}
				}
			}
		}
	}
}

func pkgWriterCases(r *Run, rng *Rng, nBatches int) {
	defaultedPathCases(r)
	// one resource per write: compared with the model
	for _, ann := range c13PathForms {
		fs, err := newPkgFS()
		if err != nil {
			return
		}
		cls, _ := protect(func() error {
			return kio.LocalPackageWriter{PackagePath: "/pkg", FileSystem: filesys.FileSystemOrOnDisk{FileSystem: fs}}.Write(
				[]*kyaml.RNode{resourceWith(ann, "0", 0)})
		})
		desc := map[string]string{"kind": "pkg-write1", "ann": ann}
		writes, mkdirs := checkMuts(r, fs, "write_confined", "C13/write-escape", desc)
		// observable: was anything touched, and what
		obs, mk, wr := ClsErr, "", ""
		if len(fs.muts) > 0 {
			obs = ClsOk
			if len(mkdirs) > 0 {
				mk = mkdirs[0]
			}
			if len(writes) > 0 {
				wr = writes[0]
			}
		}
		if cls == ClsPanic {
			obs = ClsPanic
			r.Violation(OracleViolation{Law: "no_panic", Class: "C13/pkg-write-panic", Detail: "LocalPackageWriter panicked for path annotation " + ann, Replay: desc})
		}
		if len(writes) > 1 {
			r.Violation(OracleViolation{Law: "write_confined", Class: "C13/write-multiple", Detail: fmt.Sprintf("one resource, writes %v", writes), Replay: desc})
		}
		r.AddCase(fmt.Sprintf("(P_write \"/pkg\" %s %s %s %s)", coqStr(ann), obs, coqStr(mk), coqStr(wr)), desc, obs == ClsOk)
		r.Count("pkg_write1", obs)
		// the secret outside is untouched
		if b, err := fs.ReadFile("/outside/secret.yaml"); err != nil || string(b) != "secret: 1\n" {
			r.Violation(OracleViolation{Law: "write_confined", Class: "C13/write-escape", Detail: "a file outside the package changed for path annotation " + ann, Replay: desc})
		}
	}
	// batches: several resources, adversarial path and index annotations (oracle only)
	idx := []string{"0", "1", "2", "", "x", "-1", "007", "99999999999999999999"}
	for b := 0; b < nBatches; b++ {
		g := rng.Fork()
		fs, err := newPkgFS()
		if err != nil {
			return
		}
		n := 1 + g.Intn(4)
		var nodes []*kyaml.RNode
		var spec [][2]string
		for i := 0; i < n; i++ {
			p := g.Pick(c13PathForms)
			if g.Chance(50) {
				p = g.Pick(c13PathForms[:8])
			}
			ix := g.Pick(idx)
			if g.Chance(35) {
				// no usable path annotation: the writer derives the path itself
				rs := resSpec{Ns: g.Pick(c13Namespaces), Kind: g.Pick(c13KindsAdv), Name: fmt.Sprintf("%s%d", g.Pick(c13Names), i)}
				switch g.Intn(4) {
				case 0:
					rs.Internal = sp13("")
					rs.Legacy = sp13(g.Pick(c13PathForms))
				case 1:
					rs.Legacy = sp13(g.Pick(c13PathForms))
				case 2:
					rs.Index = sp13(ix)
				}
				if n, err := rs.build(); err == nil {
					spec = append(spec, [2]string{"<defaulted> ns=" + rs.Ns + " kind=" + rs.Kind + " name=" + rs.Name, ix})
					nodes = append(nodes, n)
					continue
				}
			}
			spec = append(spec, [2]string{p, ix})
			nodes = append(nodes, resourceWith(p, ix, i))
		}
		desc := map[string]interface{}{"kind": "pkg-batch", "nodes": spec}
		cls, _ := protect(func() error {
			return kio.LocalPackageWriter{PackagePath: "/pkg", FileSystem: filesys.FileSystemOrOnDisk{FileSystem: fs}}.Write(nodes)
		})
		checkMuts(r, fs, "write_confined", "C13/write-escape", desc)
		if cls == ClsPanic {
			r.Violation(OracleViolation{Law: "no_panic", Class: "C13/pkg-write-panic", Detail: "LocalPackageWriter panicked", Replay: desc})
		}
		r.AddEval(fmt.Sprint(desc), cls == ClsOk)
		r.Count("pkg_batch", cls)
		if b, err := fs.ReadFile("/outside/secret.yaml"); err != nil || string(b) != "secret: 1\n" {
			r.Violation(OracleViolation{Law: "write_confined", Class: "C13/write-escape", Detail: "a file outside the package changed", Replay: desc})
		}
	}
	// read-writer: read a package, tamper with the resources, write back
	for b := 0; b < nBatches; b++ {
		g := rng.Fork()
		fs, err := newPkgFS()
		if err != nil {
			return
		}
		files := []string{"a.yaml", "d/b.yaml", "d/c.yaml", "d/e/f.yaml"}
		for i, f := range files {
			_ = fs.WriteFile("/pkg/"+f, []byte(fmt.Sprintf("apiVersion: v1\nkind: ConfigMap\nmetadata:\n  name: f%d\n---\napiVersion: v1\nkind: Secret\nmetadata:\n  name: s%d\n", i, i)))
		}
		fs.muts = nil
		rw := &kio.LocalPackageReadWriter{PackagePath: "/pkg", FileSystem: filesys.FileSystemOrOnDisk{FileSystem: fs}}
		nodes, err := rw.Read()
		if err != nil {
			r.Violation(OracleViolation{Law: "delete_confined", Class: "C13/pkg-read-failed", Detail: err.Error(), Replay: "pkg-readwrite"})
			return
		}
		var kept []*kyaml.RNode
		var spec []string
		for _, n := range nodes {
			switch g.Intn(6) {
			case 0: // dropped
				spec = append(spec, "drop")
			case 1: // path annotation rewritten adversarially
				p := g.Pick(c13PathForms)
				_ = n.PipeE(kyaml.SetAnnotation(kioutil.PathAnnotation, p))
				if g.Chance(50) {
					_ = n.PipeE(kyaml.SetAnnotation(kioutil.LegacyPathAnnotation, p))
				}
				kept = append(kept, n)
				spec = append(spec, "path="+p)
			case 3: // path annotations removed, namespace rewritten: the writer has to derive the path
				_ = n.PipeE(kyaml.ClearAnnotation(kioutil.PathAnnotation))
				_ = n.PipeE(kyaml.ClearAnnotation(kioutil.LegacyPathAnnotation))
				ns := g.Pick(c13Namespaces)
				if ns != "" {
					_ = n.PipeE(kyaml.SetK8sNamespace(ns))
				}
				kept = append(kept, n)
				spec = append(spec, "nopath ns="+ns)
			case 2: // moved to another file of the package
				p := g.Pick(files)
				_ = n.PipeE(kyaml.SetAnnotation(kioutil.PathAnnotation, p))
				_ = n.PipeE(kyaml.SetAnnotation(kioutil.LegacyPathAnnotation, p))
				kept = append(kept, n)
				spec = append(spec, "move="+p)
			default:
				kept = append(kept, n)
				spec = append(spec, "keep")
			}
		}
		desc := map[string]interface{}{"kind": "pkg-readwrite", "ops": spec}
		cls, _ := protect(func() error { return rw.Write(kept) })
		checkMuts(r, fs, "delete_confined", "C13/readwrite-escape", desc)
		for _, m := range fs.muts {
			op, p, _ := strings.Cut(m, " ")
			if op == "RemoveAll" {
				ok := false
				for _, f := range files {
					if filepath.Clean(p) == "/pkg/"+f {
						ok = true
					}
				}
				if !ok {
					r.Violation(OracleViolation{Law: "delete_confined", Class: "C13/delete-not-read", Detail: "RemoveAll of something that was not read from the package: " + p, Replay: desc})
				}
			}
		}
		if cls == ClsPanic {
			r.Violation(OracleViolation{Law: "no_panic", Class: "C13/pkg-readwrite-panic", Detail: "LocalPackageReadWriter panicked", Replay: desc})
		}
		r.AddEval(fmt.Sprint(desc), cls == ClsOk)
		r.Count("pkg_readwrite", cls)
		if b, err := fs.ReadFile("/outside/secret.yaml"); err != nil || string(b) != "secret: 1\n" {
			r.Violation(OracleViolation{Law: "delete_confined", Class: "C13/readwrite-escape", Detail: "a file outside the package changed", Replay: desc})
		}
	}
}

// ---------- sequences of Writes on one LocalPackageReadWriter ----------

var c13SeqFiles = []string{"a.yaml", "d/b.yaml", "d/c.yaml", "d/e/f.yaml"}
var c13SeqNew = []string{"n1.yaml", "d/n2.yaml", "./a.yaml", "d/./b.yaml"}
var c13SeqBad = []string{"../outside.yaml", "/abs.yaml", "", "d/../../outside.yaml", "../pkg-evil/x.yaml", "/outside/secret.yaml", "..", "a/../../b"}

func readWriterSequences(r *Run, rng *Rng, n int) {
	for it := 0; it < n; it++ {
		g := rng.Fork()
		fs, err := newPkgFS()
		if err != nil {
			return
		}
		for i, f := range c13SeqFiles {
			_ = fs.WriteFile("/pkg/"+f, []byte(fmt.Sprintf("apiVersion: v1\nkind: ConfigMap\nmetadata:\n  name: f%d\n---\napiVersion: v1\nkind: Secret\nmetadata:\n  name: s%d\n", i, i)))
		}
		rw := &kio.LocalPackageReadWriter{PackagePath: "/pkg", FileSystem: filesys.FileSystemOrOnDisk{FileSystem: fs}}
		nodes, err := rw.Read()
		if err != nil || len(nodes) != 2*len(c13SeqFiles) {
			r.Violation(OracleViolation{Law: "delete_confined", Class: "C13/pkg-read-failed", Detail: fmt.Sprint(err), Replay: "pkg-sequence"})
			return
		}
		// step kinds: rejected, valid, valid subset (the order of the task: refused Write, valid retry, subset)
		nSteps := 2 + g.Intn(3)
		var steps [][]string
		var obsTerms []string
		var trace []string
		for st := 0; st < nSteps; st++ {
			wantBad := (st == 0 && g.Chance(70)) || (st > 0 && g.Chance(25))
			var anns []string
			var out []*kyaml.RNode
			for _, n0 := range nodes {
				if st > 0 && g.Chance(30) {
					continue // dropped in this step
				}
				n := n0.Copy()
				p := n.GetAnnotations()[kioutil.PathAnnotation]
				switch g.Intn(6) {
				case 0:
					p = g.Pick(c13SeqFiles)
				case 1:
					p = g.Pick(c13SeqNew)
				}
				_ = n.PipeE(kyaml.SetAnnotation(kioutil.PathAnnotation, p))
				_ = n.PipeE(kyaml.SetAnnotation(kioutil.LegacyPathAnnotation, p))
				anns = append(anns, p)
				out = append(out, n)
			}
			if wantBad && len(out) > 0 {
				k := g.Intn(len(out))
				p := g.Pick(c13SeqBad)
				_ = out[k].PipeE(kyaml.SetAnnotation(kioutil.PathAnnotation, p))
				_ = out[k].PipeE(kyaml.SetAnnotation(kioutil.LegacyPathAnnotation, p))
				anns[k] = p
			}
			fs.muts = nil
			desc := map[string]interface{}{"kind": "pkg-sequence", "seed_iteration": it, "steps_so_far": append(append([][]string{}, steps...), anns)}
			cls, msg := protect(func() error { return rw.Write(out) })
			checkMuts(r, fs, "delete_confined", "C13/sequence-escape", desc)
			var dels []string
			seen := map[string]bool{}
			for _, m := range fs.muts {
				op, p, _ := strings.Cut(m, " ")
				if op != "RemoveAll" {
					continue
				}
				ok := false
				for _, f := range c13SeqFiles {
					if filepath.Clean(p) == "/pkg/"+f {
						ok = true
					}
				}
				if !ok {
					r.Violation(OracleViolation{Law: "delete_confined", Class: "C13/delete-not-read", Detail: fmt.Sprintf("step %d: RemoveAll of something that was not read from the package: %s", st, p), Replay: desc})
				}
				if !seen[p] {
					seen[p] = true
					dels = append(dels, p)
				}
			}
			if cls == ClsPanic {
				r.Violation(OracleViolation{Law: "no_panic", Class: "C13/pkg-readwrite-panic", Detail: msg, Replay: desc})
			}
			if cls != ClsOk && len(dels) > 0 {
				r.Violation(OracleViolation{Law: "delete_confined", Class: "C13/delete-after-refused-write", Detail: fmt.Sprintf("step %d was refused (%s) but deleted %v", st, msg, dels), Replay: desc})
			}
			if b, err := fs.ReadFile("/outside/secret.yaml"); err != nil || string(b) != "secret: 1\n" {
				r.Violation(OracleViolation{Law: "delete_confined", Class: "C13/sequence-escape", Detail: fmt.Sprintf("step %d: a file outside the package changed", st), Replay: desc})
			}
			sort.Strings(dels)
			obs := ClsOk
			if cls != ClsOk {
				obs = ClsErr
			}
			steps = append(steps, anns)
			obsTerms = append(obsTerms, fmt.Sprintf("(%s, %s)", obs, coqStrList(dels)))
			trace = append(trace, fmt.Sprintf("%s:%d", obs, len(dels)))
			r.Count("pkg_sequence_step", obs)
		}
		var stepTerms []string
		for _, a := range steps {
			stepTerms = append(stepTerms, coqStrList(a))
		}
		r.AddCase(fmt.Sprintf("(P_seq \"/pkg\" %s [%s] [%s])", coqStrList(c13SeqFiles), strings.Join(stepTerms, "; "), strings.Join(obsTerms, "; ")),
			map[string]interface{}{"kind": "pkg-sequence", "steps": steps, "trace": trace}, true)
	}
}

// ---------- LocalPackageReadWriter: every option combination, hostile annotations carried in file contents ----------

var c13Hostile = []string{"../outside/secret.yaml", "/outside/secret.yaml", "../pkg-evil/x.yaml", "d/../../outside/secret.yaml",
	"..", "../../outside", "/", "a.yaml/../../outside/secret.yaml"}

func readWriterOptionMatrix(r *Run, rng *Rng, n int) {
	for it := 0; it < n; it++ {
		g := rng.Fork()
		fs, err := newPkgFS()
		if err != nil {
			return
		}
		_ = fs.WriteFile("/pkg-evil/x.yaml", []byte("victim: 2\n"))
		plain := func(i int) string {
			return fmt.Sprintf("apiVersion: v1\nkind: ConfigMap\nmetadata:\n  name: f%d\n", i)
		}
		carried := map[string][]string{} // file -> per resource the path annotation its content carries
		cur := ""
		note := func(v string) { carried[cur] = append(carried[cur], v) }
		plainIn := func(f string, i int) string { cur = f; note(""); return plain(i) }
		hostile := func(i int) string {
			key := g.Pick([]string{kioutil.PathAnnotation, kioutil.LegacyPathAnnotation})
			extra := ""
			if g.Chance(40) {
				extra = fmt.Sprintf("    %s: %s\n", g.Pick([]string{kioutil.IndexAnnotation, kioutil.LegacyIndexAnnotation}), yq13(g.Pick([]string{"0", "7", "x", ""})))
			}
			if g.Chance(30) {
				// the other path key as well (never the same key twice: mapping keys are unique)
				other := kioutil.PathAnnotation
				if key == kioutil.PathAnnotation {
					other = kioutil.LegacyPathAnnotation
				}
				extra += fmt.Sprintf("    %s: %s\n", other, yq13(g.Pick(c13Hostile)))
			}
			hv := g.Pick(c13Hostile)
			note(hv)
			return fmt.Sprintf("apiVersion: v1\nkind: ConfigMap\nmetadata:\n  name: h%d\n  annotations:\n    %s: %s\n%s", i, key, yq13(hv), extra)
		}
		hostileIn := func(f string, i int) string { cur = f; return hostile(i) }
		files := map[string]string{}
		files["a.yaml"] = plainIn("a.yaml", 0) + "---\n" + hostileIn("a.yaml", 1)
		files["d/b.yaml"] = hostileIn("d/b.yaml", 2)
		files["d/c.yaml"] = plainIn("d/c.yaml", 3) + "---\n" + plainIn("d/c.yaml", 4)
		files["sub/Kptfile"] = "apiVersion: kpt.dev/v1\nkind: Kptfile\nmetadata:\n  name: sub\n"
		carried["sub/Kptfile"] = []string{""}
		files["sub/e.yaml"] = hostileIn("sub/e.yaml", 5) + "---\n" + plainIn("sub/e.yaml", 6)
		cur = "list-item"
		files["list.yaml"] = "apiVersion: v1\nkind: List\nitems:\n- " + strings.ReplaceAll(strings.TrimSuffix(hostile(7), "\n"), "\n", "\n  ") + "\n"
		carried["list.yaml"] = []string{""} // the List itself carries none (its item does; the package reader does not unwrap)
		for f, c := range files {
			_ = fs.WriteFile("/pkg/"+f, []byte(c))
		}
		rw := &kio.LocalPackageReadWriter{PackagePath: "/pkg", FileSystem: filesys.FileSystemOrOnDisk{FileSystem: fs},
			OmitReaderAnnotations: g.Chance(50), KeepReaderAnnotations: g.Chance(40), NoDeleteFiles: g.Chance(25),
			IncludeSubpackages: g.Chance(50), PreserveSeqIndent: g.Chance(20)}
		if g.Chance(60) {
			rw.PackageFileName = "Kptfile"
		}
		if g.Chance(20) {
			rw.SetAnnotations = map[string]string{"verif/tag": "t"}
		}
		if g.Chance(15) {
			rw.MatchFilesGlob = []string{"*.yaml", "Kptfile"}
		}
		opts := fmt.Sprintf("omit=%v keep=%v nodelete=%v subpkgs=%v pkgfile=%q seqindent=%v", rw.OmitReaderAnnotations, rw.KeepReaderAnnotations,
			rw.NoDeleteFiles, rw.IncludeSubpackages, rw.PackageFileName, rw.PreserveSeqIndent)
		desc := map[string]interface{}{"kind": "pkg-options", "options": opts, "files": files}
		fs.muts, fs.opens = nil, nil
		var nodes []*kyaml.RNode
		cls, msg := protect(func() error {
			var err error
			nodes, err = rw.Read()
			return err
		})
		checkMuts(r, fs, "delete_confined", "C13/options-escape", desc)
		if cls == ClsPanic {
			r.Violation(OracleViolation{Law: "no_panic", Class: "C13/pkg-readwrite-panic", Detail: msg, Replay: desc})
		}
		r.Count("pkg_options_read", cls)
		if cls != ClsOk {
			continue
		}
		readFiles := map[string]bool{}
		var fileTerms []string
		for _, p := range fs.opens {
			if !readFiles[filepath.Clean(p)] {
				rel := strings.TrimPrefix(filepath.Clean(p), "/pkg/")
				fileTerms = append(fileTerms, fmt.Sprintf("(%s, %s)", coqStr(rel), coqStrList(carried[rel])))
			}
			readFiles[filepath.Clean(p)] = true
		}
		var stepTerms, obsTerms []string
		for st := 0; st < 2; st++ {
			var anns []string
			var out []*kyaml.RNode
			for _, n0 := range nodes {
				if g.Chance(45) {
					continue // a filter dropped it
				}
				n := n0.Copy()
				if g.Chance(15) {
					p := g.Pick(append(append([]string{}, c13SeqFiles...), c13SeqNew...))
					_ = n.PipeE(kyaml.SetAnnotation(kioutil.PathAnnotation, p))
					_ = n.PipeE(kyaml.SetAnnotation(kioutil.LegacyPathAnnotation, p))
				}
				anns = append(anns, n.GetAnnotations()[kioutil.PathAnnotation])
				out = append(out, n)
			}
			fs.muts = nil
			cls, msg := protect(func() error { return rw.Write(out) })
			{
				var dels []string
				seen := map[string]bool{}
				for _, m := range fs.muts {
					if op, p, _ := strings.Cut(m, " "); op == "RemoveAll" && !seen[p] {
						seen[p] = true
						dels = append(dels, p)
					}
				}
				sort.Strings(dels)
				oc := ClsOk
				if cls != ClsOk {
					oc = ClsErr
				}
				stepTerms = append(stepTerms, coqStrList(anns))
				obsTerms = append(obsTerms, fmt.Sprintf("(%s, %s)", oc, coqStrList(dels)))
			}
			sdesc := map[string]interface{}{"kind": "pkg-options", "options": opts, "files": files, "step": st, "kept": len(out)}
			checkMuts(r, fs, "delete_confined", "C13/options-escape", sdesc)
			for _, m := range fs.muts {
				op, p, _ := strings.Cut(m, " ")
				if op == "RemoveAll" && !readFiles[filepath.Clean(p)] {
					r.Violation(OracleViolation{Law: "delete_confined", Class: "C13/delete-not-read", Detail: fmt.Sprintf("[%s] RemoveAll of something that was not read from the package: %s", opts, p), Replay: sdesc})
				}
				if op == "RemoveAll" && rw.NoDeleteFiles {
					r.Violation(OracleViolation{Law: "delete_confined", Class: "C13/delete-despite-nodelete", Detail: "RemoveAll with NoDeleteFiles: " + p, Replay: sdesc})
				}
			}
			if cls == ClsPanic {
				r.Violation(OracleViolation{Law: "no_panic", Class: "C13/pkg-readwrite-panic", Detail: msg, Replay: sdesc})
			}
			for victim, want := range map[string]string{"/outside/secret.yaml": "secret: 1\n", "/pkg-evil/x.yaml": "victim: 2\n"} {
				if b, err := fs.ReadFile(victim); err != nil || string(b) != want {
					r.Violation(OracleViolation{Law: "delete_confined", Class: "C13/options-escape", Detail: fmt.Sprintf("[%s] %s was deleted or changed", opts, victim), Replay: sdesc})
				}
			}
			for _, p := range []string{"/outside", "/pkg-evil"} {
				if l, err := fs.ReadDir(p); err == nil && len(l) != 1 {
					r.Violation(OracleViolation{Law: "delete_confined", Class: "C13/options-escape", Detail: fmt.Sprintf("[%s] entries of %s changed: %v", opts, p, l), Replay: sdesc})
				}
			}
			r.AddEval(fmt.Sprint(sdesc, it), cls == ClsOk)
			r.Count("pkg_options_write", fmt.Sprintf("%s omit=%v nodelete=%v", cls, rw.OmitReaderAnnotations, rw.NoDeleteFiles))
		}
		r.AddCase(fmt.Sprintf("(P_rwo (mkRwOpts %s %s %s) \"/pkg\" [%s] [%s] [%s])", coqBool(rw.OmitReaderAnnotations), coqBool(rw.KeepReaderAnnotations),
			coqBool(rw.NoDeleteFiles), strings.Join(fileTerms, "; "), strings.Join(stepTerms, "; "), strings.Join(obsTerms, "; ")),
			map[string]interface{}{"kind": "pkg-options-model", "options": opts}, true)
	}
}

// ---------- the run ----------

func runC13(r *Run, rng *Rng, tier string) error {
	if doc := os.Getenv("C13_DEANCHOR_PROBE"); doc != "" {
		n, err := kyaml.Parse(doc)
		if err != nil {
			fmt.Println("PROBE parse error", err)
			os.Exit(0)
		}
		err = n.DeAnchor()
		fmt.Printf("PROBE err=%v\n", err)
		os.Exit(0)
	}
	// NewRng(seed) states of consecutive seeds are one step apart: fork once so that seeds give unrelated runs
	rng = rng.Fork()
	r.Meta.Rule = "split: every string over {\\n,-,x,#,space} up to length 5 and over {\\n,-,x} up to length 7 (8 thorough), plus generated streams of 1-4 mapping documents " +
		"(comments, literal/folded blocks containing ---, flow style, anchors/aliases/merge keys, empty documents, comment-bearing separators, runs of ---, CRLF, missing final newline) and adversarial separators; " +
		"annotations: 14 document shapes x reader / writer; package writer: 44 path annotation forms (absolute, dot-dot, a/../../b, empty, trailing slash, ...) one resource each (model) and random batches with index forms (oracle); " +
		"read-writer: tampered packages. non-trivial = more than one document / something written"
	nStreams, nBatches, deep := 500, 300, 7
	if tier == "thorough" {
		nStreams, nBatches, deep = 10000, 5000, 8
	}
	// 1. split: exhaustive small strings
	for _, s := range allStrings([]string{"\n", "-", "x", "#", " "}, 5) {
		splitCase(r, s, true)
	}
	for _, s := range allStrings([]string{"\n", "-", "x"}, deep) {
		if len(s) > 5 {
			splitCase(r, s, true)
		}
	}
	// CR-LF normalisation
	for _, s := range allStrings([]string{"\r", "\n", "a"}, 5) {
		r.AddCase(fmt.Sprintf("(S_crlf %s %s)", coqStr(s), coqStr(strings.ReplaceAll(s, "\r\n", "\n"))), map[string]string{"kind": "crlf", "s": s}, strings.Contains(s, "\r\n"))
	}
	// adversarial separators
	for _, sep := range []string{"---", "--- ", "---#", "--- #c", "---x", "--- x", "----", "---\t#c", "--- # a --- b", "---\r", "-- -", "---- #",
		// Unicode white space (strings.TrimSpace) and look-alikes that are not white space
		"---\u00a0# c", "---\u00a0", "---\u2003#x", "---\u3000x", "---\u0085#", "---\xa0#", "---\u1680", "---\u2028#", "---\u205f",
		"---\u202f x", "--- \u200b#", "---\ufeff#", "---\u2000\u200a\u2029 #c", "---\xe2\x80#", "---\xc2"} {
		for _, pre := range []string{"", "a: 1", "a: 1\n", "\n"} {
			for _, post := range []string{"", "b: 2", "b: 2\n", "\n---\nc: 3\n", "---\n"} {
				splitCase(r, pre+"\n"+sep+"\n"+post, true)
			}
		}
	}
	// 2. generated streams: split (model) + round trip (oracle)
	for i := 0; i < nStreams; i++ {
		s, n := genStream13(rng.Fork())
		r.Count("stream_docs", fmt.Sprint(n))
		splitCase(r, strings.ReplaceAll(s, "\r\n", "\n"), i < 400)
		roundTripOracle(r, s)
	}
	keepTailCases(r)
	anchorOracle(r, rng.Fork(), nBatches/3)
	deanchorCases(r, rng.Fork(), nBatches)
	emptyDocCases(r)
	nText := 120
	if tier == "thorough" {
		nText = 1500
	}
	textStreamCases(r, rng.Fork(), nText)
	// 3. annotations
	annotationCases(r, rng.Fork())
	// 4. package IO
	pkgWriterCases(r, rng.Fork(), nBatches)
	readWriterSequences(r, rng.Fork(), nBatches)
	readWriterOptionMatrix(r, rng.Fork(), nBatches)
	return nil
}

func replayC13(path string) (bool, string, error) {
	data, err := os.ReadFile(path)
	if err != nil {
		return false, "", err
	}
	var rp struct {
		Case map[string]interface{} `json:"case"`
	}
	if err := json.Unmarshal(data, &rp); err != nil {
		return false, "", err
	}
	tmp, err := os.MkdirTemp("", "verif-c13-replay-")
	if err != nil {
		return false, "", err
	}
	defer os.RemoveAll(tmp)
	r := NewRun("C13", "replay", 1, tmp, "")
	kind, _ := rp.Case["kind"].(string)
	detail := ""
	switch kind {
	case "split":
		s, _ := rp.Case["s"].(string)
		splitCase(r, s, false)
		docs, err := kio.VerifC13SplitDocuments(s)
		detail = fmt.Sprintf("splitDocuments(%q) = %q, %v", s, docs, err)
	case "roundtrip":
		s, _ := rp.Case["s"].(string)
		roundTripOracle(r, s)
		out, err := roundTrip(s)
		detail = fmt.Sprintf("input:\n%s\nround trip (%v):\n%s", s, err, out)
	case "pkg-write1":
		ann, _ := rp.Case["ann"].(string)
		fs, err := newPkgFS()
		if err != nil {
			return false, "", err
		}
		cls, msg := protect(func() error {
			return kio.LocalPackageWriter{PackagePath: "/pkg", FileSystem: filesys.FileSystemOrOnDisk{FileSystem: fs}}.Write(
				[]*kyaml.RNode{resourceWith(ann, "0", 0)})
		})
		checkMuts(r, fs, "write_confined", "C13/write-escape", rp.Case)
		detail = fmt.Sprintf("path annotation %q: %s %s; file system calls %v", ann, cls, msg, fs.muts)
	case "deanchor", "deanchor-probe", "anchors":
		s, _ := rp.Case["s"].(string)
		fin, out := deanchorProbe(s)
		detail = fmt.Sprintf("DeAnchor on %q in a child process: finished=%v %s", s, fin, trunc13(out, 400))
		if kind == "deanchor" && fin {
			deanchorOne(r, s, false) // cyclic documents go to a child process in there
		}
		if !fin {
			r.Violation(OracleViolation{Law: "terminates", Class: "C13/deanchor-diverges", Detail: "DeAnchor did not return"})
		}
	default:
		return false, "replay of case kind " + kind + " is not supported (batches are regenerated from the seed by ./check)", nil
	}
	for _, v := range r.Meta.Violations {
		detail += "\nVIOLATED " + v.Law + " [" + v.Class + "]: " + v.Detail
	}
	return len(r.Meta.Violations) > 0, detail, nil
}
