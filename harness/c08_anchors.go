package main

// C08, YAML anchors: resource files in which one label map is anchored and aliased at other label locations
// (`metadata.labels: &a0 {...}`, `matchLabels: *a0`, template `labels: *a0`). The loader expands aliases
// (RNode.DeAnchor); every expansion has to be a node of its own, otherwise a label written at one location appears
// at the others. The tree is built from the anchored text (c08Res.File) while the model and the oracles see the
// expanded document (c08Res.Yaml): correspondence and the union / no_selector_change / own_selector laws judge it.

import (
	"fmt"
	"strings"

	kyaml "sigs.k8s.io/kustomize/kyaml/yaml"
)

func scalarMap08(n *kyaml.Node) bool {
	if n == nil || n.Kind != kyaml.MappingNode || len(n.Content) == 0 {
		return false
	}
	for i := 0; i+1 < len(n.Content); i += 2 {
		if n.Content[i+1].Kind != kyaml.ScalarNode || n.Content[i+1].Tag == kyaml.NodeTagNull {
			return false
		}
	}
	return true
}

func copyContent08(src *kyaml.Node) []*kyaml.Node {
	out := []*kyaml.Node{}
	for _, c := range src.Content {
		out = append(out, kyaml.CopyYNode(c))
	}
	return out
}

// anchorizeRes08 returns the expanded document and the anchored text of the same document, ok=false if the
// resource offers no two equal label maps.
func anchorizeRes08(rng *Rng, res c08Res) (expanded, anchored string, ok bool) {
	doc, err := kyaml.Parse(res.Yaml)
	if err != nil {
		return "", "", false
	}
	root := doc.YNode()
	// make the label locations of a workload / selecting object equal, as hand-written manifests with anchors do
	var src *kyaml.Node
	if tp, isW := tmplPaths[res.Kind]; isW {
		src = getAt(root, strings.Split(tp, "/"))
	}
	if !scalarMap08(src) {
		if sp, isS := selPaths[res.Kind]; isS {
			src = getAt(root, strings.Split(sp, "/"))
		}
	}
	if scalarMap08(src) {
		if sp, isS := selPaths[res.Kind]; isS && rng.Chance(80) {
			if sel := getAt(root, strings.Split(sp, "/")); sel != nil && sel != src && sel.Kind == kyaml.MappingNode {
				sel.Content = copyContent08(src)
			}
		}
		if ml := getAt(root, []string{"metadata", "labels"}); ml != nil && ml != src && ml.Kind == kyaml.MappingNode && rng.Chance(70) {
			ml.Content = copyContent08(src)
		}
	}
	expanded, err = doc.String()
	if err != nil {
		return "", "", false
	}
	// groups of equal scalar maps, in document order
	type site struct {
		parent *kyaml.Node
		idx    int
		n      *kyaml.Node
	}
	groups := map[string][]site{}
	order := []string{}
	var walk func(n *kyaml.Node)
	walk = func(n *kyaml.Node) {
		for i, c := range n.Content {
			if n.Kind == kyaml.MappingNode && i%2 == 0 {
				continue
			}
			if scalarMap08(c) {
				k, _ := kyaml.NewRNode(c).String()
				if _, seen := groups[k]; !seen {
					order = append(order, k)
				}
				groups[k] = append(groups[k], site{n, i, c})
			}
			walk(c)
		}
	}
	walk(root)
	gi := 0
	for _, k := range order {
		g := groups[k]
		if len(g) < 2 {
			continue
		}
		name := fmt.Sprintf("a%d", gi)
		gi++
		g[0].n.Anchor = name
		for _, s := range g[1:] {
			if rng.Chance(85) {
				s.parent.Content[s.idx] = &kyaml.Node{Kind: kyaml.AliasNode, Alias: g[0].n, Value: name}
			}
		}
	}
	if gi == 0 {
		return "", "", false
	}
	anchored, err = doc.String()
	if err != nil || !strings.Contains(anchored, "*a0") {
		return "", "", false
	}
	// the anchored text must denote the expanded document
	back, err := kyaml.Parse(anchored)
	if err != nil {
		return "", "", false
	}
	if err := back.DeAnchor(); err != nil {
		return "", "", false
	}
	if bs, _ := back.String(); bs != expanded {
		return "", "", false
	}
	return expanded, anchored, true
}

func anchorize08(rng *Rng, t *c08Tree) int {
	n := 0
	for _, b := range t.Bases {
		n += anchorize08(rng, b)
	}
	for i := range t.Own {
		if e, a, ok := anchorizeRes08(rng, t.Own[i]); ok {
			t.Own[i].Yaml, t.Own[i].File = e, a
			n++
		}
	}
	return n
}

// anchorDirs08 gives most layers that own an anchored resource a labels entry that must reach only SOME of the
// aliased locations (metadata only, or metadata and templates): the shape under which shared expansions show.
func anchorDirs08(rng *Rng, t *c08Tree) {
	for _, b := range t.Bases {
		anchorDirs08(rng, b)
	}
	has := false
	for _, o := range t.Own {
		has = has || o.File != ""
	}
	if has && rng.Chance(65) {
		e := c08Label{Pairs: []c08kv{{K: rng.Pick([]string{"release", "rev", "app"}), V: rng.Pick([]string{"r1", "r2"})}}, IncludeTemplates: rng.Bool()}
		t.Dirs.Labels = append(t.Dirs.Labels, e)
	}
}
